import PugModel.Tpl.Exec
/-!
Frame lemmas for the runtime helper that builds a mixin call's `attributes` object (`__op__map_params`, model `mapParams`):
whatever the argument list, the helper only APPENDS arrays and maps to the heap. Every array and map that existed before the call -
in particular a page-data array given as the first of several values of a repeated attribute name (`+m(class=xs class='x')`) - is
exactly what it was, and nothing else of the execution state changes.
-/
namespace Pug.Props.C03F
open Pug Pug.Tpl

/-- `Grows st st'`: the two states differ only by arrays and maps appended to the heap -/
def Grows (st st' : St) : Prop :=
  ∃ aa am, st' = { st with heap := { arrs := st.heap.arrs ++ aa, maps := st.heap.maps ++ am } }

theorem Grows.refl (st : St) : Grows st st := by
  refine ⟨[], [], ?_⟩
  cases st with
  | mk vars globals heap out depth dot closures => cases heap; simp

theorem Grows.trans {a b c : St} (h1 : Grows a b) (h2 : Grows b c) : Grows a c := by
  obtain ⟨aa, am, rfl⟩ := h1
  obtain ⟨ab, bm, rfl⟩ := h2
  exact ⟨aa ++ ab, am ++ bm, by simp [List.append_assoc]⟩

/-- what `Grows` means for a reader: every old array and map is where it was, with the content it had -/
theorem Grows.getArr {st st' : St} (g : Grows st st') (a : Nat) (ha : a < st.heap.arrs.length) :
    st'.heap.getArr a = st.heap.getArr a := by
  obtain ⟨aa, am, rfl⟩ := g
  simp [Heap.getArr, List.getD, List.getElem?_append_left ha]

theorem Grows.getMap {st st' : St} (g : Grows st st') (a : Nat) (ha : a < st.heap.maps.length) :
    st'.heap.getMap a = st.heap.getMap a := by
  obtain ⟨aa, am, rfl⟩ := g
  simp [Heap.getMap, List.getD, List.getElem?_append_left ha]

theorem Grows.rest {st st' : St} (g : Grows st st') :
    st'.vars = st.vars ∧ st'.globals = st.globals ∧ st'.out = st.out ∧ st'.depth = st.depth ∧ st'.dot = st.dot ∧ st'.closures = st.closures := by
  obtain ⟨aa, am, rfl⟩ := g
  simp

theorem allocArr_grows (items : List Val) (st st' : St) (v : Val) (h : allocArr items st = .ok (v, st')) :
    Grows st st' ∧ v = .arr st.heap.arrs.length := by
  simp [allocArr, Heap.allocArr, getHeap, setHeap, bind, StateT.bind, Except.bind, get, getThe, MonadStateOf.get, StateT.get, pure,
    Except.pure, StateT.pure, modify, modifyGet, MonadStateOf.modifyGet, StateT.modifyGet] at h
  obtain ⟨rfl, rfl⟩ := h
  exact ⟨⟨[items], [], by simp⟩, rfl⟩

theorem allocMap_grows (m : MapObj) (st st' : St) (v : Val) (h : allocMap m st = .ok (v, st')) :
    Grows st st' ∧ v = .map st.heap.maps.length := by
  simp [allocMap, Heap.allocMap, getHeap, setHeap, bind, StateT.bind, Except.bind, get, getThe, MonadStateOf.get, StateT.get, pure,
    Except.pure, StateT.pure, modify, modifyGet, MonadStateOf.modifyGet, StateT.modifyGet] at h
  obtain ⟨rfl, rfl⟩ := h
  exact ⟨⟨[], [m], by simp⟩, rfl⟩

theorem mapParamsItem_grows (ps : List (String × Val)) (k : String) (st : St) (r : String × Val) (st' : St)
    (h : mapParamsItem ps k st = .ok (r, st')) : Grows st st' := by
  unfold mapParamsItem at h
  generalize (List.map (fun x => x.2) (List.filter (fun x => x.1 == k) ps)) = vs at h
  have alloc : ∀ (l : List Val), (do let arr ← allocArr l; pure (k, arr) : M (String × Val)) st = .ok (r, st') → Grows st st' := by
    intro l hl
    simp only [bind, StateT.bind, Except.bind] at hl
    cases hx : allocArr l st with
    | error e => simp [hx] at hl
    | ok x =>
      obtain ⟨v, s1⟩ := x
      simp [hx, pure, StateT.pure, Except.pure] at hl
      obtain ⟨_, rfl⟩ := hl
      exact (allocArr_grows _ _ _ _ hx).1
  match vs, h with
  | [v], h =>
    simp [pure, StateT.pure, Except.pure] at h
    obtain ⟨_, rfl⟩ := h
    exact Grows.refl _
  | [], h => exact alloc _ h
  | _ :: _ :: _, h => exact alloc _ h

/-- a monadic map whose every step only grows the heap only grows the heap -/
theorem mapM_grows {α β : Type} (f : α → M β) (hf : ∀ a st b st', f a st = .ok (b, st') → Grows st st') :
    ∀ (l : List α) (st : St) (bs : List β) (st' : St), l.mapM f st = .ok (bs, st') → Grows st st' := by
  intro l
  induction l with
  | nil =>
    intro st bs st' h
    simp [List.mapM_nil, pure, StateT.pure, Except.pure] at h
    obtain ⟨_, rfl⟩ := h
    exact Grows.refl _
  | cons a rest ih =>
    intro st bs st' h
    simp only [List.mapM_cons, bind, StateT.bind, Except.bind] at h
    cases hx : f a st with
    | error e => simp [hx] at h
    | ok x =>
      obtain ⟨b, s1⟩ := x
      simp only [hx] at h
      cases hy : List.mapM f rest s1 with
      | error e => simp [hy] at h
      | ok y =>
        obtain ⟨bs', s2⟩ := y
        simp [hy, pure, StateT.pure, Except.pure] at h
        obtain ⟨_, rfl⟩ := h
        exact (hf a st b s1 hx).trans (ih s1 bs' s2 hy)

/-- the helper as a whole: the state only grows, and the result is a map that did not exist before -/
theorem mapParams_grows (kvs : List Val) (st st' : St) (v : Val) (h : mapParams kvs st = .ok (v, st')) :
    Grows st st' ∧ ∃ a, v = .map a ∧ st.heap.maps.length ≤ a := by
  unfold mapParams at h
  simp only [bind, StateT.bind, Except.bind] at h
  cases hx : ofOpt (mpairs kvs) "__op__map_params key" st with
  | error e => simp [hx] at h
  | ok x =>
    obtain ⟨ps, s0⟩ := x
    have hs0 : s0 = st := by
      cases hm : mpairs kvs with
      | none => simp [ofOpt, hm, domainErr, throwE] at hx
      | some q => simp [ofOpt, hm, pure, StateT.pure, Except.pure] at hx; exact hx.2.symm
    subst hs0
    simp only [hx] at h
    generalize (List.foldl (fun acc kv => if acc.contains kv.fst = true then acc else acc ++ [kv.fst]) ([] : List String) ps) = names at h
    cases hy : List.mapM (mapParamsItem ps) names s0 with
    | error e => simp [hy] at h
    | ok y =>
      obtain ⟨items, s1⟩ := y
      simp only [hy] at h
      have g1 := mapM_grows (mapParamsItem ps) (mapParamsItem_grows ps) _ _ _ _ hy
      obtain ⟨g2, hv⟩ := allocMap_grows _ _ _ _ h
      refine ⟨g1.trans g2, s1.heap.maps.length, hv, ?_⟩
      obtain ⟨aa, am, rfl⟩ := g1
      simp

end Pug.Props.C03F
