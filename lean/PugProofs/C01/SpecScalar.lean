import PugModel.JS.Scalar
/-!
(A) the strict scalar semantics `sEval` agrees with the reference evaluator `JS.evalF` (the oracle of the C01 check) on the
scalar fragment, for every expression, environment and sufficient fuel.
-/
namespace Pug.JS

def SEnv.toJS (ρ : SEnv) : Env := ρ.map fun p => (p.1, p.2.toJS)

theorem find_map (l : SEnv) (x : String) :
    (l.map fun p => (p.1, p.2.toJS)).find? (·.1 == x) = (l.find? (·.1 == x)).map fun p => (p.1, p.2.toJS) := by
  induction l with
  | nil => rfl
  | cons p rest ih =>
    simp only [List.map_cons, List.find?_cons]
    by_cases h : (p.1 == x) = true
    · simp [h]
    · simp [h, ih]

theorem lookup_toJS (ρ : SEnv) (x : String) (v : SVal) (h : sLookup ρ x = some v) :
    lookupProp ρ.toJS x = v.toJS := by
  unfold sLookup at h
  unfold lookupProp SEnv.toJS
  rw [← List.map_reverse, find_map]
  split at h
  · rename_i k w hf
    simp only [Option.some.injEq] at h
    subst h
    simp [hf]
  · cases h

theorem toBool_toJS (v : SVal) : toBool v.toJS = sToBool v := by
  cases v <;> rfl

theorem sBin_spec (op : BinOp) (a b v : SVal) (hl : op ≠ .land) (ho : op ≠ .lor) (h : sBin op a b = some v) :
    binPrim op a.toJS b.toJS = some v.toJS := by
  unfold binPrim
  cases op <;> cases a <;> cases b <;> (unfold sBin at h) <;> (try simp at h) <;>
    (try (split at h <;> simp at h)) <;> (try subst h) <;>
    simp_all [SVal.toJS, sameType, strictEq, bind, Option.bind, pure]
  · obtain ⟨_, rfl⟩ := h; rfl
  · obtain ⟨a, ha, rfl⟩ := h; simp [ha]

/-- **(A)** for every scalar expression, environment and fuel above the nesting depth: if the strict semantics gives a value,
the reference evaluator gives the same value -/
theorem evalF_scalar (ρ : SEnv) (e : SExpr) (v : SVal) (h : sEval ρ e = some v) (fuel : Nat) (hf : e.depth < fuel) :
    evalF fuel ρ.toJS e.toExpr = some v.toJS := by
  induction e generalizing v fuel with
  | num q i =>
    obtain ⟨f, rfl⟩ : ∃ f, fuel = f + 1 := ⟨fuel - 1, by omega⟩
    simp only [sEval, Option.some.injEq] at h; subst h; rfl
  | str s =>
    obtain ⟨f, rfl⟩ : ∃ f, fuel = f + 1 := ⟨fuel - 1, by omega⟩
    simp only [sEval, Option.some.injEq] at h; subst h; rfl
  | bool b =>
    obtain ⟨f, rfl⟩ : ∃ f, fuel = f + 1 := ⟨fuel - 1, by omega⟩
    simp only [sEval, Option.some.injEq] at h; subst h; rfl
  | var x =>
    obtain ⟨f, rfl⟩ : ∃ f, fuel = f + 1 := ⟨fuel - 1, by omega⟩
    simp only [sEval] at h
    simp [SExpr.toExpr, evalF, lookup_toJS ρ x v h]
  | not e ih =>
    obtain ⟨f, rfl⟩ : ∃ f, fuel = f + 1 := ⟨fuel - 1, by omega⟩
    simp only [sEval, Option.map_eq_some_iff] at h
    obtain ⟨w, hw, rfl⟩ := h
    have := ih w hw f (by simp [SExpr.depth] at hf; omega)
    simp [SExpr.toExpr, evalF, this, toBool_toJS, bind, Option.bind]
    rfl
  | neg e ih =>
    obtain ⟨f, rfl⟩ : ∃ f, fuel = f + 1 := ⟨fuel - 1, by omega⟩
    simp only [sEval] at h
    split at h
    · rename_i q hq
      simp only [Option.some.injEq] at h; subst h
      have := ih (.num q) hq f (by simp [SExpr.depth] at hf; omega)
      simp [SExpr.toExpr, evalF, this, SVal.toJS, bind, Option.bind]
    · cases h
  | cond c a b ihc iha ihb =>
    obtain ⟨f, rfl⟩ : ∃ f, fuel = f + 1 := ⟨fuel - 1, by omega⟩
    simp only [sEval] at h
    split at h
    · rename_i vc va vb hc ha hb
      simp only [Option.some.injEq] at h; subst h
      simp only [SExpr.depth] at hf
      have h1 := ihc vc hc f (by omega)
      have h2 := iha va ha f (by omega)
      have h3 := ihb vb hb f (by omega)
      simp only [SExpr.toExpr, evalF, h1, bind, Option.bind, toBool_toJS]
      by_cases hb' : sToBool vc = true
      · simp [hb', h2]
      · simp [hb', h3]
    · cases h
  | bin op l r ihl ihr =>
    obtain ⟨f, rfl⟩ : ∃ f, fuel = f + 1 := ⟨fuel - 1, by omega⟩
    simp only [sEval] at h
    split at h
    · rename_i a b ha hb
      simp only [SExpr.depth] at hf
      have h1 := ihl a ha f (by omega)
      have h2 := ihr b hb f (by omega)
      by_cases hland : op = .land
      · subst hland
        simp only [Option.some.injEq] at h; subst h
        simp only [SExpr.toExpr, evalF, h1, bind, Option.bind, toBool_toJS]
        by_cases hb' : sToBool a = true <;> simp [hb', h2, pure]
      · by_cases hlor : op = .lor
        · subst hlor
          simp only [Option.some.injEq] at h; subst h
          simp only [SExpr.toExpr, evalF, h1, bind, Option.bind, toBool_toJS]
          by_cases hb' : sToBool a = true <;> simp [hb', h2, pure]
        · have hs : sBin op a b = some v := by
            cases op <;> first | exact absurd rfl hland | exact absurd rfl hlor | exact h
          have := sBin_spec op a b v hland hlor hs
          cases op <;> first | exact absurd rfl hland | exact absurd rfl hlor |
            (simp only [SExpr.toExpr, evalF, h1, h2, bind, Option.bind]; exact this)
    · cases h

end Pug.JS
