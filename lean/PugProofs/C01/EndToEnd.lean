import PugProofs.C01.EvalScalar
import PugModel.Driver.Render
/-!
End to end, for one buffered expression over scalar page data: JSON data -> initial execution state (Agree), the document
`= e` through the whole transpiler / parser pipeline, execution, printing.
-/
set_option linter.unusedSimpArgs false
namespace Pug.Props.C01S
open Lean Pug Pug.JS Pug.Tpl Pug.Driver

/-- a scalar JSON value and the scalar it denotes -/
def scalarOf : Json → Option SVal
  | .bool b => some (.bool b)
  | .str s => some (.str s)
  | .num n => some (.num ((n.mantissa : Rat) / ((10 ^ n.exponent : Nat) : Rat)))
  | _ => none

theorem convert_scalar (fuel : Nat) (j : Json) (sv : SVal) (h : Heap) (hs : scalarOf j = some sv) :
    convertDataF (fuel + 1) j h = (h, emb sv) := by
  cases j <;> simp [scalarOf] at hs <;> subst hs <;> simp [convertDataF, emb]

/-- the fold of `convert` over the entries of an object whose values are all scalars: no allocation, items in order -/
theorem fold_scalars (fuel : Nat) (l : List (String × Json)) (svs : List (String × SVal))
    (hl : l.map (fun kv => (kv.1, scalarOf kv.2)) = svs.map (fun kv => (kv.1, some kv.2)))
    (h : Heap) (acc : List (String × Val)) :
    l.foldl (fun (acc : Heap × List (String × Val)) (kv : String × Json) =>
        let (h', v) := convertDataF (fuel + 1) kv.2 acc.1
        (h', acc.2 ++ [(kv.1, v)])) (h, acc) =
      (h, acc ++ svs.map (fun kv => (kv.1, emb kv.2))) := by
  induction l generalizing svs acc with
  | nil =>
    cases svs with
    | nil => simp
    | cons _ _ => simp at hl
  | cons kv rest ih =>
    cases svs with
    | nil => simp at hl
    | cons sv svs' =>
      simp only [List.map_cons, List.cons.injEq, Prod.mk.injEq] at hl
      obtain ⟨⟨hk, hv⟩, hrest⟩ := hl
      simp only [List.foldl_cons, convert_scalar fuel kv.2 sv.2 h hv]
      rw [ih svs' hrest]
      simp [hk, List.append_assoc]

/-! ## the variables the executor starts with -/

/-- the two variables `Template.execute` defines per key (the key and its lower-first alias); for a lower-initial key both are
the same name -/
def twoVars (kv : String × SVal) : List (String × Val) := [("$" ++ kv.1, emb kv.2), ("$" ++ kv.1, emb kv.2)]

theorem find_twoVars (r : SEnv) (x : String) :
    (r.flatMap twoVars).find? (fun e => e.1 == "$" ++ x) =
      (r.find? (fun kv => kv.1 == x)).map fun kv => ("$" ++ kv.1, emb kv.2) := by
  induction r with
  | nil => rfl
  | cons kv rest ih =>
    simp only [List.flatMap_cons, twoVars, List.cons_append, List.nil_append, List.find?_cons]
    by_cases h : kv.1 = x
    · simp [h]
    · have h1 : (kv.1 == x) = false := by simpa using h
      have h2 : ("$" ++ kv.1 == "$" ++ x) = false := by simpa using h
      simp only [h1, h2]
      exact ih

theorem flatMap_twoVars_reverse (r : SEnv) : (r.flatMap twoVars).reverse = r.reverse.flatMap twoVars := by
  induction r with
  | nil => rfl
  | cons kv rest ih =>
    simp only [List.flatMap_cons, List.reverse_append, ih, List.reverse_cons, List.flatMap_append, List.flatMap_nil,
      List.append_nil, List.flatMap_singleton]
    simp [twoVars]

/-- **the initial state represents the data.** Variables built from scalar entries (lower-initial names, none called `global`
or empty): looking a name up gives the representation of the environment's (newest) value. -/
theorem lookup_scalars (svs : SEnv) (dollar g : Val) (x : String) (sv : SVal)
    (hx : sLookup svs x = some sv) (hng : x ≠ "global") :
    lookupVar ([("$", dollar)] ++ svs.flatMap twoVars ++ [("$global", g)]) ("$" ++ x) = emb sv := by
  unfold lookupVar
  have h1 : ("$global" == "$" ++ x) = false := by
    have hg : "$global" = "$" ++ "global" := by decide
    have : ¬ ("$" ++ "global" = "$" ++ x) := by
      rw [String.append_right_inj]; exact Ne.symm hng
    rw [hg]; simpa using this
  simp only [List.reverse_append, List.reverse_cons, List.reverse_nil, List.nil_append, List.find?_append, List.find?_cons, h1,
    List.find?_nil, Option.or_none, Option.none_or, flatMap_twoVars_reverse, find_twoVars]
  unfold sLookup at hx
  split at hx
  · rename_i k w hf
    simp only [Option.some.injEq] at hx
    subst hx
    simp [hf]
  · cases hx

/-- page data: a JSON object whose values are scalars, keys lower-initial -/
structure ScalarData (o : Std.TreeMap.Raw String Json) (svs : SEnv) : Prop where
  entries : o.toList.map (fun kv => (kv.1, scalarOf kv.2)) = svs.map (fun kv => (kv.1, some kv.2))
  lower : ∀ kv ∈ svs, lowerFirst kv.1 = kv.1

theorem flatMap_alias (svs : SEnv) (hlow : ∀ kv ∈ svs, lowerFirst kv.1 = kv.1) :
    (List.map ((fun (x : String × Val) => [("$" ++ x.fst, x.snd), ("$" ++ lowerFirst x.fst, x.snd)]) ∘
        fun (kv : String × SVal) => (kv.fst, emb kv.snd)) svs).flatten = svs.flatMap twoVars := by
  induction svs with
  | nil => rfl
  | cons kv rest ih =>
    have h1 := hlow kv (by simp)
    have h2 := ih (fun kv' hk => hlow kv' (by simp [hk]))
    simp only [List.map_cons, List.flatten_cons, List.flatMap_cons, h2, twoVars, h1, Function.comp]

theorem convertDataF_obj (fuel : Nat) (o : Std.TreeMap.Raw String Json) (h : Heap) :
    convertDataF (fuel + 1) (.obj o) h =
      ((o.toList.foldl (fun (acc : Heap × List (String × Val)) (kv : String × Json) =>
          let (h', v) := convertDataF fuel kv.2 acc.1
          (h', acc.2 ++ [(kv.1, v)])) (h, [])).1.allocMap
        { items := (o.toList.foldl (fun (acc : Heap × List (String × Val)) (kv : String × Json) =>
          let (h', v) := convertDataF fuel kv.2 acc.1
          (h', acc.2 ++ [(kv.1, v)])) (h, [])).2, order := [] }) := by
  simp [convertDataF]

theorem initState_scalars (o : Std.TreeMap.Raw String Json) (svs : SEnv) (hd : ScalarData o svs) :
    (initState (.obj o)).vars = [("$", Val.map 0)] ++ svs.flatMap twoVars ++ [("$global", Val.map 1)] ∧
    (initState (.obj o)).out = "" := by
  have hfold := fold_scalars 99998 o.toList svs hd.entries Heap.empty []
  have hconv : convertData (.obj o) Heap.empty =
      (Heap.empty.allocMap { items := svs.map (fun kv => (kv.1, emb kv.2)), order := [] }) := by
    have := convertDataF_obj (99998 + 1) o Heap.empty
    rw [hfold] at this
    simpa [convertData] using this
  unfold initState
  rw [hconv]
  simp only [Heap.allocMap, Heap.empty, List.length_nil, List.nil_append, Heap.getMap, List.getD_cons_zero]
  refine ⟨?_, trivial⟩
  simp [flatMap_alias svs hd.lower, List.getD]

/-- **Agree for the driver's initial state.** -/
theorem agree_initState (o : Std.TreeMap.Raw String Json) (svs : SEnv) (hd : ScalarData o svs)
    (hg : ∀ kv ∈ svs, kv.1 ≠ "global") : Agree (initState (.obj o)) svs := by
  intro x sv hx
  rw [(initState_scalars o svs hd).1, lookup_scalars svs _ _ x sv hx ?_]
  · exact rep_emb sv
  · -- the name was found in the environment, so it is one of its keys
    unfold sLookup at hx
    split at hx
    · rename_i k w hf
      have hmem := List.mem_of_find?_eq_some hf
      have hk : k = x := by simpa using List.find?_some hf
      have := hg (k, w) (by simpa using hmem)
      simpa [hk] using this
    · cases hx

/-! ## the document `= e` through the transpiler and the template parser -/

/-- expressions whose buffered form is an escaped action (not a literal, not a unary expression) -/
def TopEsc : SExpr → Prop
  | .bin .. | .cond .. | .var _ => True
  | _ => False

theorem wrapKind_topEsc (e : SExpr) (h : TopEsc e) : wrapKind e.toExpr = .action true := by
  cases e <;> simp [TopEsc] at h <;> simp [SExpr.toExpr, wrapKind, exprKind] <;> decide

theorem compileBuffered_scalar (env : CEnv) (e : SExpr) (hw : WF env e) (ht : TopEsc e) (hd : e.depth < 50000) :
    compileBuffered env e.toExpr true = .ok [.act false false (.print (tr e) true)] := by
  have hc : compileExpr env e.toExpr = .ok (some (tr e)) :=
    compile_scalar env e hw exprFuel (by simp only [exprFuel]; omega)
  simp [compileBuffered, wrapKind_topEsc e ht, hc, bind, Except.bind, pure, Except.pure]

theorem compileNodeF_codeBuf (fuel : Nat) (env : CEnv) (e : JS.Expr) (esc inl : Bool) :
    compileNodeF (fuel + 1) env (.codeBuf e esc inl) = compileBuffered env e esc := by
  simp [compileNodeF]

theorem compileNodesF_single (fuel : Nat) (env : CEnv) (n : Node) :
    compileNodesF (fuel + 1) env [n] = (compileNodeF fuel env n).map fun fs => fs := by
  simp only [compileNodesF, List.mapM_cons, List.mapM_nil, bind, Except.bind, pure, Except.pure]
  cases compileNodeF fuel env n <;> simp [Except.map]

theorem collect_codeBuf (fuel : Nat) (e : JS.Expr) (esc inl : Bool) :
    collectMixinDefsF fuel [Node.codeBuf e esc inl] = [] := by
  cases fuel with
  | zero => rfl
  | succ f => cases f <;> simp [collectMixinDefsF]

theorem hoist_single_act (fuel : Nat) (lt rt : Bool) (a : Act) (k : Nat) :
    hoistBlocksF fuel [Frag.act lt rt a] k = ([Frag.act lt rt a], [], k) := by
  cases fuel with
  | zero => rfl
  | succ f => cases f <;> simp [hoistBlocksF]

theorem parseBody_print (t : TExpr) (esc : Bool) :
    parseBody [Frag.act false false (.print t esc)] = .ok [TNode.print t esc] := by
  simp [parseBody, parseList, mergeTexts, applyTrims, parseListF, bind, Except.bind, pure, Except.pure]

/-- the whole transpiler on the document `= e` -/
theorem compileDoc_buffered (env : CEnv) (e : SExpr) (inl : Bool) (hw : WF env e) (ht : TopEsc e) (hd : e.depth < 50000) :
    compileDoc env [.codeBuf e.toExpr true inl] = .ok { main := [.print (tr e) true], defs := [] } := by
  have hn : compileNodes env [.codeBuf e.toExpr true inl] = .ok [.act false false (.print (tr e) true)] := by
    show compileNodesF (99999 + 1) env _ = _
    rw [compileNodesF_single, show (99999 : Nat) = 99998 + 1 from rfl, compileNodeF_codeBuf,
      compileBuffered_scalar env e hw ht hd]
    rfl
  have hc : collectMixinDefs [Node.codeBuf e.toExpr true inl] = [] := collect_codeBuf _ _ _ _
  have hh : hoistBlocks [Frag.act false false (.print (tr e) true)] 0 = ([Frag.act false false (.print (tr e) true)], [], 0) :=
    hoist_single_act _ _ _ _ _
  simp [compileDoc, hn, hc, hh, parseBody_print, bind, Except.bind, pure, Except.pure]

/-! ## the unescaped form `!= e` -/

theorem compileBuffered_scalar_raw (env : CEnv) (e : SExpr) (hw : WF env e) (ht : TopEsc e) (hd : e.depth < 50000) :
    compileBuffered env e.toExpr false = .ok [.act false false (.print (tr e) false)] := by
  have hc : compileExpr env e.toExpr = .ok (some (tr e)) :=
    compile_scalar env e hw exprFuel (by simp only [exprFuel]; omega)
  simp [compileBuffered, wrapKind_topEsc e ht, hc, bind, Except.bind, pure, Except.pure]

theorem compileDoc_buffered_raw (env : CEnv) (e : SExpr) (inl : Bool) (hw : WF env e) (ht : TopEsc e) (hd : e.depth < 50000) :
    compileDoc env [.codeBuf e.toExpr false inl] = .ok { main := [.print (tr e) false], defs := [] } := by
  have hn : compileNodes env [.codeBuf e.toExpr false inl] = .ok [.act false false (.print (tr e) false)] := by
    show compileNodesF (99999 + 1) env _ = _
    rw [compileNodesF_single, show (99999 : Nat) = 99998 + 1 from rfl, compileNodeF_codeBuf,
      compileBuffered_scalar_raw env e hw ht hd]
    rfl
  have hc : collectMixinDefs [Node.codeBuf e.toExpr false inl] = [] := collect_codeBuf _ _ _ _
  have hh : hoistBlocks [Frag.act false false (.print (tr e) false)] 0 = ([Frag.act false false (.print (tr e) false)], [], 0) :=
    hoist_single_act _ _ _ _ _
  simp [compileDoc, hn, hc, hh, parseBody_print, bind, Except.bind, pure, Except.pure]

end Pug.Props.C01S
