import PugProofs.C01.CompileScalar
/-!
(B2) the executor model evaluates `tr e` to (a representation of) the strict JavaScript value, leaving the state unchanged.
-/
set_option linter.unusedSimpArgs false
namespace Pug.Props.C01S
open Pug Pug.JS Pug.Tpl

/-- a model value represents a scalar: raw literal forms and converted objects -/
inductive Rep : Val → SVal → Prop
  | N (q : Rat) : Rep (.N q) (.num q)
  | int (n : Int) : Rep (.int n) (.num n)
  | flt (q : Rat) : Rep (.flt q) (.num q)
  | S (s : String) : Rep (.S s) (.str s)
  | str (s : String) : Rep (.str s) (.str s)
  | B (b : Bool) : Rep (.B b) (.bool b)
  | bool (b : Bool) : Rep (.bool b) (.bool b)

def emb : SVal → Val
  | .num q => .N q
  | .str s => .S s
  | .bool b => .B b

theorem convertRaw_rep {v : Val} {s : SVal} (h : Rep v s) : convertRaw v = emb s := by
  cases h <;> rfl

theorem rep_emb (s : SVal) : Rep (emb s) s := by
  cases s <;> constructor

theorem truth_rep (hp : Heap) {v : Val} {s : SVal} (h : Rep v s) : truth hp v = sToBool s := by
  cases h <;> simp [truth, sToBool]

theorem rep_not_invalid {v : Val} {s : SVal} (h : Rep v s) : v.isInvalid = false := by
  cases h <;> rfl

/-! ## argument lists of `interface{}` parameters -/

theorem evalExpr_lit_inv (f : Nat) (l v : Val) (st st' : St) (h : evalExpr f (.lit l) st = .ok (v, st')) : v = l ∧ st' = st := by
  cases f with
  | zero => simp [evalExpr, throwE] at h
  | succ f => simp [evalExpr, pure, StateT.pure, Except.pure] at h; exact ⟨h.1.symm, h.2.symm⟩

inductive EvalAll (f : Nat) (st : St) : List TExpr → List Val → Prop
  | nil : EvalAll f st [] []
  | cons {a : TExpr} {v : Val} {as : List TExpr} {vs : List Val} :
      evalExpr f a st = .ok (v, st) → EvalAll f st as vs → EvalAll f st (a :: as) (v :: vs)

theorem go_any (f : Nat) (st : St) (args : List TExpr) (vs : List Val) (tys : List PTy)
    (hty : ∀ t ∈ tys, t = PTy.any)
    (hev : EvalAll f st args vs) :
    evalArgs.go f args tys st = .ok (vs, st) := by
  induction hev generalizing tys with
  | nil => simp [evalArgs.go, pure, StateT.pure, Except.pure]
  | @cons a v as vs' hav _ ih =>
    have hhead : tys.head?.getD PTy.any = PTy.any := by
      cases tys with
      | nil => rfl
      | cons t _ => simpa using hty t (by simp)
    have htail : ∀ t ∈ tys.tail, t = PTy.any := fun t ht => hty t (List.mem_of_mem_tail ht)
    have ih' := ih tys.tail htail
    cases a with
    | lit l =>
      obtain ⟨rfl, _⟩ := evalExpr_lit_inv f l v st st hav
      simp [evalArgs.go, hhead, literalArg, ih', bind, StateT.bind, Except.bind, pure, StateT.pure, Except.pure]
    | var x => simp [evalArgs.go, hhead, validateType, hav, ih', bind, StateT.bind, Except.bind, pure, StateT.pure, Except.pure]
    | dot => simp [evalArgs.go, hhead, validateType, hav, ih', bind, StateT.bind, Except.bind, pure, StateT.pure, Except.pure]
    | fcall n as => simp [evalArgs.go, hhead, validateType, hav, ih', bind, StateT.bind, Except.bind, pure, StateT.pure, Except.pure]
    | field r n as => simp [evalArgs.go, hhead, validateType, hav, ih', bind, StateT.bind, Except.bind, pure, StateT.pure, Except.pure]

theorem evalAll_length {f : Nat} {st : St} {args : List TExpr} {vs : List Val} (h : EvalAll f st args vs) :
    args.length = vs.length := by
  induction h with
  | nil => rfl
  | cons _ _ ih => simp [ih]

theorem evalArgs_any (f : Nat) (st : St) (sig : Sig) (name : String) (args : List TExpr) (vs : List Val)
    (h1 : sig.variadic.isNone = true → args.length = sig.fixed.length)
    (h2 : sig.variadic.isSome = true → sig.fixed.length ≤ args.length)
    (hfixed : ∀ t ∈ sig.fixed, t = PTy.any) (hvar : sig.variadic.getD PTy.any = PTy.any)
    (hev : EvalAll f st args vs) : evalArgs (f + 1) sig name args st = .ok (vs, st) := by
  unfold evalArgs
  have c1 : (sig.variadic.isNone && args.length != sig.fixed.length) = false := by
    by_cases hv : sig.variadic.isNone = true
    · simp [hv, h1 hv]
    · simp [hv]
  have c2 : (sig.variadic.isSome && decide (args.length < sig.fixed.length)) = false := by
    by_cases hv : sig.variadic.isSome = true
    · have := h2 hv
      simp [hv]; omega
    · simp [hv]
  simp [c1, c2]
  apply go_any f st args vs _ _ hev
  intro t ht
  rcases List.mem_append.mp ht with h | h
  · exact hfixed t h
  · rw [List.mem_replicate] at h
    rw [h.2]; exact hvar

theorem evalExpr_fcall (f : Nat) (st : St) (name : String) (sig : Sig) (args : List TExpr) (vs : List Val)
    (hn1 : name ≠ "null") (hn2 : name ≠ "__freeze") (hsig : builtinSig name = some sig)
    (h1 : sig.variadic.isNone = true → args.length = sig.fixed.length)
    (h2 : sig.variadic.isSome = true → sig.fixed.length ≤ args.length)
    (hfixed : ∀ t ∈ sig.fixed, t = PTy.any) (hvar : sig.variadic.getD PTy.any = PTy.any)
    (hev : EvalAll f st args vs) :
    evalExpr (f + 2) (.fcall name args) st = callBuiltin name vs st := by
  have := evalArgs_any f st sig name args vs h1 h2 hfixed hvar hev
  show evalExpr ((f + 1) + 1) (.fcall name args) st = _
  unfold evalExpr
  simp [hn1, hn2, hsig, this, bind, StateT.bind, Except.bind]

/-! ## the helpers on represented scalars -/

theorem objStr_S' (h : Heap) (s : String) : objStr h (strFuel h) (.S s) = some s := by
  simp [strFuel, objStr]

theorem intCast_num (n : Int) : ((n : Int) : Rat).num = n := by simp
theorem intCast_den (n : Int) : ((n : Int) : Rat).den = 1 := by simp

theorem ratTrunc_int (n : Int) : Fn.ratTrunc (n : Rat) = n := by
  unfold Fn.ratTrunc; split <;> simp [Rat.floor_intCast, Rat.ceil_intCast]

theorem rat_of_den_one (q : Rat) (h : q.den = 1) : ((q.num : Int) : Rat) = q := by
  apply Rat.ext
  · simp
  · simp [h]

macro "cb_simp" : tactic => `(tactic|
  simp [callBuiltin, bind, StateT.bind, getHeap, get, getThe, MonadStateOf.get, StateT.get, pure, Except.pure,
    Except.bind, StateT.pure, ofOpt, boolOf, domainErr, throwE])

theorem call_add_num (x y : Val) (a b : Rat) (hx : Rep x (.num a)) (hy : Rep y (.num b)) (st : St) :
    callBuiltin "__op__add" [x, y] st = .ok (.N (a + b), st) := by
  have hi : helperImpl "__op__add" = some "runtimeAdd" := by decide
  simp only [callBuiltin, hi, bind, StateT.bind, getHeap, get, getThe, MonadStateOf.get, StateT.get, pure, Except.pure,
    Except.bind, StateT.pure]
  simp [runtimeAdd, convertRaw_rep hx, convertRaw_rep hy, emb, ofOpt, pure, StateT.pure, Except.pure]

theorem call_add_str (x y : Val) (a b : String) (hx : Rep x (.str a)) (hy : Rep y (.str b)) (st : St) :
    callBuiltin "__op__add" [x, y] st = .ok (.S (a ++ b), st) := by
  have hi : helperImpl "__op__add" = some "runtimeAdd" := by decide
  simp only [callBuiltin, hi, bind, StateT.bind, getHeap, get, getThe, MonadStateOf.get, StateT.get, pure, Except.pure,
    Except.bind, StateT.pure]
  simp [runtimeAdd, convertRaw_rep hx, convertRaw_rep hy, emb, ofOpt, pure, StateT.pure, Except.pure, objStr_S']

/-- the four numeric kind pairs are in the matrix read from runtime.go, for every arithmetic helper -/
theorem hasCase_rep (x y : Val) (a b : Rat) (hx : Rep x (.num a)) (hy : Rep y (.num b)) :
    hasCase "runtimeSub" "-" x y = true ∧ hasCase "runtimeMul" "*" x y = true ∧
    hasCase "runtimeQuo" "/" x y = true ∧ hasCase "runtimeRem" "%" x y = true := by
  cases hx <;> cases hy <;> simp only [hasCase, kindName, Val.kind] <;> decide

theorem arith_rep (fn op : String) (f : Rat → Rat → Option Rat) (x y : Val) (a b : Rat)
    (hc : hasCase fn op x y = true) (hx : Rep x (.num a)) (hy : Rep y (.num b)) :
    arith fn op f x y = (f a b).map Val.N := by
  unfold arith
  rw [hc]
  cases hx <;> cases hy <;> simp [Val.num?]

theorem call_sub (x y : Val) (a b : Rat) (hx : Rep x (.num a)) (hy : Rep y (.num b)) (st : St) :
    callBuiltin "__op__sub" [x, y] st = .ok (.N (a - b), st) := by
  have hi : helperImpl "__op__sub" = some "runtimeSub" := by decide
  simp only [callBuiltin, hi, bind, StateT.bind, getHeap, get, getThe, MonadStateOf.get, StateT.get, pure, Except.pure,
    Except.bind, StateT.pure]
  simp [runtimeSub, arith_rep _ _ _ x y a b (hasCase_rep x y a b hx hy).1 hx hy, ofOpt, pure, StateT.pure, Except.pure]

theorem call_neg (x : Val) (a : Rat) (hx : Rep x (.num a)) (st : St) :
    callBuiltin "__op__sub" [x] st = .ok (.N (-a), st) := by
  have hi : helperImpl "__op__sub" = some "runtimeSub" := by decide
  simp only [callBuiltin, hi, bind, StateT.bind, getHeap, get, getThe, MonadStateOf.get, StateT.get, pure, Except.pure,
    Except.bind, StateT.pure]
  have h0 : Rep (.int 0) (.num ((0 : Int) : Rat)) := Rep.int 0
  have hz : (0 : Rat) - a = -a := by grind
  simp [runtimeSub, arith_rep _ _ _ _ x _ a (hasCase_rep _ x _ a h0 hx).1 h0 hx, ofOpt, pure, StateT.pure, Except.pure, hz]

theorem call_mul (x y : Val) (a b : Rat) (hx : Rep x (.num a)) (hy : Rep y (.num b)) (st : St) :
    callBuiltin "__op__mul" [x, y] st = .ok (.N (a * b), st) := by
  have hi : helperImpl "__op__mul" = some "runtimeMul" := by decide
  simp only [callBuiltin, hi, bind, StateT.bind, getHeap, get, getThe, MonadStateOf.get, StateT.get, pure, Except.pure,
    Except.bind, StateT.pure]
  simp [runtimeMul, arith_rep _ _ _ x y a b (hasCase_rep x y a b hx hy).2.1 hx hy, ofOpt, pure, StateT.pure, Except.pure]

theorem call_div (x y : Val) (a b : Rat) (hb : b ≠ 0) (hx : Rep x (.num a)) (hy : Rep y (.num b)) (st : St) :
    callBuiltin "__op__slash" [x, y] st = .ok (.N (a / b), st) := by
  have hi : helperImpl "__op__slash" = some "runtimeQuo" := by decide
  simp only [callBuiltin, hi, bind, StateT.bind, getHeap, get, getThe, MonadStateOf.get, StateT.get, pure, Except.pure,
    Except.bind, StateT.pure]
  simp [runtimeQuo, arith_rep _ _ _ x y a b (hasCase_rep x y a b hx hy).2.2.1 hx hy, ofOpt, pure, StateT.pure, Except.pure, hb]

theorem rem_rep (x y : Val) (a b : Rat) (hx : Rep x (.num a)) (hy : Rep y (.num b)) :
    runtimeRem x y = (if Fn.ratTrunc b == 0 then none else some (.N (goRem (Fn.ratTrunc a) (Fn.ratTrunc b)))) := by
  unfold runtimeRem
  rw [arith_rep _ _ _ x y a b (hasCase_rep x y a b hx hy).2.2.2 hx hy]
  by_cases h : Fn.ratTrunc b = 0 <;> simp [h]

theorem call_mod (x y : Val) (a b r : Rat) (hr : jsRem a b = some r) (hx : Rep x (.num a)) (hy : Rep y (.num b)) (st : St) :
    callBuiltin "__op__mod" [x, y] st = .ok (.N r, st) := by
  have hi : helperImpl "__op__mod" = some "runtimeRem" := by decide
  simp only [callBuiltin, hi, bind, StateT.bind, getHeap, get, getThe, MonadStateOf.get, StateT.get, pure, Except.pure,
    Except.bind, StateT.pure]
  unfold jsRem at hr
  split at hr
  · rename_i hc
    simp only [Bool.and_eq_true, beq_iff_eq, bne_iff_ne, ne_eq] at hc
    simp only [Option.some.injEq] at hr
    have ha : Fn.ratTrunc a = a.num := by rw [← rat_of_den_one a hc.1.1, ratTrunc_int]; simp
    have hb : Fn.ratTrunc b = b.num := by rw [← rat_of_den_one b hc.1.2, ratTrunc_int]; simp
    have hb0 : ¬ (b.num = 0) := hc.2
    simp [rem_rep x y a b hx hy, ha, hb, hb0, goRem, ofOpt, pure, StateT.pure, Except.pure, ← hr]
  · cases hr

theorem lss_num (x y : Val) (a b : Rat) (hx : Rep x (.num a)) (hy : Rep y (.num b)) :
    runtimeLss x y = some (decide (a < b)) := by
  cases hx <;> cases hy <;> simp [runtimeLss, Val.kind, Val.num?]

theorem eql_num (h : Heap) (x y : Val) (a b : Rat) (hx : Rep x (.num a)) (hy : Rep y (.num b)) :
    runtimeEql h x y = some (a == b) := by
  cases hx <;> cases hy <;> simp [runtimeEql, Val.kind, Val.num?]

theorem lss_str (x y : Val) (a b : String) (hx : Rep x (.str a)) (hy : Rep y (.str b)) :
    runtimeLss x y = some (decide (a < b)) := by
  cases hx <;> cases hy <;> simp [runtimeLss, Val.kind, Val.string?, strLt]

theorem eql_str (h : Heap) (x y : Val) (a b : String) (hx : Rep x (.str a)) (hy : Rep y (.str b)) :
    runtimeEql h x y = some (a == b) := by
  cases hx <;> cases hy <;> simp [runtimeEql, Val.kind, Val.string?]

theorem eql_bool (h : Heap) (x y : Val) (a b : Bool) (hx : Rep x (.bool a)) (hy : Rep y (.bool b)) :
    runtimeEql h x y = some (a == b) := by
  cases hx <;> cases hy <;> simp [runtimeEql, Val.kind]

theorem lss_bool (x y : Val) (a b : Bool) (hx : Rep x (.bool a)) (hy : Rep y (.bool b)) :
    runtimeLss x y = some false := by
  cases hx <;> cases hy <;> simp [runtimeLss, Val.kind]

theorem call_lt (x y : Val) (l : Bool) (hl : runtimeLss x y = some l) (st : St) :
    callBuiltin "__op__lt" [x, y] st = .ok (.B l, st) := by
  have hi : helperImpl "__op__lt" = some "runtimeLss" := by decide
  simp only [callBuiltin, hi, bind, StateT.bind, getHeap, get, getThe, MonadStateOf.get, StateT.get, pure, Except.pure,
    Except.bind, StateT.pure]
  simp [hl, boolOf, ofOpt, pure, StateT.pure, Except.pure]

theorem call_eql (x y : Val) (e : Bool) (st : St) (he : runtimeEql st.heap x y = some e) :
    callBuiltin "__op__eql" [x, y] st = .ok (.B e, st) := by
  have hi : helperImpl "__op__eql" = some "runtimeEql" := by decide
  simp only [callBuiltin, hi, bind, StateT.bind, getHeap, get, getThe, MonadStateOf.get, StateT.get, pure, Except.pure,
    Except.bind, StateT.pure]
  simp [he, boolOf, ofOpt, pure, StateT.pure, Except.pure]

theorem call_closure (name : String) (b : Gen.BExpr) (hi : helperImpl name = none) (hc : helperClosure name = some b)
    (x y : Val) (l e ls es : Bool) (st : St)
    (h1 : runtimeLss x y = some l) (h2 : runtimeEql st.heap x y = some e)
    (h3 : runtimeLss y x = some ls) (h4 : runtimeEql st.heap y x = some es) :
    callBuiltin name [x, y] st = .ok (.B (b.eval l e ls es), st) := by
  simp only [callBuiltin, hi, hc, bind, StateT.bind, getHeap, get, getThe, MonadStateOf.get, StateT.get, pure, Except.pure,
    Except.bind, StateT.pure]
  simp [h1, h2, h3, h4, boolOf, ofOpt, pure, StateT.pure, Except.pure]

theorem call_not (x : Val) (st : St) :
    callBuiltin "__op__not" [x] st = .ok (.B (!truth st.heap x), st) := by
  have hi : helperImpl "__op__not" = some "not" := by decide
  simp only [callBuiltin, hi, bind, StateT.bind, getHeap, get, getThe, MonadStateOf.get, StateT.get, pure, Except.pure,
    Except.bind, StateT.pure]

theorem call_and (x y : Val) (a b : SVal) (hx : Rep x a) (hy : Rep y b) (st : St) :
    callBuiltin "__op__and" [x, y] st = .ok (emb (if sToBool a then b else a), st) := by
  have hi : helperImpl "__op__and" = some "and" := by decide
  simp only [callBuiltin, hi, bind, StateT.bind, getHeap, get, getThe, MonadStateOf.get, StateT.get, pure, Except.pure,
    Except.bind, StateT.pure]
  have tx := truth_rep st.heap hx
  have ty := truth_rep st.heap hy
  by_cases ha : sToBool a = true
  · by_cases hb : sToBool b = true
    · simp [List.find?, tx, ty, ha, hb, convertRaw_rep hy, rep_not_invalid hy]
    · simp [List.find?, tx, ty, ha, hb, convertRaw_rep hy, rep_not_invalid hy]
  · simp [List.find?, tx, ha, convertRaw_rep hx, rep_not_invalid hx]

theorem call_or (x y : Val) (a b : SVal) (hx : Rep x a) (hy : Rep y b) (st : St) :
    callBuiltin "__op__or" [x, y] st = .ok (emb (if sToBool a then a else b), st) := by
  have hi : helperImpl "__op__or" = some "or" := by decide
  simp only [callBuiltin, hi, bind, StateT.bind, getHeap, get, getThe, MonadStateOf.get, StateT.get, pure, Except.pure,
    Except.bind, StateT.pure]
  have tx := truth_rep st.heap hx
  have ty := truth_rep st.heap hy
  by_cases ha : sToBool a = true
  · simp [List.find?, tx, ha, convertRaw_rep hx]
  · by_cases hb : sToBool b = true
    · simp [List.find?, tx, ty, ha, hb, convertRaw_rep hy]
    · simp [List.find?, tx, ty, ha, hb, convertRaw_rep hy, rep_not_invalid hy]

theorem call_if (t x y : Val) (c a b : SVal) (ht : Rep t c) (hx : Rep x a) (hy : Rep y b) (st : St) :
    callBuiltin "__if" [t, x, y] st = .ok (emb (if sToBool c then a else b), st) := by
  have h1 : helperImpl "__if" = none := by decide
  have h2 : helperClosure "__if" = none := by decide
  simp only [callBuiltin, h1, h2, bind, StateT.bind, getHeap, get, getThe, MonadStateOf.get, StateT.get, pure, Except.pure,
    Except.bind, StateT.pure]
  have tt := truth_rep st.heap ht
  by_cases hc : sToBool c = true <;> simp [tt, hc, convertRaw_rep hx, convertRaw_rep hy]

/-! ## order facts -/

theorem rat_gt (a b : Rat) : (!(decide (a < b)) && !(a == b)) = decide (a > b) := by
  by_cases h1 : a < b <;> by_cases h2 : a = b <;> simp [h1, h2] <;> grind
theorem rat_ge (a b : Rat) : (!(decide (a < b))) = decide (a ≥ b) := by
  by_cases h1 : a < b <;> simp [h1] <;> grind
theorem rat_le (a b : Rat) : (decide (a < b) || (a == b)) = decide (a ≤ b) := by
  by_cases h1 : a < b <;> by_cases h2 : a = b <;> simp [h1, h2] <;> grind

theorem str_gt (a b : String) : (!(decide (a < b)) && !(a == b)) = decide (b < a) := by
  by_cases h1 : a < b
  · have := String.lt_asymm h1
    simp [h1, this]
  · by_cases h2 : a = b
    · subst h2; simp
    · have hle : b ≤ a := String.not_lt.mp h1
      have : b < a := by
        apply String.not_le.mp
        intro hab
        exact h2 (String.le_antisymm hab hle)
      simp [h1, h2, this]

theorem str_ge (a b : String) : (!(decide (a < b))) = (decide (b < a) || a == b) := by
  by_cases h1 : a < b
  · have h3 := String.lt_asymm h1
    have h4 := String.ne_of_lt h1
    simp [h1, h3, h4]
  · by_cases h2 : a = b
    · subst h2; simp
    · have hle : b ≤ a := String.not_lt.mp h1
      have : b < a := by
        apply String.not_le.mp
        intro hab
        exact h2 (String.le_antisymm hab hle)
      simp [h1, h2, this]

/-! ## every binary operator of the fragment -/

theorem hi_none_gt : helperImpl "__op__gt" = none := by decide
theorem hi_none_gte : helperImpl "__op__gte" = none := by decide
theorem hi_none_lte : helperImpl "__op__lte" = none := by decide
theorem hi_none_neq : helperImpl "__op__neq" = none := by decide
theorem hc_gt : helperClosure "__op__gt" = some (.and (.not .lss) (.not .eql)) := by decide
theorem hc_gte : helperClosure "__op__gte" = some (.not .lss) := by decide
theorem hc_lte : helperClosure "__op__lte" = some (.or .lss .eql) := by decide
theorem hc_neq : helperClosure "__op__neq" = some (.not .eql) := by decide

theorem call_bin (op : BinOp) (x y : Val) (a b r : SVal) (hx : Rep x a) (hy : Rep y b)
    (h : sBin op a b = some r) (st : St) :
    ∃ v, callBuiltin (helperOf op) [x, y] st = .ok (v, st) ∧ Rep v r := by
  cases a with
  | num a =>
    cases b with
    | num b =>
      have l1 := lss_num x y a b hx hy
      have l2 := lss_num y x b a hy hx
      have e1 := eql_num st.heap x y a b hx hy
      have e2 := eql_num st.heap y x b a hy hx
      cases op <;> simp only [sBin] at h
      case add => cases h; exact ⟨_, call_add_num x y a b hx hy st, Rep.N _⟩
      case sub => cases h; exact ⟨_, call_sub x y a b hx hy st, Rep.N _⟩
      case mul => cases h; exact ⟨_, call_mul x y a b hx hy st, Rep.N _⟩
      case div =>
        split at h
        · cases h
        · rename_i hb
          cases h
          exact ⟨_, call_div x y a b (by simpa using hb) hx hy st, Rep.N _⟩
      case mod =>
        simp only [Option.map_eq_some_iff] at h
        obtain ⟨q, hq, rfl⟩ := h
        exact ⟨_, call_mod x y a b q hq hx hy st, Rep.N _⟩
      case lt => cases h; exact ⟨_, call_lt x y _ l1 st, Rep.B _⟩
      case le =>
        cases h
        refine ⟨_, call_closure _ _ hi_none_lte hc_lte x y _ _ _ _ st l1 e1 l2 e2, ?_⟩
        simp only [Gen.BExpr.eval, rat_le]; exact Rep.B _
      case gt =>
        cases h
        refine ⟨_, call_closure _ _ hi_none_gt hc_gt x y _ _ _ _ st l1 e1 l2 e2, ?_⟩
        simp only [Gen.BExpr.eval, rat_gt]; exact Rep.B _
      case ge =>
        cases h
        refine ⟨_, call_closure _ _ hi_none_gte hc_gte x y _ _ _ _ st l1 e1 l2 e2, ?_⟩
        simp only [Gen.BExpr.eval, rat_ge]; exact Rep.B _
      case eq => cases h; exact ⟨_, call_eql x y _ st e1, Rep.B _⟩
      case seq => cases h; exact ⟨_, call_eql x y _ st e1, Rep.B _⟩
      case ne =>
        cases h
        refine ⟨_, call_closure _ _ hi_none_neq hc_neq x y _ _ _ _ st l1 e1 l2 e2, ?_⟩
        simp only [Gen.BExpr.eval]; exact Rep.B _
      case sne =>
        cases h
        refine ⟨_, call_closure _ _ hi_none_neq hc_neq x y _ _ _ _ st l1 e1 l2 e2, ?_⟩
        simp only [Gen.BExpr.eval]; exact Rep.B _
      all_goals cases h
    | str b => cases op <;> simp [sBin] at h
    | bool b => cases op <;> simp [sBin] at h
  | str a =>
    cases b with
    | num b => cases op <;> simp [sBin] at h
    | bool b => cases op <;> simp [sBin] at h
    | str b =>
      have l1 := lss_str x y a b hx hy
      have l2 := lss_str y x b a hy hx
      have e1 := eql_str st.heap x y a b hx hy
      have e2 := eql_str st.heap y x b a hy hx
      cases op <;> simp only [sBin] at h
      case add => cases h; exact ⟨_, call_add_str x y a b hx hy st, Rep.S _⟩
      case lt => cases h; exact ⟨_, call_lt x y _ l1 st, Rep.B _⟩
      case le =>
        cases h
        refine ⟨_, call_closure _ _ hi_none_lte hc_lte x y _ _ _ _ st l1 e1 l2 e2, ?_⟩
        simp only [Gen.BExpr.eval]; exact Rep.B _
      case gt =>
        cases h
        refine ⟨_, call_closure _ _ hi_none_gt hc_gt x y _ _ _ _ st l1 e1 l2 e2, ?_⟩
        simp only [Gen.BExpr.eval, str_gt]; exact Rep.B _
      case ge =>
        cases h
        refine ⟨_, call_closure _ _ hi_none_gte hc_gte x y _ _ _ _ st l1 e1 l2 e2, ?_⟩
        simp only [Gen.BExpr.eval, str_ge]; exact Rep.B _
      case eq => cases h; exact ⟨_, call_eql x y _ st e1, Rep.B _⟩
      case seq => cases h; exact ⟨_, call_eql x y _ st e1, Rep.B _⟩
      case ne =>
        cases h
        refine ⟨_, call_closure _ _ hi_none_neq hc_neq x y _ _ _ _ st l1 e1 l2 e2, ?_⟩
        simp only [Gen.BExpr.eval]; exact Rep.B _
      case sne =>
        cases h
        refine ⟨_, call_closure _ _ hi_none_neq hc_neq x y _ _ _ _ st l1 e1 l2 e2, ?_⟩
        simp only [Gen.BExpr.eval]; exact Rep.B _
      all_goals cases h
  | bool a =>
    cases b with
    | num b => cases op <;> simp [sBin] at h
    | str b => cases op <;> simp [sBin] at h
    | bool b =>
      have l1 := lss_bool x y a b hx hy
      have l2 := lss_bool y x b a hy hx
      have e1 := eql_bool st.heap x y a b hx hy
      have e2 := eql_bool st.heap y x b a hy hx
      cases op <;> simp only [sBin] at h
      case eq => cases h; exact ⟨_, call_eql x y _ st e1, Rep.B _⟩
      case seq => cases h; exact ⟨_, call_eql x y _ st e1, Rep.B _⟩
      case ne =>
        cases h
        refine ⟨_, call_closure _ _ hi_none_neq hc_neq x y _ _ _ _ st l1 e1 l2 e2, ?_⟩
        simp only [Gen.BExpr.eval]; exact Rep.B _
      case sne =>
        cases h
        refine ⟨_, call_closure _ _ hi_none_neq hc_neq x y _ _ _ _ st l1 e1 l2 e2, ?_⟩
        simp only [Gen.BExpr.eval]; exact Rep.B _
      all_goals cases h

/-! ## evaluation of the compiled term -/

/-- the variables of the execution state hold (representations of) the environment's values -/
def Agree (st : St) (ρ : SEnv) : Prop :=
  ∀ x v, sLookup ρ x = some v → Rep (lookupVar st.vars ("$" ++ x)) v

theorem sig_add : builtinSig "__op__add" = some (anyN 2) := by rfl

theorem builtinSig_bin (op : BinOp) : ∃ sig, builtinSig (helperOf op) = some sig ∧
    (sig.variadic.isNone = true → 2 = sig.fixed.length) ∧ (sig.variadic.isSome = true → sig.fixed.length ≤ 2) ∧
    (∀ t ∈ sig.fixed, t = PTy.any) ∧ sig.variadic.getD PTy.any = PTy.any := by
  cases op <;> refine ⟨_, rfl, ?_, ?_, ?_, ?_⟩ <;> simp [anyN]

theorem helperOf_ne (op : BinOp) : helperOf op ≠ "null" ∧ helperOf op ≠ "__freeze" := by
  cases op <;> decide

theorem eval_scalar (ρ : SEnv) (e : SExpr) (r : SVal) (h : sEval ρ e = some r) (st : St) (hag : Agree st ρ)
    (fuel : Nat) (hf : 2 * e.depth < fuel) :
    ∃ v, evalExpr fuel (tr e) st = .ok (v, st) ∧ Rep v r := by
  induction e generalizing r fuel with
  | num q i =>
    obtain ⟨f, rfl⟩ : ∃ f, fuel = f + 1 := ⟨fuel - 1, by omega⟩
    simp only [sEval, Option.some.injEq] at h; subst h
    by_cases hd : q.den = 1
    · refine ⟨.int q.num, by simp [tr, evalExpr, hd, pure, StateT.pure, Except.pure], ?_⟩
      have := Rep.int q.num
      rwa [rat_of_den_one q hd] at this
    · exact ⟨.flt q, by simp [tr, evalExpr, hd, pure, StateT.pure, Except.pure], Rep.flt q⟩
  | str s =>
    obtain ⟨f, rfl⟩ : ∃ f, fuel = f + 1 := ⟨fuel - 1, by omega⟩
    simp only [sEval, Option.some.injEq] at h; subst h
    exact ⟨.str s, by simp [tr, evalExpr, pure, StateT.pure, Except.pure], Rep.str s⟩
  | bool b =>
    obtain ⟨f, rfl⟩ : ∃ f, fuel = f + 1 := ⟨fuel - 1, by omega⟩
    simp only [sEval, Option.some.injEq] at h; subst h
    exact ⟨.bool b, by simp [tr, evalExpr, pure, StateT.pure, Except.pure], Rep.bool b⟩
  | var x =>
    obtain ⟨f, rfl⟩ : ∃ f, fuel = f + 1 := ⟨fuel - 1, by omega⟩
    simp only [sEval] at h
    exact ⟨_, by simp [tr, evalExpr, bind, StateT.bind, get, getThe, MonadStateOf.get, StateT.get, pure, StateT.pure,
      Except.pure, Except.bind], hag x r h⟩
  | bin op l r' ihl ihr =>
    simp only [SExpr.depth] at hf
    obtain ⟨f, rfl⟩ : ∃ f, fuel = f + 2 := ⟨fuel - 2, by omega⟩
    simp only [sEval] at h
    split at h
    · rename_i a b ha hb
      obtain ⟨x, hx, rx⟩ := ihl a ha f (by omega)
      obtain ⟨y, hy, ry⟩ := ihr b hb f (by omega)
      have hev : EvalAll f st [tr l, tr r'] [x, y] := .cons hx (.cons hy .nil)
      obtain ⟨sig, hsig, h1, h2, h3, h4⟩ := builtinSig_bin op
      have hcall := evalExpr_fcall f st (helperOf op) sig [tr l, tr r'] [x, y] (helperOf_ne op).1 (helperOf_ne op).2 hsig
        (fun hv => by simpa using h1 hv) (fun hv => by simpa using h2 hv) h3 h4 hev
      simp only [tr, hcall]
      cases op
      case land =>
        simp only [Option.some.injEq] at h; subst h
        exact ⟨_, call_and x y a b rx ry st, rep_emb _⟩
      case lor =>
        simp only [Option.some.injEq] at h; subst h
        exact ⟨_, call_or x y a b rx ry st, rep_emb _⟩
      all_goals exact call_bin _ x y a b r rx ry h st
    · cases h
  | not e ih =>
    simp only [SExpr.depth] at hf
    obtain ⟨f, rfl⟩ : ∃ f, fuel = f + 2 := ⟨fuel - 2, by omega⟩
    simp only [sEval, Option.map_eq_some_iff] at h
    obtain ⟨w, hw, rfl⟩ := h
    obtain ⟨x, hx, rx⟩ := ih w hw f (by omega)
    have hev : EvalAll f st [tr e] [x] := .cons hx .nil
    have hcall := evalExpr_fcall f st "__op__not" (anyN 1) [tr e] [x] (by decide) (by decide) (by rfl)
      (fun _ => by simp [anyN]) (fun hv => by simp [anyN] at hv) (by simp [anyN]) (by simp [anyN]) hev
    simp only [tr, hcall, call_not]
    refine ⟨_, rfl, ?_⟩
    rw [truth_rep st.heap rx]; exact Rep.B _
  | neg e ih =>
    simp only [SExpr.depth] at hf
    obtain ⟨f, rfl⟩ : ∃ f, fuel = f + 2 := ⟨fuel - 2, by omega⟩
    simp only [sEval] at h
    split at h
    · rename_i q hq
      simp only [Option.some.injEq] at h; subst h
      obtain ⟨x, hx, rx⟩ := ih (.num q) hq f (by omega)
      have hev : EvalAll f st [tr e] [x] := .cons hx .nil
      have hcall := evalExpr_fcall f st "__op__sub" { fixed := [], variadic := some .any } [tr e] [x] (by decide) (by decide)
        (by rfl) (fun hv => by simp at hv) (fun _ => by simp) (by simp) (by simp) hev
      simp only [tr, hcall]
      exact ⟨_, call_neg x q rx st, Rep.N _⟩
    · cases h
  | cond c a b ihc iha ihb =>
    simp only [SExpr.depth] at hf
    obtain ⟨f, rfl⟩ : ∃ f, fuel = f + 2 := ⟨fuel - 2, by omega⟩
    simp only [sEval] at h
    split at h
    · rename_i vc va vb hc ha hb
      simp only [Option.some.injEq] at h; subst h
      obtain ⟨t, ht, rt⟩ := ihc vc hc f (by omega)
      obtain ⟨x, hx, rx⟩ := iha va ha f (by omega)
      obtain ⟨y, hy, ry⟩ := ihb vb hb f (by omega)
      have hev : EvalAll f st [tr c, tr a, tr b] [t, x, y] := .cons ht (.cons hx (.cons hy .nil))
      have hcall := evalExpr_fcall f st "__if" (anyN 3) [tr c, tr a, tr b] [t, x, y] (by decide) (by decide) (by rfl)
        (fun _ => by simp [anyN]) (fun hv => by simp [anyN] at hv) (by simp [anyN]) (by simp [anyN]) hev
      simp only [tr, hcall]
      exact ⟨_, call_if t x y vc va vb rt rx ry st, rep_emb _⟩
    · cases h

end Pug.Props.C01S
