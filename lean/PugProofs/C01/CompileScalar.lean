import PugModel.JS.Scalar
import PugModel.Tpl.Compile
/-!
(B1) the transpiler model maps every well-formed scalar expression to the explicit template term `tr e`.
-/
namespace Pug.Props.C01S
open Pug Pug.JS Pug.Tpl

def helperOf : BinOp → String
  | .add => "__op__add" | .sub => "__op__sub" | .mul => "__op__mul" | .div => "__op__slash" | .mod => "__op__mod"
  | .lt => "__op__lt" | .le => "__op__lte" | .gt => "__op__gt" | .ge => "__op__gte"
  | .eq | .seq => "__op__eql" | .ne | .sne => "__op__neq"
  | .land => "__op__and" | .lor => "__op__or"

/-- the template term the transpiler emits for a scalar expression -/
def tr : SExpr → TExpr
  | .num q _ => .lit (if q.den == 1 then .int q.num else .flt q)
  | .str s => .lit (.str s)
  | .bool b => .lit (.bool b)
  | .var x => .var x
  | .bin op l r => .fcall (helperOf op) [tr l, tr r]
  | .not e => .fcall "__op__not" [tr e]
  | .neg e => .fcall "__op__sub" [tr e]
  | .cond c a b => .fcall "__if" [tr c, tr a, tr b]

/-- well-formed for the transpiler: string literals are not template strings, variables are not function names -/
def WF (env : CEnv) : SExpr → Prop
  | .num .. | .bool _ => True
  | .str s => (s.splitOn "${").length ≤ 1
  | .var x => env.funcs.contains x = false
  | .bin _ l r => WF env l ∧ WF env r
  | .not e | .neg e => WF env e
  | .cond c a b => WF env c ∧ WF env a ∧ WF env b

theorem opHelper_bin (op : BinOp) : opHelper (tokenName op) = .ok (helperOf op) := by
  cases op <;> rfl

theorem opHelper_not : opHelper "NOT" = .ok "__op__not" := rfl
theorem opHelper_minus : opHelper "MINUS" = .ok "__op__sub" := rfl

theorem compile_scalar (env : CEnv) (e : SExpr) (hw : WF env e) (fuel : Nat) (hf : e.depth < fuel) :
    compileExprF fuel env e.toExpr = .ok (some (tr e)) := by
  induction e generalizing fuel with
  | num q i =>
    obtain ⟨f, rfl⟩ : ∃ f, fuel = f + 1 := ⟨fuel - 1, by omega⟩
    simp [SExpr.toExpr, compileExprF, tr, pure, Except.pure]
  | str s =>
    obtain ⟨f, rfl⟩ : ∃ f, fuel = f + 1 := ⟨fuel - 1, by omega⟩
    have : ¬ ((s.splitOn "${").length > 1) := by simp only [WF] at hw; omega
    simp [SExpr.toExpr, compileExprF, tr, pure, Except.pure, this]
  | bool b =>
    obtain ⟨f, rfl⟩ : ∃ f, fuel = f + 1 := ⟨fuel - 1, by omega⟩
    simp [SExpr.toExpr, compileExprF, tr, pure, Except.pure]
  | var x =>
    obtain ⟨f, rfl⟩ : ∃ f, fuel = f + 1 := ⟨fuel - 1, by omega⟩
    simp only [WF] at hw
    have hx : ¬ x ∈ env.funcs := by simpa using hw
    simp [SExpr.toExpr, compileExprF, tr, pure, Except.pure, hx]
  | bin op l r ihl ihr =>
    obtain ⟨f, rfl⟩ : ∃ f, fuel = f + 1 := ⟨fuel - 1, by omega⟩
    simp only [WF] at hw
    simp only [SExpr.depth] at hf
    have h1 := ihl hw.1 f (by omega)
    have h2 := ihr hw.2 f (by omega)
    simp [SExpr.toExpr, compileExprF, tr, opHelper_bin, h1, h2, bind, Except.bind, pure, Except.pure]
  | not e ih =>
    obtain ⟨f, rfl⟩ : ∃ f, fuel = f + 1 := ⟨fuel - 1, by omega⟩
    simp only [WF] at hw
    simp only [SExpr.depth] at hf
    have h1 := ih hw f (by omega)
    simp [SExpr.toExpr, compileExprF, tr, opHelper_not, h1, bind, Except.bind, pure, Except.pure]
  | neg e ih =>
    obtain ⟨f, rfl⟩ : ∃ f, fuel = f + 1 := ⟨fuel - 1, by omega⟩
    simp only [WF] at hw
    simp only [SExpr.depth] at hf
    have h1 := ih hw f (by omega)
    simp [SExpr.toExpr, compileExprF, tr, opHelper_minus, h1, bind, Except.bind, pure, Except.pure]
  | cond c a b ihc iha ihb =>
    obtain ⟨f, rfl⟩ : ∃ f, fuel = f + 1 := ⟨fuel - 1, by omega⟩
    simp only [WF] at hw
    simp only [SExpr.depth] at hf
    have h1 := ihc hw.1 f (by omega)
    have h2 := iha hw.2.1 f (by omega)
    have h3 := ihb hw.2.2 f (by omega)
    simp [SExpr.toExpr, compileExprF, tr, h1, h2, h3, bind, Except.bind, pure, Except.pure]

end Pug.Props.C01S
