import PugModel.Gen.Types
/-!
Lifting a check over the (finitely many) valuations of the atoms a guarded-return program mentions to ALL valuations.
-/
namespace Pug.Gen

theorem GCond.eval_congr (c : GCond) (v w : String → Bool) (h : ∀ a ∈ c.atoms, v a = w a) : c.eval v = c.eval w := by
  induction c with
  | atom a => exact h a (by simp [GCond.atoms])
  | not c ih => simp only [GCond.eval]; rw [ih h]
  | and a b iha ihb =>
    simp only [GCond.eval]
    rw [iha (fun x hx => h x (by simp [GCond.atoms, hx])), ihb (fun x hx => h x (by simp [GCond.atoms, hx]))]
  | or a b iha ihb =>
    simp only [GCond.eval]
    rw [iha (fun x hx => h x (by simp [GCond.atoms, hx])), ihb (fun x hx => h x (by simp [GCond.atoms, hx]))]
  | tt => rfl

theorem GStmt.run_congr (p : List GStmt) (v w : String → Bool) (done : List String)
    (h : ∀ a ∈ GStmt.atoms p, v a = w a) : GStmt.run v p done = GStmt.run w p done := by
  induction p generalizing done with
  | nil => rfl
  | cons s rest ih =>
    cases s with
    | act n => simp only [GStmt.run]; exact ih _ (fun a ha => h a (by simpa [GStmt.atoms] using ha))
    | retIf c out =>
      simp only [GStmt.run]
      rw [GCond.eval_congr c v w (fun a ha => h a (by simp [GStmt.atoms, ha]))]
      split
      · rfl
      · exact ih _ (fun a ha => h a (by simp [GStmt.atoms, ha]))
    | ret out => rfl

theorem mem_allBits (bits : List Bool) : bits ∈ allBits bits.length := by
  induction bits with
  | nil => simp [allBits]
  | cons b rest ih =>
    simp only [allBits, List.length_cons, List.mem_flatMap]
    exact ⟨rest, ih, by cases b <;> simp⟩

theorem valOf_map (as : List String) (v : String → Bool) (a : String) (ha : a ∈ as) : valOf as (as.map v) a = v a := by
  unfold valOf
  induction as with
  | nil => cases ha
  | cons x rest ih =>
    simp only [List.map_cons, List.zip_cons_cons, List.lookup_cons]
    by_cases hx : a = x
    · subst hx; simp
    · have : (a == x) = false := by simpa using hx
      simp only [this]
      exact ih (by rcases List.mem_cons.mp ha with h | h; exact absurd h hx; exact h)

/-- a Boolean check `P` that depends on the valuation only through the atoms `as` holds for EVERY valuation as soon as it
holds for the `2 ^ as.length` valuations over `as` -/
theorem forall_vals (as : List String) (P : (String → Bool) → Bool)
    (hP : ∀ v w : String → Bool, (∀ a ∈ as, v a = w a) → P v = P w)
    (h : (allBits as.length).all (fun b => P (valOf as b)) = true) (v : String → Bool) : P v = true := by
  have hb : as.map v ∈ allBits as.length := by simpa using mem_allBits (as.map v)
  have := List.all_eq_true.mp h _ hb
  rw [← this]
  exact hP v _ (fun a ha => (valOf_map as v a ha).symm)

end Pug.Gen
