import PugProofs.C06.Static
import PugProofs.C01.EndToEnd
/-!
Documents that mix static structure (text, doctype, tags without attributes, any nesting) with escaped buffered code `= e`
over the scalar fragment, anywhere in the tree: the whole pipeline transpile -> merge -> trim -> nest -> execute prints the
serialisation of the tree with `escape (value of e)` at every code node.

Generalises `PugProofs/C06/Static.lean` (fixed action `{{"{"}}`) to arbitrary print actions without trim markers, with a
relational account of what every fragment prints.
-/
set_option linter.unusedSimpArgs false
namespace Pug.Props.MixedS
open Pug Pug.Tpl Pug.JS Pug.Props.C01S Pug.Props.C06S

/-! ## structure: texts and print actions without trim markers -/

def ntB : Frag → Bool
  | .text _ => true
  | .act false false (.print _ _) => true
  | _ => false

def NT (fs : List Frag) : Prop := ∀ f ∈ fs, ntB f = true

theorem nt_cons {f : Frag} {fs : List Frag} : NT (f :: fs) ↔ ntB f = true ∧ NT fs := by
  simp [NT]

theorem nt_act {lt rt : Bool} {x : Act} (h : ntB (.act lt rt x) = true) :
    lt = false ∧ rt = false ∧ ∃ t esc, x = .print t esc := by
  unfold ntB at h
  split at h <;> simp_all

theorem nt_blockDef {m : String} {b : List Frag} : ntB (.blockDef m b) = true → False := by
  simp [ntB]

theorem merge_nt (n : Nat) : ∀ fs : List Frag, fs.length ≤ n → NT fs → NT (mergeTexts fs) := by
  induction n with
  | zero =>
    intro fs hl _
    have : fs = [] := List.length_eq_zero_iff.mp (by omega)
    subst this
    simp [mergeTexts, NT]
  | succ n ih =>
    intro fs hl hp
    match fs, hl, hp with
    | [], _, _ => simp [mergeTexts, NT]
    | [.text a], _, _ => simp [mergeTexts, NT, ntB]
    | .text a :: .text b :: rest, hl, hp =>
      have hp' : NT (Frag.text (a ++ b) :: rest) := by
        rw [nt_cons] at hp ⊢
        exact ⟨rfl, (nt_cons.mp hp.2).2⟩
      have := ih (.text (a ++ b) :: rest) (by simp at hl ⊢; omega) hp'
      simpa only [mergeTexts] using this
    | .text a :: .act lt rt x :: rest, hl, hp =>
      have hp' : NT (Frag.act lt rt x :: rest) := (nt_cons.mp hp).2
      have hx := (nt_cons.mp hp').1
      have := ih rest (by simp at hl; omega) (nt_cons.mp hp').2
      simp only [mergeTexts]
      exact nt_cons.mpr ⟨rfl, nt_cons.mpr ⟨hx, this⟩⟩
    | .text a :: .blockDef m b :: rest, _, hp => exact (nt_blockDef (nt_cons.mp (nt_cons.mp hp).2).1).elim
    | .blockDef m b :: rest, _, hp => exact (nt_blockDef (nt_cons.mp hp).1).elim
    | .act lt rt x :: rest, hl, hp =>
      have hx := (nt_cons.mp hp).1
      have := ih rest (by simp at hl; omega) (nt_cons.mp hp).2
      simp only [mergeTexts]
      exact nt_cons.mpr ⟨hx, this⟩

theorem trims_nt (n : Nat) : ∀ fs : List Frag, fs.length ≤ n → NT fs → applyTrims fs = fs := by
  induction n with
  | zero =>
    intro fs hl _
    have : fs = [] := List.length_eq_zero_iff.mp (by omega)
    subst this; simp [applyTrims]
  | succ n ih =>
    intro fs hl hp
    match fs, hl, hp with
    | [], _, _ => simp [applyTrims]
    | [.text a], _, _ => simp [applyTrims]
    | .text a :: .text b :: rest, hl, hp =>
      have := ih (.text b :: rest) (by simp at hl ⊢; omega) (nt_cons.mp hp).2
      simp [applyTrims, this]
    | .text a :: .blockDef m b :: rest, _, hp => exact (nt_blockDef (nt_cons.mp (nt_cons.mp hp).2).1).elim
    | .text a :: .act lt rt x :: rest, hl, hp =>
      have hp' := (nt_cons.mp hp).2
      obtain ⟨rfl, rfl, t, esc, rfl⟩ := nt_act (nt_cons.mp hp').1
      have := ih (.act false false (.print t esc) :: rest) (by simp at hl ⊢; omega) hp'
      simp [applyTrims, this]
    | .blockDef m b :: rest, _, hp => exact (nt_blockDef (nt_cons.mp hp).1).elim
    | .act lt rt x :: rest, hl, hp =>
      obtain ⟨rfl, rfl, t, esc, rfl⟩ := nt_act (nt_cons.mp hp).1
      have := ih rest (by simp at hl; omega) (nt_cons.mp hp).2
      cases rest with
      | nil => simp [applyTrims]
      | cons f r => cases f <;> simp_all [applyTrims]

/-- the template nodes of a list of texts and print actions: nothing nests -/
def nodesOfG : List Frag → List TNode
  | [] => []
  | .text s :: rest => if s.isEmpty then nodesOfG rest else .text s :: nodesOfG rest
  | .act _ _ (.print t esc) :: rest => .print t esc :: nodesOfG rest
  | _ :: rest => nodesOfG rest

theorem parse_nt (fs : List Frag) (hp : NT fs) (fuel : Nat) (hf : fs.length < fuel) :
    parseListF fuel fs = .ok (nodesOfG fs, .eof, []) := by
  induction fs generalizing fuel with
  | nil =>
    obtain ⟨f, rfl⟩ : ∃ f, fuel = f + 1 := ⟨fuel - 1, by omega⟩
    simp [parseListF, nodesOfG, pure, Except.pure]
  | cons f rest ih =>
    obtain ⟨f', rfl⟩ : ∃ f', fuel = f' + 1 := ⟨fuel - 1, by omega⟩
    have hrest := ih (nt_cons.mp hp).2 f' (by simp at hf; omega)
    cases f with
    | text s =>
      by_cases hs : s.isEmpty = true <;>
        simp [parseListF, nodesOfG, hrest, hs, bind, Except.bind, pure, Except.pure]
    | blockDef m b => exact (nt_blockDef (nt_cons.mp hp).1).elim
    | act lt rt x =>
      obtain ⟨rfl, rfl, t, esc, rfl⟩ := nt_act (nt_cons.mp hp).1
      simp [parseListF, nodesOfG, hrest, bind, Except.bind, pure, Except.pure]

theorem hoist_nt (fuel : Nat) : ∀ (fs : List Frag) (k : Nat), NT fs → hoistBlocksF fuel fs k = (fs, [], k) := by
  induction fuel with
  | zero => intro fs k _; rfl
  | succ fuel ih =>
    intro fs k hp
    cases fs with
    | nil => rfl
    | cons f rest =>
      have hrest := ih rest k (nt_cons.mp hp).2
      cases f with
      | text s => simp [hoistBlocksF, hrest]
      | act lt rt x => simp [hoistBlocksF, hrest]
      | blockDef m b => exact (nt_blockDef (nt_cons.mp hp).1).elim

theorem parseBody_nt (fs : List Frag) (hp : NT fs) :
    parseBody fs = .ok (nodesOfG (mergeTexts fs)) := by
  have hm := merge_nt fs.length fs (Nat.le_refl _) hp
  have ht := trims_nt (mergeTexts fs).length (mergeTexts fs) (Nat.le_refl _) hm
  have hparse := parse_nt (mergeTexts fs) hm (2 * (mergeTexts fs).length + 2) (by omega)
  simp [parseBody, parseList, ht, hparse, bind, Except.bind, pure, Except.pure]

/-! ## what the fragments print, relative to the JavaScript values of the page data -/

/-- what one fragment prints: its text; `{`; or the escaped JavaScript string value of the scalar expression it was compiled from -/
inductive FO (ρ : SEnv) : Frag → String → Prop
  | text (s : String) : FO ρ (.text s) s
  | lbrace : FO ρ (.act false false (.print (.lit (.str "{")) false)) "{"
  | code (e : SExpr) (s : String) (h : sEval ρ e = some (.str s)) (hd : e.depth < 50000) :
      FO ρ (.act false false (.print (tr e) true)) (pugHtmlEscape s)

inductive FOs (ρ : SEnv) : List Frag → String → Prop
  | nil : FOs ρ [] ""
  | cons {f : Frag} {s : String} {fs : List Frag} {t : String} : FO ρ f s → FOs ρ fs t → FOs ρ (f :: fs) (s ++ t)

theorem fo_nt {ρ : SEnv} {f : Frag} {s : String} (h : FO ρ f s) : ntB f = true := by
  cases h <;> rfl

theorem fos_nt {ρ : SEnv} {fs : List Frag} {s : String} (h : FOs ρ fs s) : NT fs := by
  induction h with
  | nil => simp [NT]
  | cons h1 _ ih => exact nt_cons.mpr ⟨fo_nt h1, ih⟩

theorem fos_append {ρ : SEnv} {a b : List Frag} {s t : String} (ha : FOs ρ a s) (hb : FOs ρ b t) :
    FOs ρ (a ++ b) (s ++ t) := by
  induction ha with
  | nil => simpa using hb
  | cons h1 _ ih =>
    rw [List.cons_append, String.append_assoc]
    exact .cons h1 ih

theorem fos_of_plain {ρ : SEnv} : ∀ (fs : List Frag), Plain fs → FOs ρ fs (fragsStr fs) := by
  intro fs
  induction fs with
  | nil => intro _; exact .nil
  | cons f rest ih =>
    intro hp
    have h1 := (plain_cons.mp hp).1
    have h2 := ih (plain_cons.mp hp).2
    cases f with
    | text s => exact .cons (.text s) h2
    | blockDef m b => simp [plainB] at h1
    | act lt rt x =>
      obtain ⟨rfl, rfl, rfl⟩ := plain_act h1
      exact .cons .lbrace h2

theorem fos_text_inv {ρ : SEnv} {a : String} {rest : List Frag} {s : String} (h : FOs ρ (.text a :: rest) s) :
    ∃ t, FOs ρ rest t ∧ s = a ++ t := by
  cases h with
  | cons h1 h2 => cases h1; exact ⟨_, h2, rfl⟩

theorem fos_cons_inv {ρ : SEnv} {f : Frag} {rest : List Frag} {s : String} (h : FOs ρ (f :: rest) s) :
    ∃ u t, FO ρ f u ∧ FOs ρ rest t ∧ s = u ++ t := by
  cases h with
  | cons h1 h2 => exact ⟨_, _, h1, h2, rfl⟩

theorem merge_fos {ρ : SEnv} (n : Nat) : ∀ (fs : List Frag) (s : String), fs.length ≤ n → FOs ρ fs s → FOs ρ (mergeTexts fs) s := by
  induction n with
  | zero =>
    intro fs s hl h
    have : fs = [] := List.length_eq_zero_iff.mp (by omega)
    subst this
    simpa [mergeTexts] using h
  | succ n ih =>
    intro fs s hl h
    match fs, hl, h with
    | [], _, h => simpa [mergeTexts] using h
    | [.text a], _, h => simpa [mergeTexts] using h
    | .text a :: .text b :: rest, hl, h =>
      obtain ⟨t, h2, rfl⟩ := fos_text_inv h
      obtain ⟨t', h3, rfl⟩ := fos_text_inv h2
      have : FOs ρ (.text (a ++ b) :: rest) (a ++ b ++ t') := .cons (.text _) h3
      have := ih (.text (a ++ b) :: rest) _ (by simp at hl ⊢; omega) this
      simpa only [mergeTexts, String.append_assoc] using this
    | .text a :: .act lt rt x :: rest, hl, h =>
      obtain ⟨t, h2, rfl⟩ := fos_text_inv h
      obtain ⟨u, t', hx, h3, rfl⟩ := fos_cons_inv h2
      have := ih rest t' (by simp at hl; omega) h3
      simp only [mergeTexts]
      exact .cons (.text a) (.cons hx this)
    | .text a :: .blockDef m b :: rest, _, h => exact (nt_blockDef (nt_cons.mp (nt_cons.mp (fos_nt h)).2).1).elim
    | .blockDef m b :: rest, _, h => exact (nt_blockDef (nt_cons.mp (fos_nt h)).1).elim
    | .act lt rt x :: rest, hl, h =>
      obtain ⟨u, t', hx, h3, rfl⟩ := fos_cons_inv h
      have := ih rest t' (by simp at hl; omega) h3
      simp only [mergeTexts]
      exact .cons hx this

theorem agree_out {st : St} {ρ : SEnv} (h : Agree st ρ) (o : String) : Agree { st with out := o } ρ := h

/-- an escaped code node over a scalar expression of string value `v` appends exactly `escape v` -/
theorem walk_code {ρ : SEnv} (e : SExpr) (v : String) (h : sEval ρ e = some (.str v)) (st : St) (hag : Agree st ρ)
    (env : Tpl.Env) (fuel : Nat) (hf : 2 * e.depth + 1 < fuel) :
    walk fuel env (.print (tr e) true) st = .ok ((), { st with out := st.out ++ pugHtmlEscape v }) := by
  obtain ⟨f, rfl⟩ : ∃ f, fuel = f + 1 := ⟨fuel - 1, by omega⟩
  obtain ⟨w, hv, rv⟩ := eval_scalar ρ e (.str v) h st hag f (by omega)
  have hw : walk (f + 1) env (.print (tr e) true) st = printVal w true st := by
    simp [walk, hv, bind, StateT.bind, Except.bind]
  rw [hw]
  cases rv <;>
    simp [printVal, bind, StateT.bind, getHeap, get, getThe, MonadStateOf.get, StateT.get, pure, Except.pure, Except.bind,
      StateT.pure, sprint, strFuel, objStr, ofOpt, emit, modify, modifyGet, MonadStateOf.modifyGet, StateT.modifyGet]

/-- executing the nodes prints what the fragments denote, and touches nothing but the output -/
theorem walk_fos {ρ : SEnv} (env : Tpl.Env) (fs : List Frag) (s : String) (h : FOs ρ fs s) (st : St) (hag : Agree st ρ)
    (fuel : Nat) (hf : fs.length + 100003 < fuel) :
    walkList fuel env (nodesOfG fs) st = .ok ((), { st with out := st.out ++ s }) := by
  induction h generalizing fuel st with
  | nil =>
    obtain ⟨f, rfl⟩ : ∃ f, fuel = f + 1 := ⟨fuel - 1, by omega⟩
    simp [nodesOfG, walkList, pure, StateT.pure, Except.pure]
  | @cons f u rest t h1 _ ih =>
    obtain ⟨f', rfl⟩ : ∃ f', fuel = f' + 2 := ⟨fuel - 2, by omega⟩
    cases h1 with
    | text =>
      by_cases hs : u.isEmpty = true
      · have hse : u = "" := by simpa [String.isEmpty_iff] using hs
        have := ih st hag (f' + 2) (by simp at hf; omega)
        simp [nodesOfG, hs, this, hse]
      · have := ih { st with out := st.out ++ u } (agree_out hag _) (f' + 1) (by simp at hf; omega)
        simp [nodesOfG, hs, walkList, walk, emit, modify, modifyGet, MonadStateOf.modifyGet, StateT.modifyGet, bind, StateT.bind,
          Except.bind, pure, Except.pure, this, String.append_assoc]
    | lbrace =>
      have := ih { st with out := st.out ++ "{" } (agree_out hag _) (f' + 1) (by simp at hf; omega)
      obtain ⟨f'', rfl⟩ : ∃ f'', f' = f'' + 1 := ⟨f' - 1, by simp at hf; omega⟩
      simp [nodesOfG, walkList, walk, evalExpr, printVal, sprint, ofOpt, emit, modify, modifyGet, MonadStateOf.modifyGet,
        StateT.modifyGet, getHeap, get, getThe, MonadStateOf.get, StateT.get, bind, StateT.bind, Except.bind, pure, StateT.pure,
        Except.pure, this, String.append_assoc]
    | code e v hv hd =>
      have hw := walk_code e v hv st hag env (f' + 1) (by simp at hf; omega)
      have := ih { st with out := st.out ++ pugHtmlEscape v } (agree_out hag _) (f' + 1) (by simp at hf; omega)
      simp only [nodesOfG]
      rw [walkList]
      simp only [bind, StateT.bind, hw, Except.bind, this, String.append_assoc]

/-! ## mixed documents: static structure with escaped scalar code anywhere -/

def Rel2 {α β : Type} (R : α → β → Prop) : List α → List β → Prop
  | [], [] => True
  | a :: as, b :: bs => R a b ∧ Rel2 R as bs
  | _, _ => False

def cat (outs : List String) : String := outs.foldr (· ++ ·) ""

/-- `MSer ρ env fuel n out`: the node `n` is text, a doctype, a tag without attributes (not `script`) over such nodes, or the
escaped buffered code `= e` of a well-formed scalar expression whose JavaScript value over the page data `ρ` is a string - and
`out` is its reference serialisation (start tag, children, end tag; void elements without children and end tag; text as it is;
the code node's value escaped). -/
def MSer (ρ : SEnv) (env : CEnv) : Nat → Node → String → Prop
  | 0, _, _ => False
  | fuel + 1, n, out =>
    match n with
    | .text s => out = s
    | .doctype v => out = "<!DOCTYPE " ++ v ++ ">\n"
    | .codeBuf x esc _ => ∃ e s, x = e.toExpr ∧ esc = true ∧ WF env e ∧ TopEsc e ∧ e.depth < 50000 ∧
        sEval ρ e = some (.str s) ∧ out = pugHtmlEscape s
    | .tag name _ attrs ablocks kids => attrs = [] ∧ ablocks = [] ∧ name ≠ "script" ∧
        ∃ outs, Rel2 (MSer ρ env fuel) kids outs ∧
          out = if voidTags.contains name then "<" ++ name ++ ">" else "<" ++ name ++ ">" ++ cat outs ++ "</" ++ name ++ ">"
    | _ => False

/-- a list of such nodes (nesting depth at most `d`) and the concatenation of their serialisations -/
def MSerL (ρ : SEnv) (env : CEnv) (d : Nat) (ns : List Node) (out : String) : Prop :=
  ∃ outs, Rel2 (MSer ρ env d) ns outs ∧ out = cat outs

theorem mapM_fos {ρ : SEnv} (g : Node → CM (List Frag)) (R : Node → String → Prop)
    (h : ∀ n out, R n out → ∃ fs, g n = .ok fs ∧ FOs ρ fs out) :
    ∀ (ns : List Node) (outs : List String), Rel2 R ns outs →
      ∃ fss, ns.mapM g = .ok fss ∧ FOs ρ fss.flatten (cat outs) := by
  intro ns
  induction ns with
  | nil =>
    intro outs hr
    cases outs with
    | nil => exact ⟨[], rfl, .nil⟩
    | cons _ _ => simp [Rel2] at hr
  | cons n rest ih =>
    intro outs hr
    cases outs with
    | nil => simp [Rel2] at hr
    | cons o os =>
      simp only [Rel2] at hr
      obtain ⟨fs, h1, h2⟩ := h n o hr.1
      obtain ⟨fss, i1, i2⟩ := ih os hr.2
      refine ⟨fs :: fss, by simp [List.mapM_cons, h1, i1, bind, Except.bind, pure, Except.pure], ?_⟩
      simpa [cat] using fos_append h2 i2

theorem compile_mixed {ρ : SEnv} (env : CEnv) (hd : env.debug = false) (d : Nat) :
    ∀ n out, MSer ρ env d n out → ∀ fuel, 2 * d ≤ fuel → ∃ fs, compileNodeF fuel env n = .ok fs ∧ FOs ρ fs out := by
  induction d with
  | zero => intro n out h; simp [MSer] at h
  | succ d ih =>
    intro n out hn fuel hfuel
    obtain ⟨f, rfl⟩ : ∃ f, fuel = f + 2 := ⟨fuel - 2, by omega⟩
    cases n with
    | text s =>
      simp only [MSer] at hn; subst hn
      obtain ⟨fs, h1, h2, h3⟩ := textFrag_plain out
      exact ⟨fs, by simp [compileNodeF, h1], by simpa [h3] using fos_of_plain (ρ := ρ) fs h2⟩
    | doctype v =>
      simp only [MSer] at hn; subst hn
      exact ⟨[.text ("<!DOCTYPE " ++ v ++ ">\n")], by simp [compileNodeF, pure, Except.pure],
        by simpa using FOs.cons (FO.text (ρ := ρ) ("<!DOCTYPE " ++ v ++ ">\n")) .nil⟩
    | codeBuf x esc inl =>
      simp only [MSer] at hn
      obtain ⟨e, s, rfl, rfl, hw, ht, hdep, hv, rfl⟩ := hn
      refine ⟨[.act false false (.print (tr e) true)], ?_, ?_⟩
      · rw [compileNodeF_codeBuf, compileBuffered_scalar env e hw ht hdep]
      · simpa using FOs.cons (FO.code (ρ := ρ) e s hv hdep) .nil
    | tag name isInline attrs ablocks kids =>
      simp only [MSer] at hn
      obtain ⟨ha, hb, hname, outs, hk, rfl⟩ := hn
      subst ha; subst hb
      obtain ⟨fss, m1, s2⟩ := mapM_fos (ρ := ρ) (compileNodeF f env) (MSer ρ env d)
        (fun n out h => ih n out h f (by omega)) kids outs hk
      have s1 : compileNodesF (f + 1) env kids = .ok fss.flatten := by
        simp [compileNodesF, m1, bind, Except.bind, pure, Except.pure]
      have hscript : (name == "script") = false := by simpa using hname
      by_cases hv : voidTags.contains name = true
      · have hv' : name ∈ voidTags := by simpa using hv
        refine ⟨[.text ("<" ++ name), .text ">"], ?_, ?_⟩
        · simp [compileNodeF, s1, compileAttrs, hv, hv', hd, hscript, bind, Except.bind, pure, Except.pure]
        · have : FOs ρ [.text ("<" ++ name), .text ">"] (("<" ++ name) ++ (">" ++ "")) :=
            .cons (.text _) (.cons (.text _) .nil)
          simpa [hv, hv', String.append_assoc] using this
      · have hv' : ¬ name ∈ voidTags := by simpa using hv
        refine ⟨[.text ("<" ++ name), .text ">"] ++ fss.flatten ++ [.text ("</" ++ name ++ ">")], ?_, ?_⟩
        · simp [compileNodeF, s1, compileAttrs, hv, hv', hd, hscript, bind, Except.bind, pure, Except.pure]
        · have h1 : FOs ρ [.text ("<" ++ name), .text ">"] (("<" ++ name) ++ (">" ++ "")) :=
            .cons (.text _) (.cons (.text _) .nil)
          have h3 : FOs ρ [.text ("</" ++ name ++ ">")] (("</" ++ name ++ ">") ++ "") := .cons (.text _) .nil
          have := fos_append (fos_append h1 s2) h3
          simpa [hv, hv', String.append_assoc] using this
    | _ => simp [MSer] at hn

theorem compileNodes_mixed {ρ : SEnv} (env : CEnv) (hd : env.debug = false) (d : Nat) (hdep : 2 * d < nodeFuel)
    (ns : List Node) (out : String) (h : MSerL ρ env d ns out) :
    ∃ fs, compileNodes env ns = .ok fs ∧ FOs ρ fs out := by
  obtain ⟨outs, hr, rfl⟩ := h
  obtain ⟨fss, h1, h2⟩ := mapM_fos (ρ := ρ) (compileNodeF (nodeFuel - 1) env) (MSer ρ env d)
    (fun n out h => compile_mixed env hd d n out h (nodeFuel - 1) (by omega)) ns outs hr
  refine ⟨fss.flatten, ?_, h2⟩
  show compileNodesF (99999 + 1) env ns = _
  simp only [compileNodesF]
  have : nodeFuel - 1 = 99999 := rfl
  rw [this] at h1
  simp [h1, bind, Except.bind, pure, Except.pure]

/-! ## no mixins, no blocks in a mixed document -/

theorem collect_mixed {ρ : SEnv} {env : CEnv} (fuel : Nat) :
    ∀ (d : Nat) (ns : List Node) (outs : List String), Rel2 (MSer ρ env d) ns outs → collectMixinDefsF fuel ns = [] := by
  induction fuel with
  | zero => intro d ns outs _; rfl
  | succ fuel ih =>
    intro d ns outs hr
    cases ns with
    | nil => rfl
    | cons n rest =>
      cases outs with
      | nil => simp [Rel2] at hr
      | cons o os =>
        simp only [Rel2] at hr
        have hrest : collectMixinDefsF fuel rest = [] := ih d rest os hr.2
        have hn := hr.1
        cases d with
        | zero => simp [MSer] at hn
        | succ d' =>
          cases n with
          | text s => simp [collectMixinDefsF, hrest]
          | doctype v => simp [collectMixinDefsF, hrest]
          | codeBuf x esc inl => simp [collectMixinDefsF, hrest]
          | tag name isInline attrs ablocks kids =>
            simp only [MSer] at hn
            obtain ⟨_, _, _, kouts, hk, _⟩ := hn
            simp [collectMixinDefsF, hrest, ih d' kids kouts hk]
          | _ => simp [MSer] at hn

/-- the whole transpiler on a mixed document -/
theorem compileDoc_mixed {ρ : SEnv} (env : CEnv) (hd : env.debug = false) (d : Nat) (hdep : 2 * d < nodeFuel)
    (doc : List Node) (out : String) (h : MSerL ρ env d doc out) :
    ∃ frags, compileNodes env doc = .ok frags ∧ FOs ρ frags out ∧
      compileDoc env doc = .ok { main := nodesOfG (mergeTexts frags), defs := [] } := by
  obtain ⟨frags, h1, h2⟩ := compileNodes_mixed env hd d hdep doc out h
  refine ⟨frags, h1, h2, ?_⟩
  obtain ⟨outs, hr, _⟩ := h
  have hc : collectMixinDefs doc = [] := collect_mixed fragFuel d doc outs hr
  have hh : hoistBlocks frags 0 = (frags, [], 0) := hoist_nt fragFuel frags 0 (fos_nt h2)
  have hpb := parseBody_nt frags (fos_nt h2)
  simp [compileDoc, h1, hc, hh, hpb, bind, Except.bind, pure, Except.pure]

end Pug.Props.MixedS
