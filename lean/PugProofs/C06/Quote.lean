import PugModel.Tpl.Quote
/-! the quoting of literal text prints the text (helper lemmas of C06, used by Props/C06.lean and C06/Static.lean) -/
set_option linter.unusedSimpArgs false
namespace Pug.Props.C06
open Pug Pug.Tpl

/-! ## the quoting prints the text -/

@[simp] theorem flush_nil : flush [] = [] := by simp [flush]

theorem outputOf_append (a b : List Piece) : outputOf (a ++ b) = outputOf a ++ outputOf b := by
  induction a with
  | nil => rfl
  | cons p rest ih => cases p <;> simp [outputOf, ih]

theorem outputOf_flush (cur : List Char) : outputOf (flush cur) = cur.reverse := by
  unfold flush; split
  · rename_i h; simp [List.isEmpty_iff] at h; simp [h, outputOf]
  · simp [outputOf]

theorem quote_output_gen (t cur : List Char) : outputOf (quoteL t cur) = cur.reverse ++ t := by
  induction t generalizing cur with
  | nil => simp [quoteL, outputOf_flush]
  | cons c rest ih =>
    unfold quoteL
    split
    · rename_i hc; subst hc
      split
      · simp [outputOf_append, outputOf_flush, outputOf, quoteL]
      · rename_i d r2
        split
        · simp [outputOf_append, outputOf_flush, outputOf, ih]
        · simp [ih]
    · simp [ih]

/-- **C06 (literal text, byte for byte).** -/
theorem quote_output (t : List Char) : outputOf (quoteL t []) = t := by
  simpa using quote_output_gen t []

end Pug.Props.C06
