import PugModel.Tpl.Compile
import PugProofs.C06.Quote
/-!
Static documents (text, tags without attributes, doctype - any nesting, any text incl. braces): the whole pipeline
transpile -> merge -> trim -> nest -> execute prints exactly the serialisation of the tree.
-/
set_option linter.unusedSimpArgs false
namespace Pug.Props.C06S
open Pug Pug.Tpl

/-- the fragments static content compiles to: literal text, or the action `{{"{"}}` -/
def plainB : Frag → Bool
  | .text _ => true
  | .act false false (.print (.lit (.str "{")) false) => true
  | _ => false

/-- what a plain fragment prints -/
def fragStr : Frag → String
  | .text s => s
  | _ => "{"

def fragsStr : List Frag → String
  | [] => ""
  | f :: fs => fragStr f ++ fragsStr fs

theorem fragsStr_append (a b : List Frag) : fragsStr (a ++ b) = fragsStr a ++ fragsStr b := by
  induction a with
  | nil => simp [fragsStr]
  | cons f fs ih => simp [fragsStr, ih, String.append_assoc]

/-! ## mergeTexts keeps plain lists plain and their text unchanged -/

def Plain (fs : List Frag) : Prop := ∀ f ∈ fs, plainB f = true

theorem plain_cons {f : Frag} {fs : List Frag} : Plain (f :: fs) ↔ plainB f = true ∧ Plain fs := by
  simp [Plain]

theorem merge_length (n : Nat) : ∀ fs : List Frag, fs.length ≤ n → (mergeTexts fs).length ≤ fs.length := by
  induction n with
  | zero =>
    intro fs hl
    have : fs = [] := List.length_eq_zero_iff.mp (by omega)
    subst this; simp [mergeTexts]
  | succ n ih =>
    intro fs hl
    match fs, hl with
    | [], _ => simp [mergeTexts]
    | [.text a], _ => simp [mergeTexts]
    | .text a :: .text b :: rest, hl =>
      have := ih (.text (a ++ b) :: rest) (by simp at hl ⊢; omega)
      simp only [mergeTexts]; simp at this ⊢; omega
    | .text a :: .act lt rt x :: rest, hl =>
      have := ih rest (by simp at hl; omega)
      simp only [mergeTexts]; simp; omega
    | .text a :: .blockDef m b :: rest, hl =>
      have := ih rest (by simp at hl; omega)
      simp only [mergeTexts]; simp; omega
    | .blockDef m b :: rest, hl =>
      have := ih rest (by simp at hl; omega)
      simp only [mergeTexts]; simp; omega
    | .act lt rt x :: rest, hl =>
      have := ih rest (by simp at hl; omega)
      simp only [mergeTexts]; simp; omega

theorem merge_plain (n : Nat) : ∀ fs : List Frag, fs.length ≤ n → Plain fs →
    Plain (mergeTexts fs) ∧ fragsStr (mergeTexts fs) = fragsStr fs := by
  induction n with
  | zero =>
    intro fs hl _
    have : fs = [] := List.length_eq_zero_iff.mp (by omega)
    subst this
    simp [mergeTexts, fragsStr, Plain]
  | succ n ih =>
    intro fs hl hp
    match fs, hl, hp with
    | [], _, _ => simp [mergeTexts, fragsStr, Plain]
    | [.text a], _, _ => simp [mergeTexts, fragsStr, Plain, plainB]
    | .text a :: .text b :: rest, hl, hp =>
      have hp' : Plain (Frag.text (a ++ b) :: rest) := by
        rw [plain_cons] at hp ⊢
        exact ⟨rfl, (plain_cons.mp hp.2).2⟩
      have := ih (.text (a ++ b) :: rest) (by simp at hl ⊢; omega) hp'
      simp only [mergeTexts]
      refine ⟨this.1, ?_⟩
      rw [this.2]; simp [fragsStr, fragStr, String.append_assoc]
    | .text a :: .act lt rt x :: rest, hl, hp =>
      have hp' : Plain (Frag.act lt rt x :: rest) := (plain_cons.mp hp).2
      have hx := (plain_cons.mp hp').1
      have := ih rest (by simp at hl; omega) (plain_cons.mp hp').2
      simp only [mergeTexts]
      exact ⟨plain_cons.mpr ⟨rfl, plain_cons.mpr ⟨hx, this.1⟩⟩, by simp [fragsStr, this.2]⟩
    | .text a :: .blockDef m b :: rest, _, hp =>
      have := (plain_cons.mp (plain_cons.mp hp).2).1
      simp [plainB] at this
    | .blockDef m b :: rest, _, hp =>
      have := (plain_cons.mp hp).1
      simp [plainB] at this
    | .act lt rt x :: rest, hl, hp =>
      have hx := (plain_cons.mp hp).1
      have := ih rest (by simp at hl; omega) (plain_cons.mp hp).2
      simp only [mergeTexts]
      exact ⟨plain_cons.mpr ⟨hx, this.1⟩, by simp [fragsStr, this.2]⟩

/-! ## applyTrims leaves plain lists alone (no trim marker in them) -/

theorem plain_act {lt rt : Bool} {x : Act} (h : plainB (.act lt rt x) = true) :
    lt = false ∧ rt = false ∧ x = .print (.lit (.str "{")) false := by
  unfold plainB at h
  split at h <;> simp_all

theorem trims_plain (n : Nat) : ∀ fs : List Frag, fs.length ≤ n → Plain fs → applyTrims fs = fs := by
  induction n with
  | zero =>
    intro fs hl _
    have : fs = [] := List.length_eq_zero_iff.mp (by omega)
    subst this; simp [applyTrims]
  | succ n ih =>
    intro fs hl hp
    match fs, hl, hp with
    | [], _, _ => simp [applyTrims]
    | [.text a], _, _ => simp [applyTrims]
    | .text a :: .text b :: rest, hl, hp =>
      have := ih (.text b :: rest) (by simp at hl ⊢; omega) (plain_cons.mp hp).2
      simp [applyTrims, this]
    | .text a :: .blockDef m b :: rest, _, hp =>
      have := (plain_cons.mp (plain_cons.mp hp).2).1
      simp [plainB] at this
    | .text a :: .act lt rt x :: rest, hl, hp =>
      have hp' := (plain_cons.mp hp).2
      obtain ⟨rfl, rfl, rfl⟩ := plain_act (plain_cons.mp hp').1
      have := ih (.act false false (.print (.lit (.str "{")) false) :: rest) (by simp at hl ⊢; omega) hp'
      simp [applyTrims, this]
    | .blockDef m b :: rest, _, hp =>
      have := (plain_cons.mp hp).1
      simp [plainB] at this
    | .act lt rt x :: rest, hl, hp =>
      obtain ⟨rfl, rfl, rfl⟩ := plain_act (plain_cons.mp hp).1
      have := ih rest (by simp at hl; omega) (plain_cons.mp hp).2
      cases rest with
      | nil => simp [applyTrims]
      | cons f r => cases f <;> simp_all [applyTrims]

/-! ## the template parser nests nothing in a plain list -/

def nodesOf : List Frag → List TNode
  | [] => []
  | .text s :: rest => if s.isEmpty then nodesOf rest else .text s :: nodesOf rest
  | _ :: rest => .print (.lit (.str "{")) false :: nodesOf rest

theorem parse_plain (fs : List Frag) (hp : Plain fs) (fuel : Nat) (hf : fs.length < fuel) :
    parseListF fuel fs = .ok (nodesOf fs, .eof, []) := by
  induction fs generalizing fuel with
  | nil =>
    obtain ⟨f, rfl⟩ : ∃ f, fuel = f + 1 := ⟨fuel - 1, by omega⟩
    simp [parseListF, nodesOf, pure, Except.pure]
  | cons f rest ih =>
    obtain ⟨f', rfl⟩ : ∃ f', fuel = f' + 1 := ⟨fuel - 1, by omega⟩
    have hrest := ih (plain_cons.mp hp).2 f' (by simp at hf; omega)
    cases f with
    | text s =>
      by_cases hs : s.isEmpty = true <;>
        simp [parseListF, nodesOf, hrest, hs, bind, Except.bind, pure, Except.pure]
    | blockDef m b =>
      have := (plain_cons.mp hp).1
      simp [plainB] at this
    | act lt rt x =>
      obtain ⟨rfl, rfl, rfl⟩ := plain_act (plain_cons.mp hp).1
      simp [parseListF, nodesOf, hrest, bind, Except.bind, pure, Except.pure]

/-! ## executing the parsed nodes prints the text -/

theorem walk_nodes (env : Env) (fs : List Frag) (hp : Plain fs) (st : St) (fuel : Nat) (hf : fs.length + 2 < fuel) :
    walkList fuel env (nodesOf fs) st = .ok ((), { st with out := st.out ++ fragsStr fs }) := by
  induction fs generalizing fuel st with
  | nil =>
    obtain ⟨f, rfl⟩ : ∃ f, fuel = f + 1 := ⟨fuel - 1, by omega⟩
    simp [nodesOf, walkList, fragsStr, pure, StateT.pure, Except.pure]
  | cons f rest ih =>
    obtain ⟨f', rfl⟩ : ∃ f', fuel = f' + 2 := ⟨fuel - 2, by omega⟩
    have hprest := (plain_cons.mp hp).2
    cases f with
    | text s =>
      by_cases hs : s.isEmpty = true
      · have hse : s = "" := by simpa [String.isEmpty_iff] using hs
        have := ih hprest st (f' + 2) (by simp at hf; omega)
        simp [nodesOf, hs, this, fragsStr, fragStr, hse]
      · have := ih hprest { st with out := st.out ++ s } (f' + 1) (by simp at hf; omega)
        simp [nodesOf, hs, walkList, walk, emit, modify, modifyGet, MonadStateOf.modifyGet, StateT.modifyGet, bind, StateT.bind,
          Except.bind, pure, Except.pure, this, fragsStr, fragStr, String.append_assoc]
    | blockDef m b =>
      have := (plain_cons.mp hp).1
      simp [plainB] at this
    | act lt rt x =>
      have := ih hprest { st with out := st.out ++ "{" } (f' + 1) (by simp at hf; omega)
      obtain ⟨f'', rfl⟩ : ∃ f'', f' = f'' + 1 := ⟨f' - 1, by simp at hf; omega⟩
      simp [nodesOf, walkList, walk, evalExpr, printVal, sprint, ofOpt, emit, modify, modifyGet, MonadStateOf.modifyGet,
        StateT.modifyGet, getHeap, get, getThe, MonadStateOf.get, StateT.get, bind, StateT.bind, Except.bind, pure, StateT.pure,
        Except.pure, this, fragsStr, fragStr, String.append_assoc]

/-! ## literal text: the quoting pieces are plain and print the text -/

def pieceFrag (p : Piece) : Frag :=
  match p with
  | some cs => Frag.text (String.ofList cs)
  | none => lbraceAct

theorem fragStr_lbrace : fragStr lbraceAct = "{" := rfl
theorem plainB_lbrace : plainB lbraceAct = true := rfl

theorem quoteChars_plain (ps : List Piece) :
    Plain (ps.map pieceFrag) ∧ fragsStr (ps.map pieceFrag) = String.ofList (outputOf ps) := by
  induction ps with
  | nil => simp [Plain, fragsStr, outputOf]
  | cons p rest ih =>
    cases p with
    | none =>
      refine ⟨plain_cons.mpr ⟨plainB_lbrace, ih.1⟩, ?_⟩
      show fragStr lbraceAct ++ fragsStr (rest.map pieceFrag) = String.ofList ('{' :: outputOf rest)
      rw [fragStr_lbrace, ih.2, show ('{' :: outputOf rest) = ['{'] ++ outputOf rest from rfl, String.ofList_append]
    | some cs =>
      refine ⟨plain_cons.mpr ⟨rfl, ih.1⟩, ?_⟩
      show String.ofList cs ++ fragsStr (rest.map pieceFrag) = String.ofList (cs ++ outputOf rest)
      rw [ih.2, String.ofList_append]

theorem quoteChars_eq (s cur : List Char) : quoteChars s cur = (quoteL s cur).map pieceFrag := rfl

theorem textFrag_plain (s : String) :
    ∃ fs, textFrag s = .ok fs ∧ Plain fs ∧ fragsStr fs = s := by
  refine ⟨quoteChars s.toList [], rfl, ?_, ?_⟩
  · rw [quoteChars_eq]; exact (quoteChars_plain (quoteL s.toList [])).1
  · rw [quoteChars_eq, (quoteChars_plain (quoteL s.toList [])).2, Pug.Props.C06.quote_output]
    simp

/-! ## static documents: text, doctype, tags without attributes (not `script`), any nesting -/

mutual
def staticF : Nat → Node → Bool
  | 0, _ => false
  | fuel + 1, n =>
    match n with
    | .text _ => true
    | .doctype _ => true
    | .tag name _ attrs ablocks kids => attrs.isEmpty && ablocks.isEmpty && name != "script" && staticListF fuel kids
    | _ => false
def staticListF : Nat → List Node → Bool
  | 0, _ => false
  | fuel + 1, ns => ns.all (staticF fuel)
end

/-! the reference serialisation of a static tree: start tag, children, end tag; void elements have neither children nor
end tag; text as it is -/
mutual
def serF : Nat → Node → String
  | 0, _ => ""
  | fuel + 1, n =>
    match n with
    | .text s => s
    | .doctype v => "<!DOCTYPE " ++ v ++ ">\n"
    | .tag name _ _ _ kids =>
      if voidTags.contains name then "<" ++ name ++ ">" else "<" ++ name ++ ">" ++ serListF fuel kids ++ "</" ++ name ++ ">"
    | _ => ""
def serListF : Nat → List Node → String
  | 0, _ => ""
  | fuel + 1, ns => (ns.map (serF fuel)).foldr (· ++ ·) ""
end

theorem mapM_plain (g : Node → CM (List Frag)) (ser : Node → String) (ns : List Node)
    (h : ∀ n ∈ ns, ∃ fs, g n = .ok fs ∧ Plain fs ∧ fragsStr fs = ser n) :
    ∃ fss, ns.mapM g = .ok fss ∧ Plain fss.flatten ∧ fragsStr fss.flatten = (ns.map ser).foldr (· ++ ·) "" := by
  induction ns with
  | nil => exact ⟨[], rfl, by simp [Plain], by simp [fragsStr]⟩
  | cons n rest ih =>
    obtain ⟨fs, h1, h2, h3⟩ := h n (by simp)
    obtain ⟨fss, i1, i2, i3⟩ := ih (fun m hm => h m (by simp [hm]))
    refine ⟨fs :: fss, by simp [List.mapM_cons, h1, i1, bind, Except.bind, pure, Except.pure], ?_, ?_⟩
    · intro f hf
      simp only [List.flatten_cons, List.mem_append] at hf
      rcases hf with hf | hf
      · exact h2 f hf
      · exact i2 f hf
    · simp [List.flatten_cons, fragsStr_append, h3, i3]

theorem compile_static (env : CEnv) (hd : env.debug = false) (fuel : Nat) :
    (∀ n, staticF fuel n = true → ∃ fs, compileNodeF fuel env n = .ok fs ∧ Plain fs ∧ fragsStr fs = serF fuel n) ∧
    (∀ ns, staticListF fuel ns = true →
      ∃ fs, compileNodesF fuel env ns = .ok fs ∧ Plain fs ∧ fragsStr fs = serListF fuel ns) := by
  induction fuel with
  | zero => exact ⟨fun n h => by simp [staticF] at h, fun ns h => by simp [staticListF] at h⟩
  | succ fuel ih =>
    constructor
    · intro n hn
      cases n with
      | text s =>
        obtain ⟨fs, h1, h2, h3⟩ := textFrag_plain s
        exact ⟨fs, by simp [compileNodeF, h1], h2, by simp [serF, h3]⟩
      | doctype v =>
        exact ⟨[.text ("<!DOCTYPE " ++ v ++ ">\n")], by simp [compileNodeF, pure, Except.pure],
          by simp [Plain, plainB], by simp [fragsStr, fragStr, serF]⟩
      | tag name isInline attrs ablocks kids =>
        simp only [staticF, Bool.and_eq_true, List.isEmpty_iff, bne_iff_ne, ne_eq] at hn
        obtain ⟨⟨⟨ha, hb⟩, hname⟩, hk⟩ := hn
        subst ha; subst hb
        obtain ⟨sub, s1, s2, s3⟩ := ih.2 kids hk
        have hscript : (name == "script") = false := by simpa using hname
        by_cases hv : voidTags.contains name = true
        · have hv' : name ∈ voidTags := by simpa using hv
          refine ⟨[.text ("<" ++ name), .text ">"], ?_, by simp [Plain, plainB], ?_⟩
          · simp [compileNodeF, s1, compileAttrs, hv, hv', hd, hscript, bind, Except.bind, pure, Except.pure]
          · simp [fragsStr, fragStr, serF, hv, hv']
        · have hv' : ¬ name ∈ voidTags := by simpa using hv
          refine ⟨[.text ("<" ++ name), .text ">"] ++ sub ++ [.text ("</" ++ name ++ ">")], ?_, ?_, ?_⟩
          · simp [compileNodeF, s1, compileAttrs, hv, hv', hd, hscript, bind, Except.bind, pure, Except.pure]
          · intro f hf
            simp only [List.mem_append, List.mem_cons, List.mem_singleton, List.not_mem_nil, or_false] at hf
            rcases hf with ((rfl | rfl) | hf) | rfl
            · rfl
            · rfl
            · exact s2 f hf
            · rfl
          · simp [fragsStr_append, fragsStr, fragStr, serF, hv, hv', s3, String.append_assoc]
      | _ => simp [staticF] at hn
    · intro ns hns
      cases fuel with
      | zero =>
        simp only [staticListF] at hns
        cases ns with
        | nil => exact ⟨[], by simp [compileNodesF, pure, Except.pure, bind, Except.bind], by simp [Plain], by simp [fragsStr, serListF]⟩
        | cons n rest => simp [staticF] at hns
      | succ f =>
        simp only [staticListF, List.all_eq_true] at hns
        obtain ⟨fss, h1, h2, h3⟩ := mapM_plain (compileNodeF (f + 1) env) (serF (f + 1)) ns
          (fun n hn => ih.1 n (hns n hn))
        exact ⟨fss.flatten, by simp [compileNodesF, h1, bind, Except.bind, pure, Except.pure], h2, by simp [serListF, h3]⟩

/-! ## no mixins, no blocks in a static document -/

theorem collect_static (fuel : Nat) : ∀ sf ns, staticListF sf ns = true → collectMixinDefsF fuel ns = [] := by
  induction fuel with
  | zero => intro sf ns _; rfl
  | succ fuel ih =>
    intro sf ns hs
    cases ns with
    | nil => rfl
    | cons n rest =>
      cases sf with
      | zero => simp [staticListF] at hs
      | succ sf =>
        simp only [staticListF, List.all_cons, Bool.and_eq_true] at hs
        have hrest : collectMixinDefsF fuel rest = [] := ih (sf + 1) rest (by simpa [staticListF] using hs.2)
        have hn := hs.1
        cases sf with
        | zero => simp [staticF] at hn
        | succ sf' =>
          cases n with
          | text s => simp [collectMixinDefsF, hrest]
          | doctype v => simp [collectMixinDefsF, hrest]
          | tag name isInline attrs ablocks kids =>
            simp only [staticF, Bool.and_eq_true] at hn
            simp [collectMixinDefsF, hrest, ih sf' kids hn.2]
          | _ => simp [staticF] at hn

theorem hoist_plain (fuel : Nat) : ∀ (fs : List Frag) (k : Nat), Plain fs → hoistBlocksF fuel fs k = (fs, [], k) := by
  induction fuel with
  | zero => intro fs k _; rfl
  | succ fuel ih =>
    intro fs k hp
    cases fs with
    | nil => rfl
    | cons f rest =>
      have hrest := ih rest k (plain_cons.mp hp).2
      cases f with
      | text s => simp [hoistBlocksF, hrest]
      | act lt rt x => simp [hoistBlocksF, hrest]
      | blockDef m b =>
        have := (plain_cons.mp hp).1
        simp [plainB] at this

theorem parseBody_plain (fs : List Frag) (hp : Plain fs) :
    parseBody fs = .ok (nodesOf (mergeTexts fs)) := by
  have hm := merge_plain fs.length fs (Nat.le_refl _) hp
  have ht := trims_plain (mergeTexts fs).length (mergeTexts fs) (Nat.le_refl _) hm.1
  have hparse := parse_plain (mergeTexts fs) hm.1 (2 * (mergeTexts fs).length + 2) (by omega)
  simp [parseBody, parseList, ht, hparse, bind, Except.bind, pure, Except.pure]

/-- the whole transpiler on a static document -/
theorem compileDoc_static (env : CEnv) (hd : env.debug = false) (doc : List Node) (h : staticListF nodeFuel doc = true) :
    ∃ frags, compileNodes env doc = .ok frags ∧ Plain frags ∧ fragsStr frags = serListF nodeFuel doc ∧
      compileDoc env doc = .ok { main := nodesOf (mergeTexts frags), defs := [] } := by
  obtain ⟨frags, h1, h2, h3⟩ := (compile_static env hd nodeFuel).2 doc h
  refine ⟨frags, h1, h2, h3, ?_⟩
  have hc : collectMixinDefs doc = [] := collect_static fragFuel nodeFuel doc h
  have hh : hoistBlocks frags 0 = (frags, [], 0) := hoist_plain fragFuel frags 0 h2
  have hpb := parseBody_plain frags h2
  simp [compileDoc, compileNodes, h1, hc, hh, hpb, bind, Except.bind, pure, Except.pure]

end Pug.Props.C06S
