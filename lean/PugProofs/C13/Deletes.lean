import PugProofs.C13.Static
/-!
Debug mode only DELETES white space (static documents): the debug-mode output is obtained from the production-mode output by
deleting white-space characters - it never adds a character.

Route: (1) what merging + trimming prints is computed run by run (`outR` over `runs`): every text run between two actions, left-
trimmed behind a separator, right-trimmed in front of one; (2) the separator's own blanks and line break are always inside what is
trimmed, so the debug list prints what the same list with BARE separators prints; (3) trimming only deletes white space.
-/
set_option linter.unusedSimpArgs false
namespace Pug.Props.C13D
open Pug Pug.Tpl Pug.Props.C06S Pug.Props.C13S

/-! ## deleting white space -/

/-- `WsDel w p`: `w` is `p` with some white-space characters deleted -/
inductive WsDel : List Char → List Char → Prop
  | nil : WsDel [] []
  | keep (c : Char) {a b : List Char} : WsDel a b → WsDel (c :: a) (c :: b)
  | drop (c : Char) {a b : List Char} : isWs c = true → WsDel a b → WsDel a (c :: b)

theorem WsDel.refl : ∀ l : List Char, WsDel l l
  | [] => .nil
  | c :: r => .keep c (WsDel.refl r)

theorem WsDel.append {a b c d : List Char} (h1 : WsDel a b) (h2 : WsDel c d) : WsDel (a ++ c) (b ++ d) := by
  induction h1 with
  | nil => simpa using h2
  | keep x _ ih => exact .keep x ih
  | drop x hx _ ih => exact .drop x hx ih

theorem WsDel.trans {a b c : List Char} (h1 : WsDel a b) (h2 : WsDel b c) : WsDel a c := by
  induction h2 generalizing a with
  | nil => exact h1
  | keep x _ ih =>
    cases h1 with
    | keep _ h => exact .keep x (ih h)
    | drop _ hx h => exact .drop x hx (ih h)
  | drop x hx _ ih => exact .drop x hx (ih h1)

theorem wsdel_dropWhile (l : List Char) : WsDel (l.dropWhile isWs) l := by
  induction l with
  | nil => exact .nil
  | cons c r ih =>
    by_cases h : isWs c = true
    · simp only [List.dropWhile_cons, h, if_true]; exact .drop c h ih
    · simp only [List.dropWhile_cons, h]; exact WsDel.refl _

theorem wsdel_reverse {a b : List Char} (h : WsDel a b) : WsDel a.reverse b.reverse := by
  induction h with
  | nil => exact .nil
  | keep c _ ih => simpa using WsDel.append ih (WsDel.refl [c])
  | drop c hc _ ih =>
    have : WsDel ([] : List Char) [c] := .drop c hc .nil
    simpa using WsDel.append ih this

theorem wsdel_trimLeft (t : String) : WsDel (trimLeftWs t).toList t.toList := by
  simpa [trimLeftWs] using wsdel_dropWhile t.toList

theorem wsdel_trimRight (t : String) : WsDel (trimRightWs t).toList t.toList := by
  have := wsdel_reverse (wsdel_dropWhile t.toList.reverse)
  simpa [trimRightWs] using this

/-! ## text runs between actions -/

/-- the first text run of a list (all text in front of the first action, concatenated) and, for every action, whether it is a
separator and the text run behind it -/
def runs : List Frag → String × List (Bool × String)
  | [] => ("", [])
  | .text t :: r => ((t ++ (runs r).1), (runs r).2)
  | .act lt _ _ :: r => ("", (lt, (runs r).1) :: (runs r).2)
  | .blockDef _ _ :: r => runs r

def tl (b : Bool) (s : String) : String := if b then trimLeftWs s else s
def tr' (b : Bool) (s : String) : String := if b then trimRightWs s else s

/-- is the first action a separator? -/
def nextSep : List (Bool × String) → Bool
  | [] => false
  | (s, _) :: _ => s

/-- what the trimmed list prints: every run left-trimmed behind a separator and right-trimmed in front of one; a separator prints
nothing, the other action `{` -/
def outR : Bool → String → List (Bool × String) → String
  | b, t, [] => tl b t
  | b, t, (s, u) :: more => tr' s (tl b t) ++ (if s then "" else "{") ++ outR s u more

/-- the same without any trimming -/
def plainOut : String → List (Bool × String) → String
  | t, [] => t
  | t, (s, u) :: more => t ++ (if s then "" else "{") ++ plainOut u more

theorem trimLeft_empty : trimLeftWs "" = "" := by decide
theorem trimRight_empty : trimRightWs "" = "" := by decide

/-! ## merging + trimming computes `outR (runs …)` -/

def trimHeadIf (b : Bool) (l : List Frag) : List Frag :=
  match b, l with
  | true, .text t :: r => .text (trimLeftWs t) :: r
  | _, l => l

theorem trimHeadIf_false (l : List Frag) : trimHeadIf false l = l := by
  cases l <;> rfl

theorem trimHeadIf_text (b : Bool) (t : String) (r : List Frag) : trimHeadIf b (.text t :: r) = .text (tl b t) :: r := by
  cases b <;> rfl

theorem trimHeadIf_act (b lt rt : Bool) (a : Act) (r : List Frag) : trimHeadIf b (.act lt rt a :: r) = .act lt rt a :: r := by
  cases b <;> rfl

theorem trimHeadIf_nil (b : Bool) : trimHeadIf b [] = [] := by
  cases b <;> rfl

theorem trims_sep (L : List Frag) :
    applyTrims (Frag.act true true (.print (.lit (.str "")) false) :: L) =
      Frag.act true true (.print (.lit (.str "")) false) :: applyTrims (trimHeadIf true L) := by
  cases L with
  | nil => simp [applyTrims, trimHeadIf]
  | cons f r => cases f <;> simp [applyTrims, trimHeadIf]

theorem trims_lb (L : List Frag) :
    applyTrims (Frag.act false false (.print (.lit (.str "{")) false) :: L) =
      Frag.act false false (.print (.lit (.str "{")) false) :: applyTrims L := by
  cases L with
  | nil => simp [applyTrims]
  | cons f r => cases f <;> simp [applyTrims]

theorem run_out (n : Nat) : ∀ (D : List Frag) (b : Bool), D.length ≤ n → DB D →
    dbStr (applyTrims (trimHeadIf b (mergeTexts D))) = outR b (runs D).1 (runs D).2 := by
  induction n with
  | zero =>
    intro D b hl _
    have : D = [] := List.length_eq_zero_iff.mp (by omega)
    subst this
    cases b <;> simp [mergeTexts, trimHeadIf_nil, applyTrims, dbStr, runs, outR, tl, trimLeft_empty]
  | succ n ih =>
    intro D b hl hp
    match D, hl, hp with
    | [], _, _ => cases b <;> simp [mergeTexts, trimHeadIf_nil, applyTrims, dbStr, runs, outR, tl, trimLeft_empty]
    | [.text a], _, _ =>
      cases b <;> simp [mergeTexts, trimHeadIf_text, applyTrims, dbStr, fragOut, runs, outR, tl]
    | .text a :: .text c :: rest, hl, hp =>
      have hp' : DB (Frag.text (a ++ c) :: rest) := by
        rw [db_cons] at hp ⊢
        exact ⟨rfl, (db_cons.mp hp.2).2⟩
      have := ih (.text (a ++ c) :: rest) b (by simp at hl ⊢; omega) hp'
      simpa [mergeTexts, runs, String.append_assoc] using this
    | .text a :: .blockDef m x :: rest, _, hp => exact (db_blockDef (db_cons.mp (db_cons.mp hp).2).1).elim
    | .blockDef m x :: rest, _, hp => exact (db_blockDef (db_cons.mp hp).1).elim
    | .text a :: .act lt rt x :: rest, hl, hp =>
      have hp' := (db_cons.mp hp).2
      have hrest := (db_cons.mp hp').2
      rcases db_act (db_cons.mp hp').1 with ⟨rfl, rfl, rfl⟩ | ⟨rfl, rfl, rfl⟩
      · -- `{`: no trimming at this action
        have i := ih rest false (by simp at hl; omega) hrest
        have hm : mergeTexts (.text a :: .act false false (.print (.lit (.str "{")) false) :: rest) =
            .text a :: .act false false (.print (.lit (.str "{")) false) :: mergeTexts rest := by simp [mergeTexts]
        have ht : ∀ a', applyTrims (.text a' :: .act false false (.print (.lit (.str "{")) false) :: mergeTexts rest) =
            .text a' :: .act false false (.print (.lit (.str "{")) false) :: applyTrims (mergeTexts rest) := by
          intro a'
          simp [applyTrims]
        rw [trimHeadIf_false] at i
        cases b
        · simp only [hm, trimHeadIf_text, ht, dbStr, fragOut, runs, outR, tl, tr', i]
          simp [String.append_assoc]
        · simp only [hm, trimHeadIf_text, ht, dbStr, fragOut, runs, outR, tl, tr', i]
          simp [String.append_assoc]
      · -- a separator: the run in front is right-trimmed, the run behind left-trimmed
        have i := ih rest true (by simp at hl; omega) hrest
        have hm : mergeTexts (.text a :: Frag.act true true (.print (.lit (.str "")) false) :: rest) =
            .text a :: Frag.act true true (.print (.lit (.str "")) false) :: mergeTexts rest := by simp [mergeTexts]
        have ht : ∀ a', applyTrims (.text a' :: Frag.act true true (.print (.lit (.str "")) false) :: mergeTexts rest) =
            .text (trimRightWs a') :: Frag.act true true (.print (.lit (.str "")) false) ::
              applyTrims (trimHeadIf true (mergeTexts rest)) := by
          intro a'
          rw [← trims_sep]
          simp [applyTrims]
        cases b
        · simp only [hm, trimHeadIf_text, ht, dbStr, fragOut, runs, outR, tl, tr', i]
          simp [String.append_assoc]
        · simp only [hm, trimHeadIf_text, ht, dbStr, fragOut, runs, outR, tl, tr', i]
          simp [String.append_assoc]
    | .act lt rt x :: rest, hl, hp =>
      have hrest := (db_cons.mp hp).2
      rcases db_act (db_cons.mp hp).1 with ⟨rfl, rfl, rfl⟩ | ⟨rfl, rfl, rfl⟩
      · have i := ih rest false (by simp at hl; omega) hrest
        have hm : mergeTexts (.act false false (.print (.lit (.str "{")) false) :: rest) =
            .act false false (.print (.lit (.str "{")) false) :: mergeTexts rest := by simp [mergeTexts]
        rw [trimHeadIf_false] at i
        cases b <;>
          simp [hm, trimHeadIf_act, trims_lb, dbStr, fragOut, runs, outR, tl, tr', i, trimLeft_empty]
      · have i := ih rest true (by simp at hl; omega) hrest
        have hm : mergeTexts (Frag.act true true (.print (.lit (.str "")) false) :: rest) =
            Frag.act true true (.print (.lit (.str "")) false) :: mergeTexts rest := by simp [mergeTexts]
        cases b <;>
          simp [hm, trimHeadIf_act, trims_sep, dbStr, fragOut, runs, outR, tl, tr', i, trimLeft_empty, trimRight_empty]

/-! ## trimming only deletes white space -/

theorem wsdel_tl (b : Bool) (t : String) : WsDel (tl b t).toList t.toList := by
  cases b
  · exact WsDel.refl _
  · exact wsdel_trimLeft t

theorem wsdel_tr (b : Bool) (t : String) : WsDel (tr' b t).toList t.toList := by
  cases b
  · exact WsDel.refl _
  · exact wsdel_trimRight t

theorem wsdel_outR : ∀ (R : List (Bool × String)) (b : Bool) (t : String), WsDel (outR b t R).toList (plainOut t R).toList
  | [], b, t => by simpa [outR, plainOut] using wsdel_tl b t
  | (s, u) :: more, b, t => by
    have h1 : WsDel (tr' s (tl b t)).toList t.toList := WsDel.trans (wsdel_tr s _) (wsdel_tl b t)
    have h2 := wsdel_outR more s u
    simp only [outR, plainOut, String.toList_append]
    exact WsDel.append (WsDel.append h1 (WsDel.refl _)) h2

theorem plainOut_append (t u : String) (R : List (Bool × String)) : plainOut (t ++ u) R = t ++ plainOut u R := by
  cases R with
  | nil => rfl
  | cons x more => obtain ⟨s, v⟩ := x; simp [plainOut, String.append_assoc]

theorem plainOut_runs : ∀ (X : List Frag), DB X → plainOut (runs X).1 (runs X).2 = dbStr X := by
  intro X
  induction X with
  | nil => intro _; rfl
  | cons f rest ih =>
    intro hp
    have i := ih (db_cons.mp hp).2
    cases f with
    | text t => simp [runs, plainOut_append, dbStr, fragOut, i]
    | blockDef m b => exact (db_blockDef (db_cons.mp hp).1).elim
    | act lt rt x =>
      rcases db_act (db_cons.mp hp).1 with ⟨rfl, rfl, rfl⟩ | ⟨rfl, rfl, rfl⟩ <;>
        simp [runs, plainOut, dbStr, fragOut, i]

/-! ## the separator's own blanks and line break are always inside what is trimmed -/

/-- a debug list and the same list with BARE separators (their blanks and line break left out) -/
inductive Rel2 : List Frag → List Frag → Prop
  | nil : Rel2 [] []
  | text (t : String) {d d' : List Frag} : Rel2 d d' → Rel2 (.text t :: d) (.text t :: d')
  | lb {d d' : List Frag} : Rel2 d d' →
      Rel2 (.act false false (.print (.lit (.str "{")) false) :: d) (.act false false (.print (.lit (.str "{")) false) :: d')
  | sep {d d' : List Frag} : Rel2 d d' → Rel2 (debugSep ++ d) (.act true true (.print (.lit (.str "")) false) :: d')

theorem Rel2.append {a a' b b' : List Frag} (h1 : Rel2 a a') (h2 : Rel2 b b') : Rel2 (a ++ b) (a' ++ b') := by
  induction h1 with
  | nil => simpa using h2
  | text t _ ih => exact .text t ih
  | lb _ ih => exact .lb ih
  | sep _ ih => simpa [List.append_assoc] using Rel2.sep ih

theorem rel2_of_plain : ∀ {fs : List Frag}, Plain fs → Rel2 fs fs := by
  intro fs
  induction fs with
  | nil => intro _; exact .nil
  | cons f rest ih =>
    intro hp
    have i := ih (plain_cons.mp hp).2
    cases f with
    | text t => exact .text t i
    | blockDef m b =>
      have := (plain_cons.mp hp).1
      simp [plainB] at this
    | act lt rt x =>
      obtain ⟨rfl, rfl, rfl⟩ := plain_act (plain_cons.mp hp).1
      exact .lb i

theorem dw_append_ws (ws rest : List Char) (h : ∀ c ∈ ws, isWs c = true) :
    (ws ++ rest).dropWhile isWs = rest.dropWhile isWs := by
  induction ws with
  | nil => rfl
  | cons c r ih =>
    have hc := h c List.mem_cons_self
    simp only [List.cons_append, List.dropWhile_cons, hc, if_true]
    exact ih (fun x hx => h x (List.mem_cons_of_mem _ hx))

theorem sep_right (b : String) : trimLeftWs ("\n" ++ b) = trimLeftWs b := by
  unfold trimLeftWs
  congr 1
  have : ("\n" ++ b).toList = ['\n'] ++ b.toList := by simp [String.toList_append]
  rw [this]
  exact dw_append_ws ['\n'] b.toList (by simp [isWs])

theorem sep_left (a : String) : trimRightWs (a ++ "     ") = trimRightWs a := by
  unfold trimRightWs
  congr 2
  have : (a ++ "     ").toList.reverse = [' ', ' ', ' ', ' ', ' '] ++ a.toList.reverse := by
    simp [String.toList_append]
  rw [this]
  exact dw_append_ws _ _ (by simp [isWs])

theorem dropWhile_append_ws (w : List Char) (hw : ∀ c ∈ w, isWs c = true) : ∀ l : List Char,
    (((l ++ w).dropWhile isWs).reverse).dropWhile isWs = ((l.dropWhile isWs).reverse).dropWhile isWs := by
  intro l
  induction l with
  | nil =>
    have : w.dropWhile isWs = [] := by
      have := dw_append_ws w [] hw
      simpa using this
    simp [this]
  | cons c r ih =>
    by_cases hc : isWs c = true
    · simpa [List.dropWhile_cons, hc] using ih
    · have hw' : ∀ x ∈ w.reverse, isWs x = true := by simpa using hw
      simp only [List.cons_append, List.dropWhile_cons, hc, Bool.false_eq_true, if_false, List.reverse_cons, List.reverse_append]
      rw [List.append_assoc, dw_append_ws w.reverse _ hw']

theorem trimRight_tl_blanks (b : Bool) (t : String) : trimRightWs (tl b (t ++ "     ")) = trimRightWs (tl b t) := by
  cases b
  · exact sep_left t
  · have h := dropWhile_append_ws [' ', ' ', ' ', ' ', ' '] (by simp [isWs]) t.toList
    simp only [tl, if_true, trimRightWs, trimLeftWs, String.toList_ofList, String.toList_append]
    have e : "     ".toList = [' ', ' ', ' ', ' ', ' '] := rfl
    rw [e, h]

theorem outR_newline (u : String) (R : List (Bool × String)) : outR true ("\n" ++ u) R = outR true u R := by
  cases R with
  | nil => simp [outR, tl, sep_right]
  | cons x more => obtain ⟨s, v⟩ := x; simp [outR, tl, sep_right]

/-- with any text in front: the debug list and its bare-separator form print the same after trimming -/
theorem rel2_out {d d' : List Frag} (h : Rel2 d d') : ∀ (t : String) (b : Bool),
    outR b (t ++ (runs d).1) (runs d).2 = outR b (t ++ (runs d').1) (runs d').2 := by
  induction h with
  | nil => intro t b; rfl
  | text u _ ih =>
    intro t b
    have := ih (t ++ u) b
    simpa [runs, String.append_assoc] using this
  | lb _ ih =>
    intro t b
    have := ih "" false
    simp only [String.empty_append] at this
    simp [runs, outR, this]
  | @sep d d' _ ih =>
    intro t b
    have i := ih "" true
    simp only [String.empty_append] at i
    have hr : runs (debugSep ++ d) = ("     " ++ "", (true, "\n" ++ (runs d).1) :: (runs d).2) := by
      simp [debugSep, runs]
    rw [hr]
    simp only [runs, outR, String.append_empty, tr', if_true]
    rw [trimRight_tl_blanks, outR_newline, i]

/-! ## the transpiler in debug mode, with the bare-separator form alongside -/

def bareIf (b : Bool) : List Frag := if b then [Frag.act true true (.print (.lit (.str "")) false)] else []

theorem rel2_sepIf (b : Bool) : Rel2 (sepIf b) (bareIf b) ∧ DB (bareIf b) ∧ dbStr (bareIf b) = "" := by
  cases b
  · exact ⟨by simpa [sepIf, bareIf] using Rel2.nil, by simp [bareIf, DB], by simp [bareIf, dbStr]⟩
  · refine ⟨?_, by simp [bareIf, DB, dbB], by simp [bareIf, dbStr, fragOut]⟩
    have := Rel2.sep Rel2.nil
    simpa [sepIf, bareIf] using this

theorem mapM_rel (g : Node → CM (List Frag)) (ser : Node → String) (ns : List Node)
    (h : ∀ n ∈ ns, ∃ d d', g n = .ok d ∧ Rel2 d d' ∧ DB d' ∧ dbStr d' = ser n) :
    ∃ dss d', ns.mapM g = .ok dss ∧ Rel2 dss.flatten d' ∧ DB d' ∧ dbStr d' = (ns.map ser).foldr (· ++ ·) "" := by
  induction ns with
  | nil => exact ⟨[], [], rfl, by simpa using Rel2.nil, by simp [DB], by simp [dbStr]⟩
  | cons n rest ih =>
    obtain ⟨d, d', h1, h2, h3, h4⟩ := h n (by simp)
    obtain ⟨dss, e', i1, i2, i3, i4⟩ := ih (fun m hm => h m (by simp [hm]))
    refine ⟨d :: dss, d' ++ e', by simp [List.mapM_cons, h1, i1, bind, Except.bind, pure, Except.pure], ?_, db_append h3 i3, ?_⟩
    · simpa [List.flatten_cons] using Rel2.append h2 i2
    · simp [dbStr_append, h4, i4]

theorem compile_static_debug_rel (env : CEnv) (hd : env.debug = true) (fuel : Nat) :
    (∀ n, staticF fuel n = true →
      ∃ d d', compileNodeF fuel env n = .ok d ∧ Rel2 d d' ∧ DB d' ∧ dbStr d' = serF fuel n) ∧
    (∀ ns, staticListF fuel ns = true →
      ∃ d d', compileNodesF fuel env ns = .ok d ∧ Rel2 d d' ∧ DB d' ∧ dbStr d' = serListF fuel ns) := by
  induction fuel with
  | zero => exact ⟨fun n h => by simp [staticF] at h, fun ns h => by simp [staticListF] at h⟩
  | succ fuel ih =>
    constructor
    · intro n hn
      cases n with
      | text s =>
        obtain ⟨fs, h1, h2, h3⟩ := textFrag_plain s
        have ⟨d1, d2⟩ := db_of_plain h2
        exact ⟨fs, fs, by simp [compileNodeF, h1], rel2_of_plain h2, d1, by simp [serF, d2, h3]⟩
      | doctype v =>
        exact ⟨[.text ("<!DOCTYPE " ++ v ++ ">\n")], [.text ("<!DOCTYPE " ++ v ++ ">\n")], by simp [compileNodeF, pure, Except.pure],
          .text _ .nil, by simp [DB, dbB], by simp [dbStr, fragOut, serF]⟩
      | tag name isInline attrs ablocks kids =>
        simp only [staticF, Bool.and_eq_true, List.isEmpty_iff, bne_iff_ne, ne_eq] at hn
        obtain ⟨⟨⟨ha, hb⟩, hname⟩, hk⟩ := hn
        subst ha; subst hb
        obtain ⟨sub, sub', s1, s2, s3, s4⟩ := ih.2 kids hk
        have hscript : (name == "script") = false := by simpa using hname
        have ropen : Rel2 [Frag.text ("<" ++ name), Frag.text ">"] [Frag.text ("<" ++ name), Frag.text ">"] := .text _ (.text _ .nil)
        have rclose : Rel2 [Frag.text ("</" ++ name ++ ">")] [Frag.text ("</" ++ name ++ ">")] := .text _ .nil
        have hopen : DB [Frag.text ("<" ++ name), Frag.text ">"] := by simp [DB, dbB]
        have hclose : DB [Frag.text ("</" ++ name ++ ">")] := by simp [DB, dbB]
        by_cases hv : voidTags.contains name = true
        · have hv' : name ∈ voidTags := by simpa using hv
          refine ⟨[.text ("<" ++ name), .text ">"] ++ sepIf (!isInline), [.text ("<" ++ name), .text ">"] ++ bareIf (!isInline), ?_,
            Rel2.append ropen (rel2_sepIf _).1, db_append hopen (rel2_sepIf _).2.1, ?_⟩
          · cases isInline <;>
              simp [compileNodeF, s1, compileAttrs, hv, hv', hd, hscript, sepIf, bind, Except.bind, pure, Except.pure]
          · simp [dbStr_append, (rel2_sepIf (!isInline)).2.2, dbStr, fragOut, serF, hv, hv']
        · have hv' : ¬ name ∈ voidTags := by simpa using hv
          refine ⟨[.text ("<" ++ name), .text ">"] ++ sepIf (!(kids.all nodeInline)) ++ sub ++ sepIf (!(kids.all nodeInline)) ++
              [.text ("</" ++ name ++ ">")] ++ sepIf (!isInline),
            [.text ("<" ++ name), .text ">"] ++ bareIf (!(kids.all nodeInline)) ++ sub' ++ bareIf (!(kids.all nodeInline)) ++
              [.text ("</" ++ name ++ ">")] ++ bareIf (!isInline), ?_, ?_, ?_, ?_⟩
          · cases hki : kids.all nodeInline <;> cases isInline <;>
              simp [compileNodeF, s1, compileAttrs, hv, hv', hd, hscript, sepIf, hki, bind, Except.bind, pure, Except.pure]
          · exact Rel2.append (Rel2.append (Rel2.append (Rel2.append (Rel2.append ropen (rel2_sepIf _).1) s2) (rel2_sepIf _).1) rclose)
              (rel2_sepIf _).1
          · exact db_append (db_append (db_append (db_append (db_append hopen (rel2_sepIf _).2.1) s3) (rel2_sepIf _).2.1) hclose)
              (rel2_sepIf _).2.1
          · simp [dbStr_append, (rel2_sepIf (!isInline)).2.2, (rel2_sepIf (!(kids.all nodeInline))).2.2, dbStr, fragOut, serF,
              hv, hv', s4, String.append_assoc]
      | _ => simp [staticF] at hn
    · intro ns hns
      cases fuel with
      | zero =>
        simp only [staticListF] at hns
        cases ns with
        | nil => exact ⟨[], [], by simp [compileNodesF, pure, Except.pure, bind, Except.bind], .nil, by simp [DB], by simp [dbStr, serListF]⟩
        | cons n rest => simp [staticF] at hns
      | succ f =>
        simp only [staticListF, List.all_eq_true] at hns
        obtain ⟨dss, d', h1, h2, h3, h4⟩ := mapM_rel (compileNodeF (f + 1) env) (serF (f + 1)) ns
          (fun n hn => ih.1 n (hns n hn))
        exact ⟨dss.flatten, d', by simp [compileNodesF, h1, bind, Except.bind, pure, Except.pure], h2, h3, by simp [serListF, h4]⟩

/-- what the debug-mode pipeline prints is the reference serialisation with white space deleted -/
theorem debug_out_wsdel (env : CEnv) (hd : env.debug = true) (doc : List Node) (h : staticListF nodeFuel doc = true)
    (frags : List Frag) (hc : compileNodes env doc = .ok frags) (hdb : DB frags) :
    WsDel (dbStr (applyTrims (mergeTexts frags))).toList (serListF nodeFuel doc).toList := by
  obtain ⟨d, d', c1, r, db', s'⟩ := (compile_static_debug_rel env hd nodeFuel).2 doc h
  have e : d = frags := by
    have : Except.ok d = (Except.ok frags : CM (List Frag)) := by rw [← c1, ← hc]; rfl
    exact Except.ok.inj this
  subst e
  have h1 := run_out d.length d false (Nat.le_refl _) hdb
  rw [trimHeadIf_false] at h1
  have h2 := rel2_out r "" false
  simp only [String.empty_append] at h2
  have h3 := wsdel_outR (runs d').2 false (runs d').1
  rw [plainOut_runs d' db', s'] at h3
  rw [h1, h2]
  exact h3

end Pug.Props.C13D
