import PugProofs.C06.Static
import PugModel.Driver.Render
/-!
Debug (pretty-source) mode on whole static documents: the transpiler inserts the separator `     {{- "" -}}⏎` after block-level
nodes; merged, trimmed, nested and executed, the document prints a text that equals the production-mode text once all white
space is removed - for every static tree.
-/
set_option linter.unusedSimpArgs false
namespace Pug.Props.C13S
open Pug Pug.Tpl Pug.Props.C06S

/-! ## removing white space -/

def stripWs (s : String) : String := String.ofList (s.toList.filter fun c => !isWs c)

theorem stripWs_append (a b : String) : stripWs (a ++ b) = stripWs a ++ stripWs b := by
  simp [stripWs, String.toList_append, List.filter_append, String.ofList_append]

theorem stripWs_empty : stripWs "" = "" := rfl

theorem filter_dropWhile_ws (l : List Char) :
    (l.dropWhile isWs).filter (fun c => !isWs c) = l.filter (fun c => !isWs c) := by
  induction l with
  | nil => rfl
  | cons c r ih =>
    by_cases h : isWs c = true
    · simp [List.dropWhile_cons, h, ih]
    · simp [List.dropWhile_cons, h]

theorem stripWs_trimLeft (t : String) : stripWs (trimLeftWs t) = stripWs t := by
  simp [stripWs, trimLeftWs, filter_dropWhile_ws]

theorem stripWs_trimRight (t : String) : stripWs (trimRightWs t) = stripWs t := by
  have h := filter_dropWhile_ws t.toList.reverse
  have h2 := congrArg List.reverse h
  simp only [List.filter_reverse, List.reverse_reverse] at h2
  simp only [stripWs, trimRightWs, String.toList_ofList]
  rw [← List.filter_reverse] at h2
  simpa [List.filter_reverse] using congrArg String.ofList h2

/-! ## the fragments of a debug-mode static document -/

def sepAct : Frag := .act true true (.print (.lit (.str "")) false)

/-- text, the action `{{"{"}}`, or the separator's action -/
def dbB : Frag → Bool
  | .text _ => true
  | .act false false (.print (.lit (.str "{")) false) => true
  | .act true true (.print (.lit (.str "")) false) => true
  | _ => false

def DB (fs : List Frag) : Prop := ∀ f ∈ fs, dbB f = true

theorem db_cons {f : Frag} {fs : List Frag} : DB (f :: fs) ↔ dbB f = true ∧ DB fs := by simp [DB]

theorem db_append {a b : List Frag} (ha : DB a) (hb : DB b) : DB (a ++ b) := by
  intro f hf
  rcases List.mem_append.mp hf with h | h
  · exact ha f h
  · exact hb f h

/-- what a fragment prints (the separator's action prints nothing) -/
def fragOut : Frag → String
  | .text s => s
  | .act true true _ => ""
  | _ => "{"

def dbStr : List Frag → String
  | [] => ""
  | f :: fs => fragOut f ++ dbStr fs

theorem dbStr_append (a b : List Frag) : dbStr (a ++ b) = dbStr a ++ dbStr b := by
  induction a with
  | nil => simp [dbStr]
  | cons f fs ih => simp [dbStr, ih, String.append_assoc]

theorem db_act {lt rt : Bool} {x : Act} (h : dbB (.act lt rt x) = true) :
    (lt = false ∧ rt = false ∧ x = .print (.lit (.str "{")) false) ∨ (lt = true ∧ rt = true ∧ x = .print (.lit (.str "")) false) := by
  unfold dbB at h
  split at h <;> simp_all

theorem db_blockDef {m : String} {b : List Frag} : dbB (.blockDef m b) = true → False := by simp [dbB]

theorem db_of_plain {fs : List Frag} (h : Plain fs) : DB fs ∧ dbStr fs = fragsStr fs := by
  induction fs with
  | nil => exact ⟨by simp [DB], rfl⟩
  | cons f rest ih =>
    have h1 := (plain_cons.mp h).1
    have ⟨i1, i2⟩ := ih (plain_cons.mp h).2
    cases f with
    | text s => exact ⟨db_cons.mpr ⟨rfl, i1⟩, by simp [dbStr, fragsStr, fragOut, fragStr, i2]⟩
    | blockDef m b => simp [plainB] at h1
    | act lt rt x =>
      obtain ⟨rfl, rfl, rfl⟩ := plain_act h1
      exact ⟨db_cons.mpr ⟨rfl, i1⟩, by simp [dbStr, fragsStr, fragOut, fragStr, i2]⟩

theorem db_sep : DB debugSep ∧ stripWs (dbStr debugSep) = "" := by
  refine ⟨by simp [DB, debugSep, dbB], ?_⟩
  simp only [debugSep, dbStr, fragOut]
  decide

/-! ## merge, trim -/

theorem merge_db (n : Nat) : ∀ fs : List Frag, fs.length ≤ n → DB fs → DB (mergeTexts fs) ∧ dbStr (mergeTexts fs) = dbStr fs := by
  induction n with
  | zero =>
    intro fs hl _
    have : fs = [] := List.length_eq_zero_iff.mp (by omega)
    subst this
    simp [mergeTexts, dbStr, DB]
  | succ n ih =>
    intro fs hl hp
    match fs, hl, hp with
    | [], _, _ => simp [mergeTexts, dbStr, DB]
    | [.text a], _, _ => simp [mergeTexts, dbStr, DB, dbB]
    | .text a :: .text b :: rest, hl, hp =>
      have hp' : DB (Frag.text (a ++ b) :: rest) := by
        rw [db_cons] at hp ⊢
        exact ⟨rfl, (db_cons.mp hp.2).2⟩
      have := ih (.text (a ++ b) :: rest) (by simp at hl ⊢; omega) hp'
      simp only [mergeTexts]
      refine ⟨this.1, ?_⟩
      rw [this.2]; simp [dbStr, fragOut, String.append_assoc]
    | .text a :: .act lt rt x :: rest, hl, hp =>
      have hp' : DB (Frag.act lt rt x :: rest) := (db_cons.mp hp).2
      have hx := (db_cons.mp hp').1
      have := ih rest (by simp at hl; omega) (db_cons.mp hp').2
      simp only [mergeTexts]
      exact ⟨db_cons.mpr ⟨rfl, db_cons.mpr ⟨hx, this.1⟩⟩, by simp [dbStr, this.2]⟩
    | .text a :: .blockDef m b :: rest, _, hp => exact (db_blockDef (db_cons.mp (db_cons.mp hp).2).1).elim
    | .blockDef m b :: rest, _, hp => exact (db_blockDef (db_cons.mp hp).1).elim
    | .act lt rt x :: rest, hl, hp =>
      have hx := (db_cons.mp hp).1
      have := ih rest (by simp at hl; omega) (db_cons.mp hp).2
      simp only [mergeTexts]
      exact ⟨db_cons.mpr ⟨hx, this.1⟩, by simp [dbStr, this.2]⟩

/-- the trim markers remove white space only: with all white space removed the printed text is unchanged -/
theorem trims_db (n : Nat) : ∀ fs : List Frag, fs.length ≤ n → DB fs →
    DB (applyTrims fs) ∧ stripWs (dbStr (applyTrims fs)) = stripWs (dbStr fs) := by
  induction n with
  | zero =>
    intro fs hl _
    have : fs = [] := List.length_eq_zero_iff.mp (by omega)
    subst this; simp [applyTrims, DB]
  | succ n ih =>
    intro fs hl hp
    match fs, hl, hp with
    | [], _, _ => simp [applyTrims, DB]
    | [.text a], _, _ => simp [applyTrims, DB, dbB]
    | .text a :: .text b :: rest, hl, hp =>
      have := ih (.text b :: rest) (by simp at hl ⊢; omega) (db_cons.mp hp).2
      simp only [applyTrims]
      exact ⟨db_cons.mpr ⟨rfl, this.1⟩, by simp only [dbStr, stripWs_append] at this ⊢; rw [this.2]⟩
    | .text a :: .blockDef m b :: rest, _, hp => exact (db_blockDef (db_cons.mp (db_cons.mp hp).2).1).elim
    | .text a :: .act lt rt x :: rest, hl, hp =>
      have hp' := (db_cons.mp hp).2
      have := ih (.act lt rt x :: rest) (by simp at hl ⊢; omega) hp'
      simp only [applyTrims]
      refine ⟨db_cons.mpr ⟨by split <;> rfl, this.1⟩, ?_⟩
      simp only [dbStr, stripWs_append] at this ⊢
      rw [this.2]
      split <;> simp [fragOut, stripWs_trimRight]
    | .blockDef m b :: rest, _, hp => exact (db_blockDef (db_cons.mp hp).1).elim
    | .act lt rt x :: rest, hl, hp =>
      have hx := (db_cons.mp hp).1
      have hrest := (db_cons.mp hp).2
      rcases db_act hx with ⟨rfl, rfl, rfl⟩ | ⟨rfl, rfl, rfl⟩
      · have := ih rest (by simp at hl; omega) hrest
        have e : applyTrims (.act false false (.print (.lit (.str "{")) false) :: rest) =
            .act false false (.print (.lit (.str "{")) false) :: applyTrims rest := by
          cases rest with
          | nil => simp [applyTrims]
          | cons f r => cases f <;> simp [applyTrims]
        rw [e]
        exact ⟨db_cons.mpr ⟨rfl, this.1⟩, by simp only [dbStr, stripWs_append]; rw [this.2]⟩
      · cases rest with
        | nil => simp [applyTrims, DB, dbB, dbStr]
        | cons f r =>
          cases f with
          | text t =>
            have hp2 : DB (Frag.text (trimLeftWs t) :: r) := db_cons.mpr ⟨rfl, (db_cons.mp hrest).2⟩
            have := ih (.text (trimLeftWs t) :: r) (by simp at hl ⊢; omega) hp2
            simp only [applyTrims]
            refine ⟨db_cons.mpr ⟨rfl, this.1⟩, ?_⟩
            simp only [dbStr, stripWs_append] at this ⊢
            rw [this.2]
            simp [fragOut, stripWs_trimLeft]
          | blockDef m b => exact (db_blockDef (db_cons.mp hrest).1).elim
          | act lt rt x =>
            have := ih (.act lt rt x :: r) (by simp at hl ⊢; omega) hrest
            simp only [applyTrims]
            exact ⟨db_cons.mpr ⟨rfl, this.1⟩, by simp only [dbStr, stripWs_append] at this ⊢; rw [this.2]⟩

/-! ## parse, hoist, execute -/

def nodesOfD : List Frag → List TNode
  | [] => []
  | .text s :: rest => if s.isEmpty then nodesOfD rest else .text s :: nodesOfD rest
  | .act _ _ (.print t esc) :: rest => .print t esc :: nodesOfD rest
  | _ :: rest => nodesOfD rest

theorem parse_db (fs : List Frag) (hp : DB fs) (fuel : Nat) (hf : fs.length < fuel) :
    parseListF fuel fs = .ok (nodesOfD fs, .eof, []) := by
  induction fs generalizing fuel with
  | nil =>
    obtain ⟨f, rfl⟩ : ∃ f, fuel = f + 1 := ⟨fuel - 1, by omega⟩
    simp [parseListF, nodesOfD, pure, Except.pure]
  | cons f rest ih =>
    obtain ⟨f', rfl⟩ : ∃ f', fuel = f' + 1 := ⟨fuel - 1, by omega⟩
    have hrest := ih (db_cons.mp hp).2 f' (by simp at hf; omega)
    cases f with
    | text s =>
      by_cases hs : s.isEmpty = true <;>
        simp [parseListF, nodesOfD, hrest, hs, bind, Except.bind, pure, Except.pure]
    | blockDef m b => exact (db_blockDef (db_cons.mp hp).1).elim
    | act lt rt x =>
      rcases db_act (db_cons.mp hp).1 with ⟨rfl, rfl, rfl⟩ | ⟨rfl, rfl, rfl⟩ <;>
        simp [parseListF, nodesOfD, hrest, bind, Except.bind, pure, Except.pure]

theorem hoist_db (fuel : Nat) : ∀ (fs : List Frag) (k : Nat), DB fs → hoistBlocksF fuel fs k = (fs, [], k) := by
  induction fuel with
  | zero => intro fs k _; rfl
  | succ fuel ih =>
    intro fs k hp
    cases fs with
    | nil => rfl
    | cons f rest =>
      have hrest := ih rest k (db_cons.mp hp).2
      cases f with
      | text s => simp [hoistBlocksF, hrest]
      | act lt rt x => simp [hoistBlocksF, hrest]
      | blockDef m b => exact (db_blockDef (db_cons.mp hp).1).elim

theorem walk_db (env : Tpl.Env) (fs : List Frag) (hp : DB fs) (st : St) (fuel : Nat) (hf : fs.length + 2 < fuel) :
    walkList fuel env (nodesOfD fs) st = .ok ((), { st with out := st.out ++ dbStr fs }) := by
  induction fs generalizing fuel st with
  | nil =>
    obtain ⟨f, rfl⟩ : ∃ f, fuel = f + 1 := ⟨fuel - 1, by omega⟩
    simp [nodesOfD, walkList, dbStr, pure, StateT.pure, Except.pure]
  | cons f rest ih =>
    obtain ⟨f', rfl⟩ : ∃ f', fuel = f' + 2 := ⟨fuel - 2, by omega⟩
    have hprest := (db_cons.mp hp).2
    cases f with
    | text s =>
      by_cases hs : s.isEmpty = true
      · have hse : s = "" := by simpa [String.isEmpty_iff] using hs
        have := ih hprest st (f' + 2) (by simp at hf; omega)
        simp [nodesOfD, hs, this, dbStr, fragOut, hse]
      · have := ih hprest { st with out := st.out ++ s } (f' + 1) (by simp at hf; omega)
        simp [nodesOfD, hs, walkList, walk, emit, modify, modifyGet, MonadStateOf.modifyGet, StateT.modifyGet, bind, StateT.bind,
          Except.bind, pure, Except.pure, this, dbStr, fragOut, String.append_assoc]
    | blockDef m b => exact (db_blockDef (db_cons.mp hp).1).elim
    | act lt rt x =>
      obtain ⟨f'', rfl⟩ : ∃ f'', f' = f'' + 1 := ⟨f' - 1, by simp at hf; omega⟩
      rcases db_act (db_cons.mp hp).1 with ⟨rfl, rfl, rfl⟩ | ⟨rfl, rfl, rfl⟩
      · have := ih hprest { st with out := st.out ++ "{" } (f'' + 2) (by simp at hf; omega)
        simp [nodesOfD, walkList, walk, evalExpr, printVal, sprint, ofOpt, emit, modify, modifyGet, MonadStateOf.modifyGet,
          StateT.modifyGet, getHeap, get, getThe, MonadStateOf.get, StateT.get, bind, StateT.bind, Except.bind, pure, StateT.pure,
          Except.pure, this, dbStr, fragOut, String.append_assoc]
      · have := ih hprest { st with out := st.out ++ "" } (f'' + 2) (by simp at hf; omega)
        simp only [String.append_empty] at this
        simp [nodesOfD, walkList, walk, evalExpr, printVal, sprint, ofOpt, emit, modify, modifyGet, MonadStateOf.modifyGet,
          StateT.modifyGet, getHeap, get, getThe, MonadStateOf.get, StateT.get, bind, StateT.bind, Except.bind, pure, StateT.pure,
          Except.pure, this, dbStr, fragOut, String.append_assoc]

/-! ## the transpiler in debug mode on static documents -/

def sepIf (b : Bool) : List Frag := if b then debugSep else []

theorem db_sepIf (b : Bool) : DB (sepIf b) ∧ stripWs (dbStr (sepIf b)) = "" := by
  cases b
  · exact ⟨by simp [sepIf, DB], by simp [sepIf, dbStr, stripWs_empty]⟩
  · simpa [sepIf] using db_sep

theorem mapM_db (g : Node → CM (List Frag)) (ser : Node → String) (ns : List Node)
    (h : ∀ n ∈ ns, ∃ fs, g n = .ok fs ∧ DB fs ∧ stripWs (dbStr fs) = stripWs (ser n)) :
    ∃ fss, ns.mapM g = .ok fss ∧ DB fss.flatten ∧
      stripWs (dbStr fss.flatten) = stripWs ((ns.map ser).foldr (· ++ ·) "") := by
  induction ns with
  | nil => exact ⟨[], rfl, by simp [DB], by simp [dbStr]⟩
  | cons n rest ih =>
    obtain ⟨fs, h1, h2, h3⟩ := h n (by simp)
    obtain ⟨fss, i1, i2, i3⟩ := ih (fun m hm => h m (by simp [hm]))
    refine ⟨fs :: fss, by simp [List.mapM_cons, h1, i1, bind, Except.bind, pure, Except.pure], ?_, ?_⟩
    · simpa [List.flatten_cons] using db_append h2 i2
    · simp [List.flatten_cons, dbStr_append, stripWs_append, h3, i3]

theorem compile_static_debug (env : CEnv) (hd : env.debug = true) (fuel : Nat) :
    (∀ n, staticF fuel n = true →
      ∃ fs, compileNodeF fuel env n = .ok fs ∧ DB fs ∧ stripWs (dbStr fs) = stripWs (serF fuel n)) ∧
    (∀ ns, staticListF fuel ns = true →
      ∃ fs, compileNodesF fuel env ns = .ok fs ∧ DB fs ∧ stripWs (dbStr fs) = stripWs (serListF fuel ns)) := by
  induction fuel with
  | zero => exact ⟨fun n h => by simp [staticF] at h, fun ns h => by simp [staticListF] at h⟩
  | succ fuel ih =>
    constructor
    · intro n hn
      cases n with
      | text s =>
        obtain ⟨fs, h1, h2, h3⟩ := textFrag_plain s
        have ⟨d1, d2⟩ := db_of_plain h2
        exact ⟨fs, by simp [compileNodeF, h1], d1, by simp [serF, d2, h3]⟩
      | doctype v =>
        exact ⟨[.text ("<!DOCTYPE " ++ v ++ ">\n")], by simp [compileNodeF, pure, Except.pure],
          by simp [DB, dbB], by simp [dbStr, fragOut, serF]⟩
      | tag name isInline attrs ablocks kids =>
        simp only [staticF, Bool.and_eq_true, List.isEmpty_iff, bne_iff_ne, ne_eq] at hn
        obtain ⟨⟨⟨ha, hb⟩, hname⟩, hk⟩ := hn
        subst ha; subst hb
        obtain ⟨sub, s1, s2, s3⟩ := ih.2 kids hk
        have hscript : (name == "script") = false := by simpa using hname
        have hopen : DB [Frag.text ("<" ++ name), Frag.text ">"] := by simp [DB, dbB]
        have hclose : DB [Frag.text ("</" ++ name ++ ">")] := by simp [DB, dbB]
        by_cases hv : voidTags.contains name = true
        · have hv' : name ∈ voidTags := by simpa using hv
          refine ⟨[.text ("<" ++ name), .text ">"] ++ sepIf (!isInline), ?_, db_append hopen (db_sepIf _).1, ?_⟩
          · cases isInline <;>
              simp [compileNodeF, s1, compileAttrs, hv, hv', hd, hscript, sepIf, bind, Except.bind, pure, Except.pure]
          · simp [dbStr_append, stripWs_append, (db_sepIf (!isInline)).2, dbStr, fragOut, serF, hv, hv']
        · have hv' : ¬ name ∈ voidTags := by simpa using hv
          refine ⟨[.text ("<" ++ name), .text ">"] ++ sepIf (!(kids.all nodeInline)) ++ sub ++ sepIf (!(kids.all nodeInline)) ++
              [.text ("</" ++ name ++ ">")] ++ sepIf (!isInline), ?_, ?_, ?_⟩
          · cases hki : kids.all nodeInline <;> cases isInline <;>
              simp [compileNodeF, s1, compileAttrs, hv, hv', hd, hscript, sepIf, hki, bind, Except.bind, pure, Except.pure]
          · exact db_append (db_append (db_append (db_append (db_append hopen (db_sepIf _).1) s2) (db_sepIf _).1) hclose) (db_sepIf _).1
          · simp [dbStr_append, stripWs_append, (db_sepIf (!isInline)).2, (db_sepIf (!(kids.all nodeInline))).2, dbStr, fragOut, serF,
              hv, hv', s3, String.append_assoc]
      | _ => simp [staticF] at hn
    · intro ns hns
      cases fuel with
      | zero =>
        simp only [staticListF] at hns
        cases ns with
        | nil => exact ⟨[], by simp [compileNodesF, pure, Except.pure, bind, Except.bind], by simp [DB], by simp [dbStr, serListF]⟩
        | cons n rest => simp [staticF] at hns
      | succ f =>
        simp only [staticListF, List.all_eq_true] at hns
        obtain ⟨fss, h1, h2, h3⟩ := mapM_db (compileNodeF (f + 1) env) (serF (f + 1)) ns
          (fun n hn => ih.1 n (hns n hn))
        exact ⟨fss.flatten, by simp [compileNodesF, h1, bind, Except.bind, pure, Except.pure], h2, by simp [serListF, h3]⟩

theorem parseBody_db (fs : List Frag) (hp : DB fs) :
    parseBody fs = .ok (nodesOfD (applyTrims (mergeTexts fs))) := by
  have hm := merge_db fs.length fs (Nat.le_refl _) hp
  have ht := trims_db (mergeTexts fs).length (mergeTexts fs) (Nat.le_refl _) hm.1
  have hparse := parse_db (applyTrims (mergeTexts fs)) ht.1 (2 * (applyTrims (mergeTexts fs)).length + 2) (by omega)
  simp [parseBody, parseList, hparse, bind, Except.bind, pure, Except.pure]

/-- the whole transpiler, debug mode, on a static document -/
theorem compileDoc_static_debug (env : CEnv) (hd : env.debug = true) (doc : List Node) (h : staticListF nodeFuel doc = true) :
    ∃ frags, compileNodes env doc = .ok frags ∧ DB frags ∧ stripWs (dbStr frags) = stripWs (serListF nodeFuel doc) ∧
      compileDoc env doc = .ok { main := nodesOfD (applyTrims (mergeTexts frags)), defs := [] } := by
  obtain ⟨frags, h1, h2, h3⟩ := (compile_static_debug env hd nodeFuel).2 doc h
  refine ⟨frags, h1, h2, h3, ?_⟩
  have hc : collectMixinDefs doc = [] := collect_static fragFuel nodeFuel doc h
  have hh : hoistBlocks frags 0 = (frags, [], 0) := hoist_db fragFuel frags 0 h2
  have hpb := parseBody_db frags h2
  simp [compileDoc, compileNodes, h1, hc, hh, hpb, bind, Except.bind, pure, Except.pure]

theorem trims_length (fs : List Frag) : (applyTrims fs).length = fs.length := by
  fun_induction applyTrims fs <;> simp_all

end Pug.Props.C13S
