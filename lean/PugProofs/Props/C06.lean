import PugModel.Tpl.Quote
import PugProofs.Props.C10
import PugProofs.C06.Quote
import PugProofs.C06.Static
import PugModel.Driver.Render
import PugModel.Tpl.Compile
import PugModel.Pug.Spec
import PugProofs.Props.C08
/-!
# C06 — static structure and text are reproduced faithfully

* `C06_quote_output`: for EVERY text, what the quoted pieces print is the text itself, byte for byte.
* `C06_quote_lex`: for EVERY text, the template lexer splits the emitted source back into exactly the pieces the quoting
  produced — no `{` of the text ever pairs up into a delimiter (`{{`, `{{{`, `{}}`, a trailing `{` …).
* `C06_quote_no_trailing_brace`: the emitted source never ends in a text `{`, so it cannot pair up with whatever is emitted next.
* `C06_void_table`: the void-element table read from pug_parser.go is the specification's list.
-/
set_option linter.unusedSimpArgs false
namespace Pug.Props.C06
open Pug Pug.Tpl

theorem C06_extract : Gen.voidTags_ok = true := by decide

/-- the void elements of the source are exactly the specification's -/
theorem C06_void_table :
    (Gen.voidTags.all fun t => Spec.voidElements.contains t) = true ∧
    (Spec.voidElements.all fun t => Gen.voidTags.contains t) = true := by decide

/-! ## the quoting prints the text (lemmas in PugProofs/C06/Quote.lean) -/

/-- **C06 (quoted text prints as the text).** For EVERY text: executing the pieces the quoting produces prints the text. -/
theorem C06_quote_output (t : List Char) : outputOf (quoteL t []) = t := quote_output t

/-! ## the lexer finds the boundaries where the quoting put them -/

theorem srcOf_append (a b : List Piece) : srcOf (a ++ b) = srcOf a ++ srcOf b := by
  induction a with
  | nil => rfl
  | cons p rest ih => cases p <;> simp [srcOf, ih]

theorem srcOf_flush (cur : List Char) : srcOf (flush cur) = cur.reverse := by
  unfold flush; split
  · rename_i h; simp [List.isEmpty_iff] at h; simp [h, srcOf]
  · simp [srcOf]

/-- the first text piece absorbs what was accumulated -/
theorem src_quote_cur (t cur : List Char) : srcOf (quoteL t cur) = cur.reverse ++ srcOf (quoteL t []) := by
  induction t generalizing cur with
  | nil => simp [quoteL, srcOf_flush, srcOf]
  | cons c rest ih =>
    unfold quoteL
    split
    · rename_i hc; subst hc
      split
      · simp [srcOf_append, srcOf_flush, srcOf]
      · rename_i d r2
        split
        · simp [srcOf_append, srcOf_flush, srcOf]
        · rw [ih ('{' :: cur), ih ['{']]; simp
    · rw [ih (c :: cur), ih [c]]; simp

/-- a text that starts with a non-brace character is emitted starting with that character -/
theorem src_head (c : Char) (rest : List Char) (hc : c ≠ '{') :
    srcOf (quoteL (c :: rest) []) = c :: srcOf (quoteL rest []) := by
  conv => lhs; unfold quoteL
  simp only [hc, if_false]
  rw [src_quote_cur]; simp

theorem lexQ_nil (fuel : Nat) (cur : List Char) : lexQ (fuel + 1) [] cur = some (flush cur) := by
  simp [lexQ]

/-- ordinary character: not the start of a delimiter -/
theorem lexQ_char (fuel : Nat) (c : Char) (rest cur : List Char) (h : ¬ (c = '{' ∧ rest.head? = some '{')) :
    lexQ (fuel + 1) (c :: rest) cur = lexQ fuel rest (c :: cur) := by
  have : LD.isPrefixOf (c :: rest) = false := by
    cases rest with
    | nil => simp [LD, List.isPrefixOf]
    | cons d r2 =>
      simp only [LD, List.isPrefixOf, Bool.and_true, Bool.and_eq_false_imp, beq_iff_eq]
      intro h1
      simp only [List.head?_cons, Option.some.injEq] at h
      have : d ≠ '{' := fun hd => h ⟨h1.symm ▸ rfl, hd⟩
      simp [beq_eq_false_iff_ne, Ne.symm this]
  simp [lexQ, this]

/-- the quoting action -/
theorem lexQ_lb (fuel : Nat) (rest cur : List Char) :
    lexQ (fuel + 1) (LB ++ rest) cur = (lexQ fuel rest []).map (fun ps => flush cur ++ [none] ++ ps) := by
  simp [lexQ, LB, LD, List.isPrefixOf]

theorem src_len (t : List Char) : (srcOf (quoteL t [])).length ≤ 7 * t.length := by
  have gen : ∀ (t cur : List Char), (srcOf (quoteL t cur)).length ≤ 7 * t.length + cur.length := by
    intro t
    induction t with
    | nil => intro cur; simp [quoteL, srcOf_flush]
    | cons c rest ih =>
      intro cur
      unfold quoteL
      split
      · split
        · simp [srcOf_append, srcOf_flush, srcOf, LB, quoteL]; omega
        · split
          · have := ih []
            simp [srcOf_append, srcOf_flush, srcOf, LB] at this ⊢; omega
          · have := ih (c :: cur); simp at this ⊢; omega
      · have := ih (c :: cur); simp at this ⊢; omega
  simpa using gen t []

/-- main lemma: lexing the source of the rest, with `cur` accumulated, yields the quoting of the rest from `cur` -/
theorem lex_quote_gen (t : List Char) : ∀ (cur : List Char) (fuel : Nat), fuel ≥ 7 * t.length + 1 →
    lexQ fuel (srcOf (quoteL t [])) cur = some (quoteL t cur) := by
  induction t with
  | nil =>
    intro cur fuel hf
    obtain ⟨f, rfl⟩ : ∃ f, fuel = f + 1 := ⟨fuel - 1, by omega⟩
    simp [quoteL, srcOf, lexQ]
  | cons c rest ih =>
    intro cur fuel hf
    obtain ⟨f, rfl⟩ : ∃ f, fuel = f + 1 := ⟨fuel - 1, by omega⟩
    have hf' : f ≥ 7 * rest.length + 1 := by simp at hf; omega
    by_cases hc : c = '{'
    · subst hc
      cases rest with
      | nil =>
        have : srcOf (quoteL ['{'] []) = LB ++ [] := by simp [quoteL, srcOf]
        rw [this, lexQ_lb]
        obtain ⟨f2, rfl⟩ : ∃ f2, f = f2 + 1 := ⟨f - 1, by omega⟩
        simp [lexQ, quoteL]
      | cons d r2 =>
        by_cases hd : d = '{'
        · subst hd
          have h2 : ∀ cur, quoteL ('{' :: '{' :: r2) cur = flush cur ++ [none] ++ quoteL ('{' :: r2) [] := by
            intro cur
            conv => lhs; unfold quoteL
            simp
          have h1 : quoteL ('{' :: '{' :: r2) [] = [none] ++ quoteL ('{' :: r2) [] := by
            rw [h2 []]; simp
          rw [h1, srcOf_append]
          have : srcOf [none] = LB := by simp [srcOf]
          rw [this, lexQ_lb, ih [] f hf', h2]
          simp
        · have h2 : ∀ cur, quoteL ('{' :: d :: r2) cur = quoteL (d :: r2) ('{' :: cur) := by
            intro cur
            conv => lhs; unfold quoteL
            simp [hd]
          rw [h2 [], src_quote_cur, h2 cur]
          simp only [List.reverse_cons, List.reverse_nil, List.nil_append, List.singleton_append]
          rw [src_head d r2 hd]
          rw [lexQ_char f '{' _ cur (by simp [hd])]
          rw [← src_head d r2 hd]
          exact ih ('{' :: cur) f hf'
    · have h2 : ∀ cur, quoteL (c :: rest) cur = quoteL rest (c :: cur) := by
        intro cur
        conv => lhs; unfold quoteL
        simp [hc]
      rw [src_head c rest hc, lexQ_char f c _ cur (by simp [hc]), h2 cur]
      exact ih (c :: cur) f hf'

/-- **C06 (delimiters in text).** For every literal text, the template lexer splits the emitted source into exactly the
pieces the quoting produced: text is read as text, and the only actions found are the `{{"{"}}` the quoting inserted. -/
theorem C06_quote_lex (t : List Char) :
    lexQ (7 * t.length + 1) (srcOf (quoteL t [])) [] = some (quoteL t []) :=
  lex_quote_gen t [] _ (Nat.le_refl _)

/-- no text piece of the quoting ends in `{` or contains `{{`: stated on the emitted source — it never ends with a
text `{`, so it cannot pair up with whatever is emitted next (an action, another text, a tag) -/
theorem quote_last_piece (t cur : List Char)
    (hcur : cur.head? = some '{' → ∃ d r, t = d :: r ∧ d ≠ '{') :
    ∀ cs, (quoteL t cur).getLast? = some (some cs) → cs.getLast? ≠ some '{' := by
  induction t generalizing cur with
  | nil =>
    intro cs h
    have hc : cur.head? ≠ some '{' := by
      intro hh; obtain ⟨d, r, hd, _⟩ := hcur hh; cases hd
    simp only [quoteL, flush] at h
    split at h
    · simp at h
    · simp only [List.getLast?_singleton, Option.some.injEq] at h
      subst h
      simpa [List.getLast?_reverse] using hc
  | cons c rest ih =>
    intro cs h
    by_cases hc : c = '{'
    · subst hc
      cases rest with
      | nil =>
        have : quoteL ['{'] cur = flush cur ++ [none] := by simp [quoteL]
        rw [this] at h
        simp [List.getLast?_append] at h
      | cons d r2 =>
        by_cases hd : d = '{'
        · subst hd
          have h2 : quoteL ('{' :: '{' :: r2) cur = flush cur ++ [none] ++ quoteL ('{' :: r2) [] := by
            conv => lhs; unfold quoteL
            simp
          rw [h2] at h
          cases hlast : (quoteL ('{' :: r2) []).getLast? with
          | none =>
            have hnil := List.getLast?_eq_none_iff.mp hlast
            have := congrArg outputOf hnil
            simp [quote_output_gen, outputOf] at this
          | some x =>
            rw [List.getLast?_append, hlast] at h
            have h' : some x = some (some cs) := by simpa using h
            exact ih [] (by simp) cs (by rw [hlast]; exact h')
        · have h2 : quoteL ('{' :: d :: r2) cur = quoteL (d :: r2) ('{' :: cur) := by
            conv => lhs; unfold quoteL
            simp [hd]
          rw [h2] at h
          exact ih ('{' :: cur) (fun _ => ⟨d, r2, rfl, hd⟩) cs h
    · have h2 : quoteL (c :: rest) cur = quoteL rest (c :: cur) := by
        conv => lhs; unfold quoteL
        simp [hc]
      rw [h2] at h
      exact ih (c :: cur) (by simp [hc]) cs h

/-- **C06 (no dangling brace).** -/
theorem C06_quote_no_trailing_brace (t : List Char) :
    ∀ cs, (quoteL t []).getLast? = some (some cs) → cs.getLast? ≠ some '{' :=
  quote_last_piece t [] (by simp)

/-! non-vacuity: the inputs that used to break compilation -/
example : quoteL "f(){}}".toList [] = [some "f(){}}".toList] := by decide
example : quoteL "x{".toList [] = [some ['x'], none] := by decide
example : quoteL "a{{{b".toList [] = [some ['a'], none, none, some ['{', 'b']] := by decide

/-! ## whole static documents: structure and text reproduced, for every tree

`staticListF` accepts text (any characters, braces included), doctype and tags without attributes other than `script`, nested
to any depth; `serListF` is the reference serialisation (start tag, children, end tag; void elements without children and end
tag). The stage lemmas - transpile, merge texts, trim markers, nesting by the template parser, execution - are in
`PugProofs/C06/Static.lean`. -/

open Pug.Props.C06S Pug.Driver in
/-- **C06 (static structure and text, whole documents).** For EVERY static document, whatever the data: the model of
LoadTemplates + Render (transpiler, text merging, trim markers, template parser, executor) prints exactly the reference
serialisation of the tree - every start tag, every end tag in the right place, every text byte for byte. -/
theorem C06_static_render (doc : List Node) (data : Lean.Json) (h : staticListF nodeFuel doc = true) :
    ∃ frags, compileNodes { funcs := engineFuncs ++ [], parserFuncs := engineFuncs ++ [] ++ builtinNames } doc = .ok frags ∧
      (frags.length + 2 < 100000000 → renderModel doc data [] false = okOut (serListF nodeFuel doc)) := by
  obtain ⟨frags, h1, h2, h3, h4⟩ := compileDoc_static
    { funcs := engineFuncs ++ [], parserFuncs := engineFuncs ++ [] ++ builtinNames } rfl doc h
  refine ⟨frags, h1, fun hlen => ?_⟩
  have hm := merge_plain frags.length frags (Nat.le_refl _) h2
  have hl := merge_length frags.length frags (Nat.le_refl _)
  have hw := walk_nodes { defs := [] } (mergeTexts frags) hm.1 (initState data) 100000000 (by omega)
  have hout : (initState data).out = "" := by
    unfold initState
    cases convertData data Heap.empty with
    | mk hp v => cases v <;> simp
  simp only [renderModel, h4, StateT.run, hw, hm.2, h3, hout, String.empty_append]

open Pug.Props.C06S in
/-- non-vacuity: `div > (p > "a{" , br , "x") , "}}"` is static -/
example : staticListF 7 [.tag "div" false [] [] [.tag "p" true [] [] [.text "a{"], .tag "br" false [] [] [], .text "x"], .text "}}"]
    = true := by decide

/-- **C06 (one compiler state per template file).** The mixin registry, the block counter and the raw-mode flag are created anew for
every template file (extracted control skeleton of `Engine.compileDir`, regenerated on every run): each document consists of its own template's tags and text: nothing another page of the directory defines is appended to it. -/
theorem C06_compiler_state_per_template :
    (Gen.loadSkeleton.filter fun r => r.2 == "3 new renderState" || r.2 == "0 new renderState" || r.2 == "1 new renderState" ||
      r.2 == "2 new renderState" || r.2 == "4 new renderState") = [("compileDir", "3 new renderState")] :=
  Pug.Props.C10.C10_state_per_template

/-- **C06 (no state outlives a render or a compilation in package variables).** The inventory of package-level variables of pugjs and
templatefunctions, regenerated from the Go source on every run, holds nothing but the known entries: no cache, pool, shared empty
object, memo table or once-guard has been added through which one call, one compilation or one render could reach the next (rounds 5-7
of the seeded changes added such a variable five times: a shared empty attributes map, a shared empty array, an AST cache, a buffer
pool). Restated here so that THIS property's check fails on it before any input is drawn. -/
theorem C06_package_state_inventory :
    Gen.pkgState_ok = true ∧ Gen.pkgState.all (fun v => Pug.Props.C08.knownPkgState.contains v) = true :=
  Pug.Props.C08.C08_package_state_inventory

end Pug.Props.C06
