import PugModel.Sys.Assets
import PugModel.Gen.Tables
import PugProofs.Guard
/-!
# C19 — static assets are served only from the dist directory; CORS follows the whitelist
-/
set_option linter.unusedSimpArgs false
namespace Pug.Props.C19
open Pug.Sys

def Plain (x : String) : Prop := x ≠ "" ∧ x ≠ "." ∧ x ≠ ".."

theorem normSegs_plain (segs acc : List String) (hacc : ∀ x ∈ acc, Plain x) : ∀ x ∈ normSegs segs acc, Plain x := by
  induction segs generalizing acc with
  | nil => intro x hx; simp only [normSegs, List.mem_reverse] at hx; exact hacc x hx
  | cons s rest ih =>
    unfold normSegs
    split
    · exact ih acc hacc
    · rename_i h1
      split
      · exact ih acc.tail (fun x hx => hacc x (List.mem_of_mem_tail hx))
      · rename_i h2
        apply ih
        intro x hx
        rcases List.mem_cons.mp hx with rfl | hx
        · simp only [Bool.or_eq_true, beq_iff_eq, not_or] at h1
          exact ⟨h1.1, h1.2, by simpa using h2⟩
        · exact hacc x hx

/-- **C19 (cleaned, rooted).** For every string, the segments of `path.Clean("/" ++ s)` contain no `..`, no `.` and no
empty segment: the cleaned path cannot climb above its root. -/
theorem C19_clean_rooted (s : String) : ∀ x ∈ normSegs (splitSlash s) [], Plain x :=
  normSegs_plain _ [] (by simp)

/-- **C19 (lexical containment).** For every request path, the name handed to the OS is `frontend/dist/` followed by
segments none of which is `..`, `.` or empty — whatever dot segments, doubled prefixes or `/assets/` fragments the path holds. -/
theorem C19_contained (upath : String) : ∀ x ∈ openedSegs upath, Plain x := by
  unfold openedSegs
  exact normSegs_plain _ [] (by simp)

/-- **C19 (only inside regular files are served).** A 200 carries the bytes of a file of the dist tree, the one at the opened name. -/
theorem C19_serve_inside (files dirs : List String) (upath rel : String) (h : serve files dirs upath = .file rel) :
    rel ∈ files ∧ rel = "/".intercalate (openedSegs upath) := by
  unfold serve at h
  by_cases h1 : (rooted upath).endsWith "/index.html" = true
  · simp [h1] at h
  · by_cases h2 : ("/".intercalate (openedSegs upath)) ∈ files
    · by_cases h3 : (rooted upath).endsWith "/" = true
      · simp [h1, h2, h3] at h
      · simp [h1, h2, h3] at h
        subst h
        exact ⟨h2, rfl⟩
    · simp [h1, h2] at h

/-- **C19 (a directory is never content).** A name that is not a regular file of the tree (a directory, a missing file) is refused. -/
theorem C19_no_dir (files dirs : List String) (upath : String) (h : ¬ ("/".intercalate (openedSegs upath)) ∈ files) :
    serve files dirs upath = .redirect ∨ serve files dirs upath = .refused := by
  unfold serve
  by_cases h1 : (rooted upath).endsWith "/index.html" = true
  · simp [h1]
  · simp [h1, h]

/-- **C19 (CORS).** With the test in the shape read from module.go, the header is set only when the origin is a member of
the whitelist or the whitelist contains `*` — for every origin string and every whitelist (also origins containing `!`,
the empty origin, the empty whitelist). -/
theorem C19_cors (whitelist : List String) (origin : String) (h : corsAllowed Gen.corsTest whitelist origin = true) :
    origin ∈ whitelist ∨ "*" ∈ whitelist := by
  have hs : Gen.corsTest = "exact" := by decide
  simp only [hs, corsAllowed, if_true, Bool.and_eq_true, Bool.or_eq_true, List.contains_iff_mem, beq_self_eq_true] at h
  simpa using h.2

/-- facts about the handler read from the source: the header value is the request's origin, assets come from frontend/dist/,
Open strips the first /assets/ and refuses directories and stat errors -/
theorem C19_shape :
    Gen.corsTest_ok = true ∧ Gen.corsHeaderIsOrigin = true ∧ Gen.assetDir = "frontend/dist/" ∧ (Gen.assetOpenShape.all (·.2)) = true ∧
    Gen.assetOpenShape.length = 2 := by decide

/-! ## assetFileSystem.Open, translated statement by statement -/

open Pug.Gen in
/-- the check on one run of `Open`: if the file handle is returned, then the open succeeded, the stat succeeded, the name is
not a directory, and both calls were made before -/
def openCheck (p : List Gen.GStmt) (v : String → Bool) : Bool :=
  match Gen.GStmt.run v p [] with
  | some (out, done) =>
    if out == "serve" then !(v "openErr") && !(v "statErr") && !(v "isDir") && done.contains "open" && done.contains "stat"
    else true
  | none => false       -- falling off the end without a return is not a Go function

def openAtoms : List String := Gen.GStmt.atoms Gen.assetOpenProg ++ ["openErr", "statErr", "isDir"]

theorem openCheck_congr (v w : String → Bool) (h : ∀ a ∈ openAtoms, v a = w a) :
    openCheck Gen.assetOpenProg v = openCheck Gen.assetOpenProg w := by
  unfold openCheck
  rw [Gen.GStmt.run_congr Gen.assetOpenProg v w [] (fun a ha => h a (by simp [openAtoms, ha]))]
  rw [h "openErr" (by simp [openAtoms]), h "statErr" (by simp [openAtoms]), h "isDir" (by simp [openAtoms])]

/-- **C19 (Open never hands out a directory).** For EVERY outcome of the file-system calls and EVERY value of any condition
the translator does not interpret: `assetFileSystem.Open`, as it is written in module.go now, returns the file only after a
successful open and stat of a name that is not a directory. -/
theorem C19_open_refuses_directories (v : String → Bool) :
    Gen.assetOpenProg_ok = true ∧ openCheck Gen.assetOpenProg v = true := by
  refine ⟨by decide, ?_⟩
  exact Gen.forall_vals openAtoms (openCheck Gen.assetOpenProg) openCheck_congr (by decide) v

/-- unfolding of the check: what `C19_open_refuses_directories` says about a run that serves -/
theorem C19_open_serves_only_regular (v : String → Bool) (done : List String)
    (h : Gen.GStmt.run v Gen.assetOpenProg [] = some ("serve", done)) :
    v "openErr" = false ∧ v "statErr" = false ∧ v "isDir" = false ∧ "open" ∈ done ∧ "stat" ∈ done := by
  have := (C19_open_refuses_directories v).2
  unfold openCheck at this
  rw [h] at this
  have h5 : (((v "openErr" = false ∧ v "statErr" = false) ∧ v "isDir" = false) ∧ "open" ∈ done) ∧ "stat" ∈ done := by
    simpa using this
  exact ⟨h5.1.1.1.1, h5.1.1.1.2, h5.1.1.2, h5.1.2, h5.2⟩

/-- non-vacuity: a run on a regular file serves; a run on a directory refuses -/
example : (Gen.GStmt.run (fun _ => false) Gen.assetOpenProg []).map (·.1) = some "serve" := by decide
example : (Gen.GStmt.run (fun a => a == "isDir") Gen.assetOpenProg []).map (·.1) = some "refuse" := by decide

/-! non-vacuity (on explicit segment lists; `String.splitOn` does not reduce in the kernel) -/
example : normSegs ["assets", "..", "..", "secret.txt"] [] = ["secret.txt"] := by decide
example : normSegs ["", "js", ".", "..", "js", "app.js", ""] [] = ["js", "app.js"] := by decide

end Pug.Props.C19
