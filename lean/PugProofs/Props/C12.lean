import PugModel.Data.JsonDecode
import PugProofs.C12.Str
import PugProofs.C12.Valid
/-!
# C12 — data handed to the browser as JSON is valid and equals the source data

String level (where the hazards are — quotes, backslashes, control characters, `< > &`, U+2028/9, non-ASCII):
for EVERY string, decoding (RFC 8259) the encoder's output gives back exactly that string, and the encoded body contains
no raw quote terminator, control character, `<`, `>` or `&`.
-/
set_option linter.unusedSimpArgs false
namespace Pug.Props.C12
open Pug Pug.Data

open Pug.Props.C12S

/-- **C12 (string round trip).** For every string, the RFC 8259 decoding of the encoded body is the string. -/
theorem C12_string_roundtrip (s : List Char) : decodeBody (s.flatMap jsonEscChar) = some s :=
  string_roundtrip s

/-- the whole literal: quote, body, quote -/
theorem C12_string_literal (s : List Char) :
    jsonStringChars s = ['"'] ++ s.flatMap jsonEscChar ++ ['"'] := rfl

/-! ## value level -/

open Pug.Props.C12V Pug.Tpl in
/-- **C12 (every value: valid JSON for the value the model reads).** For EVERY heap, value and traversal depth: if the model of
`json.Marshal` (what `JSON.stringify` and the `json` helper print) yields a text, that text is derivable in the JSON grammar of
RFC 8259 (`IsJson`: literals, numbers, strings, arrays `[e,…]`, objects `{"k":v,…}`, no stray character) FOR the tree `valOf` reads
from the same heap - arrays element by element, objects member by member in the encoder's key order - and every string in it,
values and keys alike, decodes (RFC 8259 string decoding, `decodeBody`) to exactly its characters. Induction over the depth; the
string case is `C12_string_roundtrip`. Numbers are carried as the encoder's text. -/
theorem C12_marshal_valid_json (fuel : Nat) (h : Heap) (v : Val) (s : String) (hm : marshal h fuel v = some s) :
    ∃ j, valOf h fuel v = some j ∧ IsJson s.toList j :=
  marshal_valid fuel h v s hm

/-- non-vacuity: the grammar relation on a concrete text -/
example : Pug.Props.C12V.IsJson "[true,\"x\"]".toList (.arr [.bool true, .str ['x']]) := by
  have h := Pug.Props.C12V.IsJson.arr (Pug.Props.C12V.IsElems.cons Pug.Props.C12V.IsJson.tt
    (Pug.Props.C12V.IsElems.one (Pug.Props.C12V.IsJson.str ['x'] ['x'] (by decide))))
  exact h

end Pug.Props.C12
