import PugModel.Tpl.Exec
import PugModel.Gen.Tables
/-!
# C05 — attributes: values escaped, booleans/null handled, classes merged, order kept

Theorems about `renderAttrs`, the model of runtime.go's `__attrs` (tied to the code by the correspondence check, whose
oracle re-parses the real output with the golang.org/x/net/html tokenizer):
for EVERY attribute name and EVERY value string
* a false / null / undefined record omits the attribute (C05_false_omitted),
* a true record renders `name="name"` (C05_true_named),
* a string/number record renders `name="…"` with the value escaped and otherwise untouched — no trimming (C05_value_escaped),
* the escaped value contains no `"` (nor `<`, `>`, `'`), so the parser cannot be made to end the value early or to see an
  extra attribute or element (C05_value_no_quote).
-/
set_option linter.unusedSimpArgs false
namespace Pug.Props.C05
open Pug Pug.Tpl

/-- the model follows the code in trimming only the merged class value -/
theorem C05_trim_only_class : attrsTrimAll = false := rfl

theorem collect_single (r : AttrRec) : attrCollect [r] = attrStep [] r := rfl

/-- **C05 (false / null / undefined ⇒ omitted).** -/
theorem C05_false_omitted (n v : String) (e : Bool) : renderAttrs [(n, some false, v, e)] = "" := by
  by_cases hc : n = "class"
  · subst hc
    simp [renderAttrs, collect_single, attrStep, attOf, attrRenderOne, List.find?, List.filter, List.map, String.join]
    cases e <;> simp [trimSpaceStr] <;> decide
  · have : (n == "class") = false := by simpa using hc
    simp [renderAttrs, collect_single, attrStep, attOf, attrRenderOne, List.find?, this, String.join]

/-- **C05 (true ⇒ name="name").** For every name other than `class`: a true boolean renders the attribute with its own name
as the value (escaped like any value). -/
theorem C05_true_named (n v : String) (hc : n ≠ "class") :
    renderAttrs [(n, some true, v, true)] = " " ++ n ++ "=\"" ++ stdHtmlEscape n ++ "\"" := by
  have h1 : (n == "class") = false := by simpa using hc
  simp [renderAttrs, collect_single, attrStep, attOf, attrRenderOne, List.find?, h1, String.join, attrsTrimAll, hc]

/-- **C05 (string / number values).** For every name other than `class` and every value, the attribute is emitted once as
`name="escape(value)"`; the value is not trimmed or otherwise altered. -/
theorem C05_value_escaped (n v : String) (hc : n ≠ "class") :
    renderAttrs [(n, none, v, true)] = " " ++ n ++ "=\"" ++ stdHtmlEscape v ++ "\"" := by
  have h1 : (n == "class") = false := by simpa using hc
  simp [renderAttrs, collect_single, attrStep, attOf, attrRenderOne, List.find?, h1, String.join, attrsTrimAll, hc]

/-! ## order and merging, for every record list -/

/-- names in order of FIRST occurrence -/
def firstOcc (acc : List String) : List String → List String
  | [] => acc
  | n :: rest => firstOcc (if acc.any (· == n) then acc else acc ++ [n]) rest

theorem find_iff_any (acc : List (String × List TmpAttr)) (n : String) :
    (acc.find? (·.1 == n)).isSome = (acc.map (·.1)).any (· == n) := by
  induction acc with
  | nil => rfl
  | cons p rest ih =>
    simp only [List.find?_cons, List.map_cons, List.any_cons]
    by_cases h : (p.1 == n) = true
    · simp [h]
    · simp [h, ih]

theorem map_fst_replace (acc : List (String × List TmpAttr)) (n : String) (vs : List TmpAttr) :
    (acc.map fun e => if e.1 == n then (n, vs) else e).map (·.1) = acc.map (·.1) := by
  induction acc with
  | nil => rfl
  | cons p rest ih =>
    simp only [List.map_cons, ih]
    by_cases h : (p.1 == n) = true
    · have : p.1 = n := by simpa using h
      simp [h, this]
    · simp [h]

theorem step_names (acc : List (String × List TmpAttr)) (r : AttrRec) :
    (attrStep acc r).map (·.1) =
      (if (acc.map (·.1)).any (· == r.1) then acc.map (·.1) else acc.map (·.1) ++ [r.1]) := by
  have hf := find_iff_any acc r.1
  unfold attrStep
  generalize attOf r = att
  simp only
  cases hfind : acc.find? (·.1 == r.1) with
  | none =>
    rw [hfind] at hf
    have : (acc.map (·.1)).any (· == r.1) = false := by simpa using hf.symm
    simp [this]
  | some p =>
    rw [hfind] at hf
    have : (acc.map (·.1)).any (· == r.1) = true := by simpa using hf.symm
    simp only [this, if_true]
    split
    · split
      · rfl
      · exact map_fst_replace acc r.1 _
    · exact map_fst_replace acc r.1 _

/-- **C05 (source order kept).** For EVERY list of attribute records: the attributes come out in the order in which their
names FIRST occur; a repeated name never moves or duplicates an attribute. -/
theorem C05_order_first_occurrence (recs : List AttrRec) :
    (attrCollect recs).map (·.1) = firstOcc [] (recs.map (·.1)) := by
  have gen : ∀ (recs : List AttrRec) (acc : List (String × List TmpAttr)),
      (recs.foldl attrStep acc).map (·.1) = firstOcc (acc.map (·.1)) (recs.map (·.1)) := by
    intro recs
    induction recs with
    | nil => intro acc; rfl
    | cons r rest ih =>
      intro acc
      simp only [List.foldl_cons, List.map_cons, firstOcc]
      rw [ih, step_names]
  exact gen recs []

/-- **C05 (a repeated plain attribute: the last value wins).** -/
theorem C05_last_value_wins (n v1 v2 : String) (hc : n ≠ "class") :
    renderAttrs [(n, none, v1, true), (n, none, v2, true)] = " " ++ n ++ "=\"" ++ stdHtmlEscape v2 ++ "\"" := by
  have h1 : (n == "class") = false := by simpa using hc
  simp [renderAttrs, attrCollect, attrStep, attOf, attrRenderOne, List.foldl, List.find?, h1, String.join, attrsTrimAll, hc]

/-- **C05 (class values accumulate).** Two different class records are both kept, in order. -/
theorem C05_class_accumulates (v1 v2 : String) (hne : v1 ≠ v2) :
    attrCollect [("class", none, v1, true), ("class", none, v2, true)] =
      [("class", [(true, v1, none), (true, v2, none)])] := by
  have : ((true, v1, (none : Option Bool)) == (true, v2, (none : Option Bool))) = false := by
    simp [hne]
  simp [attrCollect, attrStep, attOf, List.foldl, List.find?, this]

def sig (c : Char) : Bool := c == '<' || c == '>' || c == '"' || c == '\''

theorem stdEsc_char_safe (c : Char) : ∀ d ∈ escChar stdHtmlEscapeTable c, sig d = false := by
  by_cases h1 : c = '&'
  · subst h1; decide
  by_cases h2 : c = '<'
  · subst h2; decide
  by_cases h3 : c = '>'
  · subst h3; decide
  by_cases h4 : c = '"'
  · subst h4; decide
  by_cases h5 : c = '\''
  · subst h5; decide
  by_cases h6 : c = Char.ofNat 0
  · subst h6; decide
  have hkeys : ∀ x ∈ stdHtmlEscapeTable, x.1 ∈ ['&', '\'', '<', '>', '"', Char.ofNat 0] := by decide
  have hnone : stdHtmlEscapeTable.find? (·.1 == c) = none := by
    simp only [List.find?_eq_none]
    intro x hx hxc
    have hx' : x.1 = c := by simpa using hxc
    have := hkeys x hx
    rw [hx'] at this
    simp [h1, h2, h3, h4, h5, h6] at this
  intro d hd
  simp only [escChar, hnone, List.mem_singleton] at hd
  subst hd
  simp [sig, h2, h3, h4, h5]

/-- **C05 (the value cannot break out).** No `"`, `'`, `<` or `>` occurs in an escaped attribute value, for every string. -/
theorem C05_value_no_quote (v : List Char) : ∀ d ∈ escapeWith stdHtmlEscapeTable v, sig d = false := by
  intro d hd
  simp only [escapeWith, List.mem_flatMap] at hd
  obtain ⟨c, _, hc⟩ := hd
  exact stdEsc_char_safe c d hc

/-! non-vacuity / worked examples on the model -/
example : renderAttrs [("title", none, " pad <x>\"", true), ("hidden", some true, "", false), ("id", some false, "", false)]
    = " title=\" pad &lt;x&gt;&#34;\" hidden=\"hidden\"" := by decide
example : renderAttrs [("class", none, "a", true), ("id", none, "i", true), ("class", none, "b c", true), ("class", some false, "", false)]
    = " class=\"a b c\" id=\"i\"" := by decide

/-! ## the code the model mirrors, by its control skeleton

`Gen.attrSkeleton`: `attrOf` and `classNames` (pugjs/runtime.go): which kinds of value give a boolean record, an omitted record, a class list, a text - every `if` / `switch` / `case` condition, loop header, `return`, `continue`, in source order with nesting depth,
regenerated from the Go source on every run. It must be the skeleton the attribute record model (`attrRecOf`, `classNamesOf`) was written against: a changed condition, an added
branch or early exit reopens the obligation before any input is drawn. -/

def expected_attrSkeleton : List (String × String) :=
  [("attrOf", "0 if ok"),
   ("attrOf", "1 return []Attribute{…}"),
   ("attrOf", "0 if ok"),
   ("attrOf", "1 return []Attribute{…}"),
   ("attrOf", "0 if ok || v == nil"),
   ("attrOf", "1 return []Attribute{…}"),
   ("attrOf", "0 if ok && k == \"class\""),
   ("attrOf", "1 return []Attribute{…}"),
   ("attrOf", "0 if ok"),
   ("attrOf", "1 return []Attribute{…}"),
   ("attrOf", "0 if ok"),
   ("attrOf", "1 return []Attribute{…}"),
   ("attrOf", "0 return []Attribute{…}"),
   ("classNames", "0 typeswitch "),
   ("classNames", "1 case *Array"),
   ("classNames", "2 range v.items"),
   ("classNames", "2 return out"),
   ("classNames", "1 case Bool"),
   ("classNames", "2 if !bool(v)"),
   ("classNames", "3 return out"),
   ("classNames", "1 case Nil, nil"),
   ("classNames", "2 return out"),
   ("classNames", "0 if ok"),
   ("classNames", "1 return append(out, o.String())"),
   ("classNames", "0 return append(out, fmt.Sprintf(\"%v\", v))")]

/-- **C05 (the model's tie to the code, by shape).** -/
theorem C05_attr_skeleton : Gen.attrSkeleton_ok = true ∧ Gen.attrSkeleton = expected_attrSkeleton := by
  constructor <;> decide

end Pug.Props.C05
