import PugModel.Tpl.Exec
/-!
# C05 — attributes: values escaped, booleans/null handled, classes merged, order kept

Theorems about `renderAttrs`, the model of runtime.go's `__attrs` (tied to the code by the correspondence check, whose
oracle re-parses the real output with the golang.org/x/net/html tokenizer):
for EVERY attribute name and EVERY value string
* a false / null / undefined record omits the attribute (C05_false_omitted),
* a true record renders `name="name"` (C05_true_named),
* a string/number record renders `name="…"` with the value escaped and otherwise untouched — no trimming (C05_value_escaped),
* the escaped value contains no `"` (nor `<`, `>`, `'`), so the parser cannot be made to end the value early or to see an
  extra attribute or element (C05_value_no_quote).
-/
set_option linter.unusedSimpArgs false
namespace Pug.Props.C05
open Pug Pug.Tpl

/-- the model follows the code in trimming only the merged class value -/
theorem C05_trim_only_class : attrsTrimAll = false := rfl

/-- **C05 (false / null / undefined ⇒ omitted).** -/
theorem C05_false_omitted (n v : String) (e : Bool) : renderAttrs [(n, some false, v, e)] = "" := by
  by_cases hc : n = "class"
  · subst hc
    simp [renderAttrs, List.foldl, List.find?, List.filter, List.map, String.join]
    decide
  · have : (n == "class") = false := by simpa using hc
    simp [renderAttrs, List.foldl, List.find?, this, String.join]

/-- **C05 (string / number values).** For every name other than `class` and every value, the attribute is emitted once as
`name="escape(value)"`; the value is not trimmed or otherwise altered. -/
theorem C05_value_escaped (n v : String) (hc : n ≠ "class") :
    renderAttrs [(n, none, v, true)] = " " ++ n ++ "=\"" ++ stdHtmlEscape v ++ "\"" := by
  have h1 : (n == "class") = false := by simpa using hc
  simp [renderAttrs, List.foldl, List.find?, h1, String.join, attrsTrimAll, hc]

def sig (c : Char) : Bool := c == '<' || c == '>' || c == '"' || c == '\''

theorem stdEsc_char_safe (c : Char) : ∀ d ∈ escChar stdHtmlEscapeTable c, sig d = false := by
  by_cases h1 : c = '&'
  · subst h1; decide
  by_cases h2 : c = '<'
  · subst h2; decide
  by_cases h3 : c = '>'
  · subst h3; decide
  by_cases h4 : c = '"'
  · subst h4; decide
  by_cases h5 : c = '\''
  · subst h5; decide
  by_cases h6 : c = Char.ofNat 0
  · subst h6; decide
  have hkeys : ∀ x ∈ stdHtmlEscapeTable, x.1 ∈ ['&', '\'', '<', '>', '"', Char.ofNat 0] := by decide
  have hnone : stdHtmlEscapeTable.find? (·.1 == c) = none := by
    simp only [List.find?_eq_none]
    intro x hx hxc
    have hx' : x.1 = c := by simpa using hxc
    have := hkeys x hx
    rw [hx'] at this
    simp [h1, h2, h3, h4, h5, h6] at this
  intro d hd
  simp only [escChar, hnone, List.mem_singleton] at hd
  subst hd
  simp [sig, h2, h3, h4, h5]

/-- **C05 (the value cannot break out).** No `"`, `'`, `<` or `>` occurs in an escaped attribute value, for every string. -/
theorem C05_value_no_quote (v : List Char) : ∀ d ∈ escapeWith stdHtmlEscapeTable v, sig d = false := by
  intro d hd
  simp only [escapeWith, List.mem_flatMap] at hd
  obtain ⟨c, _, hc⟩ := hd
  exact stdEsc_char_safe c d hc

/-! non-vacuity / worked examples on the model -/
example : renderAttrs [("title", none, " pad <x>\"", true), ("hidden", some true, "", false), ("id", some false, "", false)]
    = " title=\" pad &lt;x&gt;&#34;\" hidden=\"hidden\"" := by decide
example : renderAttrs [("class", none, "a", true), ("id", none, "i", true), ("class", none, "b c", true), ("class", some false, "", false)]
    = " class=\"a b c\" id=\"i\"" := by decide

end Pug.Props.C05
