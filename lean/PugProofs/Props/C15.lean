import PugModel.JS.ParseFunction
import PugModel.Gen.Tables
/-!
# C15 — the JavaScript snippet parser accepts or rejects every input without crashing

What is PROVED here is the part that is logic over a parse result: `ParseFunction`'s extraction of the function literal, in
the shape read from otto/parser/parser.go, returns a tree or an error for EVERY program the parser can hand it (the body text
may close the wrapper and continue with statements of its own) — it cannot panic.
What is NOT proved: termination and panic-freedom of the hand-written lexer and of the statement/expression parser
themselves; they are exercised by the differential fuzzing of the correspondence check (see DESIGN.md §5 C15) — that is
validation of the real code, not a theorem.
-/
namespace Pug.Props.C15
open Pug.JS

theorem C15_extract : Gen.parseFunctionShape_ok = true := by decide

/-- **C15 (ParseFunction never panics on a parse result).** -/
theorem C15_parseFunction_total (parseErr : Bool) (body : List StmtKind) :
    extractFunction Gen.parseFunctionShape parseErr body ≠ .panic := by
  have hs : Gen.parseFunctionShape = "checked" := by decide
  rw [hs]
  unfold extractFunction
  split
  · simp
  · simp only [beq_self_eq_true, if_true]
    split <;> simp

/-- a tree is returned exactly for the one shape that IS a function: a single expression statement holding a function literal -/
theorem C15_parseFunction_tree_iff (body : List StmtKind) :
    extractFunction Gen.parseFunctionShape false body = .tree ↔ body = [.expression .functionLiteral] := by
  have hs : Gen.parseFunctionShape = "checked" := by decide
  rw [hs]
  unfold extractFunction
  simp only [Bool.false_eq_true, if_false, beq_self_eq_true, if_true]
  constructor
  · intro h
    split at h
    · rfl
    · cases h
  · intro h; subst h; rfl

/-- the unchecked shape does panic — on the parse result of the body `return 1}), (function(){` (a sequence expression) -/
example : extractFunction "unchecked" false [.expression .sequence] = .panic := by decide

end Pug.Props.C15
