import PugModel.Sys.Conc
import PugModel.Gen.Tables
/-!
# C08 — concurrent renders behave like the same renders run one at a time

* `C08_noninterference`: in ANY system whose threads read a shared environment and write only their own state, after
  ANY schedule every thread is exactly where it would be after the same number of its own steps run alone.
* `C08_render_alone`: instantiated with the Render thread (lookup under the read lock, then execution on a private
  state): for every number of calls, every template set, every data, every schedule - a finished call holds exactly
  the result of the same call run alone, and every call scheduled at least twice is finished.
* the premises of that model - renders write no shared state, the lookup is inside RLock/RUnlock, the function table is
  read under muFuncs, the execution state is a fresh allocation - are regenerated from the Go source on every run
  (`Gen.renderPathWrites` etc.) and checked here by evaluation.

Not modelled: the Go memory model below statement level. The race detector run of the harness is validation for that part.
-/
namespace Pug.Props.C08
open Pug.Sys.Conc

variable {E σ : Type}

theorem iter_succ' (f : σ → σ) (n : Nat) (s : σ) : iter f (n + 1) s = f (iter f n s) := by
  induction n generalizing s with
  | zero => rfl
  | succ n ih => simp only [iter] at ih ⊢; exact ih (f s)

theorem stepAt_get (step : E → σ → σ) (env : E) (cfg : List σ) (i j : Nat) :
    (stepAt step env cfg i)[j]? = if i = j then (cfg[j]?).map (step env) else cfg[j]? := by
  unfold stepAt
  rw [List.getElem?_modify]
  by_cases h : i = j <;> simp [h]

/-- **C08 (non-interference, every schedule).** -/
theorem C08_noninterference (step : E → σ → σ) (env : E) (sched : List Nat) (cfg : List σ) (j : Nat) :
    (run step env sched cfg)[j]? = (cfg[j]?).map (iter (step env) (sched.count j)) := by
  induction sched generalizing cfg with
  | nil => cases h : cfg[j]? <;> simp [run, iter, h]
  | cons i rest ih =>
    have := ih (stepAt step env cfg i)
    unfold run at this ⊢
    rw [List.foldl_cons, this, stepAt_get]
    by_cases h : i = j
    · subst h
      cases cfg[i]? <;> simp [iter]
    · simp [h]

/-- the number of threads never changes -/
theorem C08_length (step : E → σ → σ) (env : E) (sched : List Nat) (cfg : List σ) :
    (run step env sched cfg).length = cfg.length := by
  induction sched generalizing cfg with
  | nil => rfl
  | cons i rest ih =>
    unfold run at ih ⊢
    rw [List.foldl_cons, ih]
    simp [stepAt]

/-! ## the render thread -/

variable {T D R : Type}

theorem renderStep_two (e : Engine T D R) (name : String) (data : D) :
    (renderStep e (renderStep e { name := name, data := data, pc := .start })).pc = .done (renderAlone e name data) := by
  simp only [renderStep, renderAlone]
  cases e.templates.lookup name <;> rfl

theorem renderStep_done (e : Engine T D R) (th : Thread T D R) (r : Res R) (h : th.pc = .done r) :
    renderStep e th = th := by
  simp [renderStep, h]

theorem iter_done (e : Engine T D R) (th : Thread T D R) (r : Res R) (h : th.pc = .done r) (n : Nat) :
    iter (renderStep e) n th = th := by
  induction n with
  | zero => rfl
  | succ n ih => simp [iter, renderStep_done e th r h, ih]

theorem iter_render (e : Engine T D R) (name : String) (data : D) (n : Nat) :
    (iter (renderStep e) (n + 2) { name := name, data := data, pc := .start }).pc = .done (renderAlone e name data) := by
  have h2 := renderStep_two e name data
  show (iter (renderStep e) n (renderStep e (renderStep e _))).pc = _
  rw [iter_done e _ _ h2 n, h2]

/-- a call that has not finished has no result yet; it never holds a WRONG result -/
theorem iter_render_partial (e : Engine T D R) (name : String) (data : D) (n : Nat) (r : Res R)
    (h : result? (iter (renderStep e) n { name := name, data := data, pc := .start }) = some r) :
    r = renderAlone e name data := by
  match n with
  | 0 => simp [iter, result?] at h
  | 1 =>
    simp only [iter, renderStep, result?] at h
    cases e.templates.lookup name <;> simp at h
  | n + 2 =>
    have := iter_render e name data n
    simp only [result?, this] at h
    exact (Option.some.inj h).symm

/-- **C08 (renders).** Any number of calls on one engine, any schedule: whatever result a call holds at any moment is the
result of the same call run alone, and a call scheduled at least twice has finished with exactly that result. -/
theorem C08_render_alone (e : Engine T D R) (calls : List (String × D)) (sched : List Nat) (j : Nat)
    (hj : j < calls.length) :
    ∃ th, (run renderStep e sched (spawn calls))[j]? = some th ∧
      (∀ r, result? th = some r → r = renderAlone e calls[j].1 calls[j].2) ∧
      (2 ≤ sched.count j → result? th = some (renderAlone e calls[j].1 calls[j].2)) := by
  rw [C08_noninterference]
  have hs : (spawn (T := T) (R := R) calls)[j]? = some { name := calls[j].1, data := calls[j].2, pc := .start } := by
    simp [spawn, hj]
  rw [hs]
  refine ⟨_, rfl, ?_, ?_⟩
  · intro r hr
    exact iter_render_partial e _ _ _ r hr
  · intro h2
    obtain ⟨n, hn⟩ : ∃ n, sched.count j = n + 2 := ⟨sched.count j - 2, by omega⟩
    rw [hn]
    simp [result?, iter_render]

/-- the order of results does not depend on the schedule: two complete schedules give every caller the same answer -/
theorem C08_schedule_independent (e : Engine T D R) (calls : List (String × D)) (s₁ s₂ : List Nat) (j : Nat)
    (hj : j < calls.length) (h₁ : 2 ≤ s₁.count j) (h₂ : 2 ≤ s₂.count j) :
    ((run renderStep e s₁ (spawn calls))[j]?).bind result? = ((run renderStep e s₂ (spawn calls))[j]?).bind result? := by
  obtain ⟨t₁, e₁, _, c₁⟩ := C08_render_alone e calls s₁ j hj
  obtain ⟨t₂, e₂, _, c₂⟩ := C08_render_alone e calls s₂ j hj
  simp [e₁, e₂, c₁ h₁, c₂ h₂]

/-- non-vacuity: three calls on a two-template engine under an unfair, interleaved schedule -/
example :
    let e : Engine String Nat String := { templates := [("a", "A"), ("b", "B")], exec := fun t d => t ++ toString d }
    ((run renderStep e [2, 0, 2, 1, 0, 1, 1] (spawn [("a", 1), ("zz", 2), ("b", 3)])).map result?) =
      [some (.out "A1"), some .notFound, some (.out "B3")] := by decide

/-! ## the premises, regenerated from the Go source -/

/-- writes to engine / template / package state in functions a render can reach (reachability by name, an
over-approximation), that are known to touch per-call objects only:
* `Template.copy`, `Template.init` are reached only because `Object.copy()` has the same method name; they write to the
  template allocated in the same call (`nt := New(..)`, `c := new(common)`);
* `newState.tmpl` is a field of the per-render copy of the state made by walkTemplate;
* `rt.M`, `statRateLimitWaitTime.M` build an opencensus measurement value from an immutable measure;
* `loggerInstance.Error` is the injected flamingo logger (its thread safety is part of the trusted base). -/
def perCallWrites : List (String × String) :=
  [("Engine.Render", "call rt.M"), ("Engine.Render", "call statRateLimitWaitTime.M"),
   ("Template.copy", "nt.Tree"), ("Template.copy", "nt.common"), ("Template.copy", "nt.leftDelim"),
   ("Template.copy", "nt.rightDelim"), ("Template.init", "c.execFuncs"), ("Template.init", "c.parseFuncs"),
   ("Template.init", "c.tmpl"), ("Template.init", "t.common"), ("panicOrError", "call loggerInstance.Error"),
   ("state.walkTemplate", "newState.tmpl")]

/-- **C08 (renders write no shared state).** -/
theorem C08_render_path_writes_nothing_shared :
    Gen.renderPathWrites_ok = true ∧ Gen.renderReach_ok = true ∧
    Gen.renderPathWrites.all (fun w => perCallWrites.contains w) = true := by decide

/-- the executor entry points are inside the reachability set the write scan used -/
theorem C08_reach_covers_executor :
    ["Engine.Render", "Template.ExecuteTemplate", "Template.execute", "state.walk", "state.walkTemplate",
     "state.walkRange", "state.evalCall", "state.evalField", "state.findFunction"].all
      (fun f => Gen.renderReach.contains f) = true := by decide

/-- **C08 (lookup under the read lock; function table under muFuncs; fresh execution state).** The only engine field
Render mentions outside RLock/RUnlock is TemplateCode, on the path taken when ExecuteTemplate RETURNS an error - which it
does only for a name missing from the template's own association table (execution errors panic out of Render). -/
theorem C08_lock_shape :
    Gen.renderLookupLocked = true ∧ Gen.renderLookupLocked_ok = true ∧
    Gen.findFunctionLocked = true ∧ Gen.findFunctionLocked_ok = true ∧
    Gen.execStateFresh = true ∧ Gen.execStateFresh_ok = true ∧
    Gen.renderUnlockedReads.all (fun f => ["e.TemplateCode"].contains f) = true ∧ Gen.renderUnlockedReads_ok = true := by
  decide

/-- **C08 (template functions read reloaded engine fields under the engine's read lock).** `asset()` reads
`Engine.Webpackserver` and `Engine.Assetrewrites`, which a load (in debug mode: every render) rewrites under the write lock. -/
theorem C08_funcs_read_engine_locked :
    Gen.funcEngineReadsUnlocked = [] ∧ Gen.funcEngineReadsUnlocked_ok = true ∧ Gen.funcEngineReadsLocked_ok = true ∧
    Gen.funcEngineReadsLocked.contains "asset_func.go:Func:Webpackserver" = true ∧
    Gen.funcEngineReadsLocked.contains "asset_func.go:Func:Assetrewrites" = true := by decide

/-- every write to engine / template / package state in package pugjs is in the loader, the compiler front end, a
constructor / option, or is one of the per-call writes above: the full write set, by function -/
def loadTimeFunctions : List String :=
  ["Engine.LoadTemplates", "Engine.compileDir", "Code.Render", "Doctype.Render", "Mixin.renderCall", "Mixin.renderDefinition",
   "Template.AddParseTree", "Template.Clone", "Template.Delims", "Template.associate", "Template.copy", "Template.init",
   "WithRateLimit", "setLoggerInfos"]

theorem C08_write_set_by_function :
    Gen.sharedWrites_ok = true ∧
    Gen.sharedWrites.all (fun w => loadTimeFunctions.contains w.1 || perCallWrites.contains w) = true := by decide

/-- **C08 (template functions write no package state of the engine) - with ONE recorded exception.** The module's `debug()`
function assigns `pugjs.AllowDeep` (known finding C08-debug-allowdeep: an unsynchronised write during Render, demonstrated by the
race detector). Every other assignment to a package variable of pugjs from a template function fails this theorem. -/
theorem C08_funcs_pkg_writes_only_known :
    Gen.funcPkgWrites_ok = true ∧
    Gen.funcPkgWrites.all (fun w => [("debug_func.go:Func", "pugjs.AllowDeep")].contains w) = true := by decide

/-- the package-level variables of the packages a render runs through, as they are known and accounted for: two metric
descriptors and a tag key (opencensus, written by nobody), the logger pair set once at start-up (`setLoggerInfos`), the
constant format of text nodes, reflect's zero Value, the value-function table built once from the builtin table, the
translation trace writer (never assigned), and the `AllowDeep` flag (recorded finding of C08). -/
def knownPkgState : List (String × String) :=
  [("pugjs/engine.go:debugMode", "literal false"), ("pugjs/engine.go:loggerInstance", "zero flamingo.Logger"),
   ("pugjs/engine.go:rt", "call stats.Int64"), ("pugjs/engine.go:statRateLimitWaitTime", "call stats.Float64"),
   ("pugjs/engine.go:templateKey", "call tag.NewKey"), ("pugjs/parse/node.go:textFormat", "literal"),
   ("pugjs/tpl_exec.go:zero", "zero reflect.Value"), ("pugjs/tpl_funcs.go:builtinFuncs", "call createValueFuncs"),
   ("pugjs/transform_js_.go:writeTranslations", "zero io.Writer"), ("pugjs/types.go:AllowDeep", "literal true")]

/-- **C08 (no hidden package state).** The inventory of package-level variables of pugjs, pugjs/parse, templatefunctions and the
module root - regenerated from the Go source on every run, constant tables left out - holds nothing but the known entries: no
cache, pool, memo table, once-guard or flag has been added through which one render (or one process history) could reach
another. (A variable that is added reopens this obligation whatever the generators draw; the write-set theorem above covers
assignments, this one covers state that is changed through method calls such as `sync.Map.Store` or `sync.Pool.Put`.) -/
theorem C08_package_state_inventory :
    Gen.pkgState_ok = true ∧ Gen.pkgState.all (fun v => knownPkgState.contains v) = true := by
  constructor
  · decide
  · decide

/-- **C08 (template function objects hold no per-render state).** The objects behind the template functions are built once and
shared by all renders; in no method of package templatefunctions (constructor-time `Inject` aside) is anything assigned that is
reached from the method's receiver - regenerated from the Go source on every run. What a render needs (its context) it gets as an
argument of `Func(ctx)` and keeps in the closure it returns. -/
theorem C08_funcs_keep_no_state_on_receiver : Gen.funcReceiverWrites_ok = true ∧ Gen.funcReceiverWrites = [] := by
  constructor <;> decide

end Pug.Props.C08
