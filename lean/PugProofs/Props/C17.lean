import PugModel.Sys.Partials
import PugProofs.Props.C09
import PugModel.Gen.Tables
import PugProofs.Props.C08
/-!
# C17 — partial rendering returns exactly the requested partials, each as rendered alone

`render` is universally quantified: whatever `Engine.Render` does for a single name, `RenderPartials`
(model: `Pug.Sys.renderPartials`, tied to engine.go by the correspondence check and by the generated
naming constant `Gen.partialInfix`) returns exactly the requested keys with exactly those contents, or
an error and nothing else.
-/
namespace Pug.Props.C17
open Pug.Sys

theorem mapSet_keys (m : List (String × String)) (k v : String) :
    ∀ x, x ∈ (mapSet m k v).map (·.1) ↔ x ∈ m.map (·.1) ∨ x = k := by
  intro x
  induction m with
  | nil => simp [mapSet]
  | cons kv rest ih =>
    obtain ⟨k', v'⟩ := kv
    simp only [mapSet]
    split
    · rename_i h; subst h; simp only [List.map_cons, List.mem_cons]; constructor <;> intro h <;> rcases h with h | h <;> simp_all
    · simp only [List.map_cons, List.mem_cons, ih]
      constructor
      · rintro (h | h | h)
        · exact Or.inl (Or.inl h)
        · exact Or.inl (Or.inr h)
        · exact Or.inr h
      · rintro ((h | h) | h)
        · exact Or.inl h
        · exact Or.inr (Or.inl h)
        · exact Or.inr (Or.inr h)

/-- value stored under `k` -/
def lookup (m : List (String × String)) (k : String) : Option String := m.lookup k

theorem lookup_mapSet_same (m : List (String × String)) (k v : String) : lookup (mapSet m k v) k = some v := by
  unfold lookup
  induction m with
  | nil => simp [mapSet]
  | cons kv rest ih =>
    obtain ⟨k', v'⟩ := kv
    simp only [mapSet]
    split
    · simp [List.lookup]
    · rename_i h
      have : (k == k') = false := by simpa using fun h' => h h'.symm
      simp [List.lookup, this, ih]

theorem lookup_mapSet_other (m : List (String × String)) (k k' v : String) (hne : k' ≠ k) :
    lookup (mapSet m k v) k' = lookup m k' := by
  unfold lookup
  induction m with
  | nil =>
    have : (k' == k) = false := by simpa using hne
    simp [mapSet, List.lookup, this]
  | cons kv rest ih =>
    obtain ⟨k2, v2⟩ := kv
    simp only [mapSet]
    split
    · rename_i h; subst h
      have : (k' == k2) = false := by simpa using hne
      simp [List.lookup, this]
    · cases hc : k' == k2 <;> simp [List.lookup, hc, ih]

/-- loop invariant: keys = keys(acc) ∪ ps, contents as rendered alone -/
theorem loop_ok (render : String → RenderRes) (infx tpl : String) :
    ∀ (ps : List String) (acc res : List (String × String)),
      renderPartialsLoop render infx tpl ps acc = .ok res →
      (∀ p ∈ ps, ∃ out, render (tpl ++ infx ++ p) = .ok out) ∧
      (∀ x, x ∈ res.map (·.1) ↔ x ∈ acc.map (·.1) ∨ x ∈ ps) ∧
      (∀ p ∈ ps, ∃ out, render (tpl ++ infx ++ p) = .ok out ∧ lookup res p = some out) ∧
      (∀ k, k ∉ ps → lookup res k = lookup acc k) := by
  intro ps
  induction ps with
  | nil =>
    intro acc res h
    simp only [renderPartialsLoop, Except.ok.injEq] at h
    subst h
    simp
  | cons p ps ih =>
    intro acc res h
    simp only [renderPartialsLoop] at h
    split at h
    · simp at h
    · rename_i out hr
      obtain ⟨h1, h2, h3, h4⟩ := ih _ _ h
      refine ⟨?_, ?_, ?_, ?_⟩
      · intro q hq
        rcases List.mem_cons.mp hq with rfl | hq
        · exact ⟨out, hr⟩
        · exact h1 q hq
      · intro x
        rw [h2 x, mapSet_keys]
        simp only [List.mem_cons]
        constructor
        · rintro ((h | h) | h)
          · exact Or.inl h
          · exact Or.inr (Or.inl h)
          · exact Or.inr (Or.inr h)
        · rintro (h | h | h)
          · exact Or.inl (Or.inl h)
          · exact Or.inl (Or.inr h)
          · exact Or.inr h
      · intro q hq
        by_cases hmem : q ∈ ps
        · exact h3 q hmem
        · rcases List.mem_cons.mp hq with rfl | hq
          · refine ⟨out, hr, ?_⟩
            rw [h4 q hmem, lookup_mapSet_same]
          · exact absurd hq hmem
      · intro k hk
        have hk1 : k ≠ p := fun h => hk (h ▸ List.mem_cons_self)
        have hk2 : k ∉ ps := fun h => hk (List.mem_cons_of_mem _ h)
        rw [h4 k hk2, lookup_mapSet_other _ _ _ _ hk1]

/-- **C17 (success half).** If the call succeeds, the result has exactly the requested keys and under each
key exactly what `Render` returns for `T ++ ".partial/" ++ p` on its own. Duplicates, order and the empty
list are covered by the statement. The infix is the one read from engine.go. -/
theorem C17_ok (render : String → RenderRes) (tpl : String) (ps : List String) (res : List (String × String))
    (h : renderPartials render Gen.partialInfix tpl ps = .ok res) :
    (∀ k, k ∈ res.map (·.1) ↔ k ∈ ps) ∧
    (∀ p ∈ ps, ∃ out, render (tpl ++ Gen.partialInfix ++ p) = .ok out ∧ lookup res p = some out) := by
  obtain ⟨_, h2, h3, _⟩ := loop_ok render Gen.partialInfix tpl ps [] res h
  exact ⟨fun k => by simpa using h2 k, h3⟩

/-- **C17 (all exist ⇒ success).** If every requested partial renders, the call succeeds. -/
theorem C17_total (render : String → RenderRes) (infx tpl : String) (ps : List String)
    (hall : ∀ p ∈ ps, ∃ out, render (tpl ++ infx ++ p) = .ok out) :
    ∃ res, renderPartials render infx tpl ps = .ok res := by
  unfold renderPartials
  generalize ([] : List (String × String)) = acc
  induction ps generalizing acc with
  | nil => exact ⟨acc, rfl⟩
  | cons p ps ih =>
    obtain ⟨out, ho⟩ := hall p List.mem_cons_self
    simp only [renderPartialsLoop, ho]
    exact ih (fun q hq => hall q (List.mem_cons_of_mem _ hq)) _

/-- **C17 (error half).** If any requested partial fails to render (does not exist, or fails), the call
reports an error; an `Except.error` carries no partial content at all. -/
theorem C17_err (render : String → RenderRes) (infx tpl : String) (ps : List String)
    (hbad : ∃ p ∈ ps, ∃ e, render (tpl ++ infx ++ p) = .error e) :
    ∃ e, renderPartials render infx tpl ps = .error e := by
  unfold renderPartials
  generalize ([] : List (String × String)) = acc
  induction ps generalizing acc with
  | nil => obtain ⟨p, hp, _⟩ := hbad; cases hp
  | cons p ps ih =>
    simp only [renderPartialsLoop]
    split
    · rename_i e _; exact ⟨e, rfl⟩
    · rename_i out hr
      obtain ⟨q, hq, e, he⟩ := hbad
      rcases List.mem_cons.mp hq with rfl | hq
      · rw [hr] at he; cases he
      · exact ih ⟨q, hq, e, he⟩ _

/-- the naming rule read from the source is the documented one -/
theorem C17_infix : Gen.partialInfix_ok = true ∧ Gen.partialInfix = ".partial/" := by decide

/-- non-vacuity: a concrete request list with a duplicate meets the hypothesis of `C17_ok` -/
example : renderPartials (fun n => .ok ("<" ++ n ++ ">")) ".partial/" "T" ["a", "b", "a"]
    = .ok [("a", "<T.partial/a>"), ("b", "<T.partial/b>")] := by
  simp [renderPartials, renderPartialsLoop, mapSet]

/-- **C17 (the model's tie to `Engine.RenderPartials`).** The control skeleton regenerated from pugjs/engine.go: one loop over the
requested names, one Render per name, the first error returned at once with no content, the map returned at the end - nothing
else decides what the result holds. -/
theorem C17_render_partials_skeleton :
    Gen.renderSkeleton_ok = true ∧
    (Gen.renderSkeleton.filter fun r => r.1 == "RenderPartials") =
      [("RenderPartials", "0 range partials"), ("RenderPartials", "1 if err != nil"), ("RenderPartials", "2 return nil, err"),
       ("RenderPartials", "0 return res, nil")] := by
  constructor <;> decide

/-- **C17 (… and to `Engine.Render`, which every partial goes through).** A failing partial leaves `Render` by one of its error
returns; that those exits (and a panic) give back what the call took - the rate-limit slot - is the skeleton the gate model of C09
mirrors: the deferred release stands directly behind the acquisition, before every later `return`. -/
theorem C17_render_skeleton :
    Gen.renderSkeleton_ok = true ∧ Gen.renderSkeleton = Pug.Props.C09.expectedRenderSkeleton :=
  Pug.Props.C09.C09_render_skeleton

/-- **C17 (no state outlives a render or a compilation in package variables).** The inventory of package-level variables of pugjs and
templatefunctions, regenerated from the Go source on every run, holds nothing but the known entries: no cache, pool, shared empty
object, memo table or once-guard has been added through which one call, one compilation or one render could reach the next (rounds 5-7
of the seeded changes added such a variable five times: a shared empty attributes map, a shared empty array, an AST cache, a buffer
pool). Restated here so that THIS property's check fails on it before any input is drawn. -/
theorem C17_package_state_inventory :
    Gen.pkgState_ok = true ∧ Gen.pkgState.all (fun v => Pug.Props.C08.knownPkgState.contains v) = true :=
  Pug.Props.C08.C08_package_state_inventory

end Pug.Props.C17
