import PugModel.Sys.Startup
import PugModel.Gen.Tables
/-!
# C16 — the readiness endpoint says ready only after all startup work has ended

All theorems quantify over EVERY number of processes, EVERY completion order, EVERY failing subset and EVERY interleaving of
completions, Finish, the waiter's and the listener's steps.
-/
set_option linter.unusedSimpArgs false
namespace Pug.Props.C16
open Pug.Sys

/-- once the waiter is past eg.Wait(), every process has ended; the kept error is a failed process; what the listener got is
that error (or nil only after the channel was closed without an error being pending) -/
structure Inv (s : SState) : Prop where
  ended : (s.waiter = .sending ∨ s.waiter = .closed) → s.allEnded = true
  sendErr : s.waiter = .sending → s.firstErr.isSome = true
  errFailed : ∀ p, s.firstErr = some p → (p, PStat.failed) ∈ s.procs
  noErrNoFail : s.firstErr = none → ∀ q ∈ s.procs, q.2 ≠ .failed
  got : ∀ g, s.listenerGot = some g → s.waiter = .closed ∧ (g = s.firstErr)
  closedGot : s.waiter = .closed → s.firstErr.isSome = true → s.listenerGot = some s.firstErr
  nodup : (s.procs.map (·.1)).Nodup

theorem inv_init : Inv SState.init := by
  constructor <;> simp [SState.init, SState.allEnded]

theorem allEnded_map_complete (procs : List (Nat × PStat)) (p : Nat) (st : PStat) (hst : st ≠ .running)
    (h : procs.all (fun q => q.2 != .running) = true) :
    (procs.map (fun q => if q.1 == p then (p, st) else q)).all (fun q => q.2 != .running) = true := by
  simp only [List.all_eq_true, List.mem_map] at h ⊢
  rintro q ⟨q0, hq0, rfl⟩
  split
  · simpa using hst
  · exact h q0 hq0

theorem unique_id {l : List (Nat × PStat)} (hn : (l.map (·.1)).Nodup) {a b : Nat × PStat}
    (ha : a ∈ l) (hb : b ∈ l) (h : a.1 = b.1) : a = b := by
  induction l with
  | nil => cases ha
  | cons x rest ih =>
    simp only [List.map_cons, List.nodup_cons] at hn
    rcases List.mem_cons.mp ha with rfl | ha' <;> rcases List.mem_cons.mp hb with rfl | hb'
    · rfl
    · exact absurd (List.mem_map.mpr ⟨b, hb', h.symm⟩) hn.1
    · exact absurd (List.mem_map.mpr ⟨a, ha', h⟩) hn.1
    · exact ih hn.2 ha' hb'

theorem inv_step (s s' : SState) (e : SEv) (hi : Inv s) (hs : sstep s e = some s') : Inv s' := by
  cases e with
  | add p =>
    simp only [sstep] at hs
    split at hs
    · cases hs
    · rename_i hc
      simp only [Bool.or_eq_true, not_or, Bool.not_eq_true] at hc
      obtain ⟨hf, hany⟩ := hc
      have hw : s.waiter = .notStarted := by simpa [SState.finishCalled] using hf
      cases hs
      constructor
      · intro h; simp [hw] at h
      · intro h; simp [hw] at h
      · intro q hq; exact List.mem_append_left _ (hi.errFailed q hq)
      · intro h q hq
        rcases List.mem_append.mp hq with hq | hq
        · exact hi.noErrNoFail h q hq
        · simp at hq; subst hq; simp
      · intro g hg; have := hi.got g hg; simp [hw] at this
      · intro h; simp [hw] at h
      · simp only [List.map_append, List.map_cons, List.map_nil]
        refine List.nodup_append.mpr ⟨hi.nodup, by simp, ?_⟩
        intro a ha b hb
        simp at hb; subst hb
        intro hab; subst hab
        simp only [List.any_eq_false, beq_iff_eq, List.mem_map] at hany ha
        obtain ⟨q, hq, hqa⟩ := ha
        exact hany q hq hqa
  | complete p fail =>
    simp only [sstep] at hs
    split at hs
    · rename_i hany
      simp only [List.any_eq_true, Bool.and_eq_true, beq_iff_eq] at hany
      obtain ⟨q, hq, hqp, hqr⟩ := hany
      -- a process is still running: the waiter cannot be past eg.Wait()
      have hnotEnded : s.allEnded = false := by
        simp only [SState.allEnded, List.all_eq_false]
        exact ⟨q, hq, by simp [hqr]⟩
      have hw : s.waiter ≠ .sending ∧ s.waiter ≠ .closed := by
        constructor <;> intro h
        · have := hi.ended (Or.inl h); simp [hnotEnded] at this
        · have := hi.ended (Or.inr h); simp [hnotEnded] at this
      cases hs
      have hmemNew : ∀ st, (p, st) ∈ s.procs.map (fun q => if q.1 == p then (p, st) else q) := by
        intro st
        exact List.mem_map.mpr ⟨q, hq, by simp [hqp]⟩
      constructor
      · intro h; rcases h with h | h
        · exact absurd h hw.1
        · exact absurd h hw.2
      · intro h; exact absurd h hw.1
      · intro r hr
        by_cases hfail : fail = true
        · subst hfail
          cases hfe : s.firstErr with
          | none =>
            simp only [hfe, Option.isNone_none, Bool.and_self, if_true, Option.some.injEq] at hr
            subst hr
            exact hmemNew .failed
          | some r0 =>
            have hr' : r0 = r := by simpa [hfe] using hr
            subst hr' 
            have hmem := hi.errFailed r0 hfe
            have hne : r0 ≠ p := by
              intro h; subst h
              -- p would be both failed and running: contradicts the uniqueness of process ids
              have := unique_id hi.nodup hq hmem (by simp [hqp])
              rw [this] at hqr; cases hqr
            exact List.mem_map.mpr ⟨(r0, .failed), hmem, by simp [hne]⟩
        · have hf : fail = false := by simpa using hfail
          subst hf
          simp only [Bool.false_and, if_false] at hr
          have hmem := hi.errFailed r hr
          have hne : r ≠ p := by
            intro h; subst h
            have := unique_id hi.nodup hq hmem (by simp [hqp])
            rw [this] at hqr; cases hqr
          exact List.mem_map.mpr ⟨(r, .failed), hmem, by simp [hne]⟩
      · intro hnone q' hq'
        simp only [List.mem_map] at hq'
        obtain ⟨q0, hq0, rfl⟩ := hq'
        by_cases hfail : fail = true
        · subst hfail
          cases hfe : s.firstErr <;> simp [hfe] at hnone
        · have hf : fail = false := by simpa using hfail
          subst hf
          simp only [Bool.false_and, if_false] at hnone
          split
          · simp
          · exact hi.noErrNoFail hnone q0 hq0
      · intro g hg
        have := hi.got g hg
        exact absurd this.1 hw.2
      · intro h; exact absurd h hw.2
      · have : (s.procs.map (fun q => if q.1 == p then (p, if fail then PStat.failed else PStat.ok) else q)).map (·.1) = s.procs.map (·.1) := by
          simp only [List.map_map]
          apply List.map_congr_left
          intro x _
          simp only [Function.comp]
          split
          · rename_i h; have : x.1 = p := by simpa using h
            exact this.symm
          · rfl
        rw [this]; exact hi.nodup
    · cases hs
  | finish =>
    simp only [sstep] at hs
    split at hs
    · rename_i hw
      have hw' : s.waiter = .notStarted := by simpa using hw
      cases hs
      constructor
      · intro h; simp at h
      · intro h; simp at h
      · exact hi.errFailed
      · exact hi.noErrNoFail
      · intro g hg; have := hi.got g hg; simp [hw'] at this
      · intro h; simp at h
      · exact hi.nodup
    · cases hs
  | waiterWake =>
    simp only [sstep] at hs
    split at hs
    · rename_i hc
      simp only [Bool.and_eq_true, beq_iff_eq] at hc
      obtain ⟨hw, hall⟩ := hc
      cases hs
      constructor
      · intro _; exact hall
      · intro h
        by_cases hsome : s.firstErr.isSome = true
        · exact hsome
        · simp [hsome] at h
      · exact hi.errFailed
      · exact hi.noErrNoFail
      · intro g hg; have := hi.got g hg; simp [hw] at this
      · intro hcl hsome
        simp [hsome] at hcl
      · exact hi.nodup
    · cases hs
  | listenerRecv =>
    simp only [sstep] at hs
    split at hs
    · cases hs
    · rename_i hnone
      have hnone' : s.listenerGot = none := by
        cases h : s.listenerGot <;> simp_all
      split at hs
      · rename_i hw
        have hw' : s.waiter = .sending := by simpa using hw
        cases hs
        constructor
        · intro _; exact hi.ended (Or.inl hw')
        · intro h; simp at h
        · exact hi.errFailed
        · exact hi.noErrNoFail
        · intro g hg; simp at hg; exact ⟨rfl, hg.symm⟩
        · intro _ _; rfl
        · exact hi.nodup
      · split at hs
        · rename_i hw
          have hw' : s.waiter = .closed := by simpa using hw
          cases hs
          constructor
          · exact hi.ended
          · exact hi.sendErr
          · exact hi.errFailed
          · exact hi.noErrNoFail
          · intro g hg
            simp at hg
            refine ⟨hw', ?_⟩
            -- nil is what the closed channel yields; an error cannot be pending: it would already have been received
            cases hfe : s.firstErr with
            | none => exact hg.symm
            | some p =>
              have := hi.closedGot hw' (by simp [hfe])
              simp [hnone'] at this
          · intro _ hsome
            have := hi.closedGot hw' hsome
            simp [hnone'] at this
          · exact hi.nodup
        · cases hs

theorem inv_run (s s' : SState) (es : List SEv) (hi : Inv s) (hr : srun s es = some s') : Inv s' := by
  induction es generalizing s with
  | nil => simp [srun] at hr; subst hr; exact hi
  | cons e rest ih =>
    simp only [srun] at hr
    split at hr
    · rename_i s1 h1; exact ih s1 (inv_step s s1 e hi h1) hr
    · cases hr

/-- **C16 (safety).** The probe answers 200 only if Finish was called and every registered process has returned. -/
theorem C16_safe (es : List SEv) (s : SState) (hr : srun SState.init es = some s) (hp : s.probe = 200) :
    s.finishCalled = true ∧ s.allEnded = true := by
  have hi := inv_run _ _ es inv_init hr
  have hc : s.waiter = .closed := by
    unfold SState.probe at hp
    split at hp
    · rename_i h; simpa using h
    · cases hp
  exact ⟨by simp [SState.finishCalled, hc], hi.ended (Or.inr hc)⟩

/-- **C16 (monotone).** No step leads from 200 back to 425. -/
theorem C16_monotone (s s' : SState) (e : SEv) (hs : sstep s e = some s') (hp : s.probe = 200) : s'.probe = 200 := by
  have hc : s.waiter = .closed := by
    unfold SState.probe at hp
    split at hp
    · rename_i h; simpa using h
    · cases hp
  cases e <;> simp only [sstep] at hs <;> (repeat' split at hs) <;>
    first
      | (cases hs; done)
      | (cases hs; simp [SState.probe, hc]; done)
      | (rename_i h; simp [hc] at h; done)
      | (rename_i h _; simp [hc] at h; done)
      | (cases hs; simp_all [SState.probe])

/-- **C16 (liveness / no deadlock).** When Finish was called and all processes have returned, some internal step is enabled
until `done` is closed — given the listener the module attaches (it has not yet received). -/
theorem C16_live (s : SState) (hi : Inv s) (hf : s.finishCalled = true) (hall : s.allEnded = true)
    (hnot : s.waiter ≠ .closed) (hl : s.listenerGot = none) :
    (∃ s', sstep s .waiterWake = some s') ∨ (∃ s', sstep s .listenerRecv = some s') := by
  cases hw : s.waiter with
  | notStarted => simp [SState.finishCalled, hw] at hf
  | waiting => left; simp [sstep, hw, hall]
  | sending => right; simp [sstep, hw, hl]
  | closed => exact absurd hw hnot

/-- **C16 (the first error, exactly once).** Whatever the listener received is the first failure (or nil when no process
failed), and it cannot receive a second time. -/
theorem C16_first_error_once (es : List SEv) (s : SState) (hr : srun SState.init es = some s) :
    (∀ g, s.listenerGot = some g → g = s.firstErr) ∧
    (s.listenerGot.isSome = true → sstep s .listenerRecv = none) ∧
    (∀ p, s.firstErr = some p → (p, PStat.failed) ∈ s.procs) := by
  have hi := inv_run _ _ es inv_init hr
  refine ⟨fun g hg => (hi.got g hg).2, ?_, hi.errFailed⟩
  intro h
  simp [sstep, h]

/-- **C16 (the code has the modelled shape).** -/
theorem C16_shape : Gen.startupShape_ok = true ∧ (Gen.startupShape.all (·.2)) = true ∧ Gen.startupShape.length = 8 := by decide

/-! non-vacuity: two processes, the second fails first -/
example : (srun SState.init [.add 1, .add 2, .complete 2 true, .finish, .complete 1 true, .waiterWake, .listenerRecv]).map
    (fun s => (s.probe, s.listenerGot)) = some (200, some (some 2)) := by decide

end Pug.Props.C16
