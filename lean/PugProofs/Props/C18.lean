import PugModel.Fn.Math
import PugModel.Gen.Tables
/-!
# C18 — Math and number-parsing helpers agree with ECMAScript on finite numbers

Model: `Pug.Fn` (exact rationals). The initial accumulator values and comparison operators of
`Math.Min`/`Math.Max` and the whole body of `round` are *generated from js_math.go* (`Pug.Gen`), so each
theorem below is an obligation about what the source says now.
-/
set_option linter.unusedSimpArgs false
namespace Pug.Props.C18
open Pug.Fn Pug.Gen

/-- every fact this file relies on was recognised by the extractor -/
theorem C18_extract :
    mathMinInit_ok = true ∧ mathMaxInit_ok = true ∧ mathMinCmp_ok = true ∧ mathMaxCmp_ok = true ∧ roundProg_ok = true := by
  decide

/-! ## min / max -/

/-- `res ≤ x` for an extended accumulator -/
def Ext.le (r : Ext) (x : Rat) : Prop := r.gtRat x = false
/-- `x ≤ res` -/
def Ext.ge (r : Ext) (x : Rat) : Prop := r.ltRat x = false

theorem acc_min_inv (op : String) (hop : op = "<" ∨ op = "<=") (init : Ext) (xs : List Rat) :
    (mathAcc op init xs = init ∨ ∃ m ∈ xs, mathAcc op init xs = .fin m) ∧
    (∀ x ∈ xs, Ext.le (mathAcc op init xs) x) ∧
    (∀ y, Ext.le init y → Ext.le (mathAcc op init xs) y) := by
  induction xs generalizing init with
  | nil => simp [mathAcc]
  | cons v rest ih =>
    have hstep : mathAcc op init (v :: rest) = mathAcc op (if Ext.cmpRat op v init then .fin v else init) rest := by
      simp [mathAcc]
    rw [hstep]
    obtain ⟨h1, h2, h3⟩ := ih (if Ext.cmpRat op v init then .fin v else init)
    have hle_v : Ext.le (if Ext.cmpRat op v init then Ext.fin v else init) v := by
      rcases hop with rfl | rfl <;> cases init <;>
        simp [Ext.cmpRat, Ext.le, Ext.gtRat, Ext.ltRat] <;> (try split) <;> simp_all [Ext.gtRat] <;> grind
    have hmono : ∀ y, Ext.le init y → Ext.le (if Ext.cmpRat op v init then Ext.fin v else init) y := by
      intro y hy
      rcases hop with rfl | rfl <;> cases init <;>
        simp_all [Ext.cmpRat, Ext.le, Ext.gtRat, Ext.ltRat] <;> (try split) <;> simp_all [Ext.gtRat] <;> grind
    refine ⟨?_, ?_, ?_⟩
    · rcases h1 with h1 | ⟨m, hm, h1⟩
      · rw [h1]
        split
        · exact Or.inr ⟨v, List.mem_cons_self, rfl⟩
        · exact Or.inl rfl
      · exact Or.inr ⟨m, List.mem_cons_of_mem _ hm, h1⟩
    · intro x hx
      rcases List.mem_cons.mp hx with rfl | hx
      · exact h3 _ hle_v
      · exact h2 x hx
    · intro y hy
      exact h3 y (hmono y hy)

theorem acc_max_inv (op : String) (hop : op = ">" ∨ op = ">=") (init : Ext) (xs : List Rat) :
    (mathAcc op init xs = init ∨ ∃ m ∈ xs, mathAcc op init xs = .fin m) ∧
    (∀ x ∈ xs, Ext.ge (mathAcc op init xs) x) ∧
    (∀ y, Ext.ge init y → Ext.ge (mathAcc op init xs) y) := by
  induction xs generalizing init with
  | nil => simp [mathAcc]
  | cons v rest ih =>
    have hstep : mathAcc op init (v :: rest) = mathAcc op (if Ext.cmpRat op v init then .fin v else init) rest := by
      simp [mathAcc]
    rw [hstep]
    obtain ⟨h1, h2, h3⟩ := ih (if Ext.cmpRat op v init then .fin v else init)
    have hge_v : Ext.ge (if Ext.cmpRat op v init then Ext.fin v else init) v := by
      rcases hop with rfl | rfl <;> cases init <;>
        simp [Ext.cmpRat, Ext.ge, Ext.gtRat, Ext.ltRat] <;> (try split) <;> simp_all [Ext.ltRat] <;> grind
    have hmono : ∀ y, Ext.ge init y → Ext.ge (if Ext.cmpRat op v init then Ext.fin v else init) y := by
      intro y hy
      rcases hop with rfl | rfl <;> cases init <;>
        simp_all [Ext.cmpRat, Ext.ge, Ext.gtRat, Ext.ltRat] <;> (try split) <;> simp_all [Ext.ltRat] <;> grind
    refine ⟨?_, ?_, ?_⟩
    · rcases h1 with h1 | ⟨m, hm, h1⟩
      · rw [h1]
        split
        · exact Or.inr ⟨v, List.mem_cons_self, rfl⟩
        · exact Or.inl rfl
      · exact Or.inr ⟨m, List.mem_cons_of_mem _ hm, h1⟩
    · intro x hx
      rcases List.mem_cons.mp hx with rfl | hx
      · exact h3 _ hge_v
      · exact h2 x hx
    · intro y hy
      exact h3 y (hmono y hy)

/-- the finite doubles: every argument lies within ±MaxFloat64 -/
def Finite (x : Rat) : Prop := -maxFloat64 ≤ x ∧ x ≤ maxFloat64

/-- an initial value is *neutral for min* if no finite argument exceeds it -/
def NeutralMin : Ext → Prop
  | .posInf => True
  | .fin q => maxFloat64 ≤ q
  | .negInf => False

def NeutralMax : Ext → Prop
  | .negInf => True
  | .fin q => q ≤ -maxFloat64
  | .posInf => False

theorem min_of_neutral (op : String) (hop : op = "<" ∨ op = "<=") (init : Ext) (hn : NeutralMin init)
    (xs : List Rat) (hne : xs ≠ []) (hfin : ∀ x ∈ xs, Finite x) :
    ∃ m, m ∈ xs ∧ (∀ x ∈ xs, m ≤ x) ∧
      (mathAcc op init xs = .fin m) := by
  obtain ⟨h1, h2, _⟩ := acc_min_inv op hop init xs
  rcases h1 with h1 | ⟨m, hm, h1⟩
  · -- the accumulator never moved: then init itself is ≤ every argument, so it is finite and equals one
    obtain ⟨x0, hx0⟩ := List.exists_mem_of_ne_nil xs hne
    have hle := h2 x0 hx0
    rw [h1] at hle
    cases init with
    | posInf => simp [Ext.le, Ext.gtRat] at hle
    | negInf => exact absurd hn (by simp [NeutralMin])
    | fin q =>
      simp only [NeutralMin] at hn
      simp only [Ext.le, Ext.gtRat, decide_eq_false_iff_not] at hle
      have hx0f := (hfin x0 hx0).2
      have hq : q = x0 := by grind
      refine ⟨x0, hx0, ?_, by rw [h1, hq]⟩
      intro x hx
      have := h2 x hx
      rw [h1] at this
      simp only [Ext.le, Ext.gtRat, decide_eq_false_iff_not] at this
      grind
  · refine ⟨m, hm, ?_, h1⟩
    intro x hx
    have := h2 x hx
    rw [h1] at this
    simp only [Ext.le, Ext.gtRat, decide_eq_false_iff_not] at this
    grind

theorem max_of_neutral (op : String) (hop : op = ">" ∨ op = ">=") (init : Ext) (hn : NeutralMax init)
    (xs : List Rat) (hne : xs ≠ []) (hfin : ∀ x ∈ xs, Finite x) :
    ∃ m, m ∈ xs ∧ (∀ x ∈ xs, x ≤ m) ∧
      (mathAcc op init xs = .fin m) := by
  obtain ⟨h1, h2, _⟩ := acc_max_inv op hop init xs
  rcases h1 with h1 | ⟨m, hm, h1⟩
  · obtain ⟨x0, hx0⟩ := List.exists_mem_of_ne_nil xs hne
    have hle := h2 x0 hx0
    rw [h1] at hle
    cases init with
    | negInf => simp [Ext.ge, Ext.ltRat] at hle
    | posInf => exact absurd hn (by simp [NeutralMax])
    | fin q =>
      simp only [NeutralMax] at hn
      simp only [Ext.ge, Ext.ltRat, decide_eq_false_iff_not] at hle
      have hx0f := (hfin x0 hx0).1
      have hq : q = x0 := by grind
      refine ⟨x0, hx0, ?_, by rw [h1, hq]⟩
      intro x hx
      have := h2 x hx
      rw [h1] at this
      simp only [Ext.ge, Ext.ltRat, decide_eq_false_iff_not] at this
      grind
  · refine ⟨m, hm, ?_, h1⟩
    intro x hx
    have := h2 x hx
    rw [h1] at this
    simp only [Ext.ge, Ext.ltRat, decide_eq_false_iff_not] at this
    grind

theorem le_refl_maxFloat : maxFloat64 ≤ maxFloat64 := Rat.le_refl

/-- **C18 (Math.min).** For every non-empty list of finite arguments, `Math.min` as written in js_math.go
(initial value and comparison read from the source) returns an argument that is ≤ every argument. -/
theorem C18_min (xs : List Rat) (hne : xs ≠ []) (hfin : ∀ x ∈ xs, Finite x) :
    ∃ m, m ∈ xs ∧ (∀ x ∈ xs, m ≤ x) ∧ mathAcc mathMinCmp mathMinInit xs = .fin m := by
  have hop : mathMinCmp = "<" ∨ mathMinCmp = "<=" := by decide
  have hn : NeutralMin mathMinInit := by
    first
      | exact trivial
      | exact le_refl_maxFloat
  exact min_of_neutral _ hop _ hn xs hne hfin

/-- **C18 (Math.max).** Same for `Math.max`: an argument that is ≥ every argument — in particular for lists of
non-positive numbers (the case the pinned tests never sample). -/
theorem C18_max (xs : List Rat) (hne : xs ≠ []) (hfin : ∀ x ∈ xs, Finite x) :
    ∃ m, m ∈ xs ∧ (∀ x ∈ xs, x ≤ m) ∧ mathAcc mathMaxCmp mathMaxInit xs = .fin m := by
  have hop : mathMaxCmp = ">" ∨ mathMaxCmp = ">=" := by decide
  have hn : NeutralMax mathMaxInit := by
    first
      | exact trivial
      | exact (Rat.le_refl : -maxFloat64 ≤ -maxFloat64)
  exact max_of_neutral _ hop _ hn xs hne hfin

/-! ## ceil / trunc / round -/

/-- **C18 (Math.ceil)**: the least integer ≥ x -/
theorem C18_ceil (x : Rat) : x ≤ (mathCeil x : Rat) ∧ ∀ z : Int, x ≤ (z : Rat) → mathCeil x ≤ z := by
  refine ⟨Rat.le_ceil, fun z hz => ?_⟩
  exact Rat.ceil_le_iff.mpr hz

/-- **C18 (Math.trunc)**: the integer part, rounding towards zero -/
theorem C18_trunc (x : Rat) :
    (0 ≤ x → mathTrunc x = x.floor) ∧ (x < 0 → mathTrunc x = x.ceil) := by
  unfold mathTrunc ratTrunc
  constructor
  · intro h; have : ¬ x < 0 := by grind
    simp [this]
  · intro h; simp [h]

theorem ratTrunc_intCast (z : Int) : ratTrunc (z : Rat) = z := by
  unfold ratTrunc
  split <;> simp [Rat.floor_intCast, Rat.ceil_intCast]

/-- **C18 (Math.round).** `round` as written in js_math.go returns ⌊x + 1/2⌋ (halves towards +∞) for every
rational x — including the negative halves. -/
theorem C18_round (x : Rat) : mathRound roundProg x = some ((x + 1/2).floor) := by
  simp [mathRound, roundProg, FProg.eval, FProg.evalBranches, FCond.eval, FExpr.eval, ratTrunc_intCast]

/-! ## parseInt -/

/-- **C18 (parseInt of a number)**: its integer part -/
theorem C18_parseInt_num (x : Rat) :
    (0 ≤ x → parseIntNum x = x.floor) ∧ (x < 0 → parseIntNum x = x.ceil) := C18_trunc x

def digitChar (d : Nat) : Char := Char.ofNat ('0'.toNat + d)

theorem digitChar_isDigit (d : Nat) (h : d < 10) : (digitChar d).isDigit = true := by
  have : d = 0 ∨ d = 1 ∨ d = 2 ∨ d = 3 ∨ d = 4 ∨ d = 5 ∨ d = 6 ∨ d = 7 ∨ d = 8 ∨ d = 9 := by omega
  rcases this with h | h | h | h | h | h | h | h | h | h <;> subst h <;> decide

theorem digitChar_val (d : Nat) (h : d < 10) : (digitChar d).toNat - '0'.toNat = d := by
  have : d = 0 ∨ d = 1 ∨ d = 2 ∨ d = 3 ∨ d = 4 ∨ d = 5 ∨ d = 6 ∨ d = 7 ∨ d = 8 ∨ d = 9 := by omega
  rcases this with h | h | h | h | h | h | h | h | h | h <;> subst h <;> decide

/-- positional value of a list of digits (most significant first) -/
def valOf (ds : List Nat) : Nat := ds.foldl (fun a d => a * 10 + d) 0

theorem digitsVal_map (ds : List Nat) (h : ∀ d ∈ ds, d < 10) (acc : Nat) :
    (ds.map digitChar).foldl (fun a c => a * 10 + (c.toNat - '0'.toNat)) acc = ds.foldl (fun a d => a * 10 + d) acc := by
  induction ds generalizing acc with
  | nil => rfl
  | cons d rest ih =>
    simp only [List.map_cons, List.foldl_cons]
    rw [digitChar_val d (h d List.mem_cons_self)]
    exact ih (fun x hx => h x (List.mem_cons_of_mem _ hx)) _

/-- **C18 (parseInt of a decimal digit string)**: for every non-empty digit string (leading zeros allowed),
optionally preceded by `-`, the result is the number the digits denote. -/
theorem C18_parseInt_digits (ds : List Nat) (hne : ds ≠ []) (h : ∀ d ∈ ds, d < 10) :
    parseIntStr (ds.map digitChar) = (valOf ds : Int) ∧
    parseIntStr ('-' :: ds.map digitChar) = -(valOf ds : Int) := by
  have hall : (ds.map digitChar).all Char.isDigit = true := by
    simp only [List.all_map, List.all_eq_true, Function.comp]
    intro d hd
    exact digitChar_isDigit d (h d hd)
  have hemp : (ds.map digitChar).isEmpty = false := by
    cases ds with
    | nil => exact absurd rfl hne
    | cons _ _ => rfl
  have hval : digitsVal (ds.map digitChar) = valOf ds := digitsVal_map ds h 0
  have hpd : parseDigits (ds.map digitChar) = some (valOf ds) := by
    simp [parseDigits, hall, hemp, hval]
  constructor
  · -- the first character is a digit, hence neither '-' nor '+'
    cases ds with
    | nil => exact absurd rfl hne
    | cons d rest =>
      have hd := h d List.mem_cons_self
      have h1 : digitChar d ≠ '-' := by
        intro hc; have := digitChar_isDigit d hd; rw [hc] at this; exact absurd this (by decide)
      have h2 : digitChar d ≠ '+' := by
        intro hc; have := digitChar_isDigit d hd; rw [hc] at this; exact absurd this (by decide)
      simp only [List.map_cons] at hpd ⊢
      generalize digitChar d = c at *
      unfold parseIntStr
      split
      · rename_i heq; cases heq; exact absurd rfl h1
      · rename_i heq; cases heq; exact absurd rfl h2
      · simp [hpd]
  · simp [parseIntStr, hpd]

/-! non-vacuity: concrete arguments meeting the hypotheses, at the points the pinned tests never sample -/
example : mathRound roundProg (-5/2) = some (-2) := by
  rw [C18_round]
  have : ((-5:Rat)/2 + 1/2) = ((-2 : Int) : Rat) := by grind
  rw [this, Rat.floor_intCast]

theorem maxFloat64_nonneg : 0 ≤ maxFloat64 := Rat.mul_nonneg Rat.natCast_nonneg Rat.natCast_nonneg

example : Finite 0 ∧ Finite (-2) ∧ [(0 : Rat), -2] ≠ [] := by
  have h := maxFloat64_nonneg
  have h2 : (2 : Rat) ≤ maxFloat64 := by
    unfold maxFloat64
    rw [← Rat.natCast_mul]
    have : (2 : Nat) ≤ (2 ^ 53 - 1) * 2 ^ 971 := by
      calc (2 : Nat) = 1 * 2 ^ 1 := by decide
        _ ≤ (2 ^ 53 - 1) * 2 ^ 971 := Nat.mul_le_mul (by decide) (Nat.pow_le_pow_right (by decide) (by decide))
    exact_mod_cast Rat.natCast_le_natCast.mpr this
  unfold Finite
  refine ⟨⟨by grind, h⟩, ⟨by grind, by grind⟩, by simp⟩

end Pug.Props.C18
