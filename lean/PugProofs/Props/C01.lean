import PugModel.Tpl.Compile
import PugModel.JS.Spec
import PugProofs.C01.EvalScalar
import PugProofs.C01.EndToEnd
import PugProofs.C01.SpecScalar
/-!
# C01 — embedded JavaScript expressions evaluate as JavaScript does (core subset)

What is proved here (for all operands, not for samples):
* the operator table `ops` and the helper maps (`funcmap`, `builtins`), *as generated from the Go source*, send every
  operator of the subset to the helper that implements it, and the four comparison closures of runtime.go denote
  `>`, `>=`, `<=`, `!=` (C01_ops_table, C01_closures);
* each helper computes the JavaScript result on the typed domain: arithmetic on numbers, string concatenation,
  same-type comparison and equality, truthiness, `!`, and `&&`/`||` returning the operand itself
  (C01_arith, C01_concat, C01_compare_numbers, C01_compare_strings, C01_truthiness, C01_logical_operands, C01_conditional).
The composition over whole expression trees (compile → evaluate = JS.eval) is exercised by the correspondence check against
the real engine *and* against the independent reference semantics `Pug.JS.eval`; see DESIGN.md §5 C01 for what remains.
-/
set_option linter.unusedSimpArgs false
namespace Pug.Props.C01
open Pug Pug.Tpl Pug.Gen

theorem C01_extract : ops_ok = true ∧ helperIdents_ok = true ∧ helperClosures_ok = true := by decide

/-- Go implementation behind the helper that `ops` assigns to a token -/
def implOf (tok : String) : Option String :=
  match ops.find? (·.1 == tok) with
  | some (_, h) => helperImpl h
  | none => none

def closureOf (tok : String) : Option BExpr :=
  match ops.find? (·.1 == tok) with
  | some (_, h) => helperClosure h
  | none => none

/-- **C01 (operator table).** Every operator of the subset reaches the runtime function that implements it. -/
theorem C01_ops_table :
    implOf "PLUS" = some "runtimeAdd" ∧ implOf "MINUS" = some "runtimeSub" ∧ implOf "MULTIPLY" = some "runtimeMul" ∧
    implOf "SLASH" = some "runtimeQuo" ∧ implOf "REMAINDER" = some "runtimeRem" ∧
    implOf "LESS" = some "runtimeLss" ∧ implOf "EQUAL" = some "runtimeEql" ∧ implOf "STRICT_EQUAL" = some "runtimeEql" ∧
    implOf "LOGICAL_AND" = some "and" ∧ implOf "LOGICAL_OR" = some "or" ∧ implOf "NOT" = some "not" := by
  decide

/-- **C01 (comparison closures).** The closures of runtime.go's funcmap, as translated from the source, are `>`, `>=`, `<=`
and `!=` expressed through the two primitive relations, for all 16 combinations of their truth values. -/
theorem C01_closures :
    ∀ l e ls es : Bool,
      (closureOf "GREATER").map (·.eval l e ls es) = some (!l && !e) ∧
      (closureOf "GREATER_OR_EQUAL").map (·.eval l e ls es) = some (!l) ∧
      (closureOf "LESS_OR_EQUAL").map (·.eval l e ls es) = some (l || e) ∧
      (closureOf "NOT_EQUAL").map (·.eval l e ls es) = some (!e) ∧
      (closureOf "STRICT_NOT_EQUAL").map (·.eval l e ls es) = some (!e) := by
  decide

/-- **C01 (the kind matrix of the arithmetic helpers, read from runtime.go).** Every one of `runtimeSub`, `runtimeMul`,
`runtimeQuo`, `runtimeRem` has a case for each of the four pairs (int | float) x (int | float) - integer literals are `int`,
every number from the data is `float64` - and that case returns `X op Y` with the helper's own operator. A missing pair
(it would fall through to the string "<nil>") or a wrong operator fails this theorem on the next run. -/
theorem C01_arith_matrix :
    Gen.arithMatrix_ok = true ∧ Gen.arithKindsCoverLiteralAndData = true ∧
    ([("runtimeSub", "-"), ("runtimeMul", "*"), ("runtimeQuo", "/"), ("runtimeRem", "%")].all fun p =>
      ["int", "float"].all fun kx => ["int", "float"].all fun ky =>
        Gen.arithMatrix.contains (p.1, kx, ky, "X " ++ p.2 ++ " Y")) = true ∧
    -- and nothing else: no pair is handled twice or with a second expression
    Gen.arithMatrix.length = 16 := by decide

/-- **C01 (the kind matrix of the comparison helpers, read from runtime.go).** `runtimeEql` and `runtimeLss` have a case for
every same-type pair the property speaks of - (int | float) x (int | float), string x string, and for equality bool x bool - and
that case compares the two values themselves (`X == Y` / `X < Y`, no formatting in between). The derived relations
`> >= <= !=` are the closures of `C01_closures` over these two. -/
theorem C01_cmp_matrix :
    Gen.cmpMatrix_ok = true ∧
    (["int", "float"].all fun kx => ["int", "float"].all fun ky =>
      Gen.cmpMatrix.contains ("runtimeEql", kx, ky, "X == Y") && Gen.cmpMatrix.contains ("runtimeLss", kx, ky, "X < Y")) = true ∧
    Gen.cmpMatrix.contains ("runtimeEql", "string", "string", "X == Y") = true ∧
    Gen.cmpMatrix.contains ("runtimeLss", "string", "string", "X < Y") = true ∧
    Gen.cmpMatrix.contains ("runtimeEql", "bool", "bool", "X == Y") = true ∧
    -- no pair of kinds has two cases
    ((Gen.cmpMatrix.map fun r => (r.1, r.2.1, r.2.2.1)).eraseDups.length = Gen.cmpMatrix.length) = true := by decide

open Pug.Props.C01S in
/-- **C01 (arithmetic on numbers)**: `+ - *` are exact, `/` divides (non-zero divisor), on `Number` operands. -/
theorem C01_arith (h : Heap) (a b : Rat) :
    runtimeAdd h (.N a) (.N b) = some (.N (a + b)) ∧
    runtimeSub (.N a) (.N b) = some (.N (a - b)) ∧
    runtimeMul (.N a) (.N b) = some (.N (a * b)) ∧
    (b ≠ 0 → runtimeQuo (.N a) (.N b) = some (.N (a / b))) := by
  have hc := hasCase_rep (.N a) (.N b) a b (Rep.N a) (Rep.N b)
  refine ⟨by simp [runtimeAdd, convertRaw], ?_, ?_, ?_⟩
  · simp [runtimeSub, arith_rep _ _ _ _ _ a b hc.1 (Rep.N a) (Rep.N b)]
  · simp [runtimeMul, arith_rep _ _ _ _ _ a b hc.2.1 (Rep.N a) (Rep.N b)]
  · intro hb
    simp [runtimeQuo, arith_rep _ _ _ _ _ a b hc.2.2.1 (Rep.N a) (Rep.N b), hb]

open Pug.Props.C01S in
/-- raw integer literals mix with numbers: `x + 1`, `2 * x` -/
theorem C01_arith_literal (h : Heap) (a : Rat) (n : Int) :
    runtimeAdd h (.N a) (.int n) = some (.N (a + n)) ∧ runtimeAdd h (.int n) (.N a) = some (.N (n + a)) ∧
    runtimeSub (.N a) (.int n) = some (.N (a - n)) ∧ runtimeMul (.int n) (.N a) = some (.N (n * a)) := by
  have h1 := hasCase_rep (.N a) (.int n) a n (Rep.N a) (Rep.int n)
  have h2 := hasCase_rep (.int n) (.N a) n a (Rep.int n) (Rep.N a)
  refine ⟨by simp [runtimeAdd, convertRaw], by simp [runtimeAdd, convertRaw], ?_, ?_⟩
  · simp [runtimeSub, arith_rep _ _ _ _ _ a n h1.1 (Rep.N a) (Rep.int n)]
  · simp [runtimeMul, arith_rep _ _ _ _ _ n a h2.2.1 (Rep.int n) (Rep.N a)]

open Pug.Props.C01S in
/-- **C01 (remainder)** on integer-valued numbers has the sign of the dividend, as in JavaScript - also with an integer
literal on either side -/
theorem C01_rem (a b : Int) (hb : b ≠ 0) :
    runtimeRem (.N a) (.N b) = some (.N ((a.tmod b : Int) : Rat)) ∧
    runtimeRem (.int a) (.N b) = some (.N ((a.tmod b : Int) : Rat)) ∧
    JS.jsRem a b = some ((a.tmod b : Int) : Rat) := by
  refine ⟨?_, ?_, ?_⟩
  · rw [rem_rep (.N a) (.N b) a b (Rep.N _) (Rep.N _)]
    simp [ratTrunc_int, hb, goRem]
  · rw [rem_rep (.int a) (.N b) a b (Rep.int _) (Rep.N _)]
    simp [ratTrunc_int, hb, goRem]
  · simp [JS.jsRem, hb]

/-- **C01 (string concatenation)**: `+` on two strings concatenates -/
theorem C01_concat (h : Heap) (a b : String) : runtimeAdd h (.S a) (.S b) = some (.S (a ++ b)) := by
  simp [runtimeAdd, convertRaw, Pug.Props.C01S.objStr_S']

/-- **C01 (same-type comparison, numbers)**: `<` and `==` on numbers are the rational order and equality; with
`C01_closures` this gives `> >= <= != !==`. -/
theorem C01_compare_numbers (h : Heap) (a b : Rat) :
    runtimeLss (.N a) (.N b) = some (decide (a < b)) ∧ runtimeEql h (.N a) (.N b) = some (a == b) := by
  constructor <;> simp [runtimeLss, runtimeEql, Val.kind, Val.num?]

theorem C01_compare_strings (h : Heap) (a b : String) :
    runtimeLss (.S a) (.S b) = some (decide (a < b)) ∧ runtimeEql h (.S a) (.S b) = some (a == b) := by
  constructor <;> simp [runtimeLss, runtimeEql, Val.kind, Val.string?, strLt]

theorem C01_compare_bools (h : Heap) (a b : Bool) : runtimeEql h (.B a) (.B b) = some (a == b) := by
  simp [runtimeEql, Val.kind]

/-- the derived relations on numbers are the JavaScript ones -/
theorem C01_derived_relations (a b : Rat) :
    (!(decide (a < b)) && !(a == b)) = decide (a > b) ∧ (!(decide (a < b))) = decide (a ≥ b) ∧
    (decide (a < b) || (a == b)) = decide (a ≤ b) := by
  refine ⟨?_, ?_, ?_⟩
  · by_cases h1 : a < b <;> by_cases h2 : a = b <;> simp [h1, h2] <;> grind
  · by_cases h1 : a < b <;> simp [h1] <;> grind
  · by_cases h1 : a < b <;> by_cases h2 : a = b <;> simp [h1, h2] <;> grind

/-- primitive JavaScript values as the engine represents them -/
def repr : JS.JSVal → Option Val
  | .num q => some (.N q)
  | .str s => some (.S s)
  | .bool b => some (.B b)
  | .null => some .nil
  | .undefined => some .invalid
  | _ => none

/-- **C01 (truthiness)**: the engine's `truth` is ToBoolean on every primitive value -/
theorem C01_truthiness (h : Heap) (v : JS.JSVal) (r : Val) (hr : repr v = some r) : truth h r = JS.toBool v := by
  cases v <;> simp [repr] at hr <;> subst hr <;> simp [truth, JS.toBool]

/-- **C01 (`!`)** -/
theorem C01_not (h : Heap) (v : JS.JSVal) (r : Val) (hr : repr v = some r) : (!truth h r) = !JS.toBool v := by
  rw [C01_truthiness h v r hr]

/-- **C01 (`||` and `&&` return the operand itself, not a boolean)** for object operands -/
theorem C01_logical_operands (x y : Val) (hx : x.isObject = true) (hy : y.isObject = true) (st : St) :
    callBuiltin "__op__or" [x, y] st = .ok ((if truth st.heap x then x else y), st) ∧
    callBuiltin "__op__and" [x, y] st = .ok ((if truth st.heap x then y else x), st) := by
  have ho : helperImpl "__op__or" = some "or" := by decide
  have ha : helperImpl "__op__and" = some "and" := by decide
  have cx : convertRaw x = x := by cases x <;> simp_all [convertRaw, Val.isObject]
  have cy : convertRaw y = y := by cases y <;> simp_all [convertRaw, Val.isObject]
  have nx : x.isInvalid = false := by cases x <;> simp_all [Val.isObject, Val.isInvalid]
  have ny : y.isInvalid = false := by cases y <;> simp_all [Val.isObject, Val.isInvalid]
  constructor
  · simp only [callBuiltin, ho, bind, StateT.bind, getHeap, get, getThe, MonadStateOf.get, StateT.get, pure, Except.pure,
      Except.bind, StateT.pure]
    by_cases hxT : truth st.heap x = true
    · simp [List.find?, hxT, cx]
    · by_cases hyT : truth st.heap y = true
      · simp [List.find?, hxT, hyT, cy]
      · simp [List.find?, hxT, hyT, cy, ny]
  · simp only [callBuiltin, ha, bind, StateT.bind, getHeap, get, getThe, MonadStateOf.get, StateT.get, pure, Except.pure,
      Except.bind, StateT.pure]
    by_cases hxT : truth st.heap x = true
    · by_cases hyT : truth st.heap y = true
      · simp [List.find?, hxT, hyT, cy, ny]
      · simp [List.find?, hxT, hyT, cy, ny]
    · simp [List.find?, hxT, cx, nx]

/-- **C01 (conditional operator)** picks by truthiness -/
theorem C01_conditional (t a b : Val) (ha : a.isObject = true) (hb : b.isObject = true) (st : St) :
    callBuiltin "__if" [t, a, b] st = .ok ((if truth st.heap t then a else b), st) := by
  have h1 : helperImpl "__if" = none := by decide
  have h2 : helperClosure "__if" = none := by decide
  have ca : convertRaw a = a := by cases a <;> simp_all [convertRaw, Val.isObject]
  have cb : convertRaw b = b := by cases b <;> simp_all [convertRaw, Val.isObject]
  simp only [callBuiltin, h1, h2, bind, StateT.bind, getHeap, get, getThe, MonadStateOf.get, StateT.get, pure, Except.pure,
    Except.bind, StateT.pure]
  by_cases hT : truth st.heap t = true <;> simp [hT, ca, cb]

/-! ## whole expressions (scalar fragment): transpile, then execute = JavaScript

`JS.SExpr` is the fragment of number / string / boolean literals, variables, `+ - * / %`, the six comparisons, the four
equalities, `&& || !`, unary minus and `?:`, nested to ANY depth. `JS.sEval` is ECMAScript on it. The helper lemmas are in
`PugProofs/C01/*.lean`; the three statements below are the property. -/

open Pug.JS Pug.Props.C01S in
/-- **C01 (whole expressions).** For EVERY expression of the scalar fragment (any nesting), EVERY environment and EVERY
execution state whose variables hold the environment's values: if JavaScript gives the expression a value `r`, then
(1) the transpiler emits the term `tr e` for it, (2) the executor evaluates that term to (a representation of) `r` and
leaves the state unchanged, and (3) the reference evaluator the check uses as its oracle says `r` too. -/
theorem C01_eval_scalar (env : CEnv) (ρ : SEnv) (e : SExpr) (r : SVal) (hw : WF env e) (h : sEval ρ e = some r)
    (st : St) (hag : Agree st ρ) :
    (∀ fuel, e.depth < fuel → compileExprF fuel env e.toExpr = .ok (some (tr e))) ∧
    (∀ fuel, 2 * e.depth < fuel → ∃ v, evalExpr fuel (tr e) st = .ok (v, st) ∧ Rep v r) ∧
    (∀ fuel, e.depth < fuel → JS.evalF fuel ρ.toJS e.toExpr = some r.toJS) :=
  ⟨fun fuel hf => compile_scalar env e hw fuel hf,
   fun fuel hf => eval_scalar ρ e r h st hag fuel hf,
   fun fuel hf => evalF_scalar ρ e r h fuel hf⟩

open Pug.JS Pug.Props.C01S in
/-- the same, for the entry points the driver and the checks call (their fuel is far above any nesting in use) -/
theorem C01_eval_scalar_entry (env : CEnv) (ρ : SEnv) (e : SExpr) (r : SVal) (hw : WF env e) (h : sEval ρ e = some r)
    (hd : e.depth < 50000) :
    compileExpr env e.toExpr = .ok (some (tr e)) ∧ JS.eval ρ.toJS e.toExpr = some r.toJS :=
  ⟨compile_scalar env e hw exprFuel (by simp only [exprFuel]; omega),
   evalF_scalar ρ e r h evalFuel (by simp only [evalFuel]; omega)⟩

open Pug.JS Pug.Props.C01S in
/-- **C01 (buffered code prints the JavaScript value).** The template node `{{ tr e | __pug__html }}` runs `printVal` on a
representation of the JavaScript value: what is printed is determined by JavaScript's result alone. -/
theorem C01_print_scalar (ρ : SEnv) (e : SExpr) (r : SVal) (h : sEval ρ e = some r) (st : St) (hag : Agree st ρ)
    (env : Tpl.Env) (esc : Bool) (fuel : Nat) (hf : 2 * e.depth + 1 < fuel) :
    ∃ v, Rep v r ∧ walk fuel env (.print (tr e) esc) st = printVal v esc st := by
  obtain ⟨f, rfl⟩ : ∃ f, fuel = f + 1 := ⟨fuel - 1, by omega⟩
  obtain ⟨v, hv, rv⟩ := eval_scalar ρ e r h st hag f (by omega)
  exact ⟨v, rv, by simp [walk, hv, bind, StateT.bind, Except.bind]⟩

open Pug.JS Pug.Props.C01S in
/-- non-vacuity: `(n + 2) * 3 < 10 ? s + s : !b` over n = 1, s = "x", b = false has the JavaScript value "xx" and is
well-formed -/
example :
    let e : SExpr := .cond (.bin .lt (.bin .mul (.bin .add (.var "n") (.num 2 true)) (.num 3 true)) (.num 10 true))
      (.bin .add (.var "s") (.var "s")) (.not (.var "b"))
    let ρ : SEnv := [("n", .num 1), ("s", .str "x"), ("b", .bool false)]
    sEval ρ e = some (.str "xx") ∧ WF { funcs := ["Math"], parserFuncs := [] } e := by
  refine ⟨?_, ?_⟩
  · have h : (((1 : Rat) + 2) * 3 < 10) := by grind
    simp [sEval, sLookup, sBin, sToBool, h]
  · simp [WF]

open Pug.JS Pug.Props.C01S Pug.Driver in
/-- **C01 (end to end, through the whole model of LoadTemplates + Render)** for a boolean result (`= a < b`, `= !x`-free comparisons, `= c ? p == q : r`): the page shows `true` / `false`
exactly as JavaScript's result says -/
theorem C01_render_bool_end_to_end (o : Std.TreeMap.Raw String Lean.Json) (svs : SEnv) (hd : ScalarData o svs)
    (hg : ∀ kv ∈ svs, kv.1 ≠ "global") (e : SExpr) (b : Bool) (inl : Bool)
    (hw : WF { funcs := engineFuncs ++ [], parserFuncs := engineFuncs ++ [] ++ builtinNames } e) (ht : TopEsc e)
    (hdepth : e.depth < 50000) (h : sEval svs e = some (.bool b)) :
    renderModel [.codeBuf e.toExpr true inl] (.obj o) [] false = okOut (if b then "true" else "false") := by
  have hc := compileDoc_buffered { funcs := engineFuncs ++ [], parserFuncs := engineFuncs ++ [] ++ builtinNames } e inl hw ht hdepth
  have hag := agree_initState o svs hd hg
  have hout := (initState_scalars o svs hd).2
  obtain ⟨v, rv, hwalk⟩ := C01_print_scalar svs e (.bool b) h (initState (.obj o)) hag { defs := [] } true 99999999 (by omega)
  have hp : printVal v true (initState (.obj o)) =
      .ok ((), { initState (.obj o) with out := (initState (.obj o)).out ++ (if b then "true" else "false") }) := by
    cases rv <;> cases b <;>
      simp [printVal, getHeap, sprint, strFuel, objStr, ofOpt, emit, bind, StateT.bind, Except.bind, get, getThe, MonadStateOf.get,
        StateT.get, pure, StateT.pure, Except.pure, modify, modifyGet, MonadStateOf.modifyGet, StateT.modifyGet] <;> decide
  have hrun : walkList 100000000 { defs := [] } [TNode.print (tr e) true] (initState (.obj o)) =
      .ok ((), { initState (.obj o) with out := (initState (.obj o)).out ++ (if b then "true" else "false") }) := by
    show walkList (99999999 + 1) _ _ _ = _
    rw [walkList]
    simp only [bind, StateT.bind, hwalk, hp, Except.bind]
    show walkList (99999998 + 1) _ [] _ = _
    simp [walkList, pure, StateT.pure, Except.pure]
  simp only [renderModel, hc, StateT.run, hrun, hout, String.empty_append]


end Pug.Props.C01
