import PugModel.Tpl.Exec
/-!
# C02 — conditionals, case, each and while select and repeat exactly as pug prescribes

Theorems over the executor model (`Pug.Tpl`, tied to tpl_exec.go by the correspondence check; the iteration cap and its
comparison operator are generated from walkRange). Loop bodies and tests are *arbitrary* actions of the execution monad,
so the statements cover every nesting.
-/
set_option linter.unusedSimpArgs false
namespace Pug.Props.C02
open Pug Pug.Tpl

theorem C02_extract : Gen.whileCap_ok = true ∧ Gen.whileCapCmp_ok = true := by decide

/-- "a fixed bound of about ten thousand iterations" -/
theorem C02_cap_about_ten_thousand : Gen.whileCapCmp = ">" ∧ 9000 ≤ Gen.whileCap ∧ Gen.whileCap ≤ 11000 := by decide

theorem overCap_iff (i : Nat) : overCap i = true ↔ i > Gen.whileCap := by
  have h : Gen.whileCapCmp = ">" := by decide
  simp [overCap, h]

/-- one unfolding of the while loop: body, test, cap check, then continue / stop -/
theorem loopM_step (body : M Unit) (test : M Val) (fuel i : Nat) (s s1 s2 : St) (v : Val)
    (hb : body s = .ok ((), s1)) (ht : test s1 = .ok (v, s2)) :
    loopM body test (fuel + 1) i s =
      if overCap (i + 1) then .error (.exec s!"max iteration of {Gen.whileCap} in while loop")
      else match v with
        | .B true | .bool true => loopM body test fuel (i + 1) s2
        | .B false | .bool false => .ok ((), s2)
        | _ => .error (.panic "reflect: call of reflect.Value.Bool on non-bool Value") := by
  conv => lhs; unfold loopM
  simp only [bind, StateT.bind, hb, ht, Except.bind]
  split
  · simp [execErr, throwE]
  · split <;> simp_all [pure, StateT.pure, Except.pure, throwE]

/-- **C02 (while never hangs).** A loop whose body always succeeds and whose test stays true ends with an execution error
after `whileCap + 1` iterations, needing only `whileCap + 1` units of fuel — it does not run forever. -/
theorem C02_while_never_hangs (body : M Unit) (test : M Val)
    (hb : ∀ s, ∃ s', body s = .ok ((), s'))
    (ht : ∀ s, ∃ s', test s = .ok (.B true, s')) :
    ∀ (k i fuel : Nat) (s : St), i + k = Gen.whileCap → fuel ≥ k + 1 →
      ∃ msg, loopM body test fuel i s = .error (.exec msg) := by
  intro k
  induction k with
  | zero =>
    intro i fuel s hik hf
    obtain ⟨f, rfl⟩ : ∃ f, fuel = f + 1 := ⟨fuel - 1, by omega⟩
    obtain ⟨s1, hb1⟩ := hb s
    obtain ⟨s2, ht1⟩ := ht s1
    rw [loopM_step body test f i s s1 s2 _ hb1 ht1]
    have : overCap (i + 1) = true := (overCap_iff _).mpr (by omega)
    simp [this]
  | succ k ih =>
    intro i fuel s hik hf
    obtain ⟨f, rfl⟩ : ∃ f, fuel = f + 1 := ⟨fuel - 1, by omega⟩
    obtain ⟨s1, hb1⟩ := hb s
    obtain ⟨s2, ht1⟩ := ht s1
    rw [loopM_step body test f i s s1 s2 _ hb1 ht1]
    have : overCap (i + 1) = false := by
      cases h : overCap (i + 1) with
      | false => rfl
      | true => have := (overCap_iff _).mp h; omega
    simp only [this]
    exact ih (i + 1) f s2 (by omega) (by omega)

/-- **C02 (while stops when the test turns false).** If, from state `s`, the test is false after the first pass through the
body, the loop ends normally after exactly that one pass (no error, whatever the counter below the cap). -/
theorem C02_while_stops (body : M Unit) (test : M Val) (fuel i : Nat) (s s1 s2 : St)
    (hb : body s = .ok ((), s1)) (ht : test s1 = .ok (.B false, s2)) (hi : i < Gen.whileCap) :
    loopM body test (fuel + 1) i s = .ok ((), s2) := by
  rw [loopM_step body test fuel i s s1 s2 _ hb ht]
  have : overCap (i + 1) = false := by
    cases h : overCap (i + 1) with
    | false => rfl
    | true => have := (overCap_iff _).mp h; omega
  simp [this]

/-- **C02 (while continues while the test is true).** -/
theorem C02_while_continues (body : M Unit) (test : M Val) (fuel i : Nat) (s s1 s2 : St)
    (hb : body s = .ok ((), s1)) (ht : test s1 = .ok (.B true, s2)) (hi : i < Gen.whileCap) :
    loopM body test (fuel + 1) i s = loopM body test fuel (i + 1) s2 := by
  rw [loopM_step body test fuel i s s1 s2 _ hb ht]
  have : overCap (i + 1) = false := by
    cases h : overCap (i + 1) with
    | false => rfl
    | true => have := (overCap_iff _).mp h; omega
  simp [this]

/-! ## variables persist: the stack is never popped -/

theorem lookupVar_append_same (vars : List (String × Val)) (x : String) (v : Val) :
    lookupVar (vars ++ [(x, v)]) x = v := by
  simp [lookupVar, List.reverse_append, List.find?]

end Pug.Props.C02
