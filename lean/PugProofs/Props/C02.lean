import PugModel.Tpl.Exec
import PugProofs.C02.IfDoc
import PugProofs.C02.EachDoc
import PugModel.Gen.Tables
import PugProofs.C03.Frame
import PugModel.Tpl.Compile
/-!
# C02 — conditionals, case, each and while select and repeat exactly as pug prescribes

Theorems over the executor model (`Pug.Tpl`, tied to tpl_exec.go by the correspondence check; the iteration cap and its
comparison operator are generated from walkRange). Loop bodies and tests are *arbitrary* actions of the execution monad,
so the statements cover every nesting.
-/
set_option linter.unusedSimpArgs false
namespace Pug.Props.C02
open Pug Pug.Tpl

theorem C02_extract : Gen.whileCap_ok = true ∧ Gen.whileCapCmp_ok = true := by decide

/-- "a fixed bound of about ten thousand iterations" -/
theorem C02_cap_about_ten_thousand : Gen.whileCapCmp = ">" ∧ 9000 ≤ Gen.whileCap ∧ Gen.whileCap ≤ 11000 := by decide

theorem overCap_iff (i : Nat) : overCap i = true ↔ i > Gen.whileCap := by
  have h : Gen.whileCapCmp = ">" := by decide
  simp [overCap, h]

/-- one unfolding of the while loop: body, test, cap check, then continue / stop -/
theorem loopM_step (body : M Unit) (test : M Val) (fuel i : Nat) (s s1 s2 : St) (v : Val)
    (hb : body s = .ok ((), s1)) (ht : test s1 = .ok (v, s2)) :
    loopM body test (fuel + 1) i s =
      if overCap (i + 1) then .error (.exec s!"max iteration of {Gen.whileCap} in while loop")
      else match v with
        | .B true | .bool true => loopM body test fuel (i + 1) s2
        | .B false | .bool false => .ok ((), s2)
        | _ => .error (.panic "reflect: call of reflect.Value.Bool on non-bool Value") := by
  conv => lhs; unfold loopM
  simp only [bind, StateT.bind, hb, ht, Except.bind]
  split
  · simp [execErr, throwE]
  · split <;> simp_all [pure, StateT.pure, Except.pure, throwE]

/-- **C02 (while never hangs).** A loop whose body always succeeds and whose test stays true ends with an execution error
after `whileCap + 1` iterations, needing only `whileCap + 1` units of fuel — it does not run forever. -/
theorem C02_while_never_hangs (body : M Unit) (test : M Val)
    (hb : ∀ s, ∃ s', body s = .ok ((), s'))
    (ht : ∀ s, ∃ s', test s = .ok (.B true, s')) :
    ∀ (k i fuel : Nat) (s : St), i + k = Gen.whileCap → fuel ≥ k + 1 →
      ∃ msg, loopM body test fuel i s = .error (.exec msg) := by
  intro k
  induction k with
  | zero =>
    intro i fuel s hik hf
    obtain ⟨f, rfl⟩ : ∃ f, fuel = f + 1 := ⟨fuel - 1, by omega⟩
    obtain ⟨s1, hb1⟩ := hb s
    obtain ⟨s2, ht1⟩ := ht s1
    rw [loopM_step body test f i s s1 s2 _ hb1 ht1]
    have : overCap (i + 1) = true := (overCap_iff _).mpr (by omega)
    simp [this]
  | succ k ih =>
    intro i fuel s hik hf
    obtain ⟨f, rfl⟩ : ∃ f, fuel = f + 1 := ⟨fuel - 1, by omega⟩
    obtain ⟨s1, hb1⟩ := hb s
    obtain ⟨s2, ht1⟩ := ht s1
    rw [loopM_step body test f i s s1 s2 _ hb1 ht1]
    have : overCap (i + 1) = false := by
      cases h : overCap (i + 1) with
      | false => rfl
      | true => have := (overCap_iff _).mp h; omega
    simp only [this]
    exact ih (i + 1) f s2 (by omega) (by omega)

/-- **C02 (while stops when the test turns false).** If, from state `s`, the test is false after the first pass through the
body, the loop ends normally after exactly that one pass (no error, whatever the counter below the cap). -/
theorem C02_while_stops (body : M Unit) (test : M Val) (fuel i : Nat) (s s1 s2 : St)
    (hb : body s = .ok ((), s1)) (ht : test s1 = .ok (.B false, s2)) (hi : i < Gen.whileCap) :
    loopM body test (fuel + 1) i s = .ok ((), s2) := by
  rw [loopM_step body test fuel i s s1 s2 _ hb ht]
  have : overCap (i + 1) = false := by
    cases h : overCap (i + 1) with
    | false => rfl
    | true => have := (overCap_iff _).mp h; omega
  simp [this]

/-- **C02 (while continues while the test is true).** -/
theorem C02_while_continues (body : M Unit) (test : M Val) (fuel i : Nat) (s s1 s2 : St)
    (hb : body s = .ok ((), s1)) (ht : test s1 = .ok (.B true, s2)) (hi : i < Gen.whileCap) :
    loopM body test (fuel + 1) i s = loopM body test fuel (i + 1) s2 := by
  rw [loopM_step body test fuel i s s1 s2 _ hb ht]
  have : overCap (i + 1) = false := by
    cases h : overCap (i + 1) with
    | false => rfl
    | true => have := (overCap_iff _).mp h; omega
  simp [this]

/-! ## variables persist: the stack is never popped -/

theorem lookupVar_append_same (vars : List (String × Val)) (x : String) (v : Val) :
    lookupVar (vars ++ [(x, v)]) x = v := by
  simp [lookupVar, List.reverse_append, List.find?]

/-! ## conditionals: exactly the first branch whose test is truthy -/

/-- **C02 (if / else).** One conditional renders its `then` body iff the test value is truthy, else its `else` body (which is
empty when there is none) - for EVERY test expression and bodies. -/
theorem C02_if_selects (fuel : Nat) (env : Env) (c : TExpr) (thn els : List TNode) (st st' : St) (v : Val)
    (hc : evalExpr fuel c st = .ok (v, st')) :
    walk (fuel + 1) env (.ite c thn els) st =
      (if truth st'.heap v then walkList fuel env thn st' else walkList fuel env els st') := by
  simp only [walk, bind, StateT.bind, hc, Except.bind, getHeap, get, getThe, MonadStateOf.get, StateT.get, pure, StateT.pure,
    Except.pure]
  split <;> rfl

/-- an `if / else if / ... / else` chain as the template parser nests it -/
def chain : List (TExpr × List TNode) → List TNode → List TNode
  | [], els => els
  | (c, thn) :: rest, els => [.ite c thn (chain rest els)]

/-- the branch JavaScript / pug selects: the body of the first test whose value is truthy, else the `else` body -/
def selected (h : Heap) : List (Val × List TNode) → List TNode → List TNode
  | [], els => els
  | (v, thn) :: rest, els => if truth h v then thn else selected h rest els

/-- **C02 (else-if chains).** For EVERY chain length: if the tests evaluate (without changing the state, as expression tests do)
to the values `vs`, the chain renders exactly the selected branch - the first truthy one, or the else body, or nothing. -/
theorem C02_if_chain (env : Env) (st : St) (branches : List (TExpr × List TNode)) (vs : List Val) (els : List TNode)
    (hlen : vs.length = branches.length) (fmin : Nat)
    (htests : ∀ i (hi : i < branches.length), ∀ f, fmin ≤ f →
      evalExpr f (branches[i].1) st = .ok (vs[i]'(by omega), st))
    (fuel : Nat) (hf : fmin + 2 * branches.length < fuel) :
    ∃ f', fmin ≤ f' ∧ f' ≤ fuel ∧
      walkList fuel env (chain branches els) st =
        walkList f' env (selected st.heap (vs.zip (branches.map (·.2))) els) st := by
  induction branches generalizing vs fuel with
  | nil =>
    cases vs with
    | nil => exact ⟨fuel, by omega, by simp, rfl⟩
    | cons _ _ => simp at hlen
  | cons b rest ih =>
    obtain ⟨c, thn⟩ := b
    cases vs with
    | nil => simp at hlen
    | cons v vs' =>
      simp only [List.length_cons] at hlen hf
      obtain ⟨f, rfl⟩ : ∃ f, fuel = f + 2 := ⟨fuel - 2, by omega⟩
      have hc : evalExpr f c st = .ok (v, st) := by
        have := htests 0 (by simp) f (by omega)
        simpa using this
      have hwalk : walkList (f + 2) env (chain ((c, thn) :: rest) els) st =
          (if truth st.heap v then walkList f env thn st else walkList f env (chain rest els) st) := by
        simp only [chain]
        show walkList (f + 1 + 1) env [TNode.ite c thn (chain rest els)] st = _
        rw [walkList]
        simp only [bind, StateT.bind, C02_if_selects f env c thn (chain rest els) st st v hc]
        split
        · cases h : walkList f env thn st with
          | error e => simp [Except.bind]
          | ok r => simp [Except.bind, walkList, pure, StateT.pure, Except.pure]
        · cases h : walkList f env (chain rest els) st with
          | error e => simp [Except.bind]
          | ok r => simp [Except.bind, walkList, pure, StateT.pure, Except.pure]
      by_cases ht : truth st.heap v = true
      · refine ⟨f, by omega, by omega, ?_⟩
        rw [hwalk]
        simp [selected, ht]
      · have hrec := ih vs' (by omega) (fun i hi f0 h1 => by
            have := htests (i + 1) (by simp; omega) f0 h1
            simpa using this) f (by omega)
        obtain ⟨f', h1, h2, h3⟩ := hrec
        refine ⟨f', h1, by omega, ?_⟩
        rw [hwalk]
        simp [selected, ht, h3]

/-! ## each: once per element, in order, index / key bound -/

/-- **C02 (each over an array).** The iteration list of an array is its elements in order, paired with the indices 0, 1, 2, ... -/
theorem C02_each_array_items (a : Nat) (st : St) :
    rangeKind (.arr a) st =
      .ok (.items ((st.heap.getArr a).zipIdx.map fun (x, i) => (Val.int i, x)), st) := by
  simp [rangeKind, bind, StateT.bind, getHeap, get, getThe, MonadStateOf.get, StateT.get, pure, StateT.pure, Except.pure,
    Except.bind]

/-- **C02 (each over an object with insertion order).** The iteration visits the keys in insertion order (those still
present), each bound to its member. -/
theorem C02_each_object_items (a : Nat) (st : St) (ho : (st.heap.getMap a).order.length > 0) :
    ∃ l, rangeKind (.map a) st = .ok (.items l, st) ∧
      l = ((st.heap.getMap a).order.filter fun k => (assocGet (st.heap.getMap a).items k).isSome).map
            fun k => (Val.str k, mapMember (st.heap.getMap a) k) := by
  refine ⟨_, by simp [rangeKind, bind, StateT.bind, getHeap, get, getThe, MonadStateOf.get, StateT.get, pure, StateT.pure,
    Except.pure, Except.bind, ho]; rfl, ?_⟩
  generalize (st.heap.getMap a).order = ks
  induction ks with
  | nil => rfl
  | cons k rest ih =>
    simp only [List.filterMap_cons, List.filter_cons]
    cases h : assocGet (st.heap.getMap a).items k with
    | none => simp [ih]
    | some w => simp [ih]

/-- **C02 (a member that is present but null is still a member).** A key of the insertion order whose value is null / undefined
(`{first: user.first, middle: user.middle}` without a middle name in the data) is visited like every other key - presence is decided by
the key, never by the value. (Seeded change C02-13 answered `HasMember` through `Member()` and dropped exactly these iterations.) -/
theorem C02_each_object_null_member_visited (a : Nat) (st : St) (ho : (st.heap.getMap a).order.length > 0) (k : String) (w : Val)
    (hk : k ∈ (st.heap.getMap a).order) (hp : assocGet (st.heap.getMap a).items k = some w) :
    ∃ l, rangeKind (.map a) st = .ok (.items l, st) ∧ (Val.str k, mapMember (st.heap.getMap a) k) ∈ l := by
  obtain ⟨l, h1, h2⟩ := C02_each_object_items a st ho
  refine ⟨l, h1, ?_⟩
  subst h2
  simp only [List.mem_map, List.mem_filter]
  exact ⟨k, ⟨hk, by simp [hp]⟩, rfl⟩

theorem opMapPairs_length (h : Heap) : ∀ (kvs : List Val) (ps : List (String × Val)), opMapPairs h kvs = .ok ps → 2 * ps.length = kvs.length
  | k :: v :: rest, ps, hp => by
    unfold opMapPairs at hp
    cases hk : objStr h (strFuel h) k with
    | none => simp [hk] at hp
    | some ks =>
      simp only [hk] at hp
      cases hr : opMapPairs h rest with
      | error e => simp [hr, Except.map] at hp
      | ok qs =>
        simp [hr, Except.map] at hp
        subst hp
        have := opMapPairs_length h rest qs hr
        simp; omega
  | [], ps, hp => by simp [opMapPairs] at hp; subst hp; rfl
  | [_], ps, hp => by simp [opMapPairs] at hp

/-- **C02 (an object literal keeps the order its keys were written in).** For EVERY operand list of the object-literal helper
`__op__map` and every state: if the helper returns, the result is ONE new map whose insertion order is exactly the key texts in the
order they were written - one per key / value pair - and every other array, map and the rest of the state is untouched. Together with
`C02_each_object_items` this is "each walks an object literal in the order it was written". -/
theorem C02_object_literal_order (kvs : List Val) (st st' : St) (v : Val) (h : callBuiltin "__op__map" kvs st = .ok (v, st')) :
    ∃ ps, opMapPairs st.heap kvs = .ok ps ∧ 2 * ps.length = kvs.length ∧ v = .map st.heap.maps.length ∧
      (st'.heap.getMap st.heap.maps.length).order = ps.map (·.1) ∧
      (∀ a, a < st.heap.arrs.length → st'.heap.getArr a = st.heap.getArr a) ∧
      (∀ a, a < st.heap.maps.length → st'.heap.getMap a = st.heap.getMap a) ∧ st'.vars = st.vars ∧ st'.out = st.out := by
  have hc : callBuiltin "__op__map" kvs st = opMap st.heap kvs st := by
    unfold callBuiltin
    rfl
  rw [hc] at h
  unfold opMap at h
  cases hp : opMapPairs st.heap kvs with
  | error e => simp [hp, throwE] at h
  | ok ps =>
    simp only [hp] at h
    obtain ⟨g, hv⟩ := C03F.allocMap_grows _ _ _ _ h
    have hnew : (st'.heap.getMap st.heap.maps.length).order = ps.map (·.1) := by
      simp [allocMap, Heap.allocMap, getHeap, setHeap, bind, StateT.bind, Except.bind, get, getThe, MonadStateOf.get, StateT.get, pure,
        Except.pure, StateT.pure, modify, modifyGet, MonadStateOf.modifyGet, StateT.modifyGet] at h
      obtain ⟨_, rfl⟩ := h
      simp [Heap.getMap, List.getD]
    obtain ⟨h1, _, h3, _, _, _⟩ := g.rest
    exact ⟨ps, rfl, opMapPairs_length _ _ _ hp, hv, hnew, g.getArr, g.getMap, h1, h3⟩

/-- two lists related element by element (same length, same positions) -/
inductive Pairwise2 {α β : Type} (R : α → β → Prop) : List α → List β → Prop
  | nil : Pairwise2 R [] []
  | cons {a : α} {b : β} {l : List α} {r : List β} : R a b → Pairwise2 R l r → Pairwise2 R (a :: l) (b :: r)

/-- a monadic map in the compiler's monad relates every input to its output -/
theorem mapM_ok_forall₂ {α β : Type} (f : α → CM β) (R : α → β → Prop) (hf : ∀ a b, f a = .ok b → R a b) :
    ∀ (l : List α) (r : List β), l.mapM f = .ok r → Pairwise2 R l r := by
  intro l
  induction l with
  | nil => intro r h; simp [List.mapM_nil, pure, Except.pure] at h; subst h; exact .nil
  | cons a rest ih =>
    intro r h
    simp only [List.mapM_cons, bind, Except.bind] at h
    cases ha : f a with
    | error e => simp [ha] at h
    | ok b =>
      simp only [ha] at h
      cases hr : rest.mapM f with
      | error e => simp [hr] at h
      | ok bs =>
        simp [hr, pure, Except.pure] at h
        subst h
        exact .cons (hf a b ha) (ih bs hr)

/-- **C02 (the object literal, compile side).** For EVERY object literal (any keys the transpiler accepts, any values, any nesting) the
transpiler emits ONE call of `__op__map` whose operands are, pair by pair and in the order written, the key as a string literal and
the compiled value: no pair is dropped, merged or moved. With `C02_object_literal_order` (run side) and `C02_each_object_items`:
`each` walks an object literal in the order it was written. -/
theorem C02_object_literal_compiles (fuel : Nat) (env : CEnv) (kvs : List (String × JS.Expr)) (t : Option TExpr)
    (h : compileExprF (fuel + 1) env (.obj kvs) = .ok t) :
    ∃ r : List (List TExpr), t = some (.fcall "__op__map" r.flatten) ∧
      Pairwise2 (fun (kv : String × JS.Expr) (x : List TExpr) => ∃ tv, x = [.lit (.str kv.1), tv]) kvs r := by
  simp only [compileExprF, bind, Except.bind] at h
  split at h
  · cases h
  · rename_i r hr
    simp [pure, Except.pure] at h
    refine ⟨r, h.symm, mapM_ok_forall₂ _ _ ?_ kvs r hr⟩
    intro a b hab
    obtain ⟨k, v⟩ := a
    simp only at hab
    split at hab
    · cases hab
    · split at hab
      · cases hab
      · rename_i tv _
        simp [pure, Except.pure] at hab
        exact ⟨tv, hab.symm⟩

/-- **C02 (each over a missing or null collection renders nothing).** -/
theorem C02_each_missing (v : Val) (hv : v = .nil ∨ v = .invalid) (st : St) :
    rangeKind v st = .ok (.nothing, st) := by
  rcases hv with rfl | rfl <;>
    simp [rangeKind, bind, StateT.bind, getHeap, get, getThe, MonadStateOf.get, StateT.get, pure, StateT.pure, Except.pure,
      Except.bind]

/-- **C02 (one iteration).** With index and element variables declared: bind the index / key, bind the element, render the body,
go on with the remaining elements - for EVERY body and EVERY remaining list. -/
theorem C02_each_step (fuel : Nat) (env : Env) (k v : String) (body : List TNode) (i x : Val) (rest : List (Val × Val)) :
    walkItems (fuel + 1) env [k, v] body ((i, x) :: rest) =
      (do setVar ("$" ++ k) i; setVar ("$" ++ v) x; walkList fuel env body; walkItems fuel env [k, v] body rest) := by
  simp [walkItems, bind_assoc]

/-- **C02 (an empty collection renders nothing and changes nothing).** -/
theorem C02_each_empty (fuel : Nat) (env : Env) (decl : List String) (body : List TNode) (st : St) :
    walkItems (fuel + 1) env decl body [] st = .ok ((), st) := by
  simp [walkItems, pure, StateT.pure, Except.pure]

/-! ## the code the model mirrors, by its control skeleton

`Gen.loopSkeleton`: `state.walkRange` and `state.walkIfOrWith` (pugjs/tpl_exec.go): the kinds a loop ranges over, the while loop with its cap test, the else branch, the truth test of if - every `if` / `switch` / `case` condition, loop header, `return`, `continue`, in source order with nesting depth,
regenerated from the Go source on every run. It must be the skeleton the executor model of `range` / `if` (`Tpl/Exec.lean`) was written against: a changed condition, an added
branch or early exit reopens the obligation before any input is drawn. -/

def expected_loopSkeleton : List (String × String) :=
  [("state.walkRange", "0 defer s.pop"),
   ("state.walkRange", "0 range r.Pipe.Decl"),
   ("state.walkRange", "0 if val.IsValid()"),
   ("state.walkRange", "1 if ok"),
   ("state.walkRange", "2 typeswitch "),
   ("state.walkRange", "3 case *Array"),
   ("state.walkRange", "3 case *Map"),
   ("state.walkRange", "4 if len(obj.order) > 0"),
   ("state.walkRange", "5 range obj.order"),
   ("state.walkRange", "6 if obj.HasMember(index)"),
   ("state.walkRange", "5 return "),
   ("state.walkRange", "3 case Nil"),
   ("state.walkRange", "1 else "),
   ("state.walkRange", "0 switch val.Kind()"),
   ("state.walkRange", "1 case reflect.Array, reflect.Slice"),
   ("state.walkRange", "2 if val.Len() == 0"),
   ("state.walkRange", "3 break "),
   ("state.walkRange", "2 for i < val.Len()"),
   ("state.walkRange", "2 return "),
   ("state.walkRange", "1 case reflect.Map"),
   ("state.walkRange", "2 if val.Len() == 0"),
   ("state.walkRange", "3 break "),
   ("state.walkRange", "2 range sortKeys(val.MapKeys())"),
   ("state.walkRange", "2 return "),
   ("state.walkRange", "1 case reflect.Chan"),
   ("state.walkRange", "2 if val.IsNil()"),
   ("state.walkRange", "3 break "),
   ("state.walkRange", "2 for "),
   ("state.walkRange", "3 if !ok"),
   ("state.walkRange", "4 break "),
   ("state.walkRange", "2 if i == 0"),
   ("state.walkRange", "3 break "),
   ("state.walkRange", "2 return "),
   ("state.walkRange", "1 case reflect.Bool"),
   ("state.walkRange", "2 for val.Bool()"),
   ("state.walkRange", "3 if i > 10000"),
   ("state.walkRange", "2 return "),
   ("state.walkRange", "1 case reflect.Invalid"),
   ("state.walkRange", "2 break "),
   ("state.walkRange", "1 case "),
   ("state.walkRange", "0 if r.ElseList != nil"),
   ("state.walkIfOrWith", "0 if !ok"),
   ("state.walkIfOrWith", "0 if truth"),
   ("state.walkIfOrWith", "1 if typ == parse.NodeWith"),
   ("state.walkIfOrWith", "1 else "),
   ("state.walkIfOrWith", "0 else "),
   ("state.walkIfOrWith", "1 if elseList != nil")]

/-- **C02 (the model's tie to the code, by shape).** -/
theorem C02_loop_skeleton : Gen.loopSkeleton_ok = true ∧ Gen.loopSkeleton = expected_loopSkeleton := by
  constructor <;> decide

/-! ## a conditional through the whole pipeline -/

open Pug.JS Pug.Props.C01S Pug.Props.C06S Pug.Props.C02D Pug.Driver in
/-- **C02 (if / else, end to end through the model of LoadTemplates + Render).** Page data: any JSON object with string / number /
boolean values. Document: `if e` … `else` … for ANY well-formed scalar test `e` (variables, comparisons, arithmetic, `&&` `||` `!`,
any nesting) and ANY two static bodies (text with any characters, doctype, attribute-less tags, any nesting). Data conversion,
transpiler, text merging, trim markers, the template parser's nesting and the executor together print exactly the body JavaScript's
truth value of the test selects - never both, never the other one - with the white space that directly borders the `if` / `else`
marker removed from the front of the body's first text (`trimHead`) and nothing else changed; `A`, `B` are the transpiled bodies,
whose text is the reference serialisation of the two subtrees. -/
theorem C02_if_end_to_end (o : Std.TreeMap.Raw String Lean.Json) (svs : SEnv) (hd : ScalarData o svs)
    (hg : ∀ kv ∈ svs, kv.1 ≠ "global") (e : SExpr) (r : SVal) (thn els : List Node)
    (hw : WF { funcs := engineFuncs ++ [], parserFuncs := engineFuncs ++ [] ++ builtinNames } e) (hdepth : e.depth < 40000)
    (hv : sEval svs e = some r) (hthn : staticListF 99998 thn = true) (hels : staticListF 99998 els = true) :
    ∃ A B, Plain A ∧ fragsStr A = serListF 99998 thn ∧ Plain B ∧ fragsStr B = serListF 99998 els ∧
      (A.length + B.length + 100000 < 100000000 →
        renderModel [.cond e.toExpr thn (some els)] (.obj o) [] false =
          okOut (fragsStr (trimHead (mergeTexts (if sToBool r then A else B))))) := by
  obtain ⟨A, B, _, a2, a3, _, b2, b3, hc⟩ := compileDoc_if
    { funcs := engineFuncs ++ [], parserFuncs := engineFuncs ++ [] ++ builtinNames } rfl e hw (by omega) thn els hthn hels
  refine ⟨A, B, a2, a3, b2, b3, fun hlen => ?_⟩
  have hag := agree_initState o svs hd hg
  have hout := (initState_scalars o svs hd).2
  have mA := merge_plain A.length A (Nat.le_refl _) a2
  have mB := merge_plain B.length B (Nat.le_refl _) b2
  have lA := merge_length A.length A (Nat.le_refl _)
  have lB := merge_length B.length B (Nat.le_refl _)
  have tlA : (trimHead (mergeTexts A)).length = (mergeTexts A).length := by
    cases mergeTexts A with
    | nil => rfl
    | cons f r => cases f <;> rfl
  have tlB : (trimHead (mergeTexts B)).length = (mergeTexts B).length := by
    cases mergeTexts B with
    | nil => rfl
    | cons f r => cases f <;> rfl
  obtain ⟨v, hev, rv⟩ := eval_scalar svs e r hv (initState (.obj o)) hag 99999998 (by omega)
  have hsel := C02_if_selects 99999998 { defs := [] } (tr e) (nodesOf (trimHead (mergeTexts A))) (nodesOf (trimHead (mergeTexts B)))
    (initState (.obj o)) (initState (.obj o)) v hev
  rw [truth_rep _ rv] at hsel
  have wA := walk_nodes { defs := [] } (trimHead (mergeTexts A)) (trimHead_plain mA.1) (initState (.obj o)) 99999998 (by omega)
  have wB := walk_nodes { defs := [] } (trimHead (mergeTexts B)) (trimHead_plain mB.1) (initState (.obj o)) 99999998 (by omega)
  have hwalk : walk 99999999 { defs := [] }
      (TNode.ite (tr e) (nodesOf (trimHead (mergeTexts A))) (nodesOf (trimHead (mergeTexts B)))) (initState (.obj o)) =
      .ok ((), { initState (.obj o) with
        out := (initState (.obj o)).out ++ fragsStr (trimHead (mergeTexts (if sToBool r then A else B))) }) := by
    rw [show (99999999 : Nat) = 99999998 + 1 from rfl, hsel]
    cases hb : sToBool r <;> simp [wA, wB]
  have hrun : walkList 100000000 { defs := [] }
      [TNode.ite (tr e) (nodesOf (trimHead (mergeTexts A))) (nodesOf (trimHead (mergeTexts B)))] (initState (.obj o)) =
      .ok ((), { initState (.obj o) with
        out := (initState (.obj o)).out ++ fragsStr (trimHead (mergeTexts (if sToBool r then A else B))) }) := by
    show walkList (99999999 + 1) _ _ _ = _
    rw [walkList]
    simp only [bind, StateT.bind, hwalk, Except.bind]
    show walkList (99999998 + 1) _ [] _ = _
    simp [walkList, pure, StateT.pure, Except.pure]
  simp only [renderModel, hc, StateT.run, hrun, hout, String.empty_append]

/-! ## a loop through the pipeline -/

open Pug.JS Pug.Props.C01S Pug.Props.C06S Pug.Props.C02D Pug.Props.C02E Pug.Driver in
/-- **C02 (each, through transpiler, merge, trim, nesting and executor).** Document: `each v in x` over ANY static body, `x` any
variable that is not a template function. The transpiled, merged, trimmed and nested template is one `range` node over the body;
and from EVERY execution state in which `x` holds an array (whatever its elements, however many), executing it prints the body -
its first text left-trimmed at the loop marker, nothing else changed - exactly once per element, in one piece, and leaves the heap
as it was. -/
theorem C02_each_end_to_end (x v : String) (kids : List Node)
    (hx : (engineFuncs ++ ([] : List String)).contains x = false) (hk : staticListF 99998 kids = true) :
    ∃ A, Plain A ∧ fragsStr A = serListF 99998 kids ∧
      compileDoc { funcs := engineFuncs ++ [], parserFuncs := engineFuncs ++ [] ++ builtinNames } [.each v "" (.ident x) kids] =
        .ok { main := [.range [v] (.var x) (nodesOf (trimHead (mergeTexts A)))], defs := [] } ∧
      ∀ (st : St) (a : Nat) (fuel : Nat),
        lookupVar (st.vars ++ [("$" ++ v, Val.invalid)]) ("$" ++ x) = .arr a →
        (st.heap.getArr a).length + A.length + 6 < fuel →
        ∃ st', walkList fuel { defs := [] } [.range [v] (.var x) (nodesOf (trimHead (mergeTexts A)))] st = .ok ((), st') ∧
          st'.out = st.out ++ rep (fragsStr (trimHead (mergeTexts A))) (st.heap.getArr a).length ∧ st'.heap = st.heap := by
  obtain ⟨A, _, a2, a3, hc⟩ := compileDoc_each
    { funcs := engineFuncs ++ [], parserFuncs := engineFuncs ++ [] ++ builtinNames } rfl x v hx kids hk
  refine ⟨A, a2, a3, hc, ?_⟩
  intro st a fuel hlook hf
  have mA := merge_plain A.length A (Nat.le_refl _) a2
  have lA := merge_length A.length A (Nat.le_refl _)
  have tlA : (trimHead (mergeTexts A)).length = (mergeTexts A).length := by
    cases mergeTexts A with
    | nil => rfl
    | cons f r => cases f <;> rfl
  obtain ⟨f, rfl⟩ : ∃ f, fuel = f + 3 := ⟨fuel - 3, by omega⟩
  have hitems := walkItems_static { defs := [] } v (trimHead (mergeTexts A)) (trimHead_plain mA.1)
    ((st.heap.getArr a).zipIdx.map fun (p : Val × Nat) => (Val.int p.2, p.1)) (f + 1)
    { st with vars := setVarIn (st.vars ++ [("$" ++ v, Val.invalid)]) ("$" ++ v) (.arr a) } (by simp; omega)
  obtain ⟨st', h1, h2, h3⟩ := hitems
  refine ⟨st', ?_, by simpa using h2, by simpa using h3⟩
  rw [walkList]
  have hw : walk (f + 2) { defs := [] } (.range [v] (.var x) (nodesOf (trimHead (mergeTexts A)))) st = .ok ((), st') := by
    simp only [walk, evalExpr, rangeKind, bind, StateT.bind, modify, modifyGet, MonadStateOf.modifyGet, StateT.modifyGet, get,
      getThe, MonadStateOf.get, StateT.get, getHeap, pure, StateT.pure, Except.pure, Except.bind, List.map_cons, List.map_nil,
      List.foldl_cons, List.foldl_nil, hlook]
    exact h1
  simp only [bind, StateT.bind, hw, Except.bind]
  simp [walkList, pure, StateT.pure, Except.pure]

end Pug.Props.C02
