import PugModel.Sys.Loader
import PugModel.Gen.Tables
/-!
# C10 — template loading: every AST file addressable; loads atomic and concurrency-safe

Sequential facts (names, frozen set in production, recovery after a failed load) and, for EVERY number of concurrent first
renders and EVERY interleaving at lock granularity:
* production mode: every render returns what a single render after a single load would return — nobody gets the
  "preload again" error (C10_prod_all_succeed);
* debug mode: every render returns the current content of its own template (or not-found), whatever other templates are
  rendered concurrently (C10_debug_no_hiding).
-/
set_option linter.unusedSimpArgs false
namespace Pug.Props.C10
open Pug.Sys

def Unbroken (files : Files) : Prop := ∀ f ∈ files, f.2.isSome = true

/-- what a render of `name` must return over these files -/
def expected (files : Files) (name : String) : LRes := lookupT (some (pairsOf files)) name

theorem compile_unbroken (files : Files) (h : Unbroken files) (filter : String) :
    compile files filter = some (pairsOf (files.filter (fun f => selected filter f.1))) := by
  unfold compile
  have : (files.filter (fun f => selected filter f.1)).all (·.2.isSome) = true := by
    simp only [List.all_eq_true, List.mem_filter]
    intro f hf
    exact h f hf.1
  simp [this]

theorem filter_all (files : Files) : files.filter (fun f => selected "" f.1) = files := by
  apply List.filter_eq_self.mpr
  intro f _
  simp [selected]

theorem compile_all (files : Files) (h : Unbroken files) : compile files "" = some (pairsOf files) := by
  rw [compile_unbroken files h, filter_all]

/-- **C10 (names).** After a full load of unbroken files, a name is renderable exactly when it is a file's relative path
without the suffix, and it yields that file's template; any other name is not-found. -/
theorem C10_names (debug : Bool) (files : Files) (h : Unbroken files) (name : String) :
    let s : LState := { debug := debug, files := files, loaded := false, templates := none }
    (loadTemplates s "").1 = true ∧ lookupT (loadTemplates s "").2.templates name = expected files name := by
  simp [loadTemplates, compile_all files h, expected]

/-- **C10 (production: loaded once, frozen).** Once loaded, a production render neither reloads nor looks at the files. -/
theorem C10_prod_frozen (s : LState) (hd : s.debug = false) (hl : s.loaded = true) (name : String) (files' : Files) :
    render s name = (lookupT s.templates name, s) ∧
    (render { s with files := files' } name).1 = lookupT s.templates name := by
  simp [render, hd, hl]

/-- **C10 (a failed load reports the failure and leaves the engine able to load again).** -/
theorem C10_failed_load_recovers (s : LState) (filter : String) (hnl : s.loaded = false)
    (hfail : compile s.files filter = none) (files' : Files) (hfix : Unbroken files') :
    (loadTemplates s filter).1 = false ∧ (loadTemplates s filter).2.loaded = false ∧
    (loadTemplates { (loadTemplates s filter).2 with files := files' } "").1 = true := by
  simp [loadTemplates, hnl, hfail, compile_all files' hfix]

/-! ## concurrent first renders, production mode -/

structure InvP (files : Files) (s : CState) : Prop where
  mode : s.base.debug = false
  files_eq : s.base.files = files
  loaded_all : s.base.loaded = true → s.base.templates = some (pairsOf files)
  at_lookup : ∀ p ∈ s.threads, p.2 = .lookup → s.base.loaded = true
  at_done : ∀ p ∈ s.threads, ∀ r, p.2 = .done r → r = expected files p.1

theorem mem_set {α} {l : List α} {i : Nat} {a b : α} (h : a ∈ l.set i b) : a ∈ l ∨ a = b := by
  induction l generalizing i with
  | nil => simp at h
  | cons x rest ih =>
    cases i with
    | zero => simp only [List.set_cons_zero, List.mem_cons] at h; rcases h with h | h; exact Or.inr h; exact Or.inl (List.mem_cons_of_mem _ h)
    | succ j =>
      simp only [List.set_cons_succ, List.mem_cons] at h
      rcases h with h | h
      · exact Or.inl (h ▸ List.mem_cons_self)
      · rcases ih h with h | h
        · exact Or.inl (List.mem_cons_of_mem _ h)
        · exact Or.inr h

theorem forall_set {α} {l : List α} {i : Nat} {b : α} {Q : α → Prop} (h : ∀ p ∈ l, Q p) (hb : Q b) :
    ∀ p ∈ l.set i b, Q p := by
  intro p hp
  rcases mem_set hp with h' | h'
  · exact h p h'
  · exact h' ▸ hb

theorem invP_step (files : Files) (hu : Unbroken files) (s s' : CState) (i : Nat) (hi : InvP files s)
    (hs : cstep s i = some s') : InvP files s' := by
  unfold cstep at hs
  split at hs
  · cases hs
  · rename_i name pc hget
    have hmem : (name, pc) ∈ s.threads := List.mem_of_getElem? hget
    cases pc with
    | start =>
      simp only [hi.mode, Bool.false_eq_true, if_false] at hs
      split at hs
      · rename_i hl
        cases hs
        constructor
        · exact hi.mode
        · exact hi.files_eq
        · exact hi.loaded_all
        · exact forall_set (Q := fun (p : String × PC) => p.2 = PC.lookup → s.base.loaded = true) hi.at_lookup (fun _ => hl)
        · exact forall_set (Q := fun (p : String × PC) => ∀ r, p.2 = PC.done r → r = expected files p.1) hi.at_done (fun r h => by cases h)
      · cases hs
        constructor
        · exact hi.mode
        · exact hi.files_eq
        · exact hi.loaded_all
        · exact forall_set (Q := fun (p : String × PC) => p.2 = PC.lookup → s.base.loaded = true) hi.at_lookup (fun h => by cases h)
        · exact forall_set (Q := fun (p : String × PC) => ∀ r, p.2 = PC.done r → r = expected files p.1) hi.at_done (fun r h => by cases h)
    | wantLoad =>
      simp only [hi.mode, Bool.false_eq_true, if_false] at hs
      by_cases hl : s.base.loaded = true
      · -- somebody else loaded in the meantime: "again" error, ignored because the set is loaded
        have hload : loadTemplates s.base "" = (false, s.base) := by simp [loadTemplates, hl]
        rw [hload] at hs
        simp only [hl, Bool.or_true, if_true] at hs
        cases hs
        constructor
        · exact hi.mode
        · exact hi.files_eq
        · exact hi.loaded_all
        · exact forall_set (Q := fun (p : String × PC) => p.2 = PC.lookup → s.base.loaded = true) hi.at_lookup (fun _ => hl)
        · exact forall_set (Q := fun (p : String × PC) => ∀ r, p.2 = PC.done r → r = expected files p.1) hi.at_done (fun r h => by cases h)
      · have hl' : s.base.loaded = false := by simpa using hl
        have hload : loadTemplates s.base "" =
            (true, { s.base with loaded := true, templates := some (pairsOf files) }) := by
          simp only [loadTemplates, hl', Bool.false_and, Bool.false_eq_true, if_false, hi.files_eq, compile_all files hu]
          cases s.base.templates <;> rfl
        rw [hload] at hs
        simp only [Bool.true_or, if_true] at hs
        cases hs
        constructor
        · exact hi.mode
        · exact hi.files_eq
        · intro _; rfl
        · intro p _ _; rfl
        · exact forall_set (Q := fun (p : String × PC) => ∀ r, p.2 = PC.done r → r = expected files p.1) hi.at_done (fun r h => by cases h)
    | lookup =>
      cases hs
      have hl := hi.at_lookup _ hmem rfl
      have ht := hi.loaded_all hl
      constructor
      · exact hi.mode
      · exact hi.files_eq
      · exact hi.loaded_all
      · exact forall_set (Q := fun (p : String × PC) => p.2 = PC.lookup → s.base.loaded = true) hi.at_lookup (fun h => by cases h)
      · refine forall_set (Q := fun (p : String × PC) => ∀ r, p.2 = PC.done r → r = expected files p.1) hi.at_done ?_
        intro r h
        simp only [PC.done.injEq] at h
        subst h
        simp [ht, expected]
    | done r => cases hs

theorem invP_run (files : Files) (hu : Unbroken files) (s : CState) (sched : List Nat) (hi : InvP files s) :
    InvP files (crun s sched) := by
  induction sched generalizing s with
  | nil => exact hi
  | cons i rest ih =>
    simp only [crun]
    split
    · rename_i s' hs; exact ih s' (invP_step files hu s s' i hi hs)
    · exact ih s hi

/-- **C10 (production, concurrent first renders).** For every set of first renders and every interleaving, a render that
has finished returned what it would have returned alone: the template's content or not-found — never the "preload again" error. -/
theorem C10_prod_all_succeed (files : Files) (hu : Unbroken files) (names : List String) (sched : List Nat) :
    ∀ p ∈ (crun (CState.cold false files names) sched).threads, ∀ r, p.2 = .done r → r = expected files p.1 := by
  have h0 : InvP files (CState.cold false files names) := by
    refine ⟨rfl, rfl, by simp [CState.cold], ?_, ?_⟩
    · intro p hp hpc; simp only [CState.cold, List.mem_map] at hp; obtain ⟨n, _, rfl⟩ := hp; cases hpc
    · intro p hp r hpc; simp only [CState.cold, List.mem_map] at hp; obtain ⟨n, _, rfl⟩ := hp; cases hpc
  exact (invP_run files hu _ sched h0).at_done

/-! ## concurrent renders, debug mode -/

theorem hasPrefix_self (s : String) : hasPrefix s s = true := by
  simp [hasPrefix]

structure InvD (files : Files) (s : CState) : Prop where
  mode : s.base.debug = true
  files_eq : s.base.files = files
  sub : ∀ l, s.base.templates = some l → ∀ t ∈ l, t ∈ pairsOf files
  at_lookup : ∀ p ∈ s.threads, p.2 = .lookup → ∃ l, s.base.templates = some l ∧ ∀ c, (p.1, c) ∈ pairsOf files → (p.1, c) ∈ l
  at_done : ∀ p ∈ s.threads, ∀ r, p.2 = .done r → r = expected files p.1
  named : ∀ p ∈ s.threads, p.1 ≠ ""

theorem pairsOf_filter_mem (files : Files) (pred : String → Bool) (t : String × String) :
    t ∈ pairsOf (files.filter (fun f => pred f.1)) ↔ t ∈ pairsOf files ∧ pred t.1 = true := by
  simp only [pairsOf, List.mem_filterMap, List.mem_filter, Option.map_eq_some_iff]
  constructor
  · rintro ⟨f, ⟨hf, hp⟩, c, hc, rfl⟩
    exact ⟨⟨f, hf, c, hc, rfl⟩, hp⟩
  · rintro ⟨⟨f, hf, c, hc, rfl⟩, hp⟩
    exact ⟨f, ⟨hf, hp⟩, c, hc, rfl⟩

/-- names are unique among the files -/
def UniqueNames (files : Files) : Prop := ∀ a ∈ pairsOf files, ∀ b ∈ pairsOf files, a.1 = b.1 → a = b

theorem lookup_of_sub (files : Files) (hun : UniqueNames files) (l : List (String × String)) (name : String)
    (hsub : ∀ t ∈ l, t ∈ pairsOf files) (hall : ∀ c, (name, c) ∈ pairsOf files → (name, c) ∈ l) :
    lookupT (some l) name = expected files name := by
  unfold expected lookupT
  simp only
  cases h1 : l.find? (·.1 == name) with
  | none =>
    cases h2 : (pairsOf files).find? (·.1 == name) with
    | none => rfl
    | some t =>
      have ht := List.mem_of_find?_eq_some h2
      have hn : t.1 = name := by simpa using List.find?_some h2
      have : (name, t.2) ∈ l := hall t.2 (by rw [← hn]; exact ht)
      have := List.find?_eq_none.mp h1 _ this
      simp at this
  | some t =>
    have ht := List.mem_of_find?_eq_some h1
    have hn : t.1 = name := by simpa using List.find?_some h1
    have htf := hsub t ht
    cases h2 : (pairsOf files).find? (·.1 == name) with
    | none =>
      have := List.find?_eq_none.mp h2 _ htf
      simp [hn] at this
    | some u =>
      have hu := List.mem_of_find?_eq_some h2
      have hun' : u.1 = name := by simpa using List.find?_some h2
      have : t = u := hun t htf u hu (by rw [hn, hun'])
      subst this
      rfl

def mergeT (old : Option (List (String × String))) (name : String) (ts : List (String × String)) : List (String × String) :=
  match old with
  | some o => (o.filter (fun t => !hasPrefix t.1 name)) ++ ts
  | none => ts

theorem invD_step (files : Files) (hu : Unbroken files) (hun : UniqueNames files) (s s' : CState) (i : Nat)
    (hi : InvD files s) (hs : cstep s i = some s') : InvD files s' := by
  unfold cstep at hs
  split at hs
  · cases hs
  · rename_i name pc hget
    have hmem : (name, pc) ∈ s.threads := List.mem_of_getElem? hget
    have hname : name ≠ "" := hi.named _ hmem
    cases pc with
    | start =>
      simp only [hi.mode, if_true] at hs
      cases hs
      constructor
      · exact hi.mode
      · exact hi.files_eq
      · exact hi.sub
      · exact forall_set (Q := fun (p : String × PC) => p.2 = PC.lookup → ∃ l, s.base.templates = some l ∧ ∀ c, (p.1, c) ∈ pairsOf files → (p.1, c) ∈ l)
          hi.at_lookup (fun h => by cases h)
      · exact forall_set (Q := fun (p : String × PC) => ∀ r, p.2 = PC.done r → r = expected files p.1) hi.at_done (fun r h => by cases h)
      · exact forall_set (Q := fun (p : String × PC) => p.1 ≠ "") hi.named hname
    | wantLoad =>
      simp only [hi.mode, if_true] at hs
      have hne : (name == "") = false := by simpa using hname
      -- the filtered load always succeeds over unbroken files
      let ts := pairsOf (files.filter (fun f => selected name f.1))
      have hts : ∀ t, t ∈ ts ↔ t ∈ pairsOf files ∧ hasPrefix t.1 name = true := by
        intro t
        have := pairsOf_filter_mem files (fun n => selected name n) t
        simpa [ts, selected, hne] using this
      have hload : loadTemplates s.base name =
          (true, { s.base with loaded := true, templates := some (mergeT s.base.templates name ts) }) := by
        simp only [loadTemplates, hne, Bool.and_false, Bool.false_eq_true, if_false, hi.files_eq,
          compile_unbroken files hu name, mergeT]
        cases s.base.templates <;> rfl
      rw [hload] at hs
      simp only [if_true] at hs
      cases hs
      constructor
      · exact hi.mode
      · exact hi.files_eq
      · intro l hl t ht
        simp only [Option.some.injEq] at hl
        subst hl
        cases hold : s.base.templates with
        | none => simp only [hold, mergeT] at ht; exact ((hts t).mp ht).1
        | some old =>
          simp only [hold, mergeT, List.mem_append, List.mem_filter] at ht
          rcases ht with ht | ht
          · exact hi.sub old hold t ht.1
          · exact ((hts t).mp ht).1
      · intro p hp hpc
        refine ⟨_, rfl, ?_⟩
        intro c hc
        rcases mem_set hp with h | h
        · -- another thread that is about to look its template up: its entry survives or is refreshed
          obtain ⟨l, hl, hin⟩ := hi.at_lookup p h hpc
          simp only [hl, mergeT, List.mem_append, List.mem_filter]
          by_cases hpre : hasPrefix p.1 name = true
          · exact Or.inr ((hts _).mpr ⟨hc, hpre⟩)
          · exact Or.inl ⟨hin c hc, by simpa using hpre⟩
        · subst h
          have hin : (name, c) ∈ ts := (hts _).mpr ⟨hc, hasPrefix_self name⟩
          cases s.base.templates with
          | none => simpa [mergeT] using hin
          | some old => simp only [mergeT]; exact List.mem_append_right _ hin
      · exact forall_set (Q := fun (p : String × PC) => ∀ r, p.2 = PC.done r → r = expected files p.1) hi.at_done (fun r h => by cases h)
      · exact forall_set (Q := fun (p : String × PC) => p.1 ≠ "") hi.named hname
    | lookup =>
      cases hs
      obtain ⟨l, hl, hin⟩ := hi.at_lookup _ hmem rfl
      constructor
      · exact hi.mode
      · exact hi.files_eq
      · exact hi.sub
      · exact forall_set (Q := fun (p : String × PC) => p.2 = PC.lookup → ∃ l, s.base.templates = some l ∧ ∀ c, (p.1, c) ∈ pairsOf files → (p.1, c) ∈ l)
          hi.at_lookup (fun h => by cases h)
      · refine forall_set (Q := fun (p : String × PC) => ∀ r, p.2 = PC.done r → r = expected files p.1) hi.at_done ?_
        intro r h
        simp only [PC.done.injEq] at h
        subst h
        rw [hl]
        exact lookup_of_sub files hun l name (hi.sub l hl) hin
      · exact forall_set (Q := fun (p : String × PC) => p.1 ≠ "") hi.named hname
    | done r => cases hs

theorem invD_run (files : Files) (hu : Unbroken files) (hun : UniqueNames files) (s : CState) (sched : List Nat)
    (hi : InvD files s) : InvD files (crun s sched) := by
  induction sched generalizing s with
  | nil => exact hi
  | cons i rest ih =>
    simp only [crun]
    split
    · rename_i s' hs; exact ih s' (invD_step files hu hun s s' i hi hs)
    · exact ih s hi

/-- **C10 (debug, concurrent renders do not hide each other).** For every set of concurrent debug renders (any names, also
prefix-related ones) and every interleaving, a finished render returned the current content of its own template, or
not-found when there is no such file. -/
theorem C10_debug_no_hiding (files : Files) (hu : Unbroken files) (hun : UniqueNames files) (names : List String)
    (hnames : ∀ n ∈ names, n ≠ "") (sched : List Nat) :
    ∀ p ∈ (crun (CState.cold true files names) sched).threads, ∀ r, p.2 = .done r → r = expected files p.1 := by
  have h0 : InvD files (CState.cold true files names) := by
    refine ⟨rfl, rfl, by simp [CState.cold], ?_, ?_, ?_⟩
    · intro p hp hpc; simp only [CState.cold, List.mem_map] at hp; obtain ⟨n, _, rfl⟩ := hp; cases hpc
    · intro p hp r hpc; simp only [CState.cold, List.mem_map] at hp; obtain ⟨n, _, rfl⟩ := hp; cases hpc
    · intro p hp; simp only [CState.cold, List.mem_map] at hp; obtain ⟨n, hn, rfl⟩ := hp; exact hnames n hn
  exact (invD_run files hu hun _ sched h0).at_done

/-- naming constants read from engine.go -/
theorem C10_naming : Gen.astSuffix = ".ast.json" ∧ Gen.pageDir = ["template", "page"] ∧ Gen.astSuffix_ok = true := by decide

/-! non-vacuity: two concurrent first renders, the second one loses the race for the lock -/
example : ((crun (CState.cold false [("a", some "A"), ("b", some "B")] ["a", "b"]) [0, 1, 0, 1, 0, 1]).threads.map (·.2))
    = [PC.done (.ok "A"), PC.done (.ok "B")] := by decide

/-! ## the two loading functions, as the model was written against them

`Gen.loadSkeleton` is the control skeleton of `Engine.LoadTemplates` and `Engine.compileDir` - every `if` condition, loop header,
`defer`, `return`, `continue` and the place where the compiler state is constructed, with nesting depth, in source order -
regenerated from pugjs/engine.go on every run. The loading model above (load once in production, reset of the loaded flag on a
failed load, the string-prefix filter in the walk AND in the refresh of a filtered load, one compiler state per template file)
mirrors exactly this skeleton; a changed condition, an added early return, a moved constructor reopens the obligation. -/

def expectedLoadSkeleton : List (String × String) :=
  [("LoadTemplates", "0 defer e.Unlock"),
   ("LoadTemplates", "0 if !atomic.CompareAndSwapInt32(&e.templatesLoaded, 0, 1) && filtername == \"\""),
   ("LoadTemplates", "1 return errors.New(\"Can not preload all templates again\")"),
   ("LoadTemplates", "0 if err == nil"),
   ("LoadTemplates", "0 if err != nil"),
   ("LoadTemplates", "1 return err"),
   ("LoadTemplates", "0 if filtername == \"\" || e.templates == nil"),
   ("LoadTemplates", "0 else "),
   ("LoadTemplates", "1 range e.templates"),
   ("LoadTemplates", "2 if strings.HasPrefix(name, filtername)"),
   ("LoadTemplates", "1 range templates"),
   ("LoadTemplates", "0 if e.CheckWebpack1337"),
   ("LoadTemplates", "1 if err == nil"),
   ("LoadTemplates", "0 return nil"),
   ("compileDir", "0 if err != nil"),
   ("compileDir", "1 return nil, err"),
   ("compileDir", "0 defer dir.Close"),
   ("compileDir", "0 if err != nil"),
   ("compileDir", "1 return nil, err"),
   ("compileDir", "0 range filenames"),
   ("compileDir", "1 if filename.IsDir()"),
   ("compileDir", "2 if err != nil"),
   ("compileDir", "3 return nil, err"),
   ("compileDir", "2 range tpls"),
   ("compileDir", "3 if result[k] == nil"),
   ("compileDir", "1 else "),
   ("compileDir", "2 if strings.HasSuffix(filename.Name(), \".ast.json\")"),
   ("compileDir", "3 if filtername != \"\" && !strings.HasPrefix(name, filtername)"),
   ("compileDir", "4 continue "),
   ("compileDir", "3 new renderState"),
   ("compileDir", "3 range e.FuncProvider()"),
   ("compileDir", "3 if err != nil"),
   ("compileDir", "4 return nil, err"),
   ("compileDir", "3 if err != nil"),
   ("compileDir", "4 return nil, err"),
   ("compileDir", "0 return result, nil")]

/-- **C10 (the model's tie to the loading code).** -/
theorem C10_load_skeleton : Gen.loadSkeleton_ok = true ∧ Gen.loadSkeleton = expectedLoadSkeleton := by
  constructor <;> decide

/-- one compiler state (mixin registry, block counter, raw-mode flag) per template FILE: the only construction stands inside the
loop over the directory's files, behind the suffix and filter tests (depth 3) -/
theorem C10_state_per_template :
    (Gen.loadSkeleton.filter fun r => r.2 == "3 new renderState" || r.2 == "0 new renderState" || r.2 == "1 new renderState" ||
      r.2 == "2 new renderState" || r.2 == "4 new renderState") = [("compileDir", "3 new renderState")] := by
  decide

end Pug.Props.C10
