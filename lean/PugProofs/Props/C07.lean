import PugModel.Tpl.Exec
import PugProofs.Props.C08
/-!
# C07 — rendering is a pure, deterministic function of template and data

The executable model is a *function* of (document, data); what can break determinism in the real engine is Go's random
map iteration order. It is modelled as an arbitrary permutation of a map's items, and every consumer of that order in the
render path goes through `sortKeys` (Map.Keys without explicit order, range over a map, MarshalJSON):
* `C07_sortKeys_perm`: the sorted key list is the same for EVERY permutation of the keys (iteration-order independence);
* `C07_mapKeys_perm`: `Map.Keys()` of two maps that hold the same keys in different iteration orders is the same list;
* `C07_explicit_order`: a map with an explicit order (object literal) ignores the iteration order altogether.
History independence and the caller's data being untouched are checked on the real engine by the correspondence
(repetitions, second engine, fresh processes, render histories, deep comparison of the caller's data).
-/
set_option linter.unusedSimpArgs false
namespace Pug.Props.C07
open Pug Pug.Tpl

def sle (a b : String) : Bool := decide (a ≤ b)

theorem sle_trans (a b c : String) : sle a b = true → sle b c = true → sle a c = true := by
  simp only [sle, decide_eq_true_eq]; exact String.le_trans

theorem sle_total (a b : String) : (sle a b || sle b a) = true := by
  simp only [sle, Bool.or_eq_true, decide_eq_true_eq]; exact String.le_total a b

/-- two sorted lists with the same elements are equal -/
theorem eq_of_perm_sorted : ∀ (l1 l2 : List String), l1.Perm l2 →
    l1.Pairwise (fun a b => a ≤ b) → l2.Pairwise (fun a b => a ≤ b) → l1 = l2 := by
  intro l1
  induction l1 with
  | nil => intro l2 hp _ _; exact (List.Perm.nil_eq hp)
  | cons a t ih =>
    intro l2 hp h1 h2
    cases l2 with
    | nil => exact absurd hp.symm (by simp)
    | cons b t2 =>
      have ha : a ∈ b :: t2 := hp.subset List.mem_cons_self
      have hb : b ∈ a :: t := hp.symm.subset List.mem_cons_self
      have hab : a ≤ b := by
        rcases List.mem_cons.mp hb with h | h
        · rw [h]; exact String.le_refl _
        · exact (List.pairwise_cons.mp h1).1 b h
      have hba : b ≤ a := by
        rcases List.mem_cons.mp ha with h | h
        · rw [h]; exact String.le_refl _
        · exact (List.pairwise_cons.mp h2).1 a h
      have heq : a = b := String.le_antisymm hab hba
      subst heq
      have hp' : t.Perm t2 := List.Perm.cons_inv hp
      rw [ih t2 hp' (List.pairwise_cons.mp h1).2 (List.pairwise_cons.mp h2).2]

theorem sortKeys_sorted (l : List String) : (sortKeys l).Pairwise (fun a b => a ≤ b) := by
  have := List.pairwise_mergeSort (le := sle) sle_trans sle_total l
  have hs : sortKeys l = l.mergeSort sle := rfl
  rw [hs]
  simpa [sle] using this

/-- **C07 (iteration-order independence).** -/
theorem C07_sortKeys_perm (l1 l2 : List String) (h : l1.Perm l2) : sortKeys l1 = sortKeys l2 := by
  apply eq_of_perm_sorted _ _ _ (sortKeys_sorted l1) (sortKeys_sorted l2)
  exact ((List.mergeSort_perm l1 _).trans h).trans (List.mergeSort_perm l2 _).symm

/-- **C07 (Map.Keys).** Two maps without explicit order whose items are permutations of each other have the same key list. -/
theorem C07_mapKeys_perm (i1 i2 : List (String × Val)) (h : i1.Perm i2) :
    (mapKeys { items := i1, order := [] }).1 = (mapKeys { items := i2, order := [] }).1 := by
  simp only [mapKeys, List.length_nil, Nat.lt_irrefl, if_false, gt_iff_lt]
  exact C07_sortKeys_perm _ _ (h.map _)

/-- **C07 (explicit order wins).** -/
theorem C07_explicit_order (i1 i2 : List (String × Val)) (o : List String) (ho : o ≠ []) :
    (mapKeys { items := i1, order := o }).1 = (mapKeys { items := i2, order := o }).1 := by
  have : o.length > 0 := by cases o with | nil => exact absurd rfl ho | cons _ _ => simp
  simp [mapKeys, this]

/-- **C07 (history independence: a render leaves nothing behind).** The complete set of writes to engine / template / package
state in the functions a Render can reach, regenerated from the Go source on every run, consists of the listed per-call
writes only: there is no cache, counter, pool or memo table through which one render could influence a later one. -/
theorem C07_render_writes_nothing_shared :
    Gen.renderPathWrites_ok = true ∧ Gen.renderReach_ok = true ∧
    Gen.renderPathWrites.all (fun w => Pug.Props.C08.perCallWrites.contains w) = true :=
  Pug.Props.C08.C08_render_path_writes_nothing_shared

/-- **C07 (no hidden package state).** The inventory of package-level variables of pugjs, pugjs/parse, templatefunctions and the
module root - regenerated from the Go source on every run, constant tables left out - holds nothing but the known entries
(`Pug.Props.C08.knownPkgState`): no cache, pool, memo table, once-guard or flag has been added through which one render (or one
process history) could reach another. The write-set theorem above covers assignments; this one covers state that is changed
through method calls such as `sync.Map.Store` or `sync.Pool.Put`. -/
theorem C07_package_state_inventory :
    Gen.pkgState_ok = true ∧ Gen.pkgState.all (fun v => Pug.Props.C08.knownPkgState.contains v) = true :=
  Pug.Props.C08.C08_package_state_inventory

end Pug.Props.C07
