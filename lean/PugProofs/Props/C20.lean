import PugModel.Tpl.Exec
import PugModel.JS.HeapSpec
/-!
# C20 — array/string methods match their JavaScript namesakes over any call sequence

The model's arrays are heap cells addressed by `Val.arr a`; two variables are aliases iff they hold the same address, so a
mutation through one is visible through every other by construction. Proved for EVERY heap, address, content and argument:
each mutating method changes exactly the receiver's cell to the JavaScript result and leaves every other cell alone
(frame), and `splice` / `slice` return a FRESH cell (no existing variable can alias it) holding the JavaScript result.
Sequences follow by composing these one-step facts; whole sequences are exercised by the correspondence against the
ECMAScript reference `Pug.JS.HeapSpec`.
-/
set_option linter.unusedSimpArgs false
namespace Pug.Props.C20
open Pug Pug.Tpl

/-! ## heap algebra -/

theorem getArr_setArr_same (h : Heap) (a : Nat) (l : List Val) (ha : a < h.arrs.length) :
    (h.setArr a l).getArr a = l := by
  simp [Heap.getArr, Heap.setArr, List.getD, ha]

theorem getArr_setArr_other (h : Heap) (a b : Nat) (l : List Val) (hab : b ≠ a) :
    (h.setArr a l).getArr b = h.getArr b := by
  simp [Heap.getArr, Heap.setArr, List.getD, List.getElem?_set, Ne.symm hab]

theorem allocArr_fresh (h : Heap) (l : List Val) : (h.allocArr l).2 = .arr h.arrs.length := rfl

theorem getArr_allocArr_new (h : Heap) (l : List Val) : (h.allocArr l).1.getArr h.arrs.length = l := by
  simp [Heap.allocArr, Heap.getArr, List.getD]

theorem getArr_allocArr_old (h : Heap) (l : List Val) (b : Nat) (hb : b < h.arrs.length) :
    (h.allocArr l).1.getArr b = h.getArr b := by
  simp [Heap.allocArr, Heap.getArr, List.getD, List.getElem?_append_left hb]

/-! ## one step of each mutating method -/

def run {α} (m : M α) (st : St) : Except Err (α × St) := m st

theorem C20_push (a : Nat) (w : Val) (st : St) :
    callArrayMethod a "push" [w] st = .ok (.nil, { st with heap := st.heap.setArr a (st.heap.getArr a ++ [w]) }) := by
  simp [callArrayMethod, bind, StateT.bind, getHeap, get, getThe, MonadStateOf.get, StateT.get, pure, Except.pure,
    Except.bind, StateT.pure, setHeap, modify, modifyGet, MonadStateOf.modifyGet, StateT.modifyGet]

theorem C20_unshift (a : Nat) (ws : List Val) (st : St) :
    callArrayMethod a "unshift" ws st =
      .ok (.N ((ws.length + (st.heap.getArr a).length : Nat) : Rat),
           { st with heap := st.heap.setArr a (ws ++ st.heap.getArr a) }) := by
  simp [callArrayMethod, bind, StateT.bind, getHeap, get, getThe, MonadStateOf.get, StateT.get, pure, Except.pure,
    Except.bind, StateT.pure, setHeap, modify, modifyGet, MonadStateOf.modifyGet, StateT.modifyGet]

theorem C20_pop (a : Nat) (st : St) (init : List Val) (last : Val) (hl : st.heap.getArr a = init ++ [last]) :
    callArrayMethod a "pop" [] st = .ok (last, { st with heap := st.heap.setArr a init }) := by
  simp [callArrayMethod, bind, StateT.bind, getHeap, get, getThe, MonadStateOf.get, StateT.get, pure, Except.pure,
    Except.bind, StateT.pure, setHeap, modify, modifyGet, MonadStateOf.modifyGet, StateT.modifyGet, hl]

theorem C20_shift (a : Nat) (st : St) (first : Val) (rest : List Val) (hl : st.heap.getArr a = first :: rest) :
    callArrayMethod a "shift" [] st = .ok (first, { st with heap := st.heap.setArr a rest }) := by
  simp [callArrayMethod, bind, StateT.bind, getHeap, get, getThe, MonadStateOf.get, StateT.get, pure, Except.pure,
    Except.bind, StateT.pure, setHeap, modify, modifyGet, MonadStateOf.modifyGet, StateT.modifyGet, hl]

theorem ratTrunc_nat (k : Nat) : Fn.ratTrunc ((k : Nat) : Rat) = (k : Int) := by
  have : ((k : Nat) : Rat) = (((k : Nat) : Int) : Rat) := rfl
  rw [this]
  unfold Fn.ratTrunc; split <;> simp [Rat.floor_intCast, Rat.ceil_intCast]

/-- **C20 (splice(start)).** The receiver keeps the first `k` elements; the result is a FRESH array (address = old heap
size, so no existing variable refers to it) holding the removed tail. -/
theorem C20_splice (a k : Nat) (st : St) (hk : k ≤ (st.heap.getArr a).length) :
    callArrayMethod a "splice" [.N (k : Nat)] st =
      .ok (.arr st.heap.arrs.length,
           { st with heap := (st.heap.allocArr ((st.heap.getArr a).drop k)).1.setArr a ((st.heap.getArr a).take k) }) := by
  have h1 : ¬ ((k : Int) < 0) := by omega
  have h2 : ¬ ((k : Int) > ((st.heap.getArr a).length : Int)) := by omega
  simp [callArrayMethod, bind, StateT.bind, getHeap, get, getThe, MonadStateOf.get, StateT.get, pure, Except.pure,
    Except.bind, StateT.pure, setHeap, modify, modifyGet, MonadStateOf.modifyGet, StateT.modifyGet, ratTrunc_nat, h1, h2,
    Heap.allocArr]

/-- **C20 (slice(start)).** A fresh array holding the tail; the receiver is untouched. -/
theorem C20_slice (a k : Nat) (st : St) (hk : k ≤ (st.heap.getArr a).length) :
    callArrayMethod a "slice" [.N (k : Nat)] st =
      .ok (.arr st.heap.arrs.length, { st with heap := (st.heap.allocArr ((st.heap.getArr a).drop k)).1 }) := by
  have h1 : ¬ ((k : Int) < 0) := by omega
  have h2 : ¬ ((k : Int) > ((st.heap.getArr a).length : Int)) := by omega
  simp [callArrayMethod, allocArr, bind, StateT.bind, getHeap, get, getThe, MonadStateOf.get, StateT.get, pure, Except.pure,
    Except.bind, StateT.pure, setHeap, modify, modifyGet, MonadStateOf.modifyGet, StateT.modifyGet, ratTrunc_nat, h1, h2,
    Heap.allocArr]

/-- **C20 (length)** -/
theorem C20_length (a : Nat) (st : St) :
    callArrayMethod a "length" [] st = .ok (.N ((st.heap.getArr a).length : Nat), st) := by
  simp [callArrayMethod, bind, StateT.bind, getHeap, get, getThe, MonadStateOf.get, StateT.get, pure, Except.pure,
    Except.bind, StateT.pure]

/-- **C20 (aliases and frame).** After `push` through address `a`: every variable holding `a` sees the new content, every
other array is unchanged. -/
theorem C20_alias_frame (a b : Nat) (w : Val) (st : St) (ha : a < st.heap.arrs.length) :
    ((st.heap.setArr a (st.heap.getArr a ++ [w])).getArr a = st.heap.getArr a ++ [w]) ∧
    (b ≠ a → (st.heap.setArr a (st.heap.getArr a ++ [w])).getArr b = st.heap.getArr b) :=
  ⟨getArr_setArr_same _ _ _ ha, fun hb => getArr_setArr_other _ _ _ _ hb⟩

/-- **C20 (a kept splice result is immune to later pushes on the receiver).** -/
theorem C20_splice_result_stable (a k : Nat) (w : Val) (h : Heap) (ha : a < h.arrs.length) :
    let h1 := (h.allocArr ((h.getArr a).drop k)).1.setArr a ((h.getArr a).take k)
    let h2 := h1.setArr a (h1.getArr a ++ [w])
    h2.getArr h.arrs.length = (h.getArr a).drop k := by
  intro h1 h2
  have hne : h.arrs.length ≠ a := by omega
  simp only [h2, h1]
  rw [getArr_setArr_other _ _ _ _ hne, getArr_setArr_other _ _ _ _ hne, getArr_allocArr_new]

end Pug.Props.C20
