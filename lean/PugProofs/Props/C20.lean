import PugModel.Tpl.Exec
import PugModel.JS.HeapSpec
import PugModel.Tpl.Compile
import PugProofs.C03.Frame
/-!
# C20 — array/string methods match their JavaScript namesakes over any call sequence

The model's arrays are heap cells addressed by `Val.arr a`; two variables are aliases iff they hold the same address, so a
mutation through one is visible through every other by construction. Proved for EVERY heap, address, content and argument:
each mutating method changes exactly the receiver's cell to the JavaScript result and leaves every other cell alone
(frame), and `splice` / `slice` return a FRESH cell (no existing variable can alias it) holding the JavaScript result.
Sequences follow by composing these one-step facts; whole sequences are exercised by the correspondence against the
ECMAScript reference `Pug.JS.HeapSpec`.
-/
set_option linter.unusedSimpArgs false
namespace Pug.Props.C20
open Pug Pug.Tpl

/-! ## heap algebra -/

theorem getArr_setArr_same (h : Heap) (a : Nat) (l : List Val) (ha : a < h.arrs.length) :
    (h.setArr a l).getArr a = l := by
  simp [Heap.getArr, Heap.setArr, List.getD, ha]

theorem getArr_setArr_other (h : Heap) (a b : Nat) (l : List Val) (hab : b ≠ a) :
    (h.setArr a l).getArr b = h.getArr b := by
  simp [Heap.getArr, Heap.setArr, List.getD, List.getElem?_set, Ne.symm hab]

theorem allocArr_fresh (h : Heap) (l : List Val) : (h.allocArr l).2 = .arr h.arrs.length := rfl

theorem getArr_allocArr_new (h : Heap) (l : List Val) : (h.allocArr l).1.getArr h.arrs.length = l := by
  simp [Heap.allocArr, Heap.getArr, List.getD]

theorem getArr_allocArr_old (h : Heap) (l : List Val) (b : Nat) (hb : b < h.arrs.length) :
    (h.allocArr l).1.getArr b = h.getArr b := by
  simp [Heap.allocArr, Heap.getArr, List.getD, List.getElem?_append_left hb]

/-! ## one step of each mutating method -/

def run {α} (m : M α) (st : St) : Except Err (α × St) := m st

theorem C20_push (a : Nat) (w : Val) (st : St) :
    callArrayMethod a "push" [w] st = .ok (.nil, { st with heap := st.heap.setArr a (st.heap.getArr a ++ [w]) }) := by
  simp [callArrayMethod, bind, StateT.bind, getHeap, get, getThe, MonadStateOf.get, StateT.get, pure, Except.pure,
    Except.bind, StateT.pure, setHeap, modify, modifyGet, MonadStateOf.modifyGet, StateT.modifyGet]

theorem C20_unshift (a : Nat) (ws : List Val) (st : St) :
    callArrayMethod a "unshift" ws st =
      .ok (.N ((ws.length + (st.heap.getArr a).length : Nat) : Rat),
           { st with heap := st.heap.setArr a (ws ++ st.heap.getArr a) }) := by
  simp [callArrayMethod, bind, StateT.bind, getHeap, get, getThe, MonadStateOf.get, StateT.get, pure, Except.pure,
    Except.bind, StateT.pure, setHeap, modify, modifyGet, MonadStateOf.modifyGet, StateT.modifyGet]

theorem C20_pop (a : Nat) (st : St) (init : List Val) (last : Val) (hl : st.heap.getArr a = init ++ [last]) :
    callArrayMethod a "pop" [] st = .ok (last, { st with heap := st.heap.setArr a init }) := by
  simp [callArrayMethod, bind, StateT.bind, getHeap, get, getThe, MonadStateOf.get, StateT.get, pure, Except.pure,
    Except.bind, StateT.pure, setHeap, modify, modifyGet, MonadStateOf.modifyGet, StateT.modifyGet, hl]

theorem C20_shift (a : Nat) (st : St) (first : Val) (rest : List Val) (hl : st.heap.getArr a = first :: rest) :
    callArrayMethod a "shift" [] st = .ok (first, { st with heap := st.heap.setArr a rest }) := by
  simp [callArrayMethod, bind, StateT.bind, getHeap, get, getThe, MonadStateOf.get, StateT.get, pure, Except.pure,
    Except.bind, StateT.pure, setHeap, modify, modifyGet, MonadStateOf.modifyGet, StateT.modifyGet, hl]

theorem ratTrunc_nat (k : Nat) : Fn.ratTrunc ((k : Nat) : Rat) = (k : Int) := by
  have : ((k : Nat) : Rat) = (((k : Nat) : Int) : Rat) := rfl
  rw [this]
  unfold Fn.ratTrunc; split <;> simp [Rat.floor_intCast, Rat.ceil_intCast]

/-- **C20 (splice(start)).** The receiver keeps the first `k` elements; the result is a FRESH array (address = old heap
size, so no existing variable refers to it) holding the removed tail. -/
theorem C20_splice (a k : Nat) (st : St) (hk : k ≤ (st.heap.getArr a).length) :
    callArrayMethod a "splice" [.N (k : Nat)] st =
      .ok (.arr st.heap.arrs.length,
           { st with heap := (st.heap.allocArr ((st.heap.getArr a).drop k)).1.setArr a ((st.heap.getArr a).take k) }) := by
  have h1 : ¬ ((k : Int) < 0) := by omega
  have h2 : ¬ ((k : Int) > ((st.heap.getArr a).length : Int)) := by omega
  simp [callArrayMethod, bind, StateT.bind, getHeap, get, getThe, MonadStateOf.get, StateT.get, pure, Except.pure,
    Except.bind, StateT.pure, setHeap, modify, modifyGet, MonadStateOf.modifyGet, StateT.modifyGet, ratTrunc_nat, h1, h2,
    Heap.allocArr]

/-- **C20 (slice(start)).** A fresh array holding the tail; the receiver is untouched. -/
theorem C20_slice (a k : Nat) (st : St) (hk : k ≤ (st.heap.getArr a).length) :
    callArrayMethod a "slice" [.N (k : Nat)] st =
      .ok (.arr st.heap.arrs.length, { st with heap := (st.heap.allocArr ((st.heap.getArr a).drop k)).1 }) := by
  have h1 : ¬ ((k : Int) < 0) := by omega
  have h2 : ¬ ((k : Int) > ((st.heap.getArr a).length : Int)) := by omega
  simp [callArrayMethod, allocArr, bind, StateT.bind, getHeap, get, getThe, MonadStateOf.get, StateT.get, pure, Except.pure,
    Except.bind, StateT.pure, setHeap, modify, modifyGet, MonadStateOf.modifyGet, StateT.modifyGet, ratTrunc_nat, h1, h2,
    Heap.allocArr]

/-- **C20 (length)** -/
theorem C20_length (a : Nat) (st : St) :
    callArrayMethod a "length" [] st = .ok (.N ((st.heap.getArr a).length : Nat), st) := by
  simp [callArrayMethod, bind, StateT.bind, getHeap, get, getThe, MonadStateOf.get, StateT.get, pure, Except.pure,
    Except.bind, StateT.pure]

/-- **C20 (aliases and frame).** After `push` through address `a`: every variable holding `a` sees the new content, every
other array is unchanged. -/
theorem C20_alias_frame (a b : Nat) (w : Val) (st : St) (ha : a < st.heap.arrs.length) :
    ((st.heap.setArr a (st.heap.getArr a ++ [w])).getArr a = st.heap.getArr a ++ [w]) ∧
    (b ≠ a → (st.heap.setArr a (st.heap.getArr a ++ [w])).getArr b = st.heap.getArr b) :=
  ⟨getArr_setArr_same _ _ _ ha, fun hb => getArr_setArr_other _ _ _ _ hb⟩

/-- **C20 (a kept splice result is immune to later pushes on the receiver).** -/
theorem C20_splice_result_stable (a k : Nat) (w : Val) (h : Heap) (ha : a < h.arrs.length) :
    let h1 := (h.allocArr ((h.getArr a).drop k)).1.setArr a ((h.getArr a).take k)
    let h2 := h1.setArr a (h1.getArr a ++ [w])
    h2.getArr h.arrs.length = (h.getArr a).drop k := by
  intro h1 h2
  have hne : h.arrs.length ≠ a := by omega
  simp only [h2, h1]
  rw [getArr_setArr_other _ _ _ _ hne, getArr_setArr_other _ _ _ _ hne, getArr_allocArr_new]

/-! ## whole call sequences

ECMAScript on a store of arrays (address = index: JavaScript object identity), for the listed methods with in-range
arguments; `none` marks what the property excludes (start beyond the length, `pop` / `shift` of an empty array). The
engine's `callArrayMethod` is run over the same operations. -/

inductive Op where
  | push (a : Nat) (w : Val)
  | unshift (a : Nat) (ws : List Val)
  | pop (a : Nat)
  | shift (a : Nat)
  | splice (a k : Nat)
  | slice (a k : Nat)
  | length (a : Nat)

def jsStep (s : List (List Val)) : Op → Option (Val × List (List Val))
  | .push a w => some (.N (((s.getD a []).length + 1 : Nat) : Rat), s.set a (s.getD a [] ++ [w]))
  | .unshift a ws => some (.N ((ws.length + (s.getD a []).length : Nat) : Rat), s.set a (ws ++ s.getD a []))
  | .pop a =>
    match (s.getD a []).reverse with
    | last :: ri => some (last, s.set a ri.reverse)
    | [] => none
  | .shift a =>
    match s.getD a [] with
    | first :: rest => some (first, s.set a rest)
    | [] => none
  | .splice a k =>
    if k ≤ (s.getD a []).length then some (.arr s.length, (s ++ [(s.getD a []).drop k]).set a ((s.getD a []).take k)) else none
  | .slice a k =>
    if k ≤ (s.getD a []).length then some (.arr s.length, s ++ [(s.getD a []).drop k]) else none
  | .length a => some (.N (((s.getD a []).length : Nat) : Rat), s)

def jsRun : List Op → List (List Val) → Option (List Val × List (List Val))
  | [], s => some ([], s)
  | op :: rest, s =>
    match jsStep s op with
    | none => none
    | some (r, s1) =>
      match jsRun rest s1 with
      | none => none
      | some (rs, s2) => some (r :: rs, s2)

def modelStep (op : Op) : M Val :=
  match op with
  | .push a w => callArrayMethod a "push" [w]
  | .unshift a ws => callArrayMethod a "unshift" ws
  | .pop a => callArrayMethod a "pop" []
  | .shift a => callArrayMethod a "shift" []
  | .splice a k => callArrayMethod a "splice" [.N (k : Nat)]
  | .slice a k => callArrayMethod a "slice" [.N (k : Nat)]
  | .length a => callArrayMethod a "length" []

def modelRun : List Op → St → Except Err (List Val × St)
  | [], st => .ok ([], st)
  | op :: rest, st =>
    match modelStep op st with
    | .error e => .error e
    | .ok (r, st1) =>
      match modelRun rest st1 with
      | .error e => .error e
      | .ok (rs, st2) => .ok (r :: rs, st2)

/-- results agree, except that the engine's `push` returns nothing where JavaScript returns the new length (recorded
deviation: results of `push` are compared on the state only) -/
def agree : List Op → List Val → List Val → Prop
  | [], [], [] => True
  | .push _ _ :: ops, _ :: js, _ :: ms => agree ops js ms
  | _ :: ops, j :: js, m :: ms => j = m ∧ agree ops js ms
  | _, _, _ => False

theorem step_refines (op : Op) (st : St) (r : Val) (s1 : List (List Val)) (h : jsStep st.heap.arrs op = some (r, s1)) :
    ∃ r' st1, modelStep op st = .ok (r', st1) ∧ st1.heap.arrs = s1 ∧ (match op with | .push _ _ => True | _ => r = r') := by
  cases op with
  | push a w =>
    simp only [jsStep, Option.some.injEq, Prod.mk.injEq] at h
    exact ⟨_, _, C20_push a w st, by simp [Heap.setArr, Heap.getArr, ← h.2], trivial⟩
  | unshift a ws =>
    simp only [jsStep, Option.some.injEq, Prod.mk.injEq] at h
    refine ⟨_, _, C20_unshift a ws st, by simp [Heap.setArr, Heap.getArr, ← h.2], ?_⟩
    simp [← h.1, Heap.getArr]
  | pop a =>
    simp only [jsStep] at h
    split at h
    · rename_i last ri hrev
      simp only [Option.some.injEq, Prod.mk.injEq] at h
      have hl : st.heap.getArr a = ri.reverse ++ [last] := by
        have := congrArg List.reverse hrev
        simpa [Heap.getArr] using this
      exact ⟨_, _, C20_pop a st ri.reverse last hl, by simp [Heap.setArr, ← h.2], h.1.symm ▸ rfl⟩
    · cases h
  | shift a =>
    simp only [jsStep] at h
    split at h
    · rename_i first rest hl
      simp only [Option.some.injEq, Prod.mk.injEq] at h
      exact ⟨_, _, C20_shift a st first rest (by simpa [Heap.getArr] using hl), by simp [Heap.setArr, ← h.2], h.1.symm ▸ rfl⟩
    · cases h
  | splice a k =>
    simp only [jsStep] at h
    split at h
    · rename_i hk
      simp only [Option.some.injEq, Prod.mk.injEq] at h
      exact ⟨_, _, C20_splice a k st (by simpa [Heap.getArr] using hk),
        by simp [Heap.setArr, Heap.allocArr, Heap.getArr, ← h.2], h.1.symm ▸ rfl⟩
    · cases h
  | slice a k =>
    simp only [jsStep] at h
    split at h
    · rename_i hk
      simp only [Option.some.injEq, Prod.mk.injEq] at h
      exact ⟨_, _, C20_slice a k st (by simpa [Heap.getArr] using hk),
        by simp [Heap.allocArr, Heap.getArr, ← h.2], h.1.symm ▸ rfl⟩
    · cases h
  | length a =>
    simp only [jsStep, Option.some.injEq, Prod.mk.injEq] at h
    exact ⟨_, _, C20_length a st, h.2, by simp [← h.1, Heap.getArr]⟩

/-- **C20 (any call sequence).** For EVERY finite sequence of the listed calls with in-range arguments, on EVERY store:
the engine's methods run without error, leave every array (aliases included: the store is addressed by identity) in the
state JavaScript leaves it in, and return JavaScript's results. -/
theorem C20_sequence (ops : List Op) (st : St) (rs : List Val) (s' : List (List Val))
    (h : jsRun ops st.heap.arrs = some (rs, s')) :
    ∃ rs' st', modelRun ops st = .ok (rs', st') ∧ st'.heap.arrs = s' ∧ agree ops rs rs' := by
  induction ops generalizing st rs s' with
  | nil =>
    simp only [jsRun, Option.some.injEq, Prod.mk.injEq] at h
    exact ⟨[], st, rfl, h.2, by rw [← h.1]; trivial⟩
  | cons op rest ih =>
    simp only [jsRun] at h
    split at h
    · cases h
    · rename_i r s1 hstep
      split at h
      · cases h
      · rename_i rs2 s2 hrest
        simp only [Option.some.injEq, Prod.mk.injEq] at h
        obtain ⟨r', st1, hm, hs1, hr⟩ := step_refines op st r s1 hstep
        obtain ⟨rs', st', hrun, hs', hag⟩ := ih st1 rs2 s2 (by rw [hs1]; exact hrest)
        refine ⟨r' :: rs', st', by simp [modelRun, hm, hrun], by rw [hs', h.2], ?_⟩
        rw [← h.1]
        cases op <;> first | exact hag | exact ⟨hr, hag⟩

/-- non-vacuity: push through one address, read through the alias (same address), splice, push again -/
example : (jsRun [.push 0 (.N 9), .length 0, .splice 0 1, .push 0 (.N 7), .length 1] [[.N 1, .N 2]]).map (·.2) =
    some [[.N 1, .N 7], [.N 2, .N 9]] := by decide

/-! ## the starting array: a literal has exactly the entries that were written -/

/-- a monadic map in the compiler's monad keeps the length -/
theorem mapM_ok_length {α β : Type} (f : α → CM β) : ∀ (l : List α) (r : List β), l.mapM f = .ok r → r.length = l.length := by
  intro l
  induction l with
  | nil => intro r h; simp [List.mapM_nil, pure, Except.pure] at h; subst h; rfl
  | cons a rest ih =>
    intro r h
    simp only [List.mapM_cons, bind, Except.bind] at h
    cases ha : f a with
    | error e => simp [ha] at h
    | ok b =>
      simp only [ha] at h
      cases hr : rest.mapM f with
      | error e => simp [hr] at h
      | ok bs =>
        simp [hr, pure, Except.pure] at h
        subst h
        simp [ih bs hr]

/-- **C20 (the array literal, compile side).** For EVERY array literal - any elements, `null` among them, any nesting - the transpiler
emits ONE call of `__op__array` with exactly one operand per written entry: no entry is dropped or merged (a `null` entry becomes the
operand `null`, it keeps its position). -/
theorem C20_array_literal_keeps_every_entry (fuel : Nat) (env : CEnv) (es : List JS.Expr) (t : Option TExpr)
    (h : compileExprF (fuel + 1) env (.arr es) = .ok t) :
    ∃ ts, t = some (.fcall "__op__array" ts) ∧ ts.length = es.length := by
  simp only [compileExprF, bind, Except.bind] at h
  split at h
  · cases h
  · rename_i ts hts
    simp [pure, Except.pure] at h
    exact ⟨ts, h.symm, mapM_ok_length _ _ _ hts⟩

/-- **C20 (the array literal, run side).** For EVERY operand list and state, `__op__array` allocates ONE new array that holds exactly
the operands (converted, in order, `null` included - so its length is the number of written entries), returns it, and leaves every
other array and map and the rest of the state untouched. -/
theorem C20_array_literal_allocates (items : List Val) (st st' : St) (v : Val)
    (h : callBuiltin "__op__array" items st = .ok (v, st')) :
    v = .arr st.heap.arrs.length ∧ st'.heap.getArr st.heap.arrs.length = items.map convertRaw ∧
    (st'.heap.getArr st.heap.arrs.length).length = items.length ∧
    (∀ a, a < st.heap.arrs.length → st'.heap.getArr a = st.heap.getArr a) ∧
    (∀ a, a < st.heap.maps.length → st'.heap.getMap a = st.heap.getMap a) ∧ st'.vars = st.vars ∧ st'.out = st.out := by
  have hc : callBuiltin "__op__array" items = allocArr (items.map convertRaw) := by
    unfold callBuiltin
    rfl
  rw [hc] at h
  obtain ⟨g, hv⟩ := C03F.allocArr_grows _ _ _ _ h
  have hnew : st'.heap.getArr st.heap.arrs.length = items.map convertRaw := by
    simp [allocArr, Heap.allocArr, getHeap, setHeap, bind, StateT.bind, Except.bind, get, getThe, MonadStateOf.get, StateT.get, pure,
      Except.pure, StateT.pure, modify, modifyGet, MonadStateOf.modifyGet, StateT.modifyGet] at h
    obtain ⟨_, rfl⟩ := h
    simp [Heap.getArr, List.getD]
  obtain ⟨h1, _, h3, _, _, _⟩ := g.rest
  exact ⟨hv, hnew, by simp [hnew], g.getArr, g.getMap, h1, h3⟩

/-! non-vacuity: `[true, null, y]` compiles to three operands, the middle one the operand `null` -/
example : ∃ ts, compileExprF 5 { funcs := [], parserFuncs := [] } (.arr [.bool true, .null, .ident "y"]) = .ok (some (.fcall "__op__array" ts)) ∧
    ts.length = 3 := ⟨[.lit (.bool true), nullCall, .var "y"], rfl, rfl⟩

end Pug.Props.C20
