import PugModel.Sys.RateLimit
import PugModel.Gen.Tables
/-!
# C09 — the render rate limit bounds concurrency and never leaks a slot

All theorems quantify over EVERY limit N ≥ 0 and EVERY event sequence (interleaving of arrivals, admissions in any wake-up
order, cancellations while waiting, and exits of every kind: success, missing template, failing template function, panic).
-/
set_option linter.unusedSimpArgs false
namespace Pug.Props.C09
open Pug.Sys

/-- **C09 (the code has the modelled shape).** Facts read from Engine.Render and WithRateLimit on this run: the slot is
taken by a send inside a select that also listens to ctx.Done() (whose branch returns an error and no content), the release
is a deferred receive registered right after the select inside the same guarded block, these are the ONLY send and receive
on the channel in the package, the guard is `cap(e.ratelimit) > 0`, and a limit ≤ 0 installs no channel. -/
theorem C09_shape :
    Gen.gateShape_ok = true ∧ (Gen.gateShape.all (·.2)) = true ∧ Gen.gateShape.length = 6 ∧
    Gen.gateSendCount = 1 ∧ Gen.gateRecvCount = 1 ∧ Gen.rateLimitDisableCmp = "<=" ∧ Gen.rateLimitCapIsParam = true := by decide

structure Inv (s : GState) : Prop where
  slots_eq : s.slots = s.holders
  nodup_in : (s.inside.map (·.1)).Nodup
  nodup_w : s.waiting.Nodup
  disj : ∀ t ∈ s.waiting, t ∉ s.inside.map (·.1)
  bound : s.slots ≤ s.cap
  gated : s.cap > 0 → ∀ p ∈ s.inside, p.2 = true
  ungated : s.cap = 0 → s.waiting = [] ∧ ∀ p ∈ s.inside, p.2 = false

theorem inv_init (cap : Nat) : Inv (GState.init cap) := by
  constructor <;> simp [GState.init, GState.holders]

theorem known_of_waiting {s : GState} {t : Nat} (h : t ∈ s.waiting) : s.known t = true := by
  simp [GState.known, h]

theorem known_of_inside {s : GState} {t : Nat} (h : t ∈ s.inside.map (·.1)) : s.known t = true := by
  simp only [List.mem_map] at h
  obtain ⟨p, hp, rfl⟩ := h
  simp only [GState.known, Bool.or_eq_true, List.any_eq_true, beq_iff_eq]
  exact Or.inl (Or.inr ⟨p, hp, rfl⟩)

/-- removing the (unique) entry of thread `t` lowers the number of holders by one iff it held a slot -/
theorem holders_filter (l : List (Nat × Bool)) (t : Nat) (h : Bool) (hn : (l.map (·.1)).Nodup) (hm : (t, h) ∈ l) :
    ((l.filter (·.1 != t)).filter (·.2)).length + (if h then 1 else 0) = (l.filter (·.2)).length := by
  induction l with
  | nil => cases hm
  | cons p rest ih =>
    simp only [List.map_cons, List.nodup_cons] at hn
    rcases List.mem_cons.mp hm with hp | hp
    · subst hp
      have hrest : rest.filter (·.1 != t) = rest := by
        apply List.filter_eq_self.mpr
        intro q hq
        have : q.1 ≠ t := fun hqt => hn.1 (List.mem_map.mpr ⟨q, hq, hqt⟩)
        simpa using this
      cases h <;> simp [List.filter_cons, hrest]
    · have hne : p.1 ≠ t := by
        intro hpt
        exact hn.1 (hpt ▸ List.mem_map.mpr ⟨(t, h), hp, rfl⟩)
      have hb : (p.1 != t) = true := by simpa using hne
      have := ih hn.2 hp
      have e1 : (p :: rest).filter (·.1 != t) = p :: rest.filter (·.1 != t) := by simp [List.filter_cons, hb]
      rw [e1]
      cases hp2 : p.2
      · have e2 : (p :: rest.filter (·.1 != t)).filter (·.2) = (rest.filter (·.1 != t)).filter (·.2) := by
          simp [List.filter_cons, hp2]
        have e3 : (p :: rest).filter (·.2) = rest.filter (·.2) := by simp [List.filter_cons, hp2]
        rw [e2, e3]; exact this
      · have e2 : (p :: rest.filter (·.1 != t)).filter (·.2) = p :: (rest.filter (·.1 != t)).filter (·.2) := by
          simp [List.filter_cons, hp2]
        have e3 : (p :: rest).filter (·.2) = p :: rest.filter (·.2) := by simp [List.filter_cons, hp2]
        rw [e2, e3]; simp only [List.length_cons]; omega

theorem find_mem {l : List (Nat × Bool)} {t : Nat} {p : Nat × Bool} (h : l.find? (·.1 == t) = some p) : p ∈ l ∧ p.1 = t := by
  have h1 := List.mem_of_find?_eq_some h
  have h2 := List.find?_some h
  exact ⟨h1, by simpa using h2⟩

/-- **the invariant is preserved by every step** -/
theorem inv_step (s s' : GState) (e : GEv) (hi : Inv s) (hs : gstep s e = some s') : Inv s' := by
  cases e with
  | arrive t =>
    simp only [gstep] at hs
    split at hs
    · cases hs
    · rename_i hk
      have hk' : s.known t = false := by simpa using hk
      have hnw : t ∉ s.waiting := fun h => by simp [known_of_waiting h] at hk'
      have hni : t ∉ s.inside.map (·.1) := fun h => by simp [known_of_inside h] at hk'
      split at hs
      · rename_i hc
        cases hs
        obtain ⟨hw0, hf⟩ := hi.ungated hc
        constructor
        · simp [GState.holders, List.filter_append, hi.slots_eq]
        · simp only [List.map_append, List.map_cons, List.map_nil]
          exact List.nodup_append.mpr ⟨hi.nodup_in, by simp, by intro a ha b hb; simp at hb; subst hb; exact fun h => hni (h ▸ ha)⟩
        · exact hi.nodup_w
        · simp [hw0]
        · exact hi.bound
        · intro (h : s.cap > 0); omega
        · intro _
          refine ⟨hw0, ?_⟩
          intro p hp
          rcases List.mem_append.mp hp with hp | hp
          · exact hf p hp
          · simp at hp; subst hp; rfl
      · rename_i hc
        cases hs
        constructor
        · exact hi.slots_eq
        · exact hi.nodup_in
        · exact List.nodup_append.mpr ⟨hi.nodup_w, by simp, by intro a ha b hb; simp at hb; subst hb; exact fun h => hnw (h ▸ ha)⟩
        · intro x hx
          rcases List.mem_append.mp hx with hx | hx
          · exact hi.disj x hx
          · simp at hx; subst hx; exact hni
        · exact hi.bound
        · exact hi.gated
        · intro h; exact absurd h hc
  | grant t =>
    simp only [gstep] at hs
    split at hs
    · rename_i hc
      simp only [Bool.and_eq_true, decide_eq_true_eq] at hc
      obtain ⟨hw, hlt⟩ := hc
      have hw' : t ∈ s.waiting := by simpa using hw
      cases hs
      have hcap : s.cap > 0 := by omega
      constructor
      · simp [GState.holders, List.filter_append, hi.slots_eq]
      · simp only [List.map_append, List.map_cons, List.map_nil]
        exact List.nodup_append.mpr ⟨hi.nodup_in, by simp,
          by intro a ha b hb; simp at hb; subst hb; exact fun h => hi.disj _ hw' (h ▸ ha)⟩
      · exact hi.nodup_w.erase t
      · intro x hx
        have hxw : x ∈ s.waiting := List.mem_of_mem_erase hx
        have hxt : x ≠ t := by
          intro h; subst h
          exact (List.Nodup.mem_erase_iff hi.nodup_w).mp hx |>.1 rfl
        simp only [List.map_append, List.map_cons, List.map_nil, List.mem_append, List.mem_singleton, not_or]
        exact ⟨hi.disj x hxw, hxt⟩
      · show s.slots + 1 ≤ s.cap; omega
      · intro _ p hp
        rcases List.mem_append.mp hp with hp | hp
        · exact hi.gated hcap p hp
        · simp at hp; subst hp; rfl
      · intro (h : s.cap = 0); omega
    · cases hs
  | cancel t =>
    simp only [gstep] at hs
    split at hs
    · cases hs
      constructor
      · exact hi.slots_eq
      · exact hi.nodup_in
      · exact hi.nodup_w.erase t
      · intro x hx; exact hi.disj x (List.mem_of_mem_erase hx)
      · exact hi.bound
      · exact hi.gated
      · intro h
        obtain ⟨hw0, hf⟩ := hi.ungated h
        exact ⟨by simp [hw0], hf⟩
    · cases hs
  | exit t k =>
    simp only [gstep] at hs
    split at hs
    · rename_i t' holds hf
      obtain ⟨hmem, ht⟩ := find_mem hf
      simp only at ht
      subst ht
      cases hs
      have hcount := holders_filter s.inside t' holds hi.nodup_in hmem
      constructor
      · show (if holds then s.slots - 1 else s.slots) = ((s.inside.filter (·.1 != t')).filter (·.2)).length
        have := hi.slots_eq
        simp only [GState.holders] at this
        cases holds <;> simp_all <;> omega
      · have : (s.inside.filter (·.1 != t')).map (·.1) = (s.inside.map (·.1)).filter (· != t') := by
          simp [List.filter_map, Function.comp_def]
        rw [this]
        exact hi.nodup_in.filter _
      · exact hi.nodup_w
      · intro x hx hxi
        simp only [List.mem_map, List.mem_filter] at hxi
        obtain ⟨p, ⟨hp, _⟩, rfl⟩ := hxi
        exact hi.disj p.1 hx (List.mem_map.mpr ⟨p, hp, rfl⟩)
      · show (if holds then s.slots - 1 else s.slots) ≤ s.cap
        have := hi.bound
        cases holds <;> simp <;> omega
      · intro hc p hp
        exact hi.gated hc p (List.mem_filter.mp hp).1
      · intro h
        obtain ⟨hw0, hf'⟩ := hi.ungated h
        exact ⟨hw0, fun p hp => hf' p (List.mem_filter.mp hp).1⟩
    · cases hs

/-- the invariant holds in every reachable state -/
theorem inv_run (s s' : GState) (es : List GEv) (hi : Inv s) (hr : grun s es = some s') : Inv s' := by
  induction es generalizing s with
  | nil => simp [grun] at hr; subst hr; exact hi
  | cons e rest ih =>
    simp only [grun] at hr
    split at hr
    · rename_i s1 h1; exact ih s1 (inv_step s s1 e hi h1) hr
    · cases hr

/-- **C09 (bound).** With a limit of N > 0, at most N renders are past the gate at any instant, whatever happened before. -/
theorem C09_bound (cap : Nat) (es : List GEv) (s : GState) (hc : cap > 0) (hr : grun (GState.init cap) es = some s) :
    s.inside.length ≤ cap := by
  have hi := inv_run _ _ es (inv_init cap) hr
  have hcap : s.cap = cap := by
    clear hi
    have : ∀ (s0 s1 : GState) (es : List GEv), grun s0 es = some s1 → s1.cap = s0.cap := by
      intro s0 s1 es
      induction es generalizing s0 with
      | nil => intro h; simp [grun] at h; subst h; rfl
      | cons e rest ih =>
        intro h
        simp only [grun] at h
        split at h
        · rename_i s2 h2
          have hc2 : s2.cap = s0.cap := by
            cases e <;> simp only [gstep] at h2 <;> (repeat' split at h2) <;> first | cases h2; rfl | cases h2
          rw [ih s2 h, hc2]
        · cases h
    exact this _ _ es hr
  have hall : s.inside.filter (·.2) = s.inside := by
    apply List.filter_eq_self.mpr
    intro p hp
    exact hi.gated (hcap ▸ hc) p hp
  have : s.holders = s.inside.length := by simp [GState.holders, hall]
  have h1 := hi.slots_eq
  have h2 := hi.bound
  omega

/-- **C09 (no leak).** After ANY history — including exits by missing template, failing template function and panic — the
channel occupancy equals the number of renders that are past the gate; when none is, every slot is free again. -/
theorem C09_no_leak (cap : Nat) (es : List GEv) (s : GState) (hr : grun (GState.init cap) es = some s) :
    s.slots = s.holders ∧ (s.inside = [] → s.slots = 0) := by
  have hi := inv_run _ _ es (inv_init cap) hr
  refine ⟨hi.slots_eq, fun h => ?_⟩
  rw [hi.slots_eq]; simp [GState.holders, h]

/-- after such a history, N more renders can proceed simultaneously: each arrival is admitted while fewer than N are inside -/
theorem C09_grant_enabled (s : GState) (t : Nat) (hw : t ∈ s.waiting) (hlt : s.slots < s.cap) :
    ∃ s', gstep s (.grant t) = some s' := by
  simp [gstep, hw, hlt]

/-- **C09 (cancelled while waiting).** A cancelled waiter gets its error, takes no slot and is not inside. -/
theorem C09_cancel (s s' : GState) (t : Nat) (hi : Inv s) (hs : gstep s (.cancel t) = some s') :
    s'.slots = s.slots ∧ (t, Outcome.cancelled) ∈ s'.finished ∧ t ∉ s'.inside.map (·.1) := by
  simp only [gstep] at hs
  split at hs
  · rename_i hw
    have hw' : t ∈ s.waiting := by simpa using hw
    cases hs
    exact ⟨rfl, by simp, hi.disj t hw'⟩
  · cases hs

/-- **C09 (limit disabled).** With N = 0 nothing ever waits: every arrival is past the gate at once. -/
theorem C09_disabled (es : List GEv) (s : GState) (hr : grun (GState.init 0) es = some s) : s.waiting = [] := by
  have hi := inv_run _ _ es (inv_init 0) hr
  have hcap : s.cap = 0 := by
    have : ∀ (s0 s1 : GState) (es : List GEv), grun s0 es = some s1 → s1.cap = s0.cap := by
      intro s0 s1 es
      induction es generalizing s0 with
      | nil => intro h; simp [grun] at h; subst h; rfl
      | cons e rest ih =>
        intro h
        simp only [grun] at h
        split at h
        · rename_i s2 h2
          have hc2 : s2.cap = s0.cap := by
            cases e <;> simp only [gstep] at h2 <;> (repeat' split at h2) <;> first | cases h2; rfl | cases h2
          rw [ih s2 h, hc2]
        · cases h
    exact this _ _ es hr
  exact (hi.ungated hcap).1

/-- **C09 (quiescent occupancy).** In a state where no admission is possible, the number of renders past the gate is
min(N, renders in progress) — the quantity the scripted histories observe on the real engine. -/
theorem C09_quiescent (s : GState) (hi : Inv s) (hc : s.cap > 0) (hq : s.quiescent = true) :
    s.inside.length = min s.cap (s.inside.length + s.waiting.length) := by
  have hall : s.inside.filter (·.2) = s.inside := List.filter_eq_self.mpr (fun p hp => hi.gated hc p hp)
  have hh : s.holders = s.inside.length := by simp [GState.holders, hall]
  have h1 := hi.slots_eq
  have h2 := hi.bound
  simp only [GState.quiescent, Bool.or_eq_true, List.isEmpty_iff, decide_eq_true_eq] at hq
  rcases hq with hq | hq
  · simp [hq]; omega
  · omega

/-! non-vacuity: a concrete history with a panic exit and a cancellation -/
example : (grun (GState.init 1) [.arrive 1, .arrive 2, .arrive 3, .grant 1, .cancel 2, .exit 1 .panic, .grant 3]).map
    (fun s => (s.slots, s.inside.map (·.1), s.waiting)) = some (1, [3], []) := by decide

/-! ## `Engine.Render` as the gate model was written against it

`Gen.renderSkeleton`: the control skeleton of `Engine.Render` and `Engine.RenderPartials` - every `if` condition, the `select`
with its two communications, the deferred release, every `return`, in source order with nesting depth - regenerated from
pugjs/engine.go on every run. Between taking the slot (`comm send e.ratelimit`) and installing its release (`defer` with
`recv e.ratelimit`) there is no way out of the function; every later `return` runs the deferred release. An added early return,
a moved `defer`, a changed condition reopens the obligation. -/

def expectedRenderSkeleton : List (String × String) :=
  [("Render", "0 defer span.End"),
   ("Render", "0 if cap(e.ratelimit) > 0"),
   ("Render", "1 select "),
   ("Render", "2 comm recv <-ctx.Done()"),
   ("Render", "3 return nil, fmt.Errorf(\"template %s wait failed: %w\", templateName, ctx.Err())"),
   ("Render", "2 comm send e.ratelimit"),
   ("Render", "1 defer (func() literal)"),
   ("Render", "2 recv e.ratelimit"),
   ("Render", "0 range p"),
   ("Render", "0 if len(p) >= 2 && p[len(p) - 2] != page"),
   ("Render", "0 if atomic.LoadInt32(&e.templatesLoaded) == 0 && !e.Debug"),
   ("Render", "1 if err != nil && atomic.LoadInt32(&e.templatesLoaded) == 0"),
   ("Render", "2 return nil, err"),
   ("Render", "0 else "),
   ("Render", "1 if e.Debug"),
   ("Render", "2 if err != nil"),
   ("Render", "3 return nil, err"),
   ("Render", "0 if !ok"),
   ("Render", "1 return nil, errors.Errorf(`Template %s not found!`, templateName)"),
   ("Render", "0 if err != nil"),
   ("Render", "1 range strings.Split(e.TemplateCode[templateName], \"\\n\")"),
   ("Render", "1 return nil, errors.New(errstr)"),
   ("Render", "0 return result, nil"),
   ("RenderPartials", "0 range partials"),
   ("RenderPartials", "1 if err != nil"),
   ("RenderPartials", "2 return nil, err"),
   ("RenderPartials", "0 return res, nil")]

/-- **C09 / C10 / C17 (the models' tie to `Engine.Render`).** -/
theorem C09_render_skeleton : Gen.renderSkeleton_ok = true ∧ Gen.renderSkeleton = expectedRenderSkeleton := by
  constructor <;> decide

/-- nothing stands between taking the slot and installing its release: in the skeleton the `defer` follows the send directly -/
theorem C09_release_installed_at_once :
    ∃ pre post, Gen.renderSkeleton = pre ++ [("Render", "2 comm send e.ratelimit"), ("Render", "1 defer (func() literal)"),
      ("Render", "2 recv e.ratelimit")] ++ post :=
  ⟨Gen.renderSkeleton.take 5, Gen.renderSkeleton.drop 8, by decide⟩

end Pug.Props.C09
