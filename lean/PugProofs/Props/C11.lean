import PugModel.Tpl.Exec
import PugModel.Gen.Tables
import PugModel.Data.GoVal
import PugProofs.C11.Path
/-!
# C11 — Go data is reachable from templates by lower-camel paths; absent data is empty

Theorems over the member/index/print model (tied to types.go / tpl_funcs.go / tpl_exec.go by the correspondence on dynamically
shaped Go values, with an independent reflection walk as oracle):
* a key that is present is what `Member` returns, whatever else the map holds (C11_member_present);
* absence propagates silently: a member of Nil is Nil, a member of an undefined value is undefined, an out-of-range index
  and a missing key are Nil — for every name, index, key and heap (C11_member_of_nil, C11_member_of_undefined,
  C11_index_out_of_range, C11_missing_key);
* Nil and the undefined value print nothing through the escaper and raise no error (C11_absent_prints_nothing).
-/
set_option linter.unusedSimpArgs false
namespace Pug.Props.C11
open Pug Pug.Tpl

/-- **C11 (present member).** -/
theorem C11_member_present (items : List (String × Val)) (order : List String) (k : String) (v : Val)
    (h : assocGet items k = some v) : mapMember { items := items, order := order } k = v := by
  simp [mapMember, h]

/-- **C11 (member of Nil is Nil)** — the step after a nil pointer / missing key -/
theorem C11_member_of_nil (fuel : Nat) (recv : TExpr) (name : String) (st st' : St)
    (h : evalExpr (fuel + 1) recv st = .ok (.nil, st')) :
    evalExpr (fuel + 2) (.field recv name []) st = .ok (.nil, st') := by
  simp [evalExpr, bind, StateT.bind, Except.bind, h, pure, StateT.pure, Except.pure]

/-- **C11 (member of an undefined value is undefined)** — no error -/
theorem C11_member_of_undefined (fuel : Nat) (recv : TExpr) (name : String) (args : List TExpr) (st st' : St)
    (h : evalExpr (fuel + 1) recv st = .ok (.invalid, st')) :
    evalExpr (fuel + 2) (.field recv name args) st = .ok (.invalid, st') := by
  simp [evalExpr, bind, StateT.bind, Except.bind, h, pure, StateT.pure, Except.pure]

/-- **C11 (out-of-range index is Nil)** -/
theorem C11_index_out_of_range (a : Nat) (i : Int) (st : St)
    (h : i < 0 ∨ i ≥ ((st.heap.getArr a).length : Int)) :
    indexFn (.arr a) [.int i] st = .ok (.nil, st) := by
  simp only [indexFn, bind, StateT.bind, getHeap, get, getThe, MonadStateOf.get, StateT.get, pure, Except.pure,
    Except.bind, StateT.pure]
  rcases h with h | h <;> simp [h, StateT.pure, pure, Except.pure]

/-- **C11 (missing key is Nil)** -/
theorem C11_missing_key (a : Nat) (k : String) (st : St) (hk : k ≠ "")
    (h : assocGet (st.heap.getMap a).items k = none) :
    indexFn (.map a) [.S k] st = .ok (.nil, st) := by
  have : (k == "") = false := by simpa using hk
  simp [indexFn, bind, StateT.bind, getHeap, get, getThe, MonadStateOf.get, StateT.get, pure, Except.pure,
    Except.bind, StateT.pure, h, this]

/-- **C11 (absent prints nothing, raises nothing).** -/
theorem C11_absent_prints_nothing (st : St) :
    printVal .nil true st = .ok ((), st) ∧ printVal .invalid true st = .ok ((), st) := by
  constructor
  · have : pugHtmlEscape "" = "" := by decide
    simp [printVal, bind, StateT.bind, getHeap, get, getThe, MonadStateOf.get, StateT.get, pure, Except.pure, Except.bind,
      StateT.pure, sprint, strFuel, objStr, ofOpt, emit, modify, modifyGet, MonadStateOf.modifyGet, StateT.modifyGet, this]
  · simp [printVal, bind, StateT.bind, getHeap, get, getThe, MonadStateOf.get, StateT.get, pure, Except.pure, Except.bind,
      StateT.pure]

/-! ## whole paths: once data is absent, every further step is absent, and nothing is printed -/

/-! a path of member accesses `recv.n1.n2. ... .nk` is `Pug.Props.C11P.pathOf recv [n1, ..., nk]` -/
open Pug.Props.C11P (pathOf)

/-- **C11 (absence propagates along any path).** If some prefix of a path evaluates to Nil (a nil pointer, a missing key, an
out-of-range index), then for EVERY continuation of the path the whole path evaluates to Nil: no error, whatever the names. -/
theorem C11_absent_propagates (names : List String) : ∀ (fuel : Nat) (recv : TExpr) (st st' : St),
    evalExpr (fuel + 1) recv st = .ok (.nil, st') →
    evalExpr (fuel + 1 + names.length) (pathOf recv names) st = .ok (.nil, st') := by
  induction names with
  | nil => intro fuel recv st st' h; simpa [pathOf] using h
  | cons n rest ih =>
    intro fuel recv st st' h
    have h1 := C11_member_of_nil fuel recv n st st' h
    have := ih (fuel + 1) (.field recv n []) st st' h1
    simp only [pathOf, List.length_cons]
    rw [show fuel + 1 + (rest.length + 1) = fuel + 1 + 1 + rest.length by omega]
    exact this

/-- the same for an undefined start (a variable that is not in the data at all) -/
theorem C11_undefined_propagates (names : List String) : ∀ (fuel : Nat) (recv : TExpr) (st st' : St),
    evalExpr (fuel + 1) recv st = .ok (.invalid, st') →
    evalExpr (fuel + 1 + names.length) (pathOf recv names) st = .ok (.invalid, st') := by
  induction names with
  | nil => intro fuel recv st st' h; simpa [pathOf] using h
  | cons n rest ih =>
    intro fuel recv st st' h
    have h1 := C11_member_of_undefined fuel recv n [] st st' h
    have := ih (fuel + 1) (.field recv n []) st st' h1
    simp only [pathOf, List.length_cons]
    rw [show fuel + 1 + (rest.length + 1) = fuel + 1 + 1 + rest.length by omega]
    exact this

/-- **C11 (an absent path prints nothing and raises nothing).** The escaped buffered-code node over ANY continuation of a path
whose prefix is absent leaves the output as it was. -/
theorem C11_absent_path_prints_nothing (names : List String) (fuel : Nat) (recv : TExpr) (env : Env) (st : St)
    (h : evalExpr (fuel + 1) recv st = .ok (.nil, st) ∨ evalExpr (fuel + 1) recv st = .ok (.invalid, st)) :
    walk (fuel + 2 + names.length) env (.print (pathOf recv names) true) st = .ok ((), st) := by
  rw [show fuel + 2 + names.length = (fuel + 1 + names.length) + 1 by omega]
  rcases h with h | h
  · have := C11_absent_propagates names fuel recv st st h
    simp only [walk, bind, StateT.bind, this, Except.bind]
    exact (C11_absent_prints_nothing st).1
  · have := C11_undefined_propagates names fuel recv st st h
    simp only [walk, bind, StateT.bind, this, Except.bind]
    exact (C11_absent_prints_nothing st).2

/-! ## present paths: what Go reaches is what the template reads

`Reach n g p r` (PugProofs/C11/Path.lean) is the specification: following the member names `p` from the Go value `g` - map
keys, exported struct fields and niladic methods under their lower-camel names, transparently through pointers and interfaces -
arrives at `r`. `convertGo` is the model of `pugjs.Convert` the driver uses. -/

open Pug.Data Pug.Props.C11P in
/-- **C11 (a present path reads the leaf Go reaches).** For EVERY Go data tree `g` (maps, structs with fields and methods,
pointers, interfaces, slices, scalars - any shape, any size, whatever else it holds), EVERY path `p` that Go can follow to a scalar
leaf `r`, and every execution state whose heap extends the converted data: the member chain `recv.p1.p2. ... .pk` over the
converted value evaluates to the converted leaf, with no error and no change of state. -/
theorem C11_present_path {n : Nat} {g : GoVal} {p : List String} {r : GoVal} (hr : Reach n g p r) (lv : Val)
    (hl : leafVal r = some lv) (hn : n < goFuel) (h0 : Heap) (st : St) (recv : TExpr) (fuel : Nat)
    (hrecv : evalExpr (fuel + 1) recv st = .ok ((convertGo g h0).2, st)) (hext : Ext (convertGo g h0).1 st.heap) :
    evalExpr (fuel + 1 + p.length) (pathOf recv p) st = .ok (lv, st) :=
  eval_follow p fuel recv st _ lv hrecv (reach_convert hr lv hl goFuel h0 st.heap hn hext)

open Pug.Data Pug.Props.C11P in
/-- **C11 (… and the escaped code node prints it).** For a string leaf `s` the node `= recv.p1. ... .pk` appends exactly the
escaped leaf text and changes nothing else. -/
theorem C11_present_path_prints_leaf {n : Nat} {g : GoVal} {p : List String} {s : String} (hr : Reach n g p (.str s))
    (hn : n < goFuel) (h0 : Heap) (st : St) (recv : TExpr) (fuel : Nat) (env : Env)
    (hrecv : evalExpr (fuel + 1) recv st = .ok ((convertGo g h0).2, st)) (hext : Ext (convertGo g h0).1 st.heap) :
    walk (fuel + 2 + p.length) env (.print (pathOf recv p) true) st = .ok ((), { st with out := st.out ++ pugHtmlEscape s }) := by
  have := C11_present_path hr (.S s) rfl hn h0 st recv fuel hrecv hext
  rw [show fuel + 2 + p.length = (fuel + 1 + p.length) + 1 by omega]
  simp only [walk, bind, StateT.bind, this, Except.bind]
  simp [printVal, bind, StateT.bind, getHeap, get, getThe, MonadStateOf.get, StateT.get, pure, Except.pure, Except.bind,
    StateT.pure, sprint, strFuel, objStr, ofOpt, emit, modify, modifyGet, MonadStateOf.modifyGet, StateT.modifyGet]

open Pug.Data Pug.Props.C11P in
/-- **C11 (a path that ends where the data stops prints nothing).** For EVERY Go data tree and EVERY path Go can follow to a nil
pointer, a nil interface value or Go's nil (relation `Reach`, any depth, through maps, structs, methods, pointers, interfaces):
the escaped code node over that path appends nothing to the output, raises nothing and leaves the state as it is. (The model
converts `.iface none` to Nil for every interface type; that this is what `convert()` does is the regenerated skeleton
`C11_convert_skeleton` - the two lines `if val.IsNil()` / `return Nil{}` at the head of the `reflect.Interface` case - and the
behind-interface bucket of the correspondence.) -/
theorem C11_path_to_nil_prints_nothing {n : Nat} {g : GoVal} {p : List String} {r : GoVal} (hr : Reach n g p r)
    (hnil : r = .nil ∨ r = .ptr none ∨ r = .iface none)
    (hn : n < goFuel) (h0 : Heap) (st : St) (recv : TExpr) (fuel : Nat) (env : Env)
    (hrecv : evalExpr (fuel + 1) recv st = .ok ((convertGo g h0).2, st)) (hext : Ext (convertGo g h0).1 st.heap) :
    walk (fuel + 2 + p.length) env (.print (pathOf recv p) true) st = .ok ((), st) := by
  have hl : leafVal r = some .nil := by rcases hnil with h | h | h <;> subst h <;> rfl
  have := C11_present_path hr .nil hl hn h0 st recv fuel hrecv hext
  rw [show fuel + 2 + p.length = (fuel + 1 + p.length) + 1 by omega]
  simp only [walk, bind, StateT.bind, this, Except.bind]
  exact (C11_absent_prints_nothing st).1

/-! non-vacuity: a struct whose field `None` (declared with a non-empty interface type) holds nil, behind a pointer in a map:
`x.scene.none` reaches the nil interface value -/
open Pug.Data Pug.Props.C11P in
example : Reach 3 (.map [("scene", .ptr (some (.struct [("Main", true, .iface (some (.str "m"))), ("None", true, .iface none)] [])))])
    ["scene", "none"] (.iface none) := by
  refine @Reach.key 2 [] [] "scene" _ ["none"] _ (by decide) (by decide) (Reach.ptr ?_)
  have h1 : lowerFirst "Main" = "main" := by decide
  have h2 : lowerFirst "None" = "none" := by decide
  exact @Reach.field 0 _ _ [("main", .iface (some (.str "m")))] [] "none" (.iface none) [] _ (by simp [structEntries, h1, h2]) (by decide) (by decide)
    (by decide) (Reach.here _)

/-! non-vacuity: a map holding a pointer to a struct whose field `Name` and method `Title` are reached by `x.item.name` /
`x.item.title`, next to other entries -/
open Pug.Data Pug.Props.C11P in
example : Reach 3 (.map [("n", .num 1), ("item", .ptr (some (.struct [("Name", true, .str "<b>"), ("hidden", false, .str "s")] [("Title", .str "T")])))])
    ["item", "name"] (.str "<b>") := by
  refine @Reach.key 2 [("n", .num 1)] [] "item" _ ["name"] _ (by decide) (by decide) (Reach.ptr ?_)
  have h1 : lowerFirst "Name" = "name" := by decide
  have h2 : lowerFirst "Title" = "title" := by decide
  exact @Reach.field 0 _ _ [] [("title", .str "T")] "name" (.str "<b>") [] _ (by simp [structEntries, h1, h2]) (by decide) (by decide)
    (by decide) (Reach.here _)

/-! ## the code the model mirrors, by its control skeleton

`Gen.convertSkeleton`: `convert`, `Map.convert`, `Map.Member` (pugjs/types.go) and `index` (pugjs/tpl_funcs.go): the kind switch of the conversion, the lazy member table, the member lookup with its fall-back spellings, the index tolerance - every `if` / `switch` / `case` condition, loop header, `return`, `continue`, in source order with nesting depth,
regenerated from the Go source on every run. It must be the skeleton the conversion and lookup model (`Data/GoVal.lean`, `mapMember`, `indexFn`) was written against: a changed condition, an added
branch or early exit reopens the obligation before any input is drawn. -/

def expected_convertSkeleton : List (String × String) :=
  [("convert", "0 if in == nil"),
   ("convert", "1 return Nil{}"),
   ("convert", "0 if ok"),
   ("convert", "1 return in"),
   ("convert", "0 if !ok"),
   ("convert", "0 if !val.IsValid()"),
   ("convert", "1 return Nil{}"),
   ("convert", "0 if !val.CanInterface()"),
   ("convert", "1 return Nil{}"),
   ("convert", "0 if ok"),
   ("convert", "1 return in"),
   ("convert", "0 if ok && err != nil"),
   ("convert", "1 if rv.Kind() != reflect.Ptr || !rv.IsNil()"),
   ("convert", "2 return String(fmt.Sprintf(\"Error: %+v\", err))"),
   ("convert", "0 switch val.Kind()"),
   ("convert", "1 case reflect.Slice"),
   ("convert", "2 for i < val.Len()"),
   ("convert", "2 return array"),
   ("convert", "1 case reflect.Map"),
   ("convert", "2 range val.MapKeys()"),
   ("convert", "3 if k.Kind() == reflect.Interface"),
   ("convert", "2 if ok"),
   ("convert", "3 range order"),
   ("convert", "2 return newMap"),
   ("convert", "1 case reflect.Struct"),
   ("convert", "2 return newMap"),
   ("convert", "1 case reflect.String"),
   ("convert", "2 return String(val.String())"),
   ("convert", "1 case reflect.Interface"),
   ("convert", "2 if val.IsNil()"),          -- fix 318a99d: a nil non-empty interface is Nil
   ("convert", "3 return Nil{}"),
   ("convert", "2 if val.Type().NumMethod() == 0"),
   ("convert", "3 return convert(val.Interface())"),
   ("convert", "2 if !val.IsNil()"),
   ("convert", "3 for i < val.NumMethod()"),
   ("convert", "3 if ok"),
   ("convert", "4 range m.items"),
   ("convert", "2 if ok"),
   ("convert", "2 return newMap"),
   ("convert", "1 case reflect.Float32, reflect.Float64"),
   ("convert", "2 return Number(val.Float())"),
   ("convert", "1 case reflect.Int8, reflect.Int16, reflect.Int32, reflect.Int64, reflect.Int"),
   ("convert", "2 return Number(float64(val.Int()))"),
   ("convert", "1 case reflect.Uint8, reflect.Uint16, reflect.Uint32, reflect.Uint64, reflect.Uint"),
   ("convert", "2 return Number(float64(val.Uint()))"),
   ("convert", "1 case reflect.Complex128"),
   ("convert", "2 return Nil{}"),
   ("convert", "1 case reflect.Func"),
   ("convert", "2 return &Func{…}"),
   ("convert", "1 case reflect.Ptr"),
   ("convert", "2 if val.IsValid() && val.Elem().IsValid()"),
   ("convert", "3 if ok"),
   ("convert", "4 for i < val.NumMethod()"),
   ("convert", "3 return newVal"),
   ("convert", "2 return Nil{}"),
   ("convert", "1 case reflect.Uintptr"),
   ("convert", "2 return Nil{}"),
   ("convert", "1 case reflect.Bool"),
   ("convert", "2 return Bool(val.Bool())"),
   ("convert", "1 case reflect.Chan"),
   ("convert", "2 return Nil{}"),
   ("convert", "0 return Nil{}"),
   ("Map.convert", "0 if m.items != nil"),
   ("Map.convert", "1 return "),
   ("Map.convert", "0 if m.o == nil"),
   ("Map.convert", "1 return "),
   ("Map.convert", "0 if !ok"),
   ("Map.convert", "0 for i < val.NumField()"),
   ("Map.convert", "1 if val.Field(i).CanInterface()"),
   ("Map.convert", "0 for i < val.NumMethod()"),
   ("Map.convert", "0 if ok"),
   ("Map.convert", "1 range order"),
   ("Map.Member", "0 if field == \"__assign\""),
   ("Map.Member", "1 return &Func{…}"),
   ("Map.Member", "0 if ok"),
   ("Map.Member", "1 return i"),
   ("Map.Member", "0 if ok"),
   ("Map.Member", "1 return i"),
   ("Map.Member", "0 if ok"),
   ("Map.Member", "1 return i"),
   ("Map.Member", "0 if ok"),
   ("Map.Member", "1 return i"),
   ("Map.Member", "0 if ok"),
   ("Map.Member", "1 return i"),
   ("Map.Member", "0 if ok"),
   ("Map.Member", "1 return i"),
   ("Map.Member", "0 return Nil{}"),
   ("index", "0 if !v.IsValid()"),
   ("index", "1 return reflect.Value{}, fmt.Errorf(\"index of untyped nil\")"),
   ("index", "0 if ok"),
   ("index", "0 else "),
   ("index", "1 if ok"),
   ("index", "1 else "),
   ("index", "2 if ok"),
   ("index", "2 else "),
   ("index", "3 if ok"),
   ("index", "4 return item, nil"),
   ("index", "0 range indices"),
   ("index", "1 if ok"),
   ("index", "2 typeswitch "),
   ("index", "3 case String"),
   ("index", "3 case Number"),
   ("index", "1 else "),
   ("index", "1 if isNil"),
   ("index", "2 return reflect.Value{}, fmt.Errorf(\"index of nil pointer\")"),
   ("index", "1 switch v.Kind()"),
   ("index", "2 case reflect.Array, reflect.Slice, reflect.String"),
   ("index", "3 switch index.Kind()"),
   ("index", "4 case reflect.Int, reflect.Int8, reflect.Int16, reflect.Int32, reflect.Int64"),
   ("index", "4 case reflect.Uint, reflect.Uint8, reflect.Uint16, reflect.Uint32, reflect.Uint64, reflect.Uintptr"),
   ("index", "4 case reflect.Float64"),
   ("index", "4 case reflect.Invalid"),
   ("index", "5 return reflect.Value{}, fmt.Errorf(\"cannot index slice/array with nil\")"),
   ("index", "4 case "),
   ("index", "5 if !ok"),
   ("index", "6 return reflect.Value{}, fmt.Errorf(\"cannot index slice/array with type %s\", index.Type())"),
   ("index", "3 if x < 0 || x >= int64(v.Len())"),
   ("index", "4 return reflect.ValueOf(Nil{}), nil"),
   ("index", "2 case reflect.Map"),
   ("index", "3 if index.String() != \"\""),
   ("index", "3 if err != nil"),
   ("index", "4 return reflect.Value{}, err"),
   ("index", "3 if x.IsValid()"),
   ("index", "3 else "),
   ("index", "4 return reflect.ValueOf(Nil{}), nil"),
   ("index", "2 case reflect.Invalid"),
   ("index", "2 case "),
   ("index", "3 return reflect.Value{}, fmt.Errorf(\"can'e index item of type %s\", v.Type())"),
   ("index", "0 return v, nil")]

set_option maxRecDepth 8192 in
/-- **C11 (the model's tie to the code, by shape).** -/
theorem C11_convert_skeleton : Gen.convertSkeleton_ok = true ∧ Gen.convertSkeleton = expected_convertSkeleton := by
  constructor <;> decide

end Pug.Props.C11
