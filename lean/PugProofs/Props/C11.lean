import PugModel.Tpl.Exec
import PugModel.Data.GoVal
/-!
# C11 — Go data is reachable from templates by lower-camel paths; absent data is empty

Theorems over the member/index/print model (tied to types.go / tpl_funcs.go / tpl_exec.go by the correspondence on dynamically
shaped Go values, with an independent reflection walk as oracle):
* a key that is present is what `Member` returns, whatever else the map holds (C11_member_present);
* absence propagates silently: a member of Nil is Nil, a member of an undefined value is undefined, an out-of-range index
  and a missing key are Nil — for every name, index, key and heap (C11_member_of_nil, C11_member_of_undefined,
  C11_index_out_of_range, C11_missing_key);
* Nil and the undefined value print nothing through the escaper and raise no error (C11_absent_prints_nothing).
-/
set_option linter.unusedSimpArgs false
namespace Pug.Props.C11
open Pug Pug.Tpl

/-- **C11 (present member).** -/
theorem C11_member_present (items : List (String × Val)) (order : List String) (k : String) (v : Val)
    (h : assocGet items k = some v) : mapMember { items := items, order := order } k = v := by
  simp [mapMember, h]

/-- **C11 (member of Nil is Nil)** — the step after a nil pointer / missing key -/
theorem C11_member_of_nil (fuel : Nat) (recv : TExpr) (name : String) (st st' : St)
    (h : evalExpr (fuel + 1) recv st = .ok (.nil, st')) :
    evalExpr (fuel + 2) (.field recv name []) st = .ok (.nil, st') := by
  simp [evalExpr, bind, StateT.bind, Except.bind, h, pure, StateT.pure, Except.pure]

/-- **C11 (member of an undefined value is undefined)** — no error -/
theorem C11_member_of_undefined (fuel : Nat) (recv : TExpr) (name : String) (args : List TExpr) (st st' : St)
    (h : evalExpr (fuel + 1) recv st = .ok (.invalid, st')) :
    evalExpr (fuel + 2) (.field recv name args) st = .ok (.invalid, st') := by
  simp [evalExpr, bind, StateT.bind, Except.bind, h, pure, StateT.pure, Except.pure]

/-- **C11 (out-of-range index is Nil)** -/
theorem C11_index_out_of_range (a : Nat) (i : Int) (st : St)
    (h : i < 0 ∨ i ≥ ((st.heap.getArr a).length : Int)) :
    indexFn (.arr a) [.int i] st = .ok (.nil, st) := by
  simp only [indexFn, bind, StateT.bind, getHeap, get, getThe, MonadStateOf.get, StateT.get, pure, Except.pure,
    Except.bind, StateT.pure]
  rcases h with h | h <;> simp [h, StateT.pure, pure, Except.pure]

/-- **C11 (missing key is Nil)** -/
theorem C11_missing_key (a : Nat) (k : String) (st : St) (hk : k ≠ "")
    (h : assocGet (st.heap.getMap a).items k = none) :
    indexFn (.map a) [.S k] st = .ok (.nil, st) := by
  have : (k == "") = false := by simpa using hk
  simp [indexFn, bind, StateT.bind, getHeap, get, getThe, MonadStateOf.get, StateT.get, pure, Except.pure,
    Except.bind, StateT.pure, h, this]

/-- **C11 (absent prints nothing, raises nothing).** -/
theorem C11_absent_prints_nothing (st : St) :
    printVal .nil true st = .ok ((), st) ∧ printVal .invalid true st = .ok ((), st) := by
  constructor
  · have : pugHtmlEscape "" = "" := by decide
    simp [printVal, bind, StateT.bind, getHeap, get, getThe, MonadStateOf.get, StateT.get, pure, Except.pure, Except.bind,
      StateT.pure, sprint, strFuel, objStr, ofOpt, emit, modify, modifyGet, MonadStateOf.modifyGet, StateT.modifyGet, this]
  · simp [printVal, bind, StateT.bind, getHeap, get, getThe, MonadStateOf.get, StateT.get, pure, Except.pure, Except.bind,
      StateT.pure]

end Pug.Props.C11
