import PugModel.Tpl.Compile
import PugModel.Gen.Tables
import PugProofs.C01.EvalScalar
import PugProofs.C01.EndToEnd
import PugProofs.C06.Mixed
import PugModel.Pug.Spec
/-!
# C04 — escaped output never lets data-supplied markup through

* `C04_matrix`: every string-carrying expression kind of `renderExpression` — as read from the Go source on this run —
  is emitted as an action that ends in the escaper when wrapped by an escaped code node. One unescaped branch = red build.
* `C04_escape_table`: the escape switch of `HTMLEscape` (generated) replaces exactly & < > " ' by the specification's references.
* `C04_escape_safe`: for EVERY string, the escaped text contains none of < > " ' (so an HTML parser reads it as one text run).
* `C04_escape_amp`: every `&` of the escaped text starts one of the five references.
* `C04_escape_hom` / `C04_substitution`: escaping commutes with concatenation, so rendering with a hostile string equals
  rendering with a marker and substituting the escaped string.
* `C04_print_escaped`: the executor's escaped print action appends exactly `escape (text of the value)`.
-/
set_option linter.unusedSimpArgs false
namespace Pug.Props.C04
open Pug Pug.Tpl Pug.Gen

theorem C04_extract : escapeMatrix_ok = true ∧ htmlEscape_ok = true := by decide

/-- the kinds through which a data string can reach the output of `= e` / `#{e}` -/
def stringCarryingKinds : List String :=
  ["Identifier", "DotExpression", "BracketExpression", "BinaryExpression", "ConditionalExpression", "CallExpression",
   "TemplateLiteral", "ArrayLiteral"]

/-- **C04 (escape matrix).** (emits an action, that action ends in `| __pug__html`) for every string-carrying kind. -/
theorem C04_matrix : ∀ k ∈ stringCarryingKinds, matrixRow k = (true, true) := by decide

/-- a wrapped expression of a string-carrying kind is compiled to an *escaped* print action -/
theorem C04_wrapKind (e : JS.Expr) (h : exprKind e ∈ stringCarryingKinds) : wrapKind e = .action true := by
  have hm := C04_matrix (exprKind e) h
  cases e <;> simp_all [wrapKind, exprKind, stringCarryingKinds]

/-- **C04 (escape table).** -/
theorem C04_escape_table :
    escChar htmlEscape '&' = "&amp;".toList ∧ escChar htmlEscape '<' = "&lt;".toList ∧ escChar htmlEscape '>' = "&gt;".toList ∧
    escChar htmlEscape '"' = "&#34;".toList ∧ escChar htmlEscape '\'' = "&#39;".toList ∧
    (htmlEscape.map (·.1)).all (fun c => ['&', '<', '>', '"', '\''].contains c) = true := by decide

def significant (c : Char) : Bool := c == '<' || c == '>' || c == '"' || c == '\''

def five : List Char := ['&', '<', '>', '"', '\'']

theorem find_none (tbl : List (Char × String)) (c : Char) (hkeys : ∀ x ∈ tbl, x.1 ∈ five) (hc : c ∉ five) :
    tbl.find? (·.1 == c) = none := by
  simp only [List.find?_eq_none]
  intro x hx hxc
  have : x.1 = c := by simpa using hxc
  exact hc (this ▸ hkeys x hx)

theorem not_five (c : Char) (h1 : c ≠ '&') (h2 : c ≠ '<') (h3 : c ≠ '>') (h4 : c ≠ '"') (h5 : c ≠ '\'') : c ∉ five := by
  simp [five, h1, h2, h3, h4, h5]

/-- per character: the replacement (or the character itself) contains no significant character -/
theorem escChar_safe (c : Char) : ∀ d ∈ escChar htmlEscape c, significant d = false := by
  by_cases h1 : c = '&'
  · subst h1; decide
  by_cases h2 : c = '<'
  · subst h2; decide
  by_cases h3 : c = '>'
  · subst h3; decide
  by_cases h4 : c = '"'
  · subst h4; decide
  by_cases h5 : c = '\''
  · subst h5; decide
  have hnone : htmlEscape.find? (·.1 == c) = none :=
    find_none _ c (by decide) (not_five c h1 h2 h3 h4 h5)
  intro d hd
  simp only [escChar, hnone, List.mem_singleton] at hd
  subst hd
  simp [significant, h2, h3, h4, h5]

/-- **C04 (escaped text is inert).** For every string, no `<`, `>`, `"` or `'` survives escaping. -/
theorem C04_escape_safe (s : List Char) : ∀ d ∈ escapeWith htmlEscape s, significant d = false := by
  intro d hd
  simp only [escapeWith, List.mem_flatMap] at hd
  obtain ⟨c, _, hc⟩ := hd
  exact escChar_safe c d hc

/-- **C04 (escaping is a homomorphism).** -/
theorem C04_escape_hom (a b : List Char) : escapeWith htmlEscape (a ++ b) = escapeWith htmlEscape a ++ escapeWith htmlEscape b := by
  simp [escapeWith, List.flatMap_append]

/-- **C04 (substitution).** Text around a value is escaped independently of the value: rendering `pre ++ h ++ post` equals
rendering with a marker `m` in place of `h` and substituting `escape h` for `escape m`. -/
theorem C04_substitution (pre h post : List Char) :
    escapeWith htmlEscape (pre ++ h ++ post) = escapeWith htmlEscape pre ++ escapeWith htmlEscape h ++ escapeWith htmlEscape post := by
  simp [C04_escape_hom]

/-- the engine's escaper and the specification's agree on every string -/
theorem C04_escape_eq_spec (s : List Char) : escapeWith htmlEscape s = escapeWith Spec.htmlEscapeTable s := by
  have hc : ∀ c, escChar htmlEscape c = escChar Spec.htmlEscapeTable c := by
    intro c
    by_cases h1 : c = '&'
    · subst h1; decide
    by_cases h2 : c = '<'
    · subst h2; decide
    by_cases h3 : c = '>'
    · subst h3; decide
    by_cases h4 : c = '"'
    · subst h4; decide
    by_cases h5 : c = '\''
    · subst h5; decide
    have n1 : htmlEscape.find? (·.1 == c) = none := find_none _ c (by decide) (not_five c h1 h2 h3 h4 h5)
    have n2 : Spec.htmlEscapeTable.find? (·.1 == c) = none := find_none _ c (by decide) (not_five c h1 h2 h3 h4 h5)
    simp [escChar, n1, n2]
  have : escChar htmlEscape = escChar Spec.htmlEscapeTable := funext hc
  simp [escapeWith, this]

/-- **C04 (escaped print action).** Printing a string value through the escaper appends exactly its escaped text. -/
theorem C04_print_escaped (s : String) (st : St) :
    printVal (.S s) true st = .ok ((), { st with out := st.out ++ pugHtmlEscape s }) := by
  simp [printVal, bind, StateT.bind, getHeap, get, getThe, MonadStateOf.get, StateT.get, pure, Except.pure, Except.bind,
    StateT.pure, sprint, strFuel, objStr, ofOpt, emit, modify, modifyGet, MonadStateOf.modifyGet, StateT.modifyGet]

/-! ## escaped code nodes over whole expressions (scalar fragment) -/

theorem print_str_escaped (s : String) (st : St) :
    printVal (.str s) true st = .ok ((), { st with out := st.out ++ pugHtmlEscape s }) := by
  simp [printVal, bind, StateT.bind, getHeap, get, getThe, MonadStateOf.get, StateT.get, pure, Except.pure, Except.bind,
    StateT.pure, sprint, ofOpt, emit, modify, modifyGet, MonadStateOf.modifyGet, StateT.modifyGet]

open Pug.JS Pug.Props.C01S in
/-- **C04 (every escaped code node whose expression yields a string).** For EVERY expression of the scalar fragment (any
nesting: variables, concatenations, conditionals, `||` defaults, ...) whose JavaScript value is a string `s` - wherever the
string comes from, data included - the escaped buffered-code node appends exactly `escape s` to the output, and nothing else
of the state changes. With `C04_escape_safe` (no `<`, `>`, `"`, `'` survives) the value cannot contribute markup. -/
theorem C04_code_escaped_scalar (ρ : SEnv) (e : SExpr) (s : String) (h : sEval ρ e = some (.str s)) (st : St)
    (hag : Agree st ρ) (env : Tpl.Env) (fuel : Nat) (hf : 2 * e.depth + 1 < fuel) :
    walk fuel env (.print (tr e) true) st = .ok ((), { st with out := st.out ++ pugHtmlEscape s }) := by
  obtain ⟨f, rfl⟩ : ∃ f, fuel = f + 1 := ⟨fuel - 1, by omega⟩
  obtain ⟨v, hv, rv⟩ := eval_scalar ρ e (.str s) h st hag f (by omega)
  have hw : walk (f + 1) env (.print (tr e) true) st = printVal v true st := by
    simp [walk, hv, bind, StateT.bind, Except.bind]
  rw [hw]
  cases rv with
  | S s => exact C04_print_escaped s st
  | str s => exact print_str_escaped s st

open Pug.JS Pug.Props.C01S Pug.Driver in
/-- **C04 (end to end, through the whole model of LoadTemplates + Render).** Page data: ANY JSON object whose values are strings,
numbers or booleans (lower-initial keys, none called `global`). Template: the escaped buffered code `= e` for ANY expression of
the scalar fragment built from those values by concatenation, conditionals, `||` / `&&` defaults, comparisons - any nesting -
whose JavaScript value is a string `s`. Then conversion of the data, the transpiler, text merging, trim markers, the template
parser and the executor together print exactly `escape s` - and by `C04_escape_safe` that text contains no `<`, `>`, `"`, `'`. -/
theorem C04_render_escaped_end_to_end (o : Std.TreeMap.Raw String Lean.Json) (svs : SEnv) (hd : ScalarData o svs)
    (hg : ∀ kv ∈ svs, kv.1 ≠ "global") (e : SExpr) (s : String) (inl : Bool)
    (hw : WF { funcs := engineFuncs ++ [], parserFuncs := engineFuncs ++ [] ++ builtinNames } e) (ht : TopEsc e)
    (hdepth : e.depth < 50000) (h : sEval svs e = some (.str s)) :
    renderModel [.codeBuf e.toExpr true inl] (.obj o) [] false = okOut (pugHtmlEscape s) := by
  have hc := compileDoc_buffered { funcs := engineFuncs ++ [], parserFuncs := engineFuncs ++ [] ++ builtinNames } e inl hw ht hdepth
  have hag := agree_initState o svs hd hg
  have hout := (initState_scalars o svs hd).2
  have hwalk := C04_code_escaped_scalar svs e s h (initState (.obj o)) hag { defs := [] } 99999999 (by omega)
  have hrun : walkList 100000000 { defs := [] } [TNode.print (tr e) true] (initState (.obj o)) =
      .ok ((), { initState (.obj o) with out := (initState (.obj o)).out ++ pugHtmlEscape s }) := by
    show walkList (99999999 + 1) _ _ _ = _
    rw [walkList]
    simp only [bind, StateT.bind, hwalk, Except.bind]
    show walkList (99999998 + 1) _ [] _ = _
    simp [walkList, pure, StateT.pure, Except.pure]
  simp only [renderModel, hc, StateT.run, hrun, hout, String.empty_append]

open Pug.JS Pug.Props.C01S Pug.Props.MixedS Pug.Driver in
/-- **C04 + C06 (escaped code in EVERY position of a static tree, end to end).** Page data: any JSON object with string / number /
boolean values. Document: any tree of text (braces included), doctype and attribute-less tags, nested to any depth `d`, with
escaped buffered code `= e` - `e` any well-formed scalar expression with a string value - at ANY place in it. `MSerL` relates such
a document to its reference serialisation `out`: tags and text as written, `escape (value of e)` at each code node. Then the
whole model of LoadTemplates + Render - data conversion, transpiler, text merging, trim markers, template parser, executor -
prints exactly `out`: no position in the tree lets a value through unescaped, and the structure around it is untouched. -/
theorem C04_escaped_in_every_position (o : Std.TreeMap.Raw String Lean.Json) (svs : SEnv) (hd : ScalarData o svs)
    (hg : ∀ kv ∈ svs, kv.1 ≠ "global") (d : Nat) (hdep : 2 * d < nodeFuel) (doc : List Node) (out : String)
    (h : MSerL svs { funcs := engineFuncs ++ [], parserFuncs := engineFuncs ++ [] ++ builtinNames } d doc out) :
    ∃ frags, compileNodes { funcs := engineFuncs ++ [], parserFuncs := engineFuncs ++ [] ++ builtinNames } doc = .ok frags ∧
      (frags.length + 100003 < 100000000 → renderModel doc (.obj o) [] false = okOut out) := by
  obtain ⟨frags, h1, h2, h3⟩ := compileDoc_mixed
    { funcs := engineFuncs ++ [], parserFuncs := engineFuncs ++ [] ++ builtinNames } rfl d hdep doc out h
  refine ⟨frags, h1, fun hlen => ?_⟩
  have hm := merge_fos frags.length frags out (Nat.le_refl _) h2
  have hl := Pug.Props.C06S.merge_length frags.length frags (Nat.le_refl _)
  have hag := agree_initState o svs hd hg
  have hout := (initState_scalars o svs hd).2
  have hw := walk_fos { defs := [] } (mergeTexts frags) out hm (initState (.obj o)) hag 100000000 (by omega)
  simp only [renderModel, h3, StateT.run, hw, hout, String.empty_append]

open Pug.JS Pug.Props.C01S Pug.Driver in
/-- **C04 (raw only where the template asks for it).** The unescaped form `!= e` of the same documents prints the string value
itself - the ONLY difference between the two forms is the escaper, and it is there unless the template author wrote `!=`. -/
theorem C04_render_raw_end_to_end (o : Std.TreeMap.Raw String Lean.Json) (svs : SEnv) (hd : ScalarData o svs)
    (hg : ∀ kv ∈ svs, kv.1 ≠ "global") (e : SExpr) (s : String) (inl : Bool)
    (hw : WF { funcs := engineFuncs ++ [], parserFuncs := engineFuncs ++ [] ++ builtinNames } e) (ht : TopEsc e)
    (hdepth : e.depth < 50000) (h : sEval svs e = some (.str s)) :
    renderModel [.codeBuf e.toExpr false inl] (.obj o) [] false = okOut s := by
  have hc := compileDoc_buffered_raw { funcs := engineFuncs ++ [], parserFuncs := engineFuncs ++ [] ++ builtinNames } e inl hw ht hdepth
  have hag := agree_initState o svs hd hg
  have hout := (initState_scalars o svs hd).2
  obtain ⟨v, hev, rv⟩ := eval_scalar svs e (.str s) h (initState (.obj o)) hag 99999998 (by omega)
  have hwalk : walk 99999999 { defs := [] } (.print (tr e) false) (initState (.obj o)) =
      .ok ((), { initState (.obj o) with out := (initState (.obj o)).out ++ s }) := by
    rw [show (99999999 : Nat) = 99999998 + 1 from rfl]
    have hw2 : walk (99999998 + 1) { defs := [] } (.print (tr e) false) (initState (.obj o)) = printVal v false (initState (.obj o)) := by
      simp [walk, hev, bind, StateT.bind, Except.bind]
    rw [hw2]
    cases rv <;>
      simp [printVal, bind, StateT.bind, getHeap, get, getThe, MonadStateOf.get, StateT.get, pure, Except.pure, Except.bind,
        StateT.pure, sprint, strFuel, objStr, ofOpt, emit, modify, modifyGet, MonadStateOf.modifyGet, StateT.modifyGet]
  have hrun : walkList 100000000 { defs := [] } [TNode.print (tr e) false] (initState (.obj o)) =
      .ok ((), { initState (.obj o) with out := (initState (.obj o)).out ++ s }) := by
    show walkList (99999999 + 1) _ _ _ = _
    rw [walkList]
    simp only [bind, StateT.bind, hwalk, Except.bind]
    show walkList (99999998 + 1) _ [] _ = _
    simp [walkList, pure, StateT.pure, Except.pure]
  simp only [renderModel, hc, StateT.run, hrun, hout, String.empty_append]

/-! non-vacuity -/
example : escapeWith htmlEscape "<b a=\"1\">&'".toList = "&lt;b a=&#34;1&#34;&gt;&amp;&#39;".toList := by decide

section EndToEndNonVacuity
open Pug.JS Pug.Props.C01S Pug.Driver Lean
private def o1 : Std.TreeMap.Raw String Json := ((∅ : Std.TreeMap.Raw String Json).insert "a" (.str "<b>")).insert "b" (.bool true)
private def svs1 : SEnv := [("a", .str "<b>"), ("b", .bool true)]
private def e1 : SExpr := .bin .add (.var "a") (.cond (.var "b") (.var "a") (.var "b"))
example : ScalarData o1 svs1 := ⟨by decide, by decide⟩
example : ∀ kv ∈ svs1, kv.1 ≠ "global" := by decide
example : WF { funcs := engineFuncs ++ [], parserFuncs := engineFuncs ++ [] ++ builtinNames } e1 := by
  simp [WF, e1]; decide
example : TopEsc e1 := trivial
example : sEval svs1 e1 = some (.str "<b><b>") := by decide
open Pug.Props.MixedS in
/-- non-vacuity of `C04_escaped_in_every_position`: `p` containing the text `a{b` and the code `= a + (b ? a : b)` over
{a: "<b>", b: true} -/
example : MSerL svs1 { funcs := engineFuncs ++ [], parserFuncs := engineFuncs ++ [] ++ builtinNames } 2
    [.tag "p" false [] [] [.text "a{b", .codeBuf e1.toExpr true true]]
    (cat ["<" ++ "p" ++ ">" ++ cat ["a{b", pugHtmlEscape "<b><b>"] ++ "</" ++ "p" ++ ">"]) := by
  refine ⟨[_], ⟨?_, trivial⟩, rfl⟩
  simp only [MSer]
  refine ⟨trivial, trivial, by decide, ["a{b", pugHtmlEscape "<b><b>"], ⟨rfl, ⟨e1, "<b><b>", rfl, rfl, ?_, trivial, by decide, by decide, rfl⟩, trivial⟩, ?_⟩
  · simp [WF, e1]; decide
  · have : ¬ "p" ∈ Tpl.voidTags := by decide
    simp [this]
end EndToEndNonVacuity

/-! ## the code the model mirrors, by its control skeleton

`Gen.escapeSkeleton`: `HTMLEscape` (pugjs/tpl_funcs.go): one loop over the bytes, one switch with five cases, nothing that skips a byte - every `if` / `switch` / `case` condition, loop header, `return`, `continue`, in source order with nesting depth,
regenerated from the Go source on every run. It must be the skeleton the escaper model generated from the same switch (`Gen.htmlEscape`) was written against: a changed condition, an added
branch or early exit reopens the obligation before any input is drawn. -/

def expected_escapeSkeleton : List (String × String) :=
  [("HTMLEscape", "0 range b"),
   ("HTMLEscape", "1 switch c"),
   ("HTMLEscape", "2 case '\"'"),
   ("HTMLEscape", "2 case '\\''"),
   ("HTMLEscape", "2 case '&'"),
   ("HTMLEscape", "2 case '<'"),
   ("HTMLEscape", "2 case '>'"),
   ("HTMLEscape", "2 case "),
   ("HTMLEscape", "3 continue ")]

/-- **C04 (the model's tie to the code, by shape).** -/
theorem C04_escape_skeleton : Gen.escapeSkeleton_ok = true ∧ Gen.escapeSkeleton = expected_escapeSkeleton := by
  constructor <;> decide

end Pug.Props.C04
