import PugModel.Tpl.Exec
import PugProofs.Props.C10
import PugProofs.C03.Frame
import PugProofs.Props.C08
/-!
# C03 — mixins bind arguments, attributes and block content per call

One-step theorems over the executor model, for EVERY state, body, argument and fuel:
* `C03_freeze_captures`: `__freeze` makes a NEW bound block (fresh id) holding the block's template name and the caller's
  variables *as they are at the time of the call*; nothing already bound is touched (closures only grow);
* `C03_call_scope_and_frame`: a mixin invocation runs the body with the page globals only (no caller local is visible) and
  hands the caller back exactly its own variables, depth and dot, whatever the body did to its own;
* `C03_block_scope_and_frame`: `block` inside a body runs the bound block's template with the variables captured by THAT
  call (looked up by id, not by name) and then restores the mixin's own variables;
* `C03_args_positional`: parameter i is argument i, Nil beyond the supplied ones.
-/
set_option linter.unusedSimpArgs false
namespace Pug.Props.C03
open Pug Pug.Tpl

/-- **C03 (the block is bound per call).** -/
theorem C03_freeze_captures (fuel : Nat) (n : String) (st : St) :
    evalExpr (fuel + 1) (.fcall "__freeze" [.lit (.str n)]) st =
      .ok (.bblock st.closures.length, { st with closures := st.closures ++ [(n, st.vars, st.depth)] }) := by
  simp [evalExpr, bind, StateT.bind, get, getThe, MonadStateOf.get, StateT.get, set, StateT.set, pure, Except.pure,
    Except.bind, StateT.pure]

/-- earlier bound blocks are untouched by a later `__freeze` -/
theorem C03_freeze_preserves (cl : List (String × List (String × Val) × Nat)) (x : String × List (String × Val) × Nat)
    (id : Nat) (h : id < cl.length) : (cl ++ [x])[id]? = cl[id]? := by
  simp [List.getElem?_append_left h]

/-- **C03 (mixin body scope + frame).** -/
theorem C03_call_scope_and_frame (fuel : Nat) (env : Env) (n : String) (a : TExpr) (body : List TNode)
    (st st1 st2 : St) (d : Val)
    (hdef : env.defs.find? (·.1 == n) = some (n, body))
    (hdepth : st.depth < Gen.maxExecDepth)
    (harg : evalExpr fuel a st = .ok (d, st1))
    (hbody : walkList fuel env body { st1 with vars := st1.globals, depth := st1.depth + 1, dot := d } = .ok ((), st2)) :
    walk (fuel + 1) env (.template (.lit n) (some a)) st =
      .ok ((), { st2 with vars := st1.vars, depth := st1.depth, dot := st1.dot }) := by
  have hd : ¬ (st.depth ≥ Gen.maxExecDepth) := by omega
  simp [walk, bind, StateT.bind, get, getThe, MonadStateOf.get, StateT.get, set, StateT.set, pure, Except.pure,
    Except.bind, StateT.pure, hdef, hd, harg, hbody, modify, modifyGet, MonadStateOf.modifyGet, StateT.modifyGet]

/-- **C03 (block scope + frame).** `block` renders the template bound by THIS call with the caller's captured variables. -/
theorem C03_block_scope_and_frame (fuel : Nat) (env : Env) (id : Nat) (n : String) (cvars : List (String × Val)) (cd : Nat)
    (body : List TNode) (st st2 : St)
    (hvar : lookupVar st.vars "$block" = .bblock id)
    (hclo : st.closures[id]? = some (n, cvars, cd))
    (hdef : env.defs.find? (·.1 == n) = some (n, body))
    (hdepth : st.depth < Gen.maxExecDepth)
    (hbody : walkList fuel env body { st with vars := cvars, depth := cd + 1, dot := .invalid } = .ok ((), st2)) :
    walk (fuel + 1) env (.template (.var "block") none) st =
      .ok ((), { st2 with vars := st.vars, depth := st.depth, dot := st.dot }) := by
  have hd : ¬ (st.depth ≥ Gen.maxExecDepth) := by omega
  simp [walk, bind, StateT.bind, get, getThe, MonadStateOf.get, StateT.get, set, StateT.set, pure, Except.pure,
    Except.bind, StateT.pure, hvar, hclo, hdef, hd, hbody, modify, modifyGet, MonadStateOf.modifyGet, StateT.modifyGet]

/-- **C03 (arguments are positional; missing ones are empty).** -/
theorem C03_args_positional (a : Nat) (i : Nat) (st : St) :
    callBuiltin "__tryindex" [.arr a, .int i] st = .ok ((st.heap.getArr a).getD i .nil, st) := by
  have h1 : helperImpl "__tryindex" = none := by decide
  have h2 : helperClosure "__tryindex" = none := by decide
  have h3 : ¬ ((i : Int) < 0) := by omega
  simp [callBuiltin, h1, h2, h3, bind, StateT.bind, getHeap, get, getThe, MonadStateOf.get, StateT.get, pure, Except.pure,
    Except.bind, StateT.pure]

/-- **C03 (one compiler state per template file).** The mixin registry, the block counter and the raw-mode flag are created anew for
every template file (extracted control skeleton of `Engine.compileDir`, regenerated on every run): a mixin defined in one page template can never replace a same-named mixin of another page in the same directory. -/
theorem C03_compiler_state_per_template :
    (Gen.loadSkeleton.filter fun r => r.2 == "3 new renderState" || r.2 == "0 new renderState" || r.2 == "1 new renderState" ||
      r.2 == "2 new renderState" || r.2 == "4 new renderState") = [("compileDir", "3 new renderState")] :=
  Pug.Props.C10.C10_state_per_template

/-- **C03 (a call's `attributes` object is built FROM the call's values, never INTO them).** For EVERY argument list of the runtime
helper `__op__map_params` (any number of names, repeated names, values of every kind - among them arrays that live on after the
call: page data, variables, mixin arguments) and EVERY execution state: if the helper returns, then every array and every map that
existed before the call holds exactly what it held, the variables, the output and the bound blocks are untouched, and the result is
a map that did not exist before. So `+m(class=xs class='x')`, called any number of times, never grows `xs`, and an attribute-less
call gets an object of its own (stage lemmas `PugProofs/C03/Frame.lean`, relation `Grows`). -/
theorem C03_call_attributes_frame (kvs : List Val) (st st' : St) (v : Val)
    (h : callBuiltin "__op__map_params" kvs st = .ok (v, st')) :
    (∀ a, a < st.heap.arrs.length → st'.heap.getArr a = st.heap.getArr a) ∧
    (∀ a, a < st.heap.maps.length → st'.heap.getMap a = st.heap.getMap a) ∧
    st'.vars = st.vars ∧ st'.globals = st.globals ∧ st'.out = st.out ∧ st'.closures = st.closures ∧
    ∃ a, v = .map a ∧ st.heap.maps.length ≤ a := by
  have hc : callBuiltin "__op__map_params" kvs = mapParams kvs := by
    unfold callBuiltin
    rfl
  rw [hc] at h
  obtain ⟨g, hv⟩ := C03F.mapParams_grows kvs st st' v h
  obtain ⟨h1, h2, h3, _, _, h6⟩ := g.rest
  exact ⟨g.getArr, g.getMap, h1, h2, h3, h6, hv⟩

/-- the runtime helpers that are function literals in the funcmap (`pugjs/runtime.go`) - the call's attributes object, the array and object
literals, the tolerant index behind mixin arguments, the conditional, string building, the attribute spread, `range`, `null` - statement by
statement, as the models `mapParams`, `opMap` and the `callBuiltin` branches of `Tpl/Exec.lean` were written against; regenerated from the Go source on every run -/
def expected_helperLitBodies : List (String × String) :=
  [("__op__map_params", "m := make(map[interface{}]interface{}, len(a)/2)"),
   ("__op__map_params", "for i := 0; i < len(a); i += 2 {"),
   ("__op__map_params", "if _, ok := m[a[i]]; ok {"),
   ("__op__map_params", "if x, ok := m[a[i]].([]interface{}); ok {"),
   ("__op__map_params", "m[a[i]] = append(x, a[i+1])"),
   ("__op__map_params", "} else {"),
   ("__op__map_params", "m[a[i]] = []interface{}{m[a[i]], a[i+1]}"),
   ("__op__map_params", "} else {"),
   ("__op__map_params", "m[a[i]] = a[i+1]"),
   ("__op__map_params", "return convert(m)"),
   ("__op__array", "return convert(a)"),
   ("__op__map", "m := &Map{"),
   ("__op__map", "items:\tmake(map[string]Object, len(a)/2),"),
   ("__op__map", "order:\tmake([]string, 0, len(a)/2),"),
   ("__op__map", "for i := 0; i < len(a); i += 2 {"),
   ("__op__map", "m.items[convert(a[i]).String()] = convert(a[i+1])"),
   ("__op__map", "m.order = append(m.order, convert(a[i]).String())"),
   ("__op__map", "return m"),
   ("__tryindex", "arr, ok := obj.(*Array)"),
   ("__tryindex", "idx, ok2 := key.(int)"),
   ("__tryindex", "if ok && ok2 {"),
   ("__tryindex", "if len(arr.items) <= idx {"),
   ("__tryindex", "return Nil{}"),
   ("__tryindex", "return arr.items[idx]"),
   ("__tryindex", "if obj, ok := obj.(Object); ok {"),
   ("__tryindex", "return obj.Member(convert(key).String())"),
   ("__tryindex", "vo, _ := indirect(reflect.ValueOf(obj))"),
   ("__tryindex", "k := int(reflect.ValueOf(key).Int())"),
   ("__tryindex", "if !vo.IsValid() {"),
   ("__tryindex", "return nil"),
   ("__tryindex", "if vo.Len() > k {"),
   ("__tryindex", "return vo.Index(k).Interface()"),
   ("__tryindex", "return nil"),
   ("__if", "if t, ok := IsTrue(test); ok && t {"),
   ("__if", "return left"),
   ("__if", "return right"),
   ("__str", "var res string"),
   ("__str", "for _, s := range l {"),
   ("__str", "res += convert(s).String()"),
   ("__str", "return res"),
   ("__and_attrs", "for _, k := range x.Keys() {"),
   ("__and_attrs", "res = append(res, attrOf(k, x.Member(k), true)...)"),
   ("__and_attrs", "return"),
   ("__Range", "var res []int"),
   ("__Range", "var m, o int"),
   ("__Range", "if len(args) == 1 {"),
   ("__Range", "m = int(args[0])"),
   ("__Range", "o = 0"),
   ("__Range", "} else {"),
   ("__Range", "m = int(args[1])"),
   ("__Range", "o = int(args[0])"),
   ("__Range", "for i := o; i < m; i++ {"),
   ("__Range", "res = append(res, i)"),
   ("__Range", "return convert(res)"),
   ("null", "return Nil{}")]

/-- **C03 (the model's tie to the code of the helper, statement by statement).** A change to any statement of `__op__map_params`
(or of the array / object literal helpers) re-opens this obligation before any input is drawn. -/
theorem C03_helper_bodies : Gen.helperLitBodies_ok = true ∧ Gen.helperLitBodies = expected_helperLitBodies := by
  constructor <;> decide

/-! non-vacuity: `+m(class=xs class='x')` over a heap that holds `xs = ["a", "b"]`: the helper returns, the result is the new map 0,
its `class` is the NEW array 1 = [xs, "x"], and array 0 still is ["a", "b"] -/
example :
    callBuiltin "__op__map_params" [.str "class", .arr 0, .str "class", .str "x"]
      { vars := [], globals := [], heap := { arrs := [[.S "a", .S "b"]], maps := [] }, out := "", depth := 0 } =
    .ok (.map 0, { vars := [], globals := [], out := "", depth := 0,
                   heap := { arrs := [[.S "a", .S "b"], [.arr 0, .S "x"]], maps := [{ items := [("class", .arr 1)], order := [] }] } }) := by
  have hc : ∀ kvs, callBuiltin "__op__map_params" kvs = mapParams kvs := by
    intro kvs
    unfold callBuiltin
    rfl
  rw [hc]
  rfl

/-- **C03 (no state outlives a render or a compilation in package variables).** The inventory of package-level variables of pugjs and
templatefunctions, regenerated from the Go source on every run, holds nothing but the known entries: no cache, pool, shared empty
object, memo table or once-guard has been added through which one call, one compilation or one render could reach the next (rounds 5-7
of the seeded changes added such a variable five times: a shared empty attributes map, a shared empty array, an AST cache, a buffer
pool). Restated here so that THIS property's check fails on it before any input is drawn. -/
theorem C03_package_state_inventory :
    Gen.pkgState_ok = true ∧ Gen.pkgState.all (fun v => Pug.Props.C08.knownPkgState.contains v) = true :=
  Pug.Props.C08.C08_package_state_inventory

end Pug.Props.C03
