import PugModel.Strip.Clean
import PugModel.Gen.Tables
/-!
# C14 — stripTags emits only allow-listed tags/attributes; all else becomes inert text

Quantified over ALL DOM trees (whatever the HTML5 parser returns: malformed nesting, foreign content, raw-text elements,
comments, doctypes, entity-decoded text) and ALL allow-lists:
* every emitted token is a start/end tag of an allow-listed element carrying only attributes allow-listed for that element,
  or text in which & ' < > " are replaced — there is no comment or declaration token at all (C14_tokens);
* with an empty allow-list the output contains no `<` (C14_empty_allow);
* attribute values cannot break out of their quotes (C14_attr_value_safe).
-/
set_option linter.unusedSimpArgs false
namespace Pug.Props.C14
open Pug Pug.Strip

def sig (c : Char) : Bool := c == '<' || c == '>' || c == '"' || c == '\''

def TokOk (allow : List AllowedTag) : Tok → Prop
  | .startTag n attrs _ => ∃ tag, lookupTag allow n = some tag ∧ tag.name ≠ "" ∧ ∀ a ∈ attrs, a.1 ∈ tag.attrs
  | .endTag n => ∃ tag, lookupTag allow n = some tag ∧ tag.name ≠ ""
  | .text s => ∀ c ∈ s.toList, sig c = false

theorem esc_char_safe (c : Char) : ∀ d ∈ escChar escTable c, sig d = false := by
  by_cases h1 : c = '&'
  · subst h1; decide
  by_cases h2 : c = '<'
  · subst h2; decide
  by_cases h3 : c = '>'
  · subst h3; decide
  by_cases h4 : c = '"'
  · subst h4; decide
  by_cases h5 : c = '\''
  · subst h5; decide
  by_cases h6 : c = '\r'
  · subst h6; decide
  have hkeys : ∀ x ∈ escTable, x.1 ∈ ['&', '\'', '<', '>', '"', '\r'] := by decide
  have hnone : escTable.find? (·.1 == c) = none := by
    simp only [List.find?_eq_none]
    intro x hx hxc
    have hx' : x.1 = c := by simpa using hxc
    have := hkeys x hx
    rw [hx'] at this
    simp [h1, h2, h3, h4, h5, h6] at this
  intro d hd
  simp only [escChar, hnone, List.mem_singleton] at hd
  subst hd
  simp [sig, h2, h3, h4, h5]

/-- escaped text is inert, for every string -/
theorem escape_safe (s : String) : ∀ c ∈ (htmlEscape s).toList, sig c = false := by
  intro c hc
  simp only [htmlEscape, escapeHtmlWith, String.toList_ofList, escapeWith, List.mem_flatMap] at hc
  obtain ⟨d, _, hd⟩ := hc
  exact esc_char_safe d c hd

/-- **C14 (tokens).** By induction on the fuel, simultaneously for nodes and node lists. -/
theorem tokens_ok (allow : List AllowedTag) : ∀ fuel,
    (∀ n, ∀ t ∈ cleanToks allow fuel n, TokOk allow t) ∧ (∀ l, ∀ t ∈ cleanList allow fuel l, TokOk allow t) := by
  intro fuel
  induction fuel with
  | zero => exact ⟨fun n t ht => by simp [cleanToks] at ht, fun l t ht => by simp [cleanList] at ht⟩
  | succ fuel ih =>
    obtain ⟨ihN, ihL⟩ := ih
    constructor
    · intro n t ht
      cases n with
      | text data =>
        simp only [cleanToks, List.mem_singleton] at ht
        subst ht
        exact escape_safe data
      | comment d kids => simp only [cleanToks] at ht; exact ihL kids t ht
      | doctype d kids => simp only [cleanToks] at ht; exact ihL kids t ht
      | other kids => simp only [cleanToks] at ht; exact ihL kids t ht
      | elem name attrs kids =>
        simp only [cleanToks] at ht
        split at ht
        · rename_i tag hl
          split at ht
          · exact ihL kids t ht
          · rename_i hne
            have hne' : tag.name ≠ "" := by simpa using hne
            simp only [List.mem_append, List.mem_cons, List.mem_singleton, List.not_mem_nil, or_false] at ht
            rcases ht with (ht | ht) | ht
            · subst ht
              refine ⟨tag, hl, hne', ?_⟩
              intro a ha
              have := (List.mem_filter.mp ha).2
              simpa using this
            · exact ihL kids t ht
            · split at ht
              · simp at ht
              · simp only [List.mem_singleton] at ht
                subst ht
                exact ⟨tag, hl, hne'⟩
        · exact ihL kids t ht
    · intro l t ht
      cases l with
      | nil => simp [cleanList] at ht
      | cons n rest =>
        simp only [cleanList, List.mem_append] at ht
        rcases ht with ht | ht
        · exact ihN n t ht
        · exact ihL rest t ht

/-- **C14 (only allow-listed tags and attributes, text inert, no comments or declarations).** -/
theorem C14_tokens (defs : List String) (doc : List DNode) (fuel : Nat) :
    ∀ t ∈ cleanList (defs.map createTag) fuel doc, TokOk (defs.map createTag) t :=
  (tokens_ok _ fuel).2 doc

/-- with an empty allow-list only text tokens are emitted -/
theorem empty_only_text : ∀ fuel,
    (∀ n, ∀ t ∈ cleanToks [] fuel n, ∃ s, t = .text (htmlEscape s)) ∧ (∀ l, ∀ t ∈ cleanList [] fuel l, ∃ s, t = .text (htmlEscape s)) := by
  intro fuel
  induction fuel with
  | zero => exact ⟨fun n t ht => by simp [cleanToks] at ht, fun l t ht => by simp [cleanList] at ht⟩
  | succ fuel ih =>
    obtain ⟨ihN, ihL⟩ := ih
    constructor
    · intro n t ht
      cases n with
      | text data => simp only [cleanToks, List.mem_singleton] at ht; exact ⟨data, ht⟩
      | comment d kids => simp only [cleanToks] at ht; exact ihL kids t ht
      | doctype d kids => simp only [cleanToks] at ht; exact ihL kids t ht
      | other kids => simp only [cleanToks] at ht; exact ihL kids t ht
      | elem name attrs kids =>
        simp only [cleanToks, lookupTag, List.reverse_nil, List.find?_nil] at ht
        exact ihL kids t ht
    · intro l t ht
      cases l with
      | nil => simp [cleanList] at ht
      | cons n rest =>
        simp only [cleanList, List.mem_append] at ht
        rcases ht with ht | ht
        · exact ihN n t ht
        · exact ihL rest t ht

/-- **C14 (empty allow-list).** The result contains no `<` at all (nor `>`, nor quotes), for every tree. -/
theorem C14_empty_allow (doc : List DNode) (fuel : Nat) :
    ∀ c ∈ (stripTags [] doc fuel).toList, sig c = false := by
  intro c hc
  simp only [stripTags, render, String.toList_ofList, renderChars, List.map_nil, List.mem_flatMap] at hc
  obtain ⟨t, ht, hct⟩ := hc
  obtain ⟨s, rfl⟩ := (empty_only_text fuel).2 doc t ht
  exact escape_safe s c (by simpa [renderTok] using hct)

/-- **C14 (attribute values stay inside their quotes).** -/
theorem C14_attr_value_safe (v : String) : ∀ c ∈ (htmlEscape v).toList, c ≠ '"' := by
  intro c hc h
  have := escape_safe v c hc
  subst h
  simp [sig] at this

/-- the void-element test uses the table read from pug_parser.go -/
theorem C14_extract : Gen.voidTags_ok = true := by decide

/-! ## the code the model mirrors, by its control skeleton

`Gen.stripSkeleton`: `cleanTags` and `getAllowedAttributes` (templatefunctions/striptags_func.go): the node kinds, the allow-list tests for tags and attributes, the escaping of what remains - every `if` / `switch` / `case` condition, loop header, `return`, `continue`, in source order with nesting depth,
regenerated from the Go source on every run. It must be the skeleton the serializer model (`Strip`) was written against: a changed condition, an added
branch or early exit reopens the obligation before any input is drawn. -/

def expected_stripSkeleton : List (String × String) :=
  [("cleanTags", "0 if n.Type == html.ElementNode"),
   ("cleanTags", "1 if ok"),
   ("cleanTags", "0 if allowedTag.name != \"\""),
   ("cleanTags", "1 if isSelfClosingTag(n)"),
   ("cleanTags", "0 if n.Type == html.TextNode"),
   ("cleanTags", "0 if n.FirstChild != nil"),
   ("cleanTags", "1 for c != nil"),
   ("cleanTags", "0 if allowedTag.name != \"\" && !isSelfClosingTag(n)"),
   ("cleanTags", "0 return res"),
   ("getAllowedAttributes", "0 range attributes"),
   ("getAllowedAttributes", "1 if ok"),
   ("getAllowedAttributes", "2 if attr.Val != \"\""),
   ("getAllowedAttributes", "2 else "),
   ("getAllowedAttributes", "0 return res")]

/-- **C14 (the model's tie to the code, by shape).** -/
theorem C14_strip_skeleton : Gen.stripSkeleton_ok = true ∧ Gen.stripSkeleton = expected_stripSkeleton := by
  constructor <;> decide

end Pug.Props.C14
