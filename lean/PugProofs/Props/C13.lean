import PugModel.Tpl.Compile
import PugProofs.Props.C10
import PugProofs.C13.Static
import PugProofs.C13.Deletes
import PugProofs.Props.C06
import PugProofs.Props.C08
/-!
# C13 — debug (pretty-source) mode changes white space only

The only thing debug mode adds to the emitted template is the separator `     {{- "" -}}⏎` after block-level nodes
(`Pug.Tpl.debugSep`, model of transform_tag.go). Proved for ALL neighbouring texts:
* the separator prints nothing (its action prints the empty string),
* its own five blanks and its line break never reach the output,
* what it removes from the neighbouring texts is white space only, at their facing edges, and nothing else changes.
-/
set_option linter.unusedSimpArgs false
namespace Pug.Props.C13
open Pug Pug.Tpl

/-- the separator's action prints the empty string and has both trim markers -/
theorem C13_sep_shape : debugSep = [.text "     ", .act true true (.print (.lit (.str "")) false), .text "\n"] := rfl

theorem dropWhile_isWs_append_ws (ws rest : List Char) (h : ∀ c ∈ ws, isWs c = true) :
    (ws ++ rest).dropWhile isWs = rest.dropWhile isWs := by
  induction ws with
  | nil => rfl
  | cons c r ih =>
    have hc := h c List.mem_cons_self
    simp only [List.cons_append, List.dropWhile_cons, hc, if_true]
    exact ih (fun x hx => h x (List.mem_cons_of_mem _ hx))

/-- the right trim marker of the separator eats its own line break and then only leading white space of the next text -/
theorem C13_sep_right (b : String) : trimLeftWs ("\n" ++ b) = trimLeftWs b := by
  unfold trimLeftWs
  congr 1
  have : ("\n" ++ b).toList = ['\n'] ++ b.toList := by simp [String.toList_append]
  rw [this]
  exact dropWhile_isWs_append_ws ['\n'] b.toList (by simp [isWs])

/-- the left trim marker eats the separator's five blanks and then only trailing white space of the previous text -/
theorem C13_sep_left (a : String) : trimRightWs (a ++ "     ") = trimRightWs a := by
  unfold trimRightWs
  congr 2
  have : (a ++ "     ").toList.reverse = [' ', ' ', ' ', ' ', ' '] ++ a.toList.reverse := by
    simp [String.toList_append]
  rw [this]
  exact dropWhile_isWs_append_ws _ _ (by simp [isWs])

/-- trimming removes white space only: the trimmed text plus a block of white space is the original -/
theorem trimLeft_ws_only (s : List Char) : ∃ ws, (∀ c ∈ ws, isWs c = true) ∧ s = ws ++ s.dropWhile isWs := by
  refine ⟨s.takeWhile isWs, ?_, (List.takeWhile_append_dropWhile).symm⟩
  induction s with
  | nil => simp
  | cons x r ih =>
    intro c hc
    simp only [List.takeWhile_cons] at hc
    split at hc
    · rename_i hx
      rcases List.mem_cons.mp hc with rfl | hc
      · exact hx
      · exact ih c hc
    · cases hc

theorem C13_trim_left_ws_only (b : String) :
    ∃ ws, (∀ c ∈ ws, isWs c = true) ∧ b.toList = ws ++ (trimLeftWs b).toList := by
  obtain ⟨ws, h1, h2⟩ := trimLeft_ws_only b.toList
  exact ⟨ws, h1, by simpa [trimLeftWs] using h2⟩

theorem C13_trim_right_ws_only (a : String) :
    ∃ ws, (∀ c ∈ ws, isWs c = true) ∧ a.toList = (trimRightWs a).toList ++ ws := by
  obtain ⟨ws, h1, h2⟩ := trimLeft_ws_only a.toList.reverse
  refine ⟨ws.reverse, by simpa using h1, ?_⟩
  have := congrArg List.reverse h2
  simpa [trimRightWs] using this

/-- **C13 (local effect of a separator).** Between any two texts `a` and `b`, the fragments
`a ++ separator ++ b` lex to: `a` without trailing white space, an action printing "", `b` without leading white space. -/
theorem C13_sep_effect (a b : String) :
    applyTrims (mergeTexts ([.text a] ++ debugSep ++ [.text b])) =
      [.text (trimRightWs a), .act true true (.print (.lit (.str "")) false), .text (trimLeftWs b)] := by
  simp only [debugSep, List.cons_append, List.nil_append, mergeTexts, applyTrims, if_true]
  rw [C13_sep_left, C13_sep_right]

/-! ## whole static documents, both modes, through the complete model pipeline -/

open Pug.Props.C13S Pug.Props.C06S Pug.Driver in
/-- **C13 (debug mode changes white space only, whole documents).** For EVERY static document (text with any characters, doctype,
attribute-less tags, any nesting, block-level and inline in any mix) and any page data: the model of LoadTemplates + Render with
`Engine.Debug = true` - the transpiler's separators, text merging, the trim markers, the template parser, the executor - succeeds,
and what it prints equals the reference serialisation of the tree once all white space is removed from both. -/
theorem C13_static_debug_render (doc : List Node) (data : Lean.Json) (h : staticListF nodeFuel doc = true) :
    ∃ frags, compileNodes { funcs := engineFuncs ++ [], parserFuncs := engineFuncs ++ [] ++ builtinNames, debug := true } doc = .ok frags ∧
      (frags.length + 2 < 100000000 →
        ∃ w, renderModel doc data [] true = okOut w ∧ stripWs w = stripWs (serListF nodeFuel doc)) := by
  obtain ⟨frags, h1, h2, h3, h4⟩ := compileDoc_static_debug
    { funcs := engineFuncs ++ [], parserFuncs := engineFuncs ++ [] ++ builtinNames, debug := true } rfl doc h
  refine ⟨frags, h1, fun hlen => ?_⟩
  have hm := merge_db frags.length frags (Nat.le_refl _) h2
  have hl := merge_length frags.length frags (Nat.le_refl _)
  have ht := trims_db (mergeTexts frags).length (mergeTexts frags) (Nat.le_refl _) hm.1
  have htl := trims_length (mergeTexts frags)
  have hw := walk_db { defs := [] } (applyTrims (mergeTexts frags)) ht.1 (initState data) 100000000 (by omega)
  have hout : (initState data).out = "" := by
    unfold initState
    split <;> rfl
  refine ⟨dbStr (applyTrims (mergeTexts frags)), ?_, by rw [ht.2, hm.2, h3]⟩
  simp only [renderModel, h4, StateT.run, hw, hout, String.empty_append]

open Pug.Props.C13S Pug.Props.C06S Pug.Driver in
/-- **C13 (the two modes against each other).** Same documents: production mode and debug mode both render, and the two outputs
are identical once all white space is removed. -/
theorem C13_static_modes_agree (doc : List Node) (data : Lean.Json) (h : staticListF nodeFuel doc = true)
    (hsize : ∀ frags debug, compileNodes { funcs := engineFuncs ++ [], parserFuncs := engineFuncs ++ [] ++ builtinNames, debug := debug } doc = .ok frags →
      frags.length + 2 < 100000000) :
    ∃ p d, renderModel doc data [] false = okOut p ∧ renderModel doc data [] true = okOut d ∧ stripWs d = stripWs p := by
  obtain ⟨fp, hp1, hp2⟩ := Pug.Props.C06.C06_static_render doc data h
  obtain ⟨fd, hd1, hd2⟩ := C13_static_debug_render doc data h
  obtain ⟨w, hw1, hw2⟩ := hd2 (hsize fd true hd1)
  exact ⟨_, w, hp2 (hsize fp false hp1), hw1, hw2⟩

/-! non-vacuity: a document with block-level and inline tags, text ending in white space, a void element -/
open Pug.Props.C06S in
example : staticListF 7 [.tag "div" false [] [] [.tag "p" false [] [] [.text "intro "], .tag "br" false [] [] [], .text "Voilà \n"], .text " end "]
    = true := by decide
example : Pug.Props.C13S.stripWs "<div> <p>a b</p>\n</div>" = "<div><p>ab</p></div>" := by decide

/-- **C13 (one compiler state per template file).** The mixin registry, the block counter and the raw-mode flag are created anew for
every template file (extracted control skeleton of `Engine.compileDir`, regenerated on every run): both modes compile a page from its own file alone. -/
theorem C13_compiler_state_per_template :
    (Gen.loadSkeleton.filter fun r => r.2 == "3 new renderState" || r.2 == "0 new renderState" || r.2 == "1 new renderState" ||
      r.2 == "2 new renderState" || r.2 == "4 new renderState") = [("compileDir", "3 new renderState")] :=
  Pug.Props.C10.C10_state_per_template

open Pug.Props.C13S Pug.Props.C13D Pug.Props.C06S Pug.Driver in
/-- **C13 (debug mode only DELETES white space, whole documents).** For EVERY static document and any page data: what the model
of LoadTemplates + Render prints with `Engine.Debug = true` is obtained from the reference serialisation - which is what production
mode prints (`C06_static_render`) - by deleting white-space characters (`WsDel`): debug mode never introduces a character that
production mode does not emit, and never changes one. The separator's own five blanks and line break are always inside what its
trim markers remove (`rel2_out`), and trimming only deletes white space (`wsdel_outR`). -/
theorem C13_static_debug_only_deletes (doc : List Node) (data : Lean.Json) (h : staticListF nodeFuel doc = true) :
    ∃ frags, compileNodes { funcs := engineFuncs ++ [], parserFuncs := engineFuncs ++ [] ++ builtinNames, debug := true } doc = .ok frags ∧
      (frags.length + 2 < 100000000 →
        ∃ w, renderModel doc data [] true = okOut w ∧ WsDel w.toList (serListF nodeFuel doc).toList) := by
  obtain ⟨frags, h1, h2, _, h4⟩ := compileDoc_static_debug
    { funcs := engineFuncs ++ [], parserFuncs := engineFuncs ++ [] ++ builtinNames, debug := true } rfl doc h
  refine ⟨frags, h1, fun hlen => ?_⟩
  have hm := merge_db frags.length frags (Nat.le_refl _) h2
  have hl := merge_length frags.length frags (Nat.le_refl _)
  have ht := trims_db (mergeTexts frags).length (mergeTexts frags) (Nat.le_refl _) hm.1
  have htl := trims_length (mergeTexts frags)
  have hw := walk_db { defs := [] } (applyTrims (mergeTexts frags)) ht.1 (initState data) 100000000 (by omega)
  have hout : (initState data).out = "" := by
    unfold initState
    split <;> rfl
  refine ⟨dbStr (applyTrims (mergeTexts frags)), ?_, debug_out_wsdel _ rfl doc h frags h1 h2⟩
  simp only [renderModel, h4, StateT.run, hw, hout, String.empty_append]

/-- deleting white space is what it says: a concrete instance -/
example : Pug.Props.C13D.WsDel "<p>ab</p>".toList "<p> a b</p>\n".toList := by
  refine .keep _ (.keep _ (.keep _ (.drop _ (by decide) (.keep _ (.drop _ (by decide) (.keep _ (.keep _ (.keep _ (.keep _ (.keep _
    (.drop _ (by decide) .nil)))))))))))

/-- **C13 (no state outlives a render or a compilation in package variables).** The inventory of package-level variables of pugjs and
templatefunctions, regenerated from the Go source on every run, holds nothing but the known entries: no cache, pool, shared empty
object, memo table or once-guard has been added through which one call, one compilation or one render could reach the next (rounds 5-7
of the seeded changes added such a variable five times: a shared empty attributes map, a shared empty array, an AST cache, a buffer
pool). Restated here so that THIS property's check fails on it before any input is drawn. -/
theorem C13_package_state_inventory :
    Gen.pkgState_ok = true ∧ Gen.pkgState.all (fun v => Pug.Props.C08.knownPkgState.contains v) = true :=
  Pug.Props.C08.C08_package_state_inventory

end Pug.Props.C13
