import PugModel.Tpl.Compile
/-!
# C13 — debug (pretty-source) mode changes white space only

The only thing debug mode adds to the emitted template is the separator `     {{- "" -}}⏎` after block-level nodes
(`Pug.Tpl.debugSep`, model of transform_tag.go). Proved for ALL neighbouring texts:
* the separator prints nothing (its action prints the empty string),
* its own five blanks and its line break never reach the output,
* what it removes from the neighbouring texts is white space only, at their facing edges, and nothing else changes.
-/
set_option linter.unusedSimpArgs false
namespace Pug.Props.C13
open Pug Pug.Tpl

/-- the separator's action prints the empty string and has both trim markers -/
theorem C13_sep_shape : debugSep = [.text "     ", .act true true (.print (.lit (.str "")) false), .text "\n"] := rfl

theorem dropWhile_isWs_append_ws (ws rest : List Char) (h : ∀ c ∈ ws, isWs c = true) :
    (ws ++ rest).dropWhile isWs = rest.dropWhile isWs := by
  induction ws with
  | nil => rfl
  | cons c r ih =>
    have hc := h c List.mem_cons_self
    simp only [List.cons_append, List.dropWhile_cons, hc, if_true]
    exact ih (fun x hx => h x (List.mem_cons_of_mem _ hx))

/-- the right trim marker of the separator eats its own line break and then only leading white space of the next text -/
theorem C13_sep_right (b : String) : trimLeftWs ("\n" ++ b) = trimLeftWs b := by
  unfold trimLeftWs
  congr 1
  have : ("\n" ++ b).toList = ['\n'] ++ b.toList := by simp [String.toList_append]
  rw [this]
  exact dropWhile_isWs_append_ws ['\n'] b.toList (by simp [isWs])

/-- the left trim marker eats the separator's five blanks and then only trailing white space of the previous text -/
theorem C13_sep_left (a : String) : trimRightWs (a ++ "     ") = trimRightWs a := by
  unfold trimRightWs
  congr 2
  have : (a ++ "     ").toList.reverse = [' ', ' ', ' ', ' ', ' '] ++ a.toList.reverse := by
    simp [String.toList_append]
  rw [this]
  exact dropWhile_isWs_append_ws _ _ (by simp [isWs])

/-- trimming removes white space only: the trimmed text plus a block of white space is the original -/
theorem trimLeft_ws_only (s : List Char) : ∃ ws, (∀ c ∈ ws, isWs c = true) ∧ s = ws ++ s.dropWhile isWs := by
  refine ⟨s.takeWhile isWs, ?_, (List.takeWhile_append_dropWhile).symm⟩
  induction s with
  | nil => simp
  | cons x r ih =>
    intro c hc
    simp only [List.takeWhile_cons] at hc
    split at hc
    · rename_i hx
      rcases List.mem_cons.mp hc with rfl | hc
      · exact hx
      · exact ih c hc
    · cases hc

theorem C13_trim_left_ws_only (b : String) :
    ∃ ws, (∀ c ∈ ws, isWs c = true) ∧ b.toList = ws ++ (trimLeftWs b).toList := by
  obtain ⟨ws, h1, h2⟩ := trimLeft_ws_only b.toList
  exact ⟨ws, h1, by simpa [trimLeftWs] using h2⟩

theorem C13_trim_right_ws_only (a : String) :
    ∃ ws, (∀ c ∈ ws, isWs c = true) ∧ a.toList = (trimRightWs a).toList ++ ws := by
  obtain ⟨ws, h1, h2⟩ := trimLeft_ws_only a.toList.reverse
  refine ⟨ws.reverse, by simpa using h1, ?_⟩
  have := congrArg List.reverse h2
  simpa [trimRightWs] using this

/-- **C13 (local effect of a separator).** Between any two texts `a` and `b`, the fragments
`a ++ separator ++ b` lex to: `a` without trailing white space, an action printing "", `b` without leading white space. -/
theorem C13_sep_effect (a b : String) :
    applyTrims (mergeTexts ([.text a] ++ debugSep ++ [.text b])) =
      [.text (trimRightWs a), .act true true (.print (.lit (.str "")) false), .text (trimLeftWs b)] := by
  simp only [debugSep, List.cons_append, List.nil_append, mergeTexts, applyTrims, if_true]
  rw [C13_sep_left, C13_sep_right]

end Pug.Props.C13
