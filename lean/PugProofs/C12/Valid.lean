import PugModel.Data.JsonDecode
import PugProofs.C12.Str
/-!
Value level: for EVERY heap value the model's `json.Marshal` produces a text that is derivable in the JSON grammar (RFC 8259,
no insignificant white space) FOR the value the model's own traversal reads from the heap - arrays element by element, objects
member by member in the encoder's key order, every string (values and keys) decoding back to exactly its characters.
-/
set_option linter.unusedSimpArgs false
namespace Pug.Props.C12V
open Pug Pug.Tpl Pug.Data

/-- JSON values; a number is kept as its text -/
inductive J where
  | null
  | bool (b : Bool)
  | num (text : String)
  | str (s : List Char)
  | arr (items : List J)
  | obj (members : List (List Char × J))

/-! the grammar, as relations between a text and the value it denotes -/
mutual
inductive IsJson : List Char → J → Prop
  | null : IsJson "null".toList .null
  | tt : IsJson "true".toList (.bool true)
  | ff : IsJson "false".toList (.bool false)
  | num (t : String) : IsJson t.toList (.num t)
  | str (body s : List Char) : decodeBody body = some s → IsJson ('"' :: body ++ ['"']) (.str s)
  | arr0 : IsJson "[]".toList (.arr [])
  | arr {cs : List Char} {js : List J} : IsElems cs js → IsJson ('[' :: cs ++ [']']) (.arr js)
  | obj0 : IsJson "{}".toList (.obj [])
  | obj {cs : List Char} {ms : List (List Char × J)} : IsMembers cs ms → IsJson ('{' :: cs ++ ['}']) (.obj ms)
inductive IsElems : List Char → List J → Prop
  | one {c : List Char} {j : J} : IsJson c j → IsElems c [j]
  | cons {c cs : List Char} {j : J} {js : List J} : IsJson c j → IsElems cs js → IsElems (c ++ ',' :: cs) (j :: js)
inductive IsMembers : List Char → List (List Char × J) → Prop
  | one {kb k c : List Char} {j : J} : decodeBody kb = some k → IsJson c j → IsMembers ('"' :: kb ++ '"' :: ':' :: c) [(k, j)]
  | cons {kb k c cs : List Char} {j : J} {ms : List (List Char × J)} : decodeBody kb = some k → IsJson c j → IsMembers cs ms →
      IsMembers (('"' :: kb ++ '"' :: ':' :: c) ++ ',' :: cs) ((k, j) :: ms)
end

/-- the value the model reads from the heap (the traversal `marshal` makes, building the tree instead of the text) -/
def valOf (h : Heap) : Nat → Val → Option J
  | 0, _ => none
  | fuel + 1, v =>
    match v with
    | .nil => some .null
    | .invalid => some .null
    | .B b => some (.bool b)
    | .bool b => some (.bool b)
    | .N q => (jsonNum q).map .num
    | .flt q => (jsonNum q).map .num
    | .int i => some (.num (toString i))
    | .S s => some (.str s.toList)
    | .str s => some (.str s.toList)
    | .host _ => some (.obj [])
    | .attrs _ => none
    | .bblock _ => none
    | .arr a => ((h.getArr a).mapM (valOf h fuel)).map .arr
    | .map a =>
      let m := h.getMap a
      let items := m.items.map fun (k, v) => (lowerFirst k, v)
      let keys := sortKeys (items.map (·.1))
      (keys.mapM (fun k => match assocGet items.reverse k with
          | some v => (valOf h fuel v).map (fun j => (k.toList, j))
          | none => none)).map .obj


open Pug.Props.C12S

/-! ## strings, lists of parts -/

theorem isJson_string (s : String) : IsJson (jsonString s).toList (.str s.toList) := by
  have : (jsonString s).toList = '"' :: s.toList.flatMap jsonEscChar ++ ['"'] := by
    simp [jsonString, jsonStringChars]
  rw [this]
  exact .str _ _ (string_roundtrip s.toList)

/-- element texts and the values they denote, pairwise -/
inductive Pairs {β : Type} (R : String → β → Prop) : List String → List β → Prop
  | nil : Pairs R [] []
  | cons {p : String} {y : β} {ps : List String} {ys : List β} : R p y → Pairs R ps ys → Pairs R (p :: ps) (y :: ys)

theorem mapM_pairs {α β : Type} (f : α → Option String) (g : α → Option β) (R : String → β → Prop)
    (H : ∀ x s, f x = some s → ∃ y, g x = some y ∧ R s y) :
    ∀ (l : List α) (parts : List String), l.mapM f = some parts → ∃ ys, l.mapM g = some ys ∧ Pairs R parts ys := by
  intro l
  induction l with
  | nil =>
    intro parts h
    simp at h
    subst h
    exact ⟨[], by simp, .nil⟩
  | cons x rest ih =>
    intro parts h
    simp only [List.mapM_cons, bind, Option.bind] at h
    cases hx : f x with
    | none => simp [hx] at h
    | some sx =>
      cases hr : rest.mapM f with
      | none => simp [hx, hr] at h
      | some ps =>
        simp [hx, hr, pure] at h
        subst h
        obtain ⟨y, gy, ry⟩ := H x sx hx
        obtain ⟨ys, gys, rys⟩ := ih ps hr
        exact ⟨y :: ys, by simp [List.mapM_cons, gy, gys, bind, Option.bind, pure], .cons ry rys⟩

theorem elems_of_pairs : ∀ (parts : List String) (js : List J), Pairs (fun s j => IsJson s.toList j) parts js → parts ≠ [] →
    IsElems (",".intercalate parts).toList js := by
  intro parts
  induction parts with
  | nil => intro js _ h; exact absurd rfl h
  | cons p rest ih =>
    intro js hp _
    cases hp with
    | cons h1 h2 =>
      cases rest with
      | nil =>
        cases h2
        simpa using IsElems.one h1
      | cons q r =>
        have := ih _ h2 (by simp)
        have e : (",".intercalate (p :: q :: r)).toList = p.toList ++ ',' :: (",".intercalate (q :: r)).toList := by
          rw [String.intercalate_cons_cons]
          simp [String.toList_append]
        rw [e]
        exact .cons h1 this

theorem isJson_array (parts : List String) (js : List J) (h : Pairs (fun s j => IsJson s.toList j) parts js) :
    IsJson ("[" ++ ",".intercalate parts ++ "]").toList (.arr js) := by
  cases parts with
  | nil =>
    cases h
    simpa using IsJson.arr0
  | cons p rest =>
    have := elems_of_pairs (p :: rest) js h (by simp)
    have e : ("[" ++ ",".intercalate (p :: rest) ++ "]").toList = '[' :: (",".intercalate (p :: rest)).toList ++ [']'] := by
      simp [String.toList_append]
    rw [e]
    exact .arr this

/-- member texts `"key":value` and the members they denote -/
def MemR (s : String) (m : List Char × J) : Prop :=
  ∃ (k : String) (c : String), s = jsonString k ++ ":" ++ c ∧ m.1 = k.toList ∧ IsJson c.toList m.2

theorem member_text (k c : String) :
    (jsonString k ++ ":" ++ c).toList = '"' :: k.toList.flatMap jsonEscChar ++ '"' :: ':' :: c.toList := by
  simp [jsonString, jsonStringChars, String.toList_append]

theorem members_of_pairs : ∀ (parts : List String) (ms : List (List Char × J)), Pairs MemR parts ms → parts ≠ [] →
    IsMembers (",".intercalate parts).toList ms := by
  intro parts
  induction parts with
  | nil => intro ms _ h; exact absurd rfl h
  | cons p rest ih =>
    intro ms hp _
    cases hp with
    | @cons _ m _ ms' h1 h2 =>
      obtain ⟨k, c, rfl, hk, hc⟩ := h1
      obtain ⟨mk, mj⟩ := m
      simp only at hk hc
      subst hk
      cases rest with
      | nil =>
        cases h2
        rw [String.intercalate_singleton, member_text]
        exact .one (string_roundtrip k.toList) hc
      | cons q r =>
        have := ih _ h2 (by simp)
        have e : (",".intercalate ((jsonString k ++ ":" ++ c) :: q :: r)).toList =
            ('"' :: k.toList.flatMap jsonEscChar ++ '"' :: ':' :: c.toList) ++ ',' :: (",".intercalate (q :: r)).toList := by
          rw [String.intercalate_cons_cons]
          have hjs : (jsonString k).toList = '"' :: k.toList.flatMap jsonEscChar ++ ['"'] := by simp [jsonString, jsonStringChars]
          simp [String.toList_append, hjs]
        rw [e]
        exact .cons (string_roundtrip k.toList) hc this

theorem isJson_object (parts : List String) (ms : List (List Char × J)) (h : Pairs MemR parts ms) :
    IsJson ("{" ++ ",".intercalate parts ++ "}").toList (.obj ms) := by
  cases parts with
  | nil =>
    cases h
    simpa using IsJson.obj0
  | cons p rest =>
    have := members_of_pairs (p :: rest) ms h (by simp)
    have e : ("{" ++ ",".intercalate (p :: rest) ++ "}").toList = '{' :: (",".intercalate (p :: rest)).toList ++ ['}'] := by
      simp [String.toList_append]
    rw [e]
    exact .obj this

/-! named pieces of the object case (so that both traversals can be unfolded to the same shape) -/

def mapItems (h : Heap) (a : Nat) : List (String × Val) := (h.getMap a).items.map fun (k, v) => (lowerFirst k, v)

def memText (h : Heap) (fuel : Nat) (items : List (String × Val)) (k : String) : Option String :=
  match assocGet items.reverse k with
  | some v => (marshal h fuel v).map (fun s => jsonString k ++ ":" ++ s)
  | none => none

def memVal (h : Heap) (fuel : Nat) (items : List (String × Val)) (k : String) : Option (List Char × J) :=
  match assocGet items.reverse k with
  | some v => (valOf h fuel v).map (fun j => (k.toList, j))
  | none => none

theorem marshal_map (h : Heap) (fuel : Nat) (a : Nat) :
    marshal h (fuel + 1) (.map a) =
      match (sortKeys ((mapItems h a).map (·.1))).mapM (memText h fuel (mapItems h a)) with
      | none => none
      | some parts => some ("{" ++ ",".intercalate parts ++ "}") := rfl

theorem valOf_map (h : Heap) (fuel : Nat) (a : Nat) :
    valOf h (fuel + 1) (.map a) =
      ((sortKeys ((mapItems h a).map (·.1))).mapM (memVal h fuel (mapItems h a))).map .obj := rfl

/-! ## the theorem -/

theorem marshal_valid : ∀ (fuel : Nat) (h : Heap) (v : Val) (s : String), marshal h fuel v = some s →
    ∃ j, valOf h fuel v = some j ∧ IsJson s.toList j := by
  intro fuel
  induction fuel with
  | zero => intro h v s hm; simp [marshal] at hm
  | succ fuel ih =>
    intro h v s hm
    cases v with
    | nil => simp [marshal] at hm; subst hm; exact ⟨.null, rfl, .null⟩
    | invalid => simp [marshal] at hm; subst hm; exact ⟨.null, rfl, .null⟩
    | B b =>
      simp [marshal] at hm; subst hm
      cases b
      · exact ⟨.bool false, rfl, .ff⟩
      · exact ⟨.bool true, rfl, .tt⟩
    | bool b =>
      simp [marshal] at hm; subst hm
      cases b
      · exact ⟨.bool false, rfl, .ff⟩
      · exact ⟨.bool true, rfl, .tt⟩
    | N q => simp only [marshal] at hm; exact ⟨.num s, by simp [valOf, hm], .num s⟩
    | flt q => simp only [marshal] at hm; exact ⟨.num s, by simp [valOf, hm], .num s⟩
    | int i => simp [marshal] at hm; subst hm; exact ⟨.num (toString i), rfl, .num _⟩
    | S t => simp [marshal] at hm; subst hm; exact ⟨.str t.toList, rfl, isJson_string t⟩
    | str t => simp [marshal] at hm; subst hm; exact ⟨.str t.toList, rfl, isJson_string t⟩
    | host n => simp [marshal] at hm; subst hm; exact ⟨.obj [], rfl, .obj0⟩
    | attrs l => simp [marshal] at hm
    | bblock n => simp [marshal] at hm
    | arr a =>
      simp only [marshal] at hm
      cases hp : (h.getArr a).mapM (marshal h fuel) with
      | none => simp [hp] at hm
      | some parts =>
        simp [hp] at hm; subst hm
        obtain ⟨js, g1, g2⟩ := mapM_pairs (marshal h fuel) (valOf h fuel) (fun s j => IsJson s.toList j)
          (fun x s hx => ih h x s hx) (h.getArr a) parts hp
        exact ⟨.arr js, by simp [valOf, g1], isJson_array parts js g2⟩
    | map a =>
      rw [marshal_map] at hm
      cases hp : (sortKeys ((mapItems h a).map (·.1))).mapM (memText h fuel (mapItems h a)) with
      | none => simp [hp] at hm
      | some parts =>
        simp [hp] at hm; subst hm
        obtain ⟨ms, g1, g2⟩ := mapM_pairs (memText h fuel (mapItems h a)) (memVal h fuel (mapItems h a)) MemR
          (fun k s hk => by
            unfold memText at hk
            cases hv : assocGet (mapItems h a).reverse k with
            | none => simp [hv] at hk
            | some v =>
              simp only [hv] at hk
              cases hmv : marshal h fuel v with
              | none => simp [hmv] at hk
              | some c =>
                simp [hmv] at hk
                obtain ⟨j, j1, j2⟩ := ih h v c hmv
                exact ⟨(k.toList, j), by simp [memVal, hv, j1], k, c, hk.symm, rfl, j2⟩)
          (sortKeys ((mapItems h a).map (·.1))) parts hp
        exact ⟨.obj ms, by rw [valOf_map]; simp [g1], isJson_object parts ms g2⟩

end Pug.Props.C12V
