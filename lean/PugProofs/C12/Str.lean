import PugModel.Data.JsonDecode
/-! helper lemmas of the string round trip (used by Props/C12 and by the value-level theorem) -/
set_option linter.unusedSimpArgs false
namespace Pug.Props.C12S
open Pug Pug.Data

theorem hexVal_hexDigit (d : Nat) (h : d < 16) : hexVal (hexDigit d) = some d := by
  have : d = 0 ∨ d = 1 ∨ d = 2 ∨ d = 3 ∨ d = 4 ∨ d = 5 ∨ d = 6 ∨ d = 7 ∨ d = 8 ∨ d = 9 ∨ d = 10 ∨ d = 11 ∨ d = 12 ∨
      d = 13 ∨ d = 14 ∨ d = 15 := by omega
  rcases this with h | h | h | h | h | h | h | h | h | h | h | h | h | h | h | h <;> subst h <;> decide

/-- the four hex digits of `n < 65536` denote `n` -/
theorem hex4_value (n : Nat) (h : n < 65536) :
    (n / 4096 % 16) * 4096 + (n / 256 % 16) * 256 + (n / 16 % 16) * 16 + n % 16 = n := by omega

/-- decoding a `\uXXXX` escape of a BMP character -/
theorem decode_u (c : Char) (rest : List Char) (hc : c.toNat < 65536) :
    decodeBody ('\\' :: 'u' :: hex4 c.toNat ++ rest) = (decodeBody rest).map (c :: ·) := by
  simp only [hex4, List.cons_append, List.nil_append, decodeBody]
  rw [hexVal_hexDigit _ (Nat.mod_lt _ (by decide)), hexVal_hexDigit _ (Nat.mod_lt _ (by decide)),
    hexVal_hexDigit _ (Nat.mod_lt _ (by decide)), hexVal_hexDigit _ (Nat.mod_lt _ (by decide))]
  cases hr : decodeBody rest <;> simp [hex4_value _ hc, Char.ofNat_toNat]

/-- per character: the escape decodes to the character -/
theorem decode_escChar (c : Char) (rest : List Char) :
    decodeBody (jsonEscChar c ++ rest) = (decodeBody rest).map (c :: ·) := by
  unfold jsonEscChar
  split
  · rename_i h; have : c = '"' := by simpa using h
    subst this; cases hr : decodeBody rest <;> simp [decodeBody, hr]
  split
  · rename_i h; have : c = '\\' := by simpa using h
    subst this; cases hr : decodeBody rest <;> simp [decodeBody, hr]
  split
  · rename_i h; have : c = '\n' := by simpa using h
    subst this; cases hr : decodeBody rest <;> simp [decodeBody, hr]
  split
  · rename_i h; have : c = '\r' := by simpa using h
    subst this; cases hr : decodeBody rest <;> simp [decodeBody, hr]
  split
  · rename_i h; have : c = '\t' := by simpa using h
    subst this; cases hr : decodeBody rest <;> simp [decodeBody, hr]
  split
  · rename_i h
    have h8 : c.toNat = 8 := by simpa using h
    have : c = Char.ofNat 8 := by rw [← h8, Char.ofNat_toNat]
    subst this; cases hr : decodeBody rest <;> simp [decodeBody, hr]
  split
  · rename_i h
    have h12 : c.toNat = 12 := by simpa using h
    have : c = Char.ofNat 12 := by rw [← h12, Char.ofNat_toNat]
    subst this; cases hr : decodeBody rest <;> simp [decodeBody, hr]
  split
  · rename_i h
    have hlt : c.toNat < 65536 := by
      simp only [Bool.or_eq_true, decide_eq_true_eq, beq_iff_eq] at h
      rcases h with ((((((h | h) | h) | h) | h) | h)) <;> first | omega | (subst h; decide)
    simpa using decode_u c rest hlt
  · -- an ordinary character: not a quote, not a backslash, not a control character
    rename_i h1 h2 h3 h4 h5 h6 h7 h8
    have hq : c ≠ '"' := by simpa using h1
    have hb : c ≠ '\\' := by simpa using h2
    have hctl : ¬ c.toNat < 0x20 := by
      simp only [Bool.or_eq_true, decide_eq_true_eq, beq_iff_eq, not_or] at h8
      exact h8.1.1.1.1.1
    cases rest with
    | nil => simp [decodeBody, hq, hb, hctl]
    | cons d r2 =>
      -- the first two clauses need `c = '\\'`
      have : decodeBody (c :: d :: r2) = if c = '"' ∨ c = '\\' ∨ c.toNat < 0x20 then none else (decodeBody (d :: r2)).map (c :: ·) := by
        conv => lhs; unfold decodeBody
        split <;> first
          | rfl
          | (rename_i heq; cases heq; exact absurd rfl hb)
          | (rename_i heq; injection heq with h1 h2; exact absurd h1.symm hb)
          | simp_all
      simp [this, hq, hb, hctl]

/-- for every string, the RFC 8259 decoding of the encoded body is the string -/
theorem string_roundtrip (s : List Char) : decodeBody (s.flatMap jsonEscChar) = some s := by
  induction s with
  | nil => simp [decodeBody]
  | cons c rest ih =>
    simp only [List.flatMap_cons]
    rw [decode_escChar, ih]; rfl

end Pug.Props.C12S
