import PugProofs.C02.IfDoc
/-!
`each v in xs` with a static body, through transpiler, merge, trim, nesting and executor: the body is printed once per element
of the array the collection variable holds - no more, no fewer - whatever the elements are.
-/
set_option linter.unusedSimpArgs false
namespace Pug.Props.C02E
open Pug Pug.Tpl Pug.JS Pug.Props.C01S Pug.Props.C06S Pug.Props.C02D

def rangeA (v : String) (t : TExpr) : Frag := .act false true (.range [v] t)

/-! ## trims and nesting -/

theorem trims_each (v : String) (t : TExpr) (A : List Frag) (hA : Plain A) :
    applyTrims ([rangeA v t] ++ A ++ [endA]) = [rangeA v t] ++ trimHead A ++ [endA] := by
  have e1 : [rangeA v t] ++ A ++ [endA] = rangeA v t :: (A ++ [endA]) := by simp
  rw [e1, rangeA, trims_marker, ← rangeA]
  have e3 : trimHead (A ++ [endA]) = trimHead A ++ .act false true .end_ :: [] := by
    rw [endA, trimHead_append_act]
  rw [e3, trims_plain_then _ (trimHead A) true .end_ [] (Nat.le_refl _) (trimHead_plain hA), trims_marker]
  simp [applyTrims, trimHead, endA]

theorem parse_each (v : String) (t : TExpr) (A : List Frag) (hA : Plain A) (fuel : Nat) (hf : A.length + 4 ≤ fuel) :
    parseListF fuel ([rangeA v t] ++ A ++ [endA]) = .ok ([.range [v] t (nodesOf A)], .eof, []) := by
  obtain ⟨k, rfl⟩ : ∃ k, fuel = k + A.length + 4 := ⟨fuel - (A.length + 4), by omega⟩
  have hEnd : parseListF (k + 2 + 1) (endA :: []) = .ok ([], .end_, []) := by
    simp [parseListF, endA, pure, Except.pure]
  have hA' := parse_plain_then A hA (k + 3) [endA] [] .end_ [] hEnd
  have e0 : [rangeA v t] ++ A ++ [endA] = rangeA v t :: (A ++ [endA]) := by simp
  rw [e0, show k + A.length + 4 = (k + 3 + A.length) + 1 by omega, rangeA, parseListF]
  simp only [bind, Except.bind, hA']
  have hnil : parseListF (k + 3 + A.length) [] = .ok ([], .eof, []) := by
    rw [show k + 3 + A.length = (k + 2 + A.length) + 1 by omega]
    simp [parseListF, pure, Except.pure]
  simp [hnil, pure, Except.pure]

theorem parseBody_each (v : String) (t : TExpr) (A : List Frag) (hA : Plain A) :
    parseBody ([rangeA v t] ++ A ++ [endA]) = .ok [.range [v] t (nodesOf (trimHead (mergeTexts A)))] := by
  have mA := merge_plain A.length A (Nat.le_refl _) hA
  have hm : mergeTexts ([rangeA v t] ++ A ++ [endA]) = [rangeA v t] ++ mergeTexts A ++ [endA] := by
    have e1 : [rangeA v t] ++ A ++ [endA] = rangeA v t :: (A ++ .act false true .end_ :: []) := by simp [endA]
    rw [e1]
    have h0 : ∀ X, mergeTexts (rangeA v t :: X) = rangeA v t :: mergeTexts X := by intro X; simp [mergeTexts, rangeA]
    rw [h0, merge_split _ A false true .end_ [] (Nat.le_refl _) hA]
    simp [mergeTexts, endA]
  have ht := trims_each v t (mergeTexts A) mA.1
  have hp := parse_each v t (trimHead (mergeTexts A)) (trimHead_plain mA.1)
    (2 * ([rangeA v t] ++ trimHead (mergeTexts A) ++ [endA]).length + 2) (by simp; omega)
  simp only [parseBody, parseList, hm, ht, hp, bind, Except.bind, pure, Except.pure]

theorem nobd_each (v : String) (t : TExpr) (A : List Frag) (hA : Plain A) : noBD ([rangeA v t] ++ A ++ [endA]) := by
  intro f hf m b hfb
  subst hfb
  simp only [List.mem_append, List.mem_singleton, rangeA, endA] at hf
  rcases hf with (h | h) | h
  · cases h
  · exact plain_noBD hA _ h m b rfl
  · cases h

theorem collect_each (fuel sf : Nat) (v k : String) (obj : JS.Expr) (kids : List Node) (hk : staticListF sf kids = true) :
    collectMixinDefsF fuel [Node.each v k obj kids] = [] := by
  cases fuel with
  | zero => rfl
  | succ f =>
    have h1 := collect_static f sf kids hk
    cases f with
    | zero => simp [collectMixinDefsF]
    | succ f' => simp [collectMixinDefsF, h1]

/-- the whole transpiler on `each v in x` over a static body -/
theorem compileDoc_each (env : CEnv) (hd : env.debug = false) (x v : String) (hx : env.funcs.contains x = false)
    (kids : List Node) (hk : staticListF 99998 kids = true) :
    ∃ A, compileNodesF 99998 env kids = .ok A ∧ Plain A ∧ fragsStr A = serListF 99998 kids ∧
      compileDoc env [.each v "" (.ident x) kids] =
        .ok { main := [.range [v] (.var x) (nodesOf (trimHead (mergeTexts A)))], defs := [] } := by
  obtain ⟨A, a1, a2, a3⟩ := (compile_static env hd 99998).2 kids hk
  refine ⟨A, a1, a2, a3, ?_⟩
  have hc : compileExpr env (SExpr.var x).toExpr = .ok (some (tr (.var x))) :=
    compile_scalar env (.var x) (by simpa [WF] using hx) exprFuel (by simp [exprFuel, SExpr.depth])
  have hc' : compileExpr env (.ident x) = .ok (some (.var x)) := by simpa [SExpr.toExpr, tr] using hc
  have hnode : compileNodeF (99998 + 1) env (.each v "" (.ident x) kids) = .ok ([rangeA v (.var x)] ++ A ++ [endA]) := by
    simp [compileNodeF, hc', a1, rangeA, endA, bind, Except.bind, pure, Except.pure]
  have hn : compileNodes env [.each v "" (.ident x) kids] = .ok ([rangeA v (.var x)] ++ A ++ [endA]) := by
    show compileNodesF (99999 + 1) env _ = _
    rw [compileNodesF_single, show (99999 : Nat) = 99998 + 1 from rfl, hnode]
    rfl
  have hcol : collectMixinDefs [Node.each v "" (.ident x) kids] = [] := collect_each fragFuel 99998 _ _ _ kids hk
  have hh : hoistBlocks ([rangeA v (.var x)] ++ A ++ [endA]) 0 = ([rangeA v (.var x)] ++ A ++ [endA], [], 0) :=
    hoist_nobd fragFuel _ 0 (nobd_each v (.var x) A a2)
  have hpb := parseBody_each v (.var x) A a2
  have eL : [rangeA v (.var x)] ++ A ++ [endA] = rangeA v (.var x) :: (A ++ [endA]) := by simp
  rw [eL] at hn hh hpb
  simp [compileDoc, hn, hcol, hh, hpb, bind, Except.bind, pure, Except.pure]

/-! ## execution: once per element -/

def rep (s : String) : Nat → String
  | 0 => ""
  | n + 1 => s ++ rep s n

/-- the loop over the elements: each iteration binds the variable and prints the body -/
theorem walkItems_static (env : Tpl.Env) (v : String) (M : List Frag) (hM : Plain M) :
    ∀ (items : List (Val × Val)) (fuel : Nat) (st : St), items.length + M.length + 3 < fuel →
      ∃ st', walkItems fuel env [v] (nodesOf M) items st = .ok ((), st') ∧
        st'.out = st.out ++ rep (fragsStr M) items.length ∧ st'.heap = st.heap := by
  intro items
  induction items with
  | nil =>
    intro fuel st hf
    obtain ⟨f, rfl⟩ : ∃ f, fuel = f + 1 := ⟨fuel - 1, by omega⟩
    exact ⟨st, by simp [walkItems, pure, StateT.pure, Except.pure], by simp [rep], rfl⟩
  | cons it rest ih =>
    intro fuel st hf
    obtain ⟨f, rfl⟩ : ∃ f, fuel = f + 1 := ⟨fuel - 1, by omega⟩
    obtain ⟨i, x⟩ := it
    have hb := walk_nodes env M hM { st with vars := setVarIn st.vars ("$" ++ v) x } f (by simp at hf; omega)
    obtain ⟨st', h1, h2, h3⟩ := ih f
      { st with vars := setVarIn st.vars ("$" ++ v) x, out := st.out ++ fragsStr M } (by simp at hf; omega)
    refine ⟨st', ?_, ?_, ?_⟩
    · simp only [walkItems, setVar, bind, StateT.bind, modify, modifyGet, MonadStateOf.modifyGet, StateT.modifyGet, pure,
        Except.pure, Except.bind, hb]
      exact h1
    · simp [h2, rep, String.append_assoc]
    · simpa using h3

end Pug.Props.C02E
