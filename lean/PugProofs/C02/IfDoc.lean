import PugProofs.C06.Static
import PugProofs.C01.EndToEnd
/-!
A conditional with a scalar test and static branches, through the whole pipeline: transpile -> merge -> trim -> nest -> execute
renders exactly the selected branch (its first text without the leading white space the `if` / `else` marker trims).
-/
set_option linter.unusedSimpArgs false
namespace Pug.Props.C02D
open Pug Pug.Tpl Pug.JS Pug.Props.C01S Pug.Props.C06S

def ifA (t : TExpr) : Frag := .act false true (.ifStart t)
def elseA : Frag := .act false true .else_
def endA : Frag := .act false true .end_

/-! ## mergeTexts does not look across an action -/

theorem merge_split (n : Nat) : ∀ (P : List Frag) (lt rt : Bool) (a : Act) (R : List Frag), P.length ≤ n → Plain P →
    mergeTexts (P ++ .act lt rt a :: R) = mergeTexts P ++ .act lt rt a :: mergeTexts R := by
  induction n with
  | zero =>
    intro P lt rt a R hl _
    have : P = [] := List.length_eq_zero_iff.mp (by omega)
    subst this
    simp [mergeTexts]
  | succ n ih =>
    intro P lt rt a R hl hp
    match P, hl, hp with
    | [], _, _ => simp [mergeTexts]
    | [.text x], _, _ => simp [mergeTexts]
    | .text x :: .text y :: rest, hl, hp =>
      have hp' : Plain (Frag.text (x ++ y) :: rest) := by
        rw [plain_cons] at hp ⊢
        exact ⟨rfl, (plain_cons.mp hp.2).2⟩
      have := ih (.text (x ++ y) :: rest) lt rt a R (by simp at hl ⊢; omega) hp'
      simpa [mergeTexts] using this
    | .text x :: .act l2 r2 b :: rest, hl, hp =>
      have := ih rest lt rt a R (by simp at hl; omega) (plain_cons.mp (plain_cons.mp hp).2).2
      simp [mergeTexts, this]
    | .text x :: .blockDef m b :: rest, _, hp =>
      have := (plain_cons.mp (plain_cons.mp hp).2).1
      simp [plainB] at this
    | .blockDef m b :: rest, _, hp =>
      have := (plain_cons.mp hp).1
      simp [plainB] at this
    | .act l2 r2 b :: rest, hl, hp =>
      have := ih rest lt rt a R (by simp at hl; omega) (plain_cons.mp hp).2
      simp [mergeTexts, this]

/-! ## applyTrims: a right-trim marker trims the first text behind it; plain stretches are left alone -/

def trimHead : List Frag → List Frag
  | .text t :: r => .text (trimLeftWs t) :: r
  | l => l

theorem trimHead_plain {M : List Frag} (h : Plain M) : Plain (trimHead M) := by
  cases M with
  | nil => exact h
  | cons f r =>
    cases f with
    | text t => exact plain_cons.mpr ⟨rfl, (plain_cons.mp h).2⟩
    | act lt rt a => exact h
    | blockDef m b => exact h

/-- a plain stretch in front of an action without a left trim marker passes unchanged -/
theorem trims_plain_then (n : Nat) : ∀ (M : List Frag) (rt : Bool) (a : Act) (R : List Frag), M.length ≤ n → Plain M →
    applyTrims (M ++ .act false rt a :: R) = M ++ applyTrims (.act false rt a :: R) := by
  induction n with
  | zero =>
    intro M rt a R hl _
    have : M = [] := List.length_eq_zero_iff.mp (by omega)
    subst this; rfl
  | succ n ih =>
    intro M rt a R hl hp
    match M, hl, hp with
    | [], _, _ => rfl
    | [.text x], _, _ => simp [applyTrims]
    | .text x :: .text y :: rest, hl, hp =>
      have := ih (.text y :: rest) rt a R (by simp at hl ⊢; omega) (plain_cons.mp hp).2
      simp only [List.cons_append] at this ⊢
      simp [applyTrims, this]
    | .text x :: .act l2 r2 b :: rest, hl, hp =>
      have hp' := (plain_cons.mp hp).2
      obtain ⟨rfl, rfl, rfl⟩ := plain_act (plain_cons.mp hp').1
      have := ih (.act false false (.print (.lit (.str "{")) false) :: rest) rt a R (by simp at hl ⊢; omega) hp'
      simp only [List.cons_append] at this ⊢
      simp [applyTrims, this]
    | .text x :: .blockDef m b :: rest, _, hp =>
      have := (plain_cons.mp (plain_cons.mp hp).2).1
      simp [plainB] at this
    | .blockDef m b :: rest, _, hp =>
      have := (plain_cons.mp hp).1
      simp [plainB] at this
    | .act l2 r2 b :: rest, hl, hp =>
      obtain ⟨rfl, rfl, rfl⟩ := plain_act (plain_cons.mp hp).1
      have := ih rest rt a R (by simp at hl; omega) (plain_cons.mp hp).2
      cases rest with
      | nil => simp only [List.nil_append] at this ⊢; simp [applyTrims]
      | cons f r =>
        simp only [List.cons_append] at this ⊢
        cases f <;> simp_all [applyTrims]

/-- a right-trim marker in front of a stretch -/
theorem trims_marker (lt : Bool) (a : Act) (L : List Frag) :
    applyTrims (.act lt true a :: L) = .act lt true a :: applyTrims (trimHead L) := by
  cases L with
  | nil => simp [applyTrims, trimHead]
  | cons f r =>
    cases f with
    | text t => simp [applyTrims, trimHead]
    | act l2 r2 b => simp [applyTrims, trimHead]
    | blockDef m b => simp [applyTrims, trimHead]

theorem trimHead_append_act (M : List Frag) (lt rt : Bool) (a : Act) (R : List Frag) :
    trimHead (M ++ .act lt rt a :: R) = trimHead M ++ .act lt rt a :: R := by
  cases M with
  | nil => rfl
  | cons f r => cases f <;> rfl

/-- the whole trimmed list of `if t` A `else` B `end` -/
theorem trims_if (t : TExpr) (A B : List Frag) (hA : Plain A) (hB : Plain B) :
    applyTrims ([ifA t] ++ A ++ [elseA] ++ B ++ [endA]) = [ifA t] ++ trimHead A ++ [elseA] ++ trimHead B ++ [endA] := by
  have e1 : [ifA t] ++ A ++ [elseA] ++ B ++ [endA] = ifA t :: (A ++ elseA :: (B ++ [endA])) := by simp
  rw [e1, ifA, trims_marker, ← ifA]
  have e2 : trimHead (A ++ elseA :: (B ++ [endA])) = trimHead A ++ .act false true .else_ :: (B ++ [endA]) := by
    rw [elseA, trimHead_append_act]
  rw [e2, trims_plain_then _ (trimHead A) true .else_ (B ++ [endA]) (Nat.le_refl _) (trimHead_plain hA), trims_marker]
  have e3 : trimHead (B ++ [endA]) = trimHead B ++ .act false true .end_ :: [] := by
    rw [endA, trimHead_append_act]
  rw [e3, trims_plain_then _ (trimHead B) true .end_ [] (Nat.le_refl _) (trimHead_plain hB), trims_marker]
  simp [applyTrims, trimHead, elseA, endA]

/-! ## the template parser nests the two stretches under one `ite` -/

theorem parse_plain_then (A : List Frag) (hA : Plain A) : ∀ (fuel : Nat) (R : List Frag) (ns : List TNode) (tm : Term) (r : List Frag),
    parseListF fuel R = .ok (ns, tm, r) → parseListF (fuel + A.length) (A ++ R) = .ok (nodesOf A ++ ns, tm, r) := by
  induction A with
  | nil => intro fuel R ns tm r h; simpa [nodesOf] using h
  | cons f rest ih =>
    intro fuel R ns tm r h
    have hrest := ih (plain_cons.mp hA).2 fuel R ns tm r h
    rw [show fuel + (f :: rest).length = (fuel + rest.length) + 1 by simp; omega]
    cases f with
    | text s =>
      by_cases hs : s.isEmpty = true <;>
        simp [parseListF, nodesOf, hrest, hs, bind, Except.bind, pure, Except.pure]
    | blockDef m b =>
      have := (plain_cons.mp hA).1
      simp [plainB] at this
    | act lt rt x =>
      obtain ⟨rfl, rfl, rfl⟩ := plain_act (plain_cons.mp hA).1
      simp [parseListF, nodesOf, hrest, bind, Except.bind, pure, Except.pure]

theorem parse_if (t : TExpr) (A B : List Frag) (hA : Plain A) (hB : Plain B) (fuel : Nat) (hf : A.length + B.length + 6 ≤ fuel) :
    parseListF fuel ([ifA t] ++ A ++ [elseA] ++ B ++ [endA]) = .ok ([.ite t (nodesOf A) (nodesOf B)], .eof, []) := by
  obtain ⟨k, rfl⟩ : ∃ k, fuel = k + A.length + B.length + 6 := ⟨fuel - (A.length + B.length + 6), by omega⟩
  -- the else stretch up to `end`
  have hEnd : parseListF (k + 2 + 1) (endA :: []) = .ok ([], .end_, []) := by
    simp [parseListF, endA, pure, Except.pure]
  have hB' := parse_plain_then B hB (k + 3) [endA] [] .end_ [] hEnd
  -- the then stretch up to `else`
  have hElse : parseListF (k + B.length + 3 + 1) (elseA :: (B ++ [endA])) = .ok ([], .else_, B ++ [endA]) := by
    simp [parseListF, elseA, pure, Except.pure]
  have hA' := parse_plain_then A hA (k + B.length + 4) (elseA :: (B ++ [endA])) [] .else_ (B ++ [endA]) hElse
  have hIf : parseIfF (k + A.length + B.length + 4 + 1) t (A ++ elseA :: (B ++ [endA])) =
      .ok (.ite t (nodesOf A) (nodesOf B), []) := by
    rw [parseIfF]
    have e1 : k + A.length + B.length + 4 = k + B.length + 4 + A.length := by omega
    rw [e1, hA']
    simp only [bind, Except.bind, List.append_nil]
    have e2 : k + B.length + 4 + A.length = (k + 3 + B.length) + (A.length + 1) := by omega
    -- more fuel than the else stretch needs: re-run the lemma at the fuel at hand
    have hEnd2 : parseListF (k + A.length + 1 + 2 + 1) (endA :: []) = .ok ([], .end_, []) := by
      simp [parseListF, endA, pure, Except.pure]
    have hB2 := parse_plain_then B hB (k + A.length + 4) [endA] [] .end_ [] hEnd2
    rw [show k + B.length + 4 + A.length = k + A.length + 4 + B.length by omega, hB2]
    simp [pure, Except.pure]
  have e0 : [ifA t] ++ A ++ [elseA] ++ B ++ [endA] = ifA t :: (A ++ elseA :: (B ++ [endA])) := by simp
  rw [e0, show k + A.length + B.length + 6 = (k + A.length + B.length + 5) + 1 by omega, ifA, parseListF]
  simp only [bind, Except.bind, hIf]
  simp [parseListF, pure, Except.pure]

/-! ## transpile, hoist, collect -/

theorem compile_if (env : CEnv) (hd : env.debug = false) (e : SExpr) (hw : WF env e) (hdep : e.depth < 50000) (fuel : Nat)
    (thn els : List Node) (hthn : staticListF fuel thn = true) (hels : staticListF fuel els = true) :
    ∃ A B, compileNodesF fuel env thn = .ok A ∧ Plain A ∧ fragsStr A = serListF fuel thn ∧
      compileNodesF fuel env els = .ok B ∧ Plain B ∧ fragsStr B = serListF fuel els ∧
      compileNodeF (fuel + 1) env (.cond e.toExpr thn (some els)) = .ok ([ifA (tr e)] ++ A ++ [elseA] ++ B ++ [endA]) := by
  obtain ⟨A, a1, a2, a3⟩ := (compile_static env hd fuel).2 thn hthn
  obtain ⟨B, b1, b2, b3⟩ := (compile_static env hd fuel).2 els hels
  have hc : compileExpr env e.toExpr = .ok (some (tr e)) :=
    compile_scalar env e hw exprFuel (by simp only [exprFuel]; omega)
  refine ⟨A, B, a1, a2, a3, b1, b2, b3, ?_⟩
  simp [compileNodeF, hc, a1, b1, ifA, elseA, endA, bind, Except.bind, pure, Except.pure]

def noBD (fs : List Frag) : Prop := ∀ f ∈ fs, ∀ m b, f ≠ Frag.blockDef m b

theorem hoist_nobd (fuel : Nat) : ∀ (fs : List Frag) (k : Nat), noBD fs → hoistBlocksF fuel fs k = (fs, [], k) := by
  induction fuel with
  | zero => intro fs k _; rfl
  | succ fuel ih =>
    intro fs k hp
    cases fs with
    | nil => rfl
    | cons f rest =>
      have hrest := ih rest k (fun g hg => hp g (by simp [hg]))
      cases f with
      | text s => simp [hoistBlocksF, hrest]
      | act lt rt x => simp [hoistBlocksF, hrest]
      | blockDef m b => exact absurd rfl (hp _ (by simp) m b)

theorem plain_noBD {fs : List Frag} (h : Plain fs) : noBD fs := by
  intro f hf m b hfb
  subst hfb
  have := h _ hf
  simp [plainB] at this

theorem nobd_if (t : TExpr) (A B : List Frag) (hA : Plain A) (hB : Plain B) : noBD ([ifA t] ++ A ++ [elseA] ++ B ++ [endA]) := by
  intro f hf m b hfb
  subst hfb
  simp only [List.mem_append, List.mem_singleton, ifA, elseA, endA] at hf
  rcases hf with (((h | h) | h) | h) | h
  · cases h
  · exact plain_noBD hA _ h m b rfl
  · cases h
  · exact plain_noBD hB _ h m b rfl
  · cases h

theorem collect_if (fuel sf : Nat) (test : JS.Expr) (thn els : List Node) (hthn : staticListF sf thn = true)
    (hels : staticListF sf els = true) : collectMixinDefsF fuel [Node.cond test thn (some els)] = [] := by
  cases fuel with
  | zero => rfl
  | succ f =>
    have h1 := collect_static f sf thn hthn
    have h2 := collect_static f sf els hels
    cases f with
    | zero => simp [collectMixinDefsF]
    | succ f' => simp [collectMixinDefsF, h1, h2]

/-! ## the body as the template parser sees it -/

theorem parseBody_if (t : TExpr) (A B : List Frag) (hA : Plain A) (hB : Plain B) :
    parseBody ([ifA t] ++ A ++ [elseA] ++ B ++ [endA]) =
      .ok [.ite t (nodesOf (trimHead (mergeTexts A))) (nodesOf (trimHead (mergeTexts B)))] := by
  have mA := merge_plain A.length A (Nat.le_refl _) hA
  have mB := merge_plain B.length B (Nat.le_refl _) hB
  have hm : mergeTexts ([ifA t] ++ A ++ [elseA] ++ B ++ [endA]) =
      [ifA t] ++ mergeTexts A ++ [elseA] ++ mergeTexts B ++ [endA] := by
    have e1 : [ifA t] ++ A ++ [elseA] ++ B ++ [endA] = ifA t :: (A ++ .act false true .else_ :: (B ++ .act false true .end_ :: [])) := by
      simp [elseA, endA]
    rw [e1]
    have h0 : ∀ X, mergeTexts (ifA t :: X) = ifA t :: mergeTexts X := by intro X; simp [mergeTexts, ifA]
    rw [h0, merge_split _ A false true .else_ _ (Nat.le_refl _) hA, merge_split _ B false true .end_ [] (Nat.le_refl _) hB]
    simp [mergeTexts, elseA, endA]
  have ht := trims_if t (mergeTexts A) (mergeTexts B) mA.1 mB.1
  have hp := parse_if t (trimHead (mergeTexts A)) (trimHead (mergeTexts B)) (trimHead_plain mA.1) (trimHead_plain mB.1)
    (2 * ([ifA t] ++ trimHead (mergeTexts A) ++ [elseA] ++ trimHead (mergeTexts B) ++ [endA]).length + 2) (by simp; omega)
  simp only [parseBody, parseList, hm, ht, hp, bind, Except.bind, pure, Except.pure]

/-- the whole transpiler on `if e` thn `else` els -/
theorem compileDoc_if (env : CEnv) (hd : env.debug = false) (e : SExpr) (hw : WF env e) (hdep : e.depth < 50000)
    (thn els : List Node) (hthn : staticListF 99998 thn = true) (hels : staticListF 99998 els = true) :
    ∃ A B, compileNodesF 99998 env thn = .ok A ∧ Plain A ∧ fragsStr A = serListF 99998 thn ∧
      compileNodesF 99998 env els = .ok B ∧ Plain B ∧ fragsStr B = serListF 99998 els ∧
      compileDoc env [.cond e.toExpr thn (some els)] =
        .ok { main := [.ite (tr e) (nodesOf (trimHead (mergeTexts A))) (nodesOf (trimHead (mergeTexts B)))], defs := [] } := by
  obtain ⟨A, B, a1, a2, a3, b1, b2, b3, hc⟩ := compile_if env hd e hw hdep 99998 thn els hthn hels
  refine ⟨A, B, a1, a2, a3, b1, b2, b3, ?_⟩
  have hn : compileNodes env [.cond e.toExpr thn (some els)] = .ok ([ifA (tr e)] ++ A ++ [elseA] ++ B ++ [endA]) := by
    show compileNodesF (99999 + 1) env _ = _
    rw [compileNodesF_single, show (99999 : Nat) = 99998 + 1 from rfl, hc]
    rfl
  have hcol : collectMixinDefs [Node.cond e.toExpr thn (some els)] = [] := collect_if fragFuel 99998 _ thn els hthn hels
  have hh : hoistBlocks ([ifA (tr e)] ++ A ++ [elseA] ++ B ++ [endA]) 0 = ([ifA (tr e)] ++ A ++ [elseA] ++ B ++ [endA], [], 0) :=
    hoist_nobd fragFuel _ 0 (nobd_if (tr e) A B a2 b2)
  have hpb := parseBody_if (tr e) A B a2 b2
  have eL : [ifA (tr e)] ++ A ++ [elseA] ++ B ++ [endA] = ifA (tr e) :: (A ++ elseA :: (B ++ [endA])) := by simp
  rw [eL] at hn hh hpb
  simp [compileDoc, hn, hcol, hh, hpb, bind, Except.bind, pure, Except.pure]

end Pug.Props.C02D
