import PugModel.Tpl.Exec
import PugModel.Data.GoVal
/-!
Present paths: for every Go data tree and every path of member names that Go can follow through it (map keys, struct fields
and niladic methods by lower-camel name, transparently through pointers and interfaces), the converted value carries the same
leaf at the same path - in the heap `convert` returns and in every heap that extends it.
-/
set_option linter.unusedSimpArgs false
namespace Pug.Props.C11P
open Pug Pug.Tpl Pug.Data

/-! ## heaps only grow -/

def Ext (h h' : Heap) : Prop := ∃ aa am, h'.arrs = h.arrs ++ aa ∧ h'.maps = h.maps ++ am

theorem Ext.refl (h : Heap) : Ext h h := ⟨[], [], by simp, by simp⟩

theorem Ext.trans {a b c : Heap} (h1 : Ext a b) (h2 : Ext b c) : Ext a c := by
  obtain ⟨aa, am, e1, e2⟩ := h1
  obtain ⟨ba, bm, f1, f2⟩ := h2
  exact ⟨aa ++ ba, am ++ bm, by simp [f1, e1], by simp [f2, e2]⟩

theorem ext_allocMap (h : Heap) (m : MapObj) : Ext h (h.allocMap m).1 := ⟨[], [m], by simp [Heap.allocMap], by simp [Heap.allocMap]⟩
theorem ext_allocArr (h : Heap) (l : List Val) : Ext h (h.allocArr l).1 := ⟨[l], [], by simp [Heap.allocArr], by simp [Heap.allocArr]⟩

theorem getMap_ext {h h' : Heap} (e : Ext h h') (a : Nat) (ha : a < h.maps.length) : h'.getMap a = h.getMap a := by
  obtain ⟨_, am, _, e2⟩ := e
  simp [Heap.getMap, e2, List.getD_eq_getElem?_getD, List.getElem?_append_left ha]

theorem getMap_alloc (h : Heap) (m : MapObj) : (h.allocMap m).1.getMap h.maps.length = m := by
  simp [Heap.allocMap, Heap.getMap, List.getD_eq_getElem?_getD]

/-! ## `convert` only extends the heap -/

theorem fold_ext {α β : Type} (step : Heap × β → α → Heap × β) (hstep : ∀ acc x, Ext acc.1 (step acc x).1) :
    ∀ (l : List α) (acc : Heap × β), Ext acc.1 (l.foldl step acc).1 := by
  intro l
  induction l with
  | nil => intro acc; exact Ext.refl _
  | cons x rest ih => intro acc; exact Ext.trans (hstep acc x) (ih (step acc x))

theorem convert_ext (fuel : Nat) : ∀ (g : GoVal) (h : Heap), Ext h (convertGoF fuel g h).1 := by
  induction fuel with
  | zero => intro g h; exact Ext.refl _
  | succ fuel ih =>
    intro g h
    cases g with
    | nil => exact Ext.refl _
    | str s => exact Ext.refl _
    | num q => exact Ext.refl _
    | bool b => exact Ext.refl _
    | ptr v => cases v with
      | none => exact Ext.refl _
      | some v => simpa [convertGoF] using ih v h
    | iface v => cases v with
      | none => exact Ext.refl _
      | some v => simpa [convertGoF] using ih v h
    | slice items =>
      simp only [convertGoF]
      exact Ext.trans (fold_ext _ (fun acc x => by simpa using ih x acc.1) items (h, [])) (ext_allocArr _ _)
    | map entries =>
      simp only [convertGoF]
      exact Ext.trans (fold_ext _ (fun acc x => by simpa using ih x.2 acc.1) entries (h, [])) (ext_allocMap _ _)
    | struct fields methods =>
      simp only [convertGoF]
      exact Ext.trans (fold_ext _ (fun acc x => by simpa using ih x.2 acc.1) _ (h, [])) (ext_allocMap _ _)

/-! ## following member names from a converted value -/

/-- the member chain `v.n1.n2. ... .nk` read from a heap; `none` when a step is not a member read of a map -/
def follow (h : Heap) : Val → List String → Option Val
  | v, [] => some v
  | .map a, n :: rest => if n == "__assign" then none else follow h (mapMember (h.getMap a) n) rest
  | _, _ :: _ => none

def pathOf (recv : TExpr) : List String → TExpr
  | [] => recv
  | n :: rest => pathOf (.field recv n []) rest

/-- the executor evaluates the member chain to what `follow` reads, and changes nothing -/
theorem eval_follow (names : List String) : ∀ (fuel : Nat) (recv : TExpr) (st : St) (v w : Val),
    evalExpr (fuel + 1) recv st = .ok (v, st) → follow st.heap v names = some w →
    evalExpr (fuel + 1 + names.length) (pathOf recv names) st = .ok (w, st) := by
  induction names with
  | nil =>
    intro fuel recv st v w h hf
    simp only [follow, Option.some.injEq] at hf
    subst hf
    simpa [pathOf] using h
  | cons n rest ih =>
    intro fuel recv st v w h hf
    cases v with
    | map a =>
      simp only [follow] at hf
      split at hf
      · cases hf
      · rename_i hn
        have hn' : (n == "__assign") = false := by simpa using hn
        have h1 : evalExpr (fuel + 2) (.field recv n []) st = .ok (mapMember (st.heap.getMap a) n, st) := by
          simp [evalExpr, bind, StateT.bind, Except.bind, h, hn', getHeap, get, getThe, MonadStateOf.get, StateT.get, pure,
            StateT.pure, Except.pure]
        have := ih (fuel + 1) (.field recv n []) st _ w h1 hf
        simp only [pathOf, List.length_cons]
        rw [show fuel + 1 + (rest.length + 1) = fuel + 1 + 1 + rest.length by omega]
        exact this
    | _ => simp [follow] at hf

/-! ## what Go reaches -/

/-- the member table of a struct value: exported fields and niladic methods under their lower-camel names -/
def structEntries (fields : List (String × Bool × GoVal)) (methods : List (String × GoVal)) : List (String × GoVal) :=
  (fields.filter (·.2.1)).map (fun f => (lowerFirst f.1, f.2.2)) ++ methods.map (fun m => (lowerFirst m.1, m.2))

/-- `Reach n g p r`: following the member names `p` from the Go value `g` - through map keys, struct fields / methods by
lower-camel name, transparently through pointers and interfaces - arrives at `r`; `n` counts the steps (the conversion depth the
path needs) -/
inductive Reach : Nat → GoVal → List String → GoVal → Prop
  | here (g : GoVal) : Reach 0 g [] g
  | ptr {n : Nat} {v : GoVal} {p : List String} {r : GoVal} : Reach n v p r → Reach (n + 1) (.ptr (some v)) p r
  | iface {n : Nat} {v : GoVal} {p : List String} {r : GoVal} : Reach n v p r → Reach (n + 1) (.iface (some v)) p r
  | key {n : Nat} {pre post : List (String × GoVal)} {k : String} {v : GoVal} {p : List String} {r : GoVal} :
      (∀ e ∈ pre, e.1 ≠ k) → k ≠ "__assign" → Reach n v p r → Reach (n + 1) (.map (pre ++ (k, v) :: post)) (k :: p) r
  | field {n : Nat} {fields : List (String × Bool × GoVal)} {methods : List (String × GoVal)} {pre post : List (String × GoVal)}
      {k : String} {v : GoVal} {p : List String} {r : GoVal} :
      structEntries fields methods = pre ++ (k, v) :: post → (∀ e ∈ pre, e.1 ≠ k) → (∀ e ∈ post, e.1 ≠ k) → k ≠ "__assign" →
      Reach n v p r → Reach (n + 1) (.struct fields methods) (k :: p) r

/-- the converted form of a scalar leaf -/
def leafVal : GoVal → Option Val
  | .str s => some (.S s)
  | .num q => some (.N q)
  | .bool b => some (.B b)
  -- the ends of a path at which the data stops: Go's nil, a nil pointer, a nil interface value (of ANY interface type - the
  -- repair 318a99d made the non-empty ones convert like the empty one) are the template's null
  | .nil => some .nil
  | .ptr none => some .nil
  | .iface none => some .nil
  | _ => none

theorem convert_leaf (fuel : Nat) (g : GoVal) (v : Val) (h : Heap) (hl : leafVal g = some v) :
    convertGoF (fuel + 1) g h = (h, v) := by
  cases g with
  | ptr o => cases o <;> simp [leafVal] at hl; subst hl; simp [convertGoF]
  | iface o => cases o <;> simp [leafVal] at hl; subst hl; simp [convertGoF]
  | _ => simp [leafVal] at hl <;> subst hl <;> simp [convertGoF]

/-! ## the fold that builds a map's items -/

def stepApp (fuel : Nat) (acc : Heap × List (String × Val)) (kv : String × GoVal) : Heap × List (String × Val) :=
  let (h', v) := convertGoF fuel kv.2 acc.1
  (h', acc.2 ++ [(kv.1, v)])

theorem assocGet_append_not (l m : List (String × Val)) (k : String) (h : ∀ e ∈ l, e.1 ≠ k) :
    assocGet (l ++ m) k = assocGet m k := by
  induction l with
  | nil => rfl
  | cons e rest ih =>
    have he : (e.1 == k) = false := by simpa using h e (by simp)
    have := ih (fun x hx => h x (by simp [hx]))
    simp only [assocGet, List.cons_append, List.find?_cons, he] at this ⊢
    exact this

theorem assocGet_head (k : String) (v : Val) (m : List (String × Val)) : assocGet ((k, v) :: m) k = some v := by
  simp [assocGet]

/-- folding `stepApp` only appends items, with the keys of the list -/
theorem foldApp_shape (fuel : Nat) : ∀ (l : List (String × GoVal)) (acc : Heap × List (String × Val)),
    ∃ tail, (l.foldl (stepApp fuel) acc).2 = acc.2 ++ tail ∧ tail.map (·.1) = l.map (·.1) := by
  intro l
  induction l with
  | nil => intro acc; exact ⟨[], by simp, rfl⟩
  | cons x rest ih =>
    intro acc
    obtain ⟨tail, h1, h2⟩ := ih (stepApp fuel acc x)
    refine ⟨(x.1, (convertGoF fuel x.2 acc.1).2) :: tail, ?_, by simp [h2]⟩
    simp only [List.foldl_cons, h1]
    simp [stepApp]

/-- the item stored under a key that occurs once before the rest: the conversion of its value in some heap between the start
and the end of the fold -/
theorem foldApp_key (fuel : Nat) (pre post : List (String × GoVal)) (k : String) (gv : GoVal) (h : Heap)
    (hpre : ∀ e ∈ pre, e.1 ≠ k) :
    ∃ hk, Ext h hk ∧ Ext (convertGoF fuel gv hk).1 ((pre ++ (k, gv) :: post).foldl (stepApp fuel) (h, [])).1 ∧
      assocGet ((pre ++ (k, gv) :: post).foldl (stepApp fuel) (h, [])).2 k = some (convertGoF fuel gv hk).2 := by
  have hstep : ∀ (acc : Heap × List (String × Val)) (x : String × GoVal), Ext acc.1 (stepApp fuel acc x).1 := by
    intro acc x; simpa [stepApp] using convert_ext fuel x.2 acc.1
  obtain ⟨t1, s1, k1⟩ := foldApp_shape fuel pre (h, [])
  refine ⟨(pre.foldl (stepApp fuel) (h, [])).1, by simpa using fold_ext _ hstep pre (h, []), ?_, ?_⟩
  · simp only [List.foldl_append, List.foldl_cons]
    have := fold_ext _ hstep post (stepApp fuel (pre.foldl (stepApp fuel) (h, [])) (k, gv))
    simpa [stepApp] using this
  · simp only [List.foldl_append, List.foldl_cons]
    obtain ⟨t2, s2, _⟩ := foldApp_shape fuel post (stepApp fuel (pre.foldl (stepApp fuel) (h, [])) (k, gv))
    rw [s2]
    have hacc : (stepApp fuel (pre.foldl (stepApp fuel) (h, [])) (k, gv)).2 =
        t1 ++ [(k, (convertGoF fuel gv (pre.foldl (stepApp fuel) (h, [])).1).2)] := by
      simp [stepApp, s1]
    rw [hacc, List.append_assoc, assocGet_append_not]
    · simp [assocGet]
    · intro e he
      have : e.1 ∈ t1.map (·.1) := List.mem_map_of_mem he
      rw [k1] at this
      obtain ⟨e', he', hee⟩ := List.mem_map.mp this
      rw [← hee]
      exact hpre e' he'

/-! ## the fold that builds a struct's member table (later entries replace earlier ones of the same name) -/

def stepSet (fuel : Nat) (acc : Heap × List (String × Val)) (kv : String × GoVal) : Heap × List (String × Val) :=
  let (h', v) := convertGoF fuel kv.2 acc.1
  (h', assocSet acc.2 kv.1 v)

theorem assocGet_set_same (l : List (String × Val)) (k : String) (v : Val) : assocGet (assocSet l k v) k = some v := by
  induction l with
  | nil => simp [assocSet, assocGet]
  | cons e rest ih =>
    by_cases he : (e.1 == k) = true
    · simp [assocSet, he, assocGet]
    · have he' : (e.1 == k) = false := by simpa using he
      simp only [assocSet, he', assocGet, List.find?_cons] at ih ⊢
      simpa [he'] using ih

theorem assocGet_set_other (l : List (String × Val)) (k k' : String) (v : Val) (hk : k' ≠ k) :
    assocGet (assocSet l k' v) k = assocGet l k := by
  have h2 : (k' == k) = false := by simpa using hk
  induction l with
  | nil => simp [assocSet, assocGet, h2]
  | cons e rest ih =>
    obtain ⟨ek, ev⟩ := e
    by_cases he : (ek == k') = true
    · have hek : ek = k' := by simpa using he
      subst hek
      simp [assocSet, assocGet, List.find?_cons, h2]
    · have he' : (ek == k') = false := by simpa using he
      by_cases hek : (ek == k) = true
      · simp [assocSet, he', assocGet, List.find?_cons, hek]
      · have hek' : (ek == k) = false := by simpa using hek
        simp only [assocGet] at ih
        simp [assocSet, he', assocGet, List.find?_cons, hek', ih]

theorem foldSet_keeps (fuel : Nat) (k : String) (v : Val) : ∀ (l : List (String × GoVal)) (acc : Heap × List (String × Val)),
    (∀ e ∈ l, e.1 ≠ k) → assocGet acc.2 k = some v → assocGet (l.foldl (stepSet fuel) acc).2 k = some v := by
  intro l
  induction l with
  | nil => intro acc _ h; simpa using h
  | cons x rest ih =>
    intro acc hl h
    refine ih (stepSet fuel acc x) (fun e he => hl e (by simp [he])) ?_
    have hx : x.1 ≠ k := hl x (by simp)
    simp only [stepSet]
    rw [assocGet_set_other _ _ _ _ hx]
    exact h

theorem foldSet_key (fuel : Nat) (pre post : List (String × GoVal)) (k : String) (gv : GoVal) (h : Heap)
    (hpost : ∀ e ∈ post, e.1 ≠ k) :
    ∃ hk, Ext h hk ∧ Ext (convertGoF fuel gv hk).1 ((pre ++ (k, gv) :: post).foldl (stepSet fuel) (h, [])).1 ∧
      assocGet ((pre ++ (k, gv) :: post).foldl (stepSet fuel) (h, [])).2 k = some (convertGoF fuel gv hk).2 := by
  have hstep : ∀ (acc : Heap × List (String × Val)) (x : String × GoVal), Ext acc.1 (stepSet fuel acc x).1 := by
    intro acc x; simpa [stepSet] using convert_ext fuel x.2 acc.1
  refine ⟨(pre.foldl (stepSet fuel) (h, [])).1, by simpa using fold_ext _ hstep pre (h, []), ?_, ?_⟩
  · simp only [List.foldl_append, List.foldl_cons]
    have := fold_ext _ hstep post (stepSet fuel (pre.foldl (stepSet fuel) (h, [])) (k, gv))
    simpa [stepSet] using this
  · simp only [List.foldl_append, List.foldl_cons]
    refine foldSet_keeps fuel k _ post _ hpost ?_
    simp [stepSet, assocGet_set_same]

/-! ## the theorem: what Go reaches is what the converted value carries -/

theorem mapMember_hit (m : MapObj) (k : String) (v : Val) (h : assocGet m.items k = some v) : mapMember m k = v := by
  simp [mapMember, h]

theorem convert_map (fuel : Nat) (es : List (String × GoVal)) (h : Heap) :
    convertGoF (fuel + 1) (.map es) h =
      (es.foldl (stepApp fuel) (h, [])).1.allocMap { items := (es.foldl (stepApp fuel) (h, [])).2, order := [] } := rfl

theorem convert_struct (fuel : Nat) (fields : List (String × Bool × GoVal)) (methods : List (String × GoVal)) (h : Heap) :
    convertGoF (fuel + 1) (.struct fields methods) h =
      ((structEntries fields methods).foldl (stepSet fuel) (h, [])).1.allocMap
        { items := ((structEntries fields methods).foldl (stepSet fuel) (h, [])).2, order := [] } := rfl

/-- a freshly allocated map read from any later heap -/
theorem follow_alloc (h1 h'' : Heap) (items : List (String × Val)) (k : String) (vk : Val) (p : List String)
    (hk : k ≠ "__assign") (he : Ext (h1.allocMap { items := items, order := [] }).1 h'') (hi : assocGet items k = some vk) :
    follow h'' (h1.allocMap { items := items, order := [] }).2 (k :: p) = follow h'' vk p := by
  have hn : (k == "__assign") = false := by simpa using hk
  have hlen : h1.maps.length < (h1.allocMap { items := items, order := [] }).1.maps.length := by simp [Heap.allocMap]
  have hg : h''.getMap h1.maps.length = { items := items, order := [] } := by
    rw [getMap_ext he _ hlen, getMap_alloc]
  show follow h'' (.map h1.maps.length) (k :: p) = _
  simp only [follow, hn, hg]
  rw [mapMember_hit _ k vk hi]
  rfl

theorem reach_convert {n : Nat} {g : GoVal} {p : List String} {r : GoVal} (hr : Reach n g p r) (lv : Val) (hl : leafVal r = some lv) :
    ∀ (fuel : Nat) (h h'' : Heap), n < fuel → Ext (convertGoF fuel g h).1 h'' → follow h'' (convertGoF fuel g h).2 p = some lv := by
  induction hr with
  | here g =>
    intro fuel h h'' hf _
    obtain ⟨f, rfl⟩ : ∃ f, fuel = f + 1 := ⟨fuel - 1, by omega⟩
    rw [convert_leaf f g lv h hl]
    rfl
  | ptr _ ih =>
    intro fuel h h'' hf he
    obtain ⟨f, rfl⟩ : ∃ f, fuel = f + 1 := ⟨fuel - 1, by omega⟩
    exact ih hl f h h'' (by omega) (by simpa [convertGoF] using he)
  | iface _ ih =>
    intro fuel h h'' hf he
    obtain ⟨f, rfl⟩ : ∃ f, fuel = f + 1 := ⟨fuel - 1, by omega⟩
    exact ih hl f h h'' (by omega) (by simpa [convertGoF] using he)
  | @key n pre post k v p r hpre hk _ ih =>
    intro fuel h h'' hf he
    obtain ⟨f, rfl⟩ : ∃ f, fuel = f + 1 := ⟨fuel - 1, by omega⟩
    obtain ⟨hk', e1, e2, hi⟩ := foldApp_key f pre post k v h hpre
    rw [convert_map] at he ⊢
    rw [follow_alloc _ h'' _ k _ p hk he hi]
    exact ih hl f hk' h'' (by omega) (Ext.trans e2 (Ext.trans (ext_allocMap _ _) he))
  | @field n fields methods pre post k v p r hent _ hpost hk _ ih =>
    intro fuel h h'' hf he
    obtain ⟨f, rfl⟩ : ∃ f, fuel = f + 1 := ⟨fuel - 1, by omega⟩
    obtain ⟨hk', e1, e2, hi⟩ := foldSet_key f pre post k v h hpost
    rw [convert_struct, hent] at he ⊢
    rw [follow_alloc _ h'' _ k _ p hk he hi]
    exact ih hl f hk' h'' (by omega) (Ext.trans e2 (Ext.trans (ext_allocMap _ _) he))

end Pug.Props.C11P
