/-
Numbers as the model sees them: exact rationals.

`parseDec`   decimal text ("-12.50") → Rat      (driver input)
`fmtG10`     model of `pugjs.Number.String()` = `big.NewFloat(x).Text('g', 10)` for a value that the
             float64 holds exactly (modelling assumption, see DESIGN §3/§8)
`ratString`  canonical "n/d" (or "n") text, same as Go's `big.Rat.RatString`
-/
namespace Pug

def natDigits (n : Nat) : Nat := (Nat.repr n).length

/-- is a/b < 10^g (a, b > 0) -/
def ltPow10 (a b : Nat) (g : Int) : Bool :=
  if g ≥ 0 then a < b * 10 ^ g.toNat else a * 10 ^ (-g).toNat < b

/-- the decimal exponent e with 10^(e-1) ≤ a/b < 10^e (a, b > 0) -/
def decExp (a b : Nat) : Int :=
  let g : Int := (natDigits a : Int) - (natDigits b : Int)
  if ltPow10 a b g then g else g + 1

/-- round-half-even of a/b (b > 0) -/
def roundHalfEven (a b : Nat) : Nat :=
  let q := a / b
  let r := a % b
  if 2 * r < b then q
  else if 2 * r > b then q + 1
  else if q % 2 == 0 then q else q + 1

def stripTrailingZeros : List Char → List Char
  | l => (l.reverse.dropWhile (· == '0')).reverse

/-- decimal digits (no trailing zeros) and exponent of a/b rounded to `prec` significant digits -/
def decDigits (a b : Nat) (prec : Nat) : List Char × Int :=
  let e := decExp a b
  let sh : Int := (prec : Int) - e
  let m := if sh ≥ 0 then roundHalfEven (a * 10 ^ sh.toNat) b else roundHalfEven a (b * 10 ^ (-sh).toNat)
  let (m, e) := if m ≥ 10 ^ prec then (m / 10, e + 1) else (m, e)
  (stripTrailingZeros (Nat.repr m).toList, e)

def zeros (n : Nat) : List Char := List.replicate n '0'

def twoDigits (n : Nat) : List Char :=
  if n < 10 then '0' :: (Nat.repr n).toList else (Nat.repr n).toList

/-- `%e`-style output used by big.Float for the 'g' verb -/
def fmtE (ds : List Char) (e : Int) : List Char :=
  let exp := e - 1
  let mant := match ds with
    | [] => ['0']
    | [d] => [d]
    | d :: rest => d :: '.' :: rest
  let es := if exp < 0 then '-' :: twoDigits (-exp).toNat else '+' :: twoDigits exp.toNat
  mant ++ ['e'] ++ es

/-- `%f`-style output with `frac` fractional digits; ds = mantissa digits, value = 0.ds × 10^e -/
def fmtF (ds : List Char) (e : Int) (frac : Nat) : List Char :=
  let intPart : List Char :=
    if e > 0 then
      let k := e.toNat
      if ds.length ≥ k then ds.take k else ds ++ zeros (k - ds.length)
    else ['0']
  let fracPart : List Char :=
    if frac == 0 then []
    else
      let lead := if e < 0 then zeros (min (-e).toNat frac) else []
      let rest := if e > 0 then ds.drop e.toNat else ds
      let body := lead ++ rest
      '.' :: (body ++ zeros (frac - body.length)).take frac
  intPart ++ fracPart

/-- model of `big.Float.Text('g', 10)` on an exactly held value -/
def fmtG10 (q : Rat) : String :=
  if q.num == 0 then "0" else
  let neg := q.num < 0
  let a := q.num.natAbs
  let b := q.den
  let prec := 10
  let (ds, e) := decDigits a b prec
  let l := ds.length
  let eprec := if prec > l && (l : Int) ≥ e then l else prec
  let exp := e - 1
  let body :=
    if exp < -4 || exp ≥ (eprec : Int) then fmtE ds e
    else
      let p : Int := if (prec : Int) > e then l else prec
      fmtF ds e (p - e).toNat
  String.ofList ((if neg then ['-'] else []) ++ body)

def ratString (q : Rat) : String :=
  if q.den == 1 then toString q.num else toString q.num ++ "/" ++ toString q.den

/-- decimal text → Rat; `none` when it is not of the form -?digits(.digits)? -/
def parseDec (s : String) : Option Rat :=
  let cs := s.toList
  let (neg, cs) := match cs with
    | '-' :: r => (true, r)
    | _ => (false, cs)
  let ip := cs.takeWhile Char.isDigit
  let rest := cs.dropWhile Char.isDigit
  let fp? : Option (List Char) := match rest with
    | [] => some []
    | '.' :: f => if f.all Char.isDigit && !f.isEmpty then some f else none
    | _ => none
  match fp? with
  | none => none
  | some fp =>
    if ip.isEmpty then none else
    let digs := ip ++ fp
    let n := digs.foldl (fun acc c => acc * 10 + (c.toNat - '0'.toNat)) 0
    let q : Rat := (n : Rat) / ((10 ^ fp.length : Nat) : Rat)
    some (if neg then -q else q)

end Pug
