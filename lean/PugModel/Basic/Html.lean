/-! HTML escaping as a table-driven function; the table used by the model is the one generated from
`HTMLEscape` in pugjs/tpl_funcs.go (`Pug.Gen.htmlEscape`). -/
namespace Pug

def escChar (tbl : List (Char × String)) (c : Char) : List Char :=
  match tbl.find? (·.1 == c) with
  | some (_, r) => r.toList
  | none => [c]

def escapeWith (tbl : List (Char × String)) (s : List Char) : List Char := s.flatMap (escChar tbl)

def escapeHtmlWith (tbl : List (Char × String)) (s : String) : String := String.ofList (escapeWith tbl s.toList)

end Pug
