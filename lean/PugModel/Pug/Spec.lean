import PugModel.Pug.Syntax
import PugModel.JS.Spec
import PugModel.Basic.Html
/-
Reference semantics of a pug document (the *specification* side for C02, C03, C04, C06, C13): what pug prescribes,
written directly over the JavaScript reference semantics — no template text, no lexer, no runtime helpers.

Output is a list of segments; a segment marked optional is white space at the edge of a text run that directly borders a
control construct (C06 allows exactly that to be dropped, all or nothing).
-/
namespace Pug.Spec
open Pug Pug.JS

inductive Seg where
  | lit (s : String)
  | optWs (s : String)
  deriving Repr, Inhabited

inductive Outcome (α : Type) where
  | ok (a : α)
  | whileCap            -- a while loop exceeded the bound: the render ends with an error
  | undef (why : String) -- outside the specified subset
  deriving Inhabited

instance : Monad Outcome where
  pure := .ok
  bind x f := match x with
    | .ok a => f a
    | .whileCap => .whileCap
    | .undef w => .undef w

def ofOption {α} (o : Option α) (why : String) : Outcome α :=
  match o with
  | some a => .ok a
  | none => .undef why

/-- the HTML void elements (WHATWG list + the legacy ones pug knows) — the specification's own constant -/
def voidElements : List String :=
  ["area", "base", "br", "col", "command", "embed", "hr", "img", "input", "keygen", "link", "meta", "param", "source", "track", "wbr"]

def htmlEscapeTable : List (Char × String) :=
  [('&', "&amp;"), ('<', "&lt;"), ('>', "&gt;"), ('"', "&#34;"), ('\'', "&#39;")]

def escapeHtml (s : String) : String := escapeHtmlWith htmlEscapeTable s

structure Mixin where
  params : List String
  body : List Node

/-- a frozen block: the nodes and the caller's variables at the time of the call -/
inductive Closure where
  | mk (nodes : List Node) (env : JS.Env) (outer : Option Closure)

def Closure.nodes : Closure → List Node | .mk n _ _ => n
def Closure.env : Closure → JS.Env | .mk _ e _ => e
def Closure.outer : Closure → Option Closure | .mk _ _ o => o

structure Ctx where
  mixins : List (String × Mixin)
  globals : JS.Env                  -- page data: what a mixin body sees besides its parameters
  block : Option Closure            -- the block of the mixin call being rendered
  whileCap : Nat

def setVar (ρ : JS.Env) (x : String) (v : JSVal) : JS.Env := ρ ++ [(x, v)]   -- lookupProp takes the newest binding

/-- `x.k = v` / `x['k'] = v` where `x` holds an object: ECMAScript updates the object `x` REFERS to - a key that exists keeps its
place in the property order, a new key is appended. The value semantics of this specification equal that reference semantics exactly
when nothing else refers to the same object; the specification therefore only speaks when the object is flat (primitive members, a
primitive new value) and no other variable holds an object with the same key list (a possible alias) - otherwise it declines. -/
def assignMember (ρ : JS.Env) (x k : String) (v : JSVal) : Option JS.Env :=
  let prim : JSVal → Bool := fun w => match w with
    | .arr _ | .obj _ => false
    | _ => true
  match JS.lookupProp ρ x with
  | .obj props =>
    let keys := props.map (·.1)
    if !(props.all fun p => prim p.2) || !prim v then none else
    if ρ.any (fun yw => yw.1 != x && (match yw.2 with | .obj ps => ps.map (·.1) == keys | _ => false)) then none else
    if k.toList.all Char.isDigit then none else     -- integer-like keys are ordered numerically by ECMAScript: not modelled
    let props' := if keys.contains k then props.map (fun p => if p.1 == k then (k, v) else p) else props ++ [(k, v)]
    some (setVar ρ x (.obj props'))
  | _ => none

def isWs (c : Char) : Bool := c == ' ' || c == '\t' || c == '\r' || c == '\n'

/-- is this node a control construct in the sense of C06 (its borders may swallow adjacent white space)? -/
def isControl : Node → Bool
  | .cond .. | .each .. | .while .. | .case .. | .mixinDef .. | .mixinCall .. | .mixinBlock | .codeRaw .. => true
  | _ => false

/-- split a text into (optional leading ws, core, optional trailing ws) according to what borders it -/
def textSegs (s : String) (ctlBefore ctlAfter : Bool) : List Seg :=
  let cs := s.toList
  let lead := if ctlBefore then cs.takeWhile isWs else []
  let rest := cs.drop lead.length
  let trail := if ctlAfter then (rest.reverse.takeWhile isWs).reverse else []
  let core := rest.take (rest.length - trail.length)
  (if lead.isEmpty then [] else [Seg.optWs (String.ofList lead)]) ++
  (if core.isEmpty then [] else [Seg.lit (String.ofList core)]) ++
  (if trail.isEmpty then [] else [Seg.optWs (String.ofList trail)])

def evalE (ρ : JS.Env) (e : Expr) : Outcome JSVal := ofOption (JS.eval ρ e) "expression outside the JS subset"

/-- merge adjacent Text nodes into runs (a text run is what C06 speaks about) -/
def mergeText : List Node → List Node
  | .text a :: .text b :: rest => mergeText (.text (a ++ b) :: rest)
  | n :: rest => n :: mergeText rest
  | [] => []
termination_by l => l.length
decreasing_by all_goals simp_wf <;> omega

/-- the line break that ends the doctype line is white space like any other: it belongs to the text run that follows -/
def expandDoctype : List Node → List Node
  | [] => []
  | .doctype v :: rest => .doctype v :: .text "\n" :: expandDoctype rest
  | n :: rest => n :: expandDoctype rest

mutual
/-- render a node list; `first`/`last`: does a control boundary border the list on that side -/
partial def renderList (ctx : Ctx) (ns : List Node) (ρ : JS.Env) (ctlBefore ctlAfter : Bool) : Outcome (List Seg × JS.Env) :=
  let ns := mergeText (expandDoctype ns)
  let rec go (prev : Option Node) (l : List Node) (ρ : JS.Env) (acc : List Seg) : Outcome (List Seg × JS.Env) :=
    match l with
    | [] => .ok (acc, ρ)
    | n :: rest => do
      let before := match prev with
        | none => ctlBefore
        | some p => isControl p
      let after := match rest with
        | [] => ctlAfter
        | m :: _ => isControl m
      let (segs, ρ') ← renderNode ctx n ρ before after
      go (some n) rest ρ' (acc ++ segs)
  go none ns ρ []

partial def renderNode (ctx : Ctx) (n : Node) (ρ : JS.Env) (ctlBefore ctlAfter : Bool) : Outcome (List Seg × JS.Env) :=
  match n with
  | .text s => .ok (textSegs s ctlBefore ctlAfter, ρ)
  | .doctype v => .ok ([.lit ("<!DOCTYPE " ++ v ++ ">")], ρ)   -- its line break: see `expandDoctype`
  | .codeBuf e esc _ => do
    let v ← evalE ρ e
    let s ← ofOption (JS.printed v) "printing a non-primitive"
    pure ([.lit (if esc then escapeHtml s else s)], ρ)
  | .codeRaw stmts _ => do
    let mut ρ := ρ
    for st in stmts do
      match st with
      | .var x none => ρ := setVar ρ x .undefined
      | .var x (some e) => do let v ← evalE ρ e; ρ := setVar ρ x v
      | .assign (.ident x) e => do let v ← evalE ρ e; ρ := setVar ρ x v
      | .assign (.dot (.ident x) k) e => do
        let v ← evalE ρ e
        match assignMember ρ x k v with
        | some ρ' => ρ := ρ'
        | none => Outcome.undef "member assignment outside the alias-free subset"
      | .assign (.idx (.ident x) (.str k)) e => do
        let v ← evalE ρ e
        match assignMember ρ x k v with
        | some ρ' => ρ := ρ'
        | none => Outcome.undef "member assignment outside the alias-free subset"
      | .inc x =>
        match lookupProp ρ x with
        | .num q => ρ := setVar ρ x (.num (q + 1))
        | _ => Outcome.undef "++ on a non-number"
      | _ => Outcome.undef "statement outside the pure subset"
    pure ([], ρ)
  | .tag name _ attrs ablocks kids =>
    if !attrs.isEmpty || !ablocks.isEmpty then .undef "attributes are specified by C05's oracle" else
    if voidElements.contains name then .ok ([.lit ("<" ++ name ++ ">")], ρ) else do
    let (inner, ρ') ← renderList ctx kids ρ false false
    pure ([.lit ("<" ++ name ++ ">")] ++ inner ++ [.lit ("</" ++ name ++ ">")], ρ')
  | .cond test thn els => do
    let v ← evalE ρ test
    if toBool v then renderList ctx thn ρ true true
    else match els with
      | some ns => renderList ctx ns ρ true true
      | none => pure ([], ρ)
  | .case e whens => do
    let v ← evalE ρ e
    let rec pick (ws : List (Option Expr × List Node)) : Outcome (Option (List Node)) :=
      match ws with
      | [] => .ok none
      | (none, _) :: rest => pick rest
      | (some we, kids) :: rest => do
        let w ← evalE ρ we
        match strictEq v w with
        | some true => pure (some kids)
        | some false => pick rest
        | none => Outcome.undef "case comparison of reference values"
    match ← pick whens with
    | some kids => renderList ctx kids ρ true true
    | none =>
      match whens.find? (·.1.isNone) with
      | some (_, kids) => renderList ctx kids ρ true true
      | none => pure ([], ρ)
  | .each val key obj kids => do
    let c ← evalE ρ obj
    let pairs : List (JSVal × JSVal) ← match c with
      | .arr xs => pure (xs.zipIdx.map fun (x, i) => (JSVal.num i, x))
      | .obj ps => pure (ps.map fun (k, x) => (JSVal.str k, x))
      | .null | .undefined => pure []
      | _ => Outcome.undef "each over a primitive"
    let mut ρ := ρ
    let mut out : List Seg := []
    for (k, x) in pairs do
      ρ := setVar ρ val x
      if key != "" then ρ := setVar ρ key k
      let (segs, ρ') ← renderList ctx kids ρ true true
      ρ := ρ'
      out := out ++ segs
    pure (out, ρ)
  | .while test kids => do
    let rec loop (fuel : Nat) (ρ : JS.Env) (acc : List Seg) : Outcome (List Seg × JS.Env) :=
      match fuel with
      | 0 => .whileCap
      | fuel + 1 => do
        let v ← evalE ρ test
        if toBool v then do
          let (segs, ρ') ← renderList ctx kids ρ true true
          loop fuel ρ' (acc ++ segs)
        else pure (acc, ρ)
    loop (ctx.whileCap + 1) ρ []
  | .mixinDef .. => .ok ([], ρ)
  | .mixinCall name args attrs kids => do
    if !attrs.isEmpty then Outcome.undef "mixin attributes are specified by C05's oracle" else
    match ctx.mixins.find? (·.1 == name) with
    | none => pure ([], ρ)
    | some (_, m) => do
      let vs ← args.mapM (evalE ρ)
      let bindings := m.params.zipIdx.map fun (p, i) => (p, vs.getD i .undefined)
      let clo : Option Closure := if kids.isEmpty then none else some (.mk kids ρ ctx.block)
      let (segs, _) ← renderList { ctx with block := clo } m.body (ctx.globals ++ bindings) true true
      pure (segs, ρ)
  | .mixinBlock =>
    match ctx.block with
    | none => .ok ([], ρ)
    | some clo => do
      -- the block is rendered with the caller's variables as they were at the time of the call; the *enclosing* call's
      -- block is what a `block` inside it refers to — that is carried by the closure's own context in `renderDoc`
      let (segs, _) ← renderList { ctx with block := clo.outer } clo.nodes clo.env true true
      pure (segs, ρ)
end

def collectMixins : List Node → List (String × Mixin)
  | [] => []
  | .mixinDef name params body :: rest => (name, { params := params, body := body }) :: collectMixins rest
  | _ :: rest => collectMixins rest

def renderDoc (doc : List Node) (data : JS.Env) (cap : Nat) : Outcome (List Seg) := do
  let ctx : Ctx := { mixins := collectMixins doc, globals := data, block := none, whileCap := cap }
  let (segs, _) ← renderList ctx doc data false false
  pure segs

end Pug.Spec
