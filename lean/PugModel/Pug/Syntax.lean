import PugModel.JS.Syntax
/-! pug AST nodes (pugjs/pug_blocks.go) with their JavaScript snippets already as trees. -/
namespace Pug

structure Attr where
  name : String
  val : JS.Expr
  mustEscape : Bool
  deriving Repr, Inhabited

inductive Node where
  | text (s : String)
  | tag (name : String) (isInline : Bool) (attrs : List Attr) (attrBlocks : List String) (kids : List Node)
  | codeBuf (e : JS.Expr) (mustEscape : Bool) (isInline : Bool)          -- `= e` / `!= e` / `#{e}`
  | codeRaw (stmts : List JS.Stmt) (isInline : Bool)                     -- `- stmts`
  | cond (test : JS.Expr) (thn : List Node) (els : Option (List Node))   -- else-if chains are nested conds in `els`
  | each (val key : String) (obj : JS.Expr) (kids : List Node)
  | while (test : JS.Expr) (kids : List Node)
  | case (e : JS.Expr) (whens : List (Option JS.Expr × List Node))       -- none = default
  | mixinDef (name : String) (params : List String) (kids : List Node)
  | mixinCall (name : String) (args : List JS.Expr) (attrs : List Attr) (kids : List Node)
  | mixinBlock
  | doctype (v : String)
  deriving Repr, Inhabited

end Pug
