import PugModel.Pug.Spec
/-
Specification of attribute rendering (C05): which (name, value) pairs an HTML parser must read back from a tag.
-/
namespace Pug.Spec
open Pug Pug.JS

/-- class tokens contributed by one value: strings as they are, arrays flattened, false/null/undefined dropped -/
partial def classTokens : JSVal → Option (List String)
  | .str s => some (if s.trimAscii.toString == "" then [] else [s.trimAscii.toString])
  | .num q => (numToString q).map ([·])
  | .bool false | .null | .undefined => some []
  | .bool true => none            -- `class=true` has no sensible reading; outside the specified subset
  | .arr xs => (xs.mapM classTokens).map List.flatten
  | .obj _ => none

/-- value text of an ordinary attribute; `none` in the outer option = outside the subset; inner none = omitted -/
def attrValue (name : String) : JSVal → Option (Option String)
  | .str s => some (some s)
  | .num q => (numToString q).map some
  | .bool true => some (some name)
  | .bool false | .null | .undefined => some none
  | _ => none

/-- expected attribute list of a tag: explicit attributes in source order (first occurrence), classes merged,
    then each spread object's keys in sorted order -/
def expectedAttrs (ρ : JS.Env) (attrs : List Attr) (ablocks : List String) : Option (List (String × String)) := do
  let evald ← attrs.mapM fun a => do
    let v ← JS.eval ρ a.val
    pure (a.name, v)
  let spreads ← ablocks.mapM fun b =>
    match lookupProp ρ b with
    | .obj ps => some ps
    | _ => none
  let all : List (String × JSVal) := evald ++ spreads.flatten
  let names := all.foldl (fun acc kv => if acc.contains kv.1 then acc else acc ++ [kv.1]) ([] : List String)
  let rows ← names.mapM fun n => do
    let vals := (all.filter (·.1 == n)).map (·.2)
    if n == "class" then
      let toks := (← vals.mapM classTokens).flatten
      pure (if toks.isEmpty then none else some (n, " ".intercalate toks))
    else
      match vals with
      | [v] => do
        match ← attrValue n v with
        | some s => pure (some (n, s))
        | none => pure none
      | _ => none      -- a repeated non-class name is outside the specified subset
  pure (rows.filterMap id)

end Pug.Spec
