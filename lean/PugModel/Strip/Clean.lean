import PugModel.Basic.Html
import PugModel.Gen.Tables
/-
Model of templatefunctions/striptags_func.go on an arbitrary DOM tree (whatever golang.org/x/net/html's ParseFragment
returns): createTag (allow-list definition syntax), cleanTags, getAllowedAttributes, isSelfClosingTag.
The output is produced as tokens first (`cleanToks`) and rendered afterwards, so that theorems can speak about tokens.
-/
namespace Pug.Strip

inductive DNode where
  | text (data : String)
  | elem (name : String) (attrs : List (String × String)) (kids : List DNode)
  | comment (data : String) (kids : List DNode)
  | doctype (data : String) (kids : List DNode)
  | other (kids : List DNode)        -- document / error / raw nodes: only their children matter
  deriving Inhabited

structure AllowedTag where
  name : String
  attrs : List String
  deriving Repr, Inhabited

/-- `createTag`: lower-cased; `name` or `name(attr attr …)` -/
def createTag (definition : String) : AllowedTag :=
  let d := definition.toLower
  if !(d.toList.contains '(') then { name := d, attrs := [] }
  else
    match d.splitOn "(" with
    | name :: rest :: _ =>
      let inner := String.ofList (rest.toList.reverse.dropWhile (· == ')')).reverse     -- strings.TrimRight(split[1], ")")
      { name := name, attrs := inner.splitOn " " }
    | _ => { name := d, attrs := [] }

/-- the allow-list as the Go map: a later definition of the same name replaces the earlier one -/
def lookupTag (allow : List AllowedTag) (name : String) : Option AllowedTag :=
  allow.reverse.find? (·.name == name)

inductive Tok where
  | startTag (name : String) (attrs : List (String × String)) (selfClosing : Bool)
  | endTag (name : String)
  | text (escaped : String)
  deriving Repr, Inhabited

/-- x/net/html `EscapeString`: & ' < > " and carriage return -/
def escTable : List (Char × String) :=
  [('&', "&amp;"), ('\'', "&#39;"), ('<', "&lt;"), ('>', "&gt;"), ('"', "&#34;"), ('\r', "&#13;")]

def htmlEscape (s : String) : String := escapeHtmlWith escTable s

def isVoid (name : String) : Bool := Gen.voidTags.contains name

mutual
def cleanToks (allow : List AllowedTag) : Nat → DNode → List Tok
  | 0, _ => []
  | fuel + 1, n =>
    match n with
    | .text data => [.text (htmlEscape data)]
    | .comment _ kids | .doctype _ kids | .other kids => cleanList allow fuel kids
    | .elem name attrs kids =>
      match lookupTag allow name with
      | some tag =>
        if tag.name == "" then cleanList allow fuel kids else     -- `allowedTag.name != ""`
        let kept := attrs.filter (fun a => tag.attrs.contains a.1)
        [.startTag name kept (isVoid name)] ++ cleanList allow fuel kids ++ (if isVoid name then [] else [.endTag name])
      | none => cleanList allow fuel kids

def cleanList (allow : List AllowedTag) : Nat → List DNode → List Tok
  | 0, _ => []
  | _ + 1, [] => []
  | fuel + 1, n :: rest => cleanToks allow fuel n ++ cleanList allow fuel rest
end

def renderAttr (a : String × String) : String :=
  if a.2 != "" then " " ++ a.1 ++ "=\"" ++ htmlEscape a.2 ++ "\"" else " " ++ a.1

def renderTok : Tok → String
  | .startTag name attrs sc => "<" ++ name ++ String.join (attrs.map renderAttr) ++ (if sc then " /" else "") ++ ">"
  | .endTag name => "</" ++ name ++ ">"
  | .text s => s

def renderChars (toks : List Tok) : List Char := toks.flatMap (fun t => (renderTok t).toList)

def render (toks : List Tok) : String := String.ofList (renderChars toks)

/-- the template function: allow-list definitions + the parsed fragment (a list of top-level nodes) -/
def stripTags (defs : List String) (doc : List DNode) (fuel : Nat) : String :=
  render (cleanList (defs.map createTag) fuel doc)

end Pug.Strip
