/-
Model of the post-processing in otto/parser.ParseFunction: the parsed program (ANY program: the body text can close the
wrapper `(function(…) {\n … \n})` and add statements of its own) is turned into a function literal or an error.
`shape` is how the source extracts the function: "checked" = comma-ok assertions with an error fallback,
"unchecked" = `program.Body[0].(*ast.ExpressionStatement).Expression.(*ast.FunctionLiteral)`.
-/
namespace Pug.JS

inductive ExprKind where
  | functionLiteral | sequence | call | other
  deriving Repr, DecidableEq

inductive StmtKind where
  | expression (e : ExprKind) | other
  deriving Repr, DecidableEq

inductive PFResult where
  | tree | error | panic
  deriving Repr, DecidableEq

def extractFunction (shape : String) (parseErr : Bool) (body : List StmtKind) : PFResult :=
  if parseErr then .error else
  if shape == "checked" then
    match body with
    | [.expression .functionLiteral] => .tree
    | _ => .error
  else
    match body with
    | [] => .panic                                    -- index out of range
    | .expression .functionLiteral :: _ => .tree
    | _ => .panic                                     -- failed type assertion

end Pug.JS
