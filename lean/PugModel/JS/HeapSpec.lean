import PugModel.JS.Spec
import PugModel.Pug.Syntax
import PugModel.Basic.Html
/-
Reference semantics for C20: ECMAScript Array/String methods over *call sequences*, with arrays as heap objects
(object identity: `var b = a` aliases; `slice`/`splice` return FRESH arrays). Elements are primitives.
-/
namespace Pug.JS.HeapSpec
open Pug Pug.JS

inductive HVal where
  | prim (v : JSVal)      -- num / str / bool / null / undefined
  | ref (addr : Nat)
  deriving Inhabited

structure HState where
  vars : List (String × HVal)
  heap : List (List JSVal)
  out : String

def getVar (s : HState) (x : String) : HVal :=
  match s.vars.reverse.find? (·.1 == x) with
  | some (_, v) => v
  | none => .prim .undefined

def setVar (s : HState) (x : String) (v : HVal) : HState := { s with vars := s.vars ++ [(x, v)] }
def getArr (s : HState) (a : Nat) : List JSVal := s.heap.getD a []
def setArr (s : HState) (a : Nat) (l : List JSVal) : HState := { s with heap := s.heap.set a l }
def alloc (s : HState) (l : List JSVal) : HState × HVal := ({ s with heap := s.heap ++ [l] }, .ref s.heap.length)

/-- default sort: by the string conversion of the elements -/
def sortDefault (l : List JSVal) : Option (List JSVal) := do
  let keyed ← l.mapM fun v => do pure (← toStr v, v)
  pure ((keyed.foldl (fun acc kv =>
    let (lo, hi) := acc.span (fun x => !(kv.1 < x.1))
    lo ++ [kv] ++ hi) []).map (·.2))

abbrev SM := StateT HState Option

def fail {α} : SM α := fun _ => none

partial def evalH (e : Expr) : SM HVal := do
  let prim (v : JSVal) : SM HVal := pure (.prim v)
  let asPrim (h : HVal) : SM JSVal := match h with
    | .prim v => pure v
    | .ref _ => fail
  match e with
  | .num q _ => prim (.num q)
  | .str s => prim (.str s)
  | .bool b => prim (.bool b)
  | .null => prim .null
  | .ident x => do return getVar (← get) x
  | .un .neg a => do
    match ← evalH a with
    | .prim (.num q) => prim (.num (-q))
    | _ => fail
  | .arr es => do
    let vs ← es.mapM fun x => do asPrim (← evalH x)
    let (s, r) := alloc (← get) vs
    set s
    pure r
  | .dot a "length" => do
    match ← evalH a with
    | .ref r => do prim (.num (getArr (← get) r).length)
    | .prim (.str s) => prim (.num s.length)
    | _ => fail
  | .idx a i => do
    match ← evalH a, ← evalH i with
    | .ref r, .prim (.num q) => do
      let l := getArr (← get) r
      if q.den == 1 && q.num ≥ 0 && q.num < l.length then prim (l.getD q.num.toNat .undefined) else prim .undefined
    | _, _ => fail
  | .call (.dot recv name) args => do
    let r ← evalH recv
    let as ← args.mapM fun x => do asPrim (← evalH x)
    match r with
    | .prim v =>
      match callMethod v name as with
      | some (.arr xs) => do
        let (s, rr) := alloc (← get) xs
        set s
        pure rr
      | some res => prim res
      | none => fail
    | .ref a => do
      let s ← get
      let l := getArr s a
      match name, as with
      | "push", xs => do set (setArr s a (l ++ xs)); prim (.num (l.length + xs.length))
      | "pop", [] =>
        match l.reverse with
        | [] => prim .undefined
        | last :: rest => do set (setArr s a rest.reverse); prim last
      | "shift", [] =>
        match l with
        | [] => prim .undefined
        | first :: rest => do set (setArr s a rest); prim first
      | "unshift", xs => do set (setArr s a (xs ++ l)); prim (.num (l.length + xs.length))
      | "sort", [] =>
        match sortDefault l with
        | some l' => do set (setArr s a l'); pure (.ref a)
        | none => fail
      | "splice", [.num q] =>
        if q.den == 1 && q.num ≥ 0 && q.num ≤ l.length then do
          let (s2, rr) := alloc (setArr s a (l.take q.num.toNat)) (l.drop q.num.toNat)
          set s2
          pure rr
        else fail
      | "slice", [.num q] =>
        if q.den == 1 && q.num ≥ 0 && q.num ≤ l.length then do
          let (s2, rr) := alloc s (l.drop q.num.toNat)
          set s2
          pure rr
        else fail
      | _, _ =>
        match callMethod (.arr l) name as with
        | some res => prim res
        | none => fail
  | _ => fail

/-- run a document made of unbuffered statements, buffered prints and texts -/
def run (doc : List Node) (data : List (String × JSVal)) : Option String :=
  let init : HState :=
    data.foldl (fun s (k, v) => match v with
      | .arr xs => let (s', r) := alloc s xs; setVar s' k r
      | v => setVar s k (.prim v)) { vars := [], heap := [], out := "" }
  let step (n : Node) : SM Unit := do
    match n with
    | .text t => modify fun s => { s with out := s.out ++ t }
    | .codeBuf e esc _ => do
      match ← evalH e with
      | .prim v =>
        match printed v with
        | some t => modify fun s => { s with out := s.out ++ (if esc then escapeHtmlWith [('&', "&amp;"), ('<', "&lt;"), ('>', "&gt;"), ('"', "&#34;"), ('\'', "&#39;")] t else t) }
        | none => fail
      | .ref _ => fail
    | .codeRaw stmts _ =>
      stmts.forM fun st => do
        match st with
        | .var x (some e) => do let v ← evalH e; modify fun s => setVar s x v
        | .var x none => modify fun s => setVar s x (.prim .undefined)
        | .assign (.ident x) e => do let v ← evalH e; modify fun s => setVar s x v
        | .expr e => do let _ ← evalH e; pure ()
        | _ => fail
    | _ => fail
  match (doc.forM step).run init with
  | some (_, s) => some s.out
  | none => none

end Pug.JS.HeapSpec
