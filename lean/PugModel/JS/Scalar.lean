import PugModel.JS.Spec
/-!
The scalar fragment of the C01 expression subset as an inductive type of its own: number / string / boolean literals,
variables, the arithmetic, comparison, equality and logical operators, unary minus and not, the conditional operator - any
nesting. `sEval` is ECMAScript on that fragment, evaluated STRICTLY (both operands of `&&`, `||`, `?:` must have a value;
the result is JavaScript's: the operand itself). `none` = outside the property's domain (mixed-type operation, division by
zero, remainder of non-integers, unbound variable).
-/
namespace Pug.JS

inductive SVal where
  | num (q : Rat)
  | str (s : String)
  | bool (b : Bool)
  deriving Repr, DecidableEq, Inhabited

def SVal.toJS : SVal → JSVal
  | .num q => .num q
  | .str s => .str s
  | .bool b => .bool b

inductive SExpr where
  | num (q : Rat) (isInt : Bool)
  | str (s : String)
  | bool (b : Bool)
  | var (x : String)
  | bin (op : BinOp) (l r : SExpr)
  | not (e : SExpr)
  | neg (e : SExpr)
  | cond (c a b : SExpr)
  deriving Repr, Inhabited

def SExpr.toExpr : SExpr → Expr
  | .num q i => .num q i
  | .str s => .str s
  | .bool b => .bool b
  | .var x => .ident x
  | .bin op l r => .bin op l.toExpr r.toExpr
  | .not e => .un .not e.toExpr
  | .neg e => .un .neg e.toExpr
  | .cond c a b => .cond c.toExpr a.toExpr b.toExpr

def SExpr.depth : SExpr → Nat
  | .num .. | .str _ | .bool _ | .var _ => 0
  | .bin _ l r => max l.depth r.depth + 1
  | .not e | .neg e => e.depth + 1
  | .cond c a b => max c.depth (max a.depth b.depth) + 1

abbrev SEnv := List (String × SVal)

/-- the newest binding of the name (as `lookupProp`) -/
def sLookup (ρ : SEnv) (x : String) : Option SVal :=
  match ρ.reverse.find? (·.1 == x) with
  | some (_, v) => some v
  | none => none

def sToBool : SVal → Bool
  | .num q => q.num != 0
  | .str s => s.length > 0
  | .bool b => b

/-- a binary operator other than `&&` / `||` on two scalar values -/
def sBin (op : BinOp) (a b : SVal) : Option SVal :=
  match op, a, b with
  | .add, .num x, .num y => some (.num (x + y))
  | .add, .str x, .str y => some (.str (x ++ y))
  | .sub, .num x, .num y => some (.num (x - y))
  | .mul, .num x, .num y => some (.num (x * y))
  | .div, .num x, .num y => if y == 0 then none else some (.num (x / y))
  | .mod, .num x, .num y => (jsRem x y).map .num
  | .lt, .num x, .num y => some (.bool (x < y))
  | .le, .num x, .num y => some (.bool (x ≤ y))
  | .gt, .num x, .num y => some (.bool (x > y))
  | .ge, .num x, .num y => some (.bool (x ≥ y))
  | .lt, .str x, .str y => some (.bool (x < y))
  | .le, .str x, .str y => some (.bool (x < y || x == y))
  | .gt, .str x, .str y => some (.bool (y < x))
  | .ge, .str x, .str y => some (.bool (y < x || x == y))
  | .eq, .num x, .num y | .seq, .num x, .num y => some (.bool (x == y))
  | .eq, .str x, .str y | .seq, .str x, .str y => some (.bool (x == y))
  | .eq, .bool x, .bool y | .seq, .bool x, .bool y => some (.bool (x == y))
  | .ne, .num x, .num y | .sne, .num x, .num y => some (.bool (!(x == y)))
  | .ne, .str x, .str y | .sne, .str x, .str y => some (.bool (!(x == y)))
  | .ne, .bool x, .bool y | .sne, .bool x, .bool y => some (.bool (!(x == y)))
  | _, _, _ => none

def sEval (ρ : SEnv) : SExpr → Option SVal
  | .num q _ => some (.num q)
  | .str s => some (.str s)
  | .bool b => some (.bool b)
  | .var x => sLookup ρ x
  | .bin op l r =>
    match sEval ρ l, sEval ρ r with
    | some a, some b =>
      match op with
      | .land => some (if sToBool a then b else a)
      | .lor => some (if sToBool a then a else b)
      | op => sBin op a b
    | _, _ => none
  | .not e => (sEval ρ e).map fun v => .bool (!sToBool v)
  | .neg e =>
    match sEval ρ e with
    | some (.num q) => some (.num (-q))
    | _ => none
  | .cond c a b =>
    match sEval ρ c, sEval ρ a, sEval ρ b with
    | some vc, some va, some vb => some (if sToBool vc then va else vb)
    | _, _, _ => none

end Pug.JS
