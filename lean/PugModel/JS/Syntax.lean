import PugModel.Basic.Num
/-! JavaScript expression/statement subset (AST as produced by the otto parser for the snippets of a pug template). -/
namespace Pug.JS

inductive BinOp where
  | add | sub | mul | div | mod
  | lt | le | gt | ge | eq | seq | ne | sne
  | land | lor
  deriving Repr, DecidableEq, Inhabited

inductive UnOp where
  | not | neg
  deriving Repr, DecidableEq, Inhabited

inductive Expr where
  | num (q : Rat) (isInt : Bool)      -- NumberLiteral: int64 or float64 as the otto lexer decides
  | str (s : String)
  | bool (b : Bool)
  | null
  | ident (x : String)
  | bin (op : BinOp) (l r : Expr)
  | un (op : UnOp) (e : Expr)
  | cond (c a b : Expr)
  | arr (es : List Expr)
  | obj (kvs : List (String × Expr))
  | dot (e : Expr) (name : String)
  | idx (e i : Expr)
  | call (f : Expr) (args : List Expr)
  | tpl (parts : List (Sum String Expr))    -- template literal `a ${e} b`
  deriving Repr, Inhabited

inductive Stmt where
  | var (x : String) (e : Option Expr)
  | assign (l : Expr) (e : Expr)      -- x = e | x[k] = e | x.f = e
  | inc (x : String)                  -- x++
  | expr (e : Expr)
  deriving Repr, Inhabited

def BinOp.ofString : String → Option BinOp
  | "+" => some .add | "-" => some .sub | "*" => some .mul | "/" => some .div | "%" => some .mod
  | "<" => some .lt | "<=" => some .le | ">" => some .gt | ">=" => some .ge
  | "==" => some .eq | "===" => some .seq | "!=" => some .ne | "!==" => some .sne
  | "&&" => some .land | "||" => some .lor
  | _ => none

end Pug.JS
