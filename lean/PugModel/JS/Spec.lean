import PugModel.JS.Syntax
import PugModel.Data.Json
/-
Reference semantics: ECMA-262 restricted to the expression subset of property C01 — the *specification* the
template engine is compared with. Pure (no mutation; arrays/objects are values). Numbers are exact rationals:
the domain of C01 is where float64 arithmetic is exact. `none` = outside the subset (type error, NaN, …).
-/
namespace Pug.JS

inductive JSVal where
  | num (q : Rat)
  | str (s : String)
  | bool (b : Bool)
  | null
  | undefined
  | arr (items : List JSVal)
  | obj (props : List (String × JSVal))
  deriving Repr, Inhabited

/-- ToBoolean -/
def toBool : JSVal → Bool
  | .num q => q.num != 0
  | .str s => s.length > 0
  | .bool b => b
  | .null | .undefined => false
  | .arr _ | .obj _ => true

/-- Number::toString on the domain where it is a plain decimal (terminating expansion, magnitude in [1e-6, 1e21)) -/
def numToString (q : Rat) : Option String := Pug.Data.jsonNum q

/-- ToString of a primitive; arrays/objects are outside the printed subset -/
def toStr : JSVal → Option String
  | .num q => numToString q
  | .str s => some s
  | .bool b => some (if b then "true" else "false")
  | .null => some "null"
  | .undefined => some "undefined"
  | _ => none

/-- what pug's buffered code prints: null/undefined print nothing -/
def printed : JSVal → Option String
  | .null | .undefined => some ""
  | v => toStr v

/-- strict equality on primitives -/
def strictEq : JSVal → JSVal → Option Bool
  | .num a, .num b => some (a == b)
  | .str a, .str b => some (a == b)
  | .bool a, .bool b => some (a == b)
  | .null, .null | .undefined, .undefined => some true
  | .arr _, _ | _, .arr _ | .obj _, _ | _, .obj _ => none     -- reference identity: outside the subset
  | _, _ => some false

def sameType : JSVal → JSVal → Bool
  | .num _, .num _ | .str _, .str _ | .bool _, .bool _ | .null, .null | .undefined, .undefined => true
  | _, _ => false

def jsRem (a b : Rat) : Option Rat :=
  if a.den == 1 && b.den == 1 && b.num != 0 then some ((a.num.tmod b.num : Int) : Rat) else none

def lookupProp (props : List (String × JSVal)) (k : String) : JSVal :=
  match props.reverse.find? (·.1 == k) with
  | some (_, v) => v
  | none => .undefined

def clampIdx (len : Int) (i : Int) : Nat :=
  let j := if i < 0 then max (len + i) 0 else min i len
  j.toNat

def strIndexOf (hay needle : List Char) : Int :=
  let rec go (l : List Char) (i : Nat) (fuel : Nat) : Int :=
    match fuel with
    | 0 => -1
    | fuel + 1 =>
      if needle.isPrefixOf l then i
      else match l with
        | [] => -1
        | _ :: r => go r (i + 1) fuel
  go hay 0 (hay.length + 1)

def strSplit (s sep : List Char) : List (List Char) :=
  if sep.isEmpty then s.map ([·])
  else
    let rec go (l cur : List Char) (acc : List (List Char)) (fuel : Nat) : List (List Char) :=
      match fuel with
      | 0 => acc
      | fuel + 1 =>
        if l.isEmpty then acc ++ [cur]
        else if sep.isPrefixOf l then go (l.drop sep.length) [] (acc ++ [cur]) fuel
        else match l with
          | [] => acc ++ [cur]
          | c :: r => go r (cur ++ [c]) acc fuel
    go s [] [] (s.length + 2)

def intOf (v : JSVal) : Option Int :=
  match v with
  | .num q => if q.den == 1 then some q.num else none
  | _ => none

/-- method calls of the subset (non-mutating) -/
def callMethod (recv : JSVal) (name : String) (args : List JSVal) : Option JSVal :=
  match recv, name, args with
  | .arr xs, "indexOf", [x] =>
    match x with
    | .arr _ | .obj _ => none
    | _ =>
      match xs.findIdx? (fun y => strictEq y x == some true) with
      | some i => some (.num i)
      | none => some (.num (-1))
  | .arr xs, "join", [.str sep] =>
    (xs.mapM fun (x : JSVal) => match x with
      | JSVal.null | JSVal.undefined => some ""
      | x => toStr x).map fun parts => .str (sep.intercalate parts)
  | .str s, "charAt", [i] =>
    match intOf i with
    | some k => if k < 0 || k ≥ s.length then some (.str "") else some (.str (String.ofList [s.toList.getD k.toNat ' ']))
    | none => none
  | .str s, "indexOf", [.str d] => some (.num (strIndexOf s.toList d.toList))
  | .str s, "slice", [a] =>
    match intOf a with
    | some i =>
      let len : Int := s.length
      let f := clampIdx len i
      some (.str (String.ofList (s.toList.drop f)))
    | none => none
  | .str s, "slice", [a, b] =>
    match intOf a, intOf b with
    | some i, some j =>
      let len : Int := s.length
      let f := clampIdx len i
      let t := clampIdx len j
      some (.str (String.ofList ((s.toList.drop f).take (t - f))))
    | _, _ => none
  | .str s, "split", [.str d] => some (.arr ((strSplit s.toList d.toList).map fun p => .str (String.ofList p)))
  | .str s, "toUpperCase", [] => some (.str s.toUpper)
  | .str s, "toLowerCase", [] => some (.str s.toLower)
  | _, _, _ => none

abbrev Env := List (String × JSVal)

/-- the binary operators other than `&&` / `||` on two values -/
def binPrim (op : BinOp) (a b : JSVal) : Option JSVal :=
  match op, a, b with
  | .add, .num x, .num y => pure (.num (x + y))
  | .add, .str x, .str y => pure (.str (x ++ y))
  | .add, .str x, .num y => do pure (.str (x ++ (← numToString y)))
  | .add, .num x, .str y => do pure (.str ((← numToString x) ++ y))
  | .sub, .num x, .num y => pure (.num (x - y))
  | .mul, .num x, .num y => pure (.num (x * y))
  | .div, .num x, .num y => if y == 0 then none else pure (.num (x / y))
  | .mod, .num x, .num y => do pure (.num (← jsRem x y))
  | .lt, .num x, .num y => pure (.bool (x < y))
  | .le, .num x, .num y => pure (.bool (x ≤ y))
  | .gt, .num x, .num y => pure (.bool (x > y))
  | .ge, .num x, .num y => pure (.bool (x ≥ y))
  | .lt, .str x, .str y => pure (.bool (x < y))
  | .le, .str x, .str y => pure (.bool (x < y || x == y))
  | .gt, .str x, .str y => pure (.bool (y < x))
  | .ge, .str x, .str y => pure (.bool (y < x || x == y))
  | .eq, x, y | .seq, x, y => if sameType x y then do pure (.bool (← strictEq x y)) else none
  | .ne, x, y | .sne, x, y => if sameType x y then do pure (.bool (!(← strictEq x y))) else none
  | _, _, _ => none

set_option linter.unusedVariables false in
/-- the reference evaluator; recursion is on the fuel (total), `evalFuel` is far above any nesting in use -/
def evalF : Nat → Env → Expr → Option JSVal
  | 0, _, _ => none
  | fuel + 1, ρ, .num q _ => some (.num q)
  | fuel + 1, ρ, .str s => some (.str s)
  | fuel + 1, ρ, .bool b => some (.bool b)
  | fuel + 1, ρ, .null => some .null
  | fuel + 1, ρ, .ident x => some (lookupProp ρ x)
  | fuel + 1, ρ, .un .not e => do let v ← evalF fuel ρ e; pure (.bool (!toBool v))
  | fuel + 1, ρ, .un .neg e => do
    match ← evalF fuel ρ e with
    | .num q => pure (.num (-q))
    | _ => none
  | fuel + 1, ρ, .bin op l r => do
    let a ← evalF fuel ρ l
    match op with
    | .land => if toBool a then evalF fuel ρ r else pure a
    | .lor => if toBool a then pure a else evalF fuel ρ r
    | _ =>
      let b ← evalF fuel ρ r
      binPrim op a b
  | fuel + 1, ρ, .cond c a b => do
    let v ← evalF fuel ρ c
    if toBool v then evalF fuel ρ a else evalF fuel ρ b
  | fuel + 1, ρ, .arr es => do pure (.arr (← es.mapM (evalF fuel ρ)))
  | fuel + 1, ρ, .obj kvs => do pure (.obj (← kvs.mapM fun (k, e) => do pure (k, ← evalF fuel ρ e)))
  | fuel + 1, ρ, .dot e name => do
    match ← evalF fuel ρ e, name with
    | .arr xs, "length" => pure (.num xs.length)
    | .str s, "length" => pure (.num s.length)
    | .obj ps, k => pure (lookupProp ps k)
    | _, _ => none
  | fuel + 1, ρ, .idx e i => do
    match ← evalF fuel ρ e, ← evalF fuel ρ i with
    | .arr xs, .num q =>
      if q.den == 1 && q.num ≥ 0 && q.num < xs.length then pure (xs.getD q.num.toNat .undefined) else pure .undefined
    | .obj ps, .str k => pure (lookupProp ps k)
    | _, _ => none
  | fuel + 1, ρ, .call (.dot recv name) args => do
    let r ← evalF fuel ρ recv
    let as ← args.mapM (evalF fuel ρ)
    callMethod r name as
  | fuel + 1, ρ, .call _ _ => none
  | fuel + 1, ρ, .tpl parts => do
    let ss ← parts.mapM fun p => match p with
      | .inl s => some s
      | .inr e => do toStr (← evalF fuel ρ e)
    pure (.str (String.join ss))


def evalFuel : Nat := 100000

def eval (ρ : Env) (e : Expr) : Option JSVal := evalF evalFuel ρ e

end Pug.JS
