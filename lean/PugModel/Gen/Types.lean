import PugModel.Fn.Math
/-! Types used by the generated tables (the generated file imports only this). -/
namespace Pug.Gen

/-- body of a comparison closure of runtime.go's funcmap, over the two primitive relations -/
inductive BExpr where
  | lss | eql            -- runtimeLss(x, y) / runtimeEql(x, y)
  | lssSwapped | eqlSwapped   -- runtimeLss(y, x) / runtimeEql(y, x)
  | not (a : BExpr)
  | and (a b : BExpr)
  | or (a b : BExpr)
  deriving Repr, DecidableEq

def BExpr.eval (lss eql lssS eqlS : Bool) : BExpr → Bool
  | .lss => lss
  | .eql => eql
  | .lssSwapped => lssS
  | .eqlSwapped => eqlS
  | .not a => !(a.eval lss eql lssS eqlS)
  | .and a b => a.eval lss eql lssS eqlS && b.eval lss eql lssS eqlS
  | .or a b => a.eval lss eql lssS eqlS || b.eval lss eql lssS eqlS

end Pug.Gen

namespace Pug.Gen

/-! ## guarded-return programs

Straight-line Go functions of the shape "statements; `if cond { return .. }`; ...; `return ..`" are translated statement by
statement by the extractor. Conditions are boolean combinations of ATOMS (named facts about the run: `openErr`, `statErr`,
`isDir`, or the source text of any condition the translator does not interpret - which then is a free variable of every
theorem about the program). -/

inductive GCond where
  | atom (a : String)
  | not (c : GCond)
  | and (a b : GCond)
  | or (a b : GCond)
  | tt
  deriving Repr, DecidableEq

inductive GStmt where
  | act (name : String)                 -- a statement with an effect on the run, named by the translator
  | retIf (c : GCond) (out : String)    -- `if c { return <out> }`
  | ret (out : String)                  -- `return <out>`
  deriving Repr, DecidableEq

def GCond.eval (v : String → Bool) : GCond → Bool
  | .atom a => v a
  | .not c => !(c.eval v)
  | .and a b => a.eval v && b.eval v
  | .or a b => a.eval v || b.eval v
  | .tt => true

/-- outcome: the first return that is reached, with the effects performed before it -/
def GStmt.run (v : String → Bool) : List GStmt → List String → Option (String × List String)
  | [], _ => none
  | .act n :: rest, done => GStmt.run v rest (done ++ [n])
  | .retIf c out :: rest, done => if c.eval v then some (out, done) else GStmt.run v rest done
  | .ret out :: _, done => some (out, done)

def GCond.atoms : GCond → List String
  | .atom a => [a]
  | .not c => c.atoms
  | .and a b => a.atoms ++ b.atoms
  | .or a b => a.atoms ++ b.atoms
  | .tt => []

def GStmt.atoms : List GStmt → List String
  | [] => []
  | .act _ :: rest => GStmt.atoms rest
  | .retIf c _ :: rest => c.atoms ++ GStmt.atoms rest
  | .ret _ :: rest => GStmt.atoms rest

/-- the valuation that reads atom `as[i]` from `bits[i]` (false elsewhere) -/
def valOf (as : List String) (bits : List Bool) : String → Bool :=
  fun a => ((as.zip bits).lookup a).getD false

def allBits : Nat → List (List Bool)
  | 0 => [[]]
  | n + 1 => (allBits n).flatMap fun b => [false :: b, true :: b]

end Pug.Gen
