import PugModel.Fn.Math
/-! Types used by the generated tables (the generated file imports only this). -/
namespace Pug.Gen

/-- body of a comparison closure of runtime.go's funcmap, over the two primitive relations -/
inductive BExpr where
  | lss | eql            -- runtimeLss(x, y) / runtimeEql(x, y)
  | lssSwapped | eqlSwapped   -- runtimeLss(y, x) / runtimeEql(y, x)
  | not (a : BExpr)
  | and (a b : BExpr)
  | or (a b : BExpr)
  deriving Repr, DecidableEq

def BExpr.eval (lss eql lssS eqlS : Bool) : BExpr → Bool
  | .lss => lss
  | .eql => eql
  | .lssSwapped => lssS
  | .eqlSwapped => eqlS
  | .not a => !(a.eval lss eql lssS eqlS)
  | .and a b => a.eval lss eql lssS eqlS && b.eval lss eql lssS eqlS
  | .or a b => a.eval lss eql lssS eqlS || b.eval lss eql lssS eqlS

end Pug.Gen
