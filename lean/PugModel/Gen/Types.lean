import PugModel.Fn.Math
/-! Types used by the generated tables (the generated file imports only this). -/
