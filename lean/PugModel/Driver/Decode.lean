import PugModel.Driver.Util
import PugModel.Pug.Syntax
/-! JSON → structured pug document (the case format shared with the Go harness). -/
namespace Pug.Driver
open Lean Pug

partial def decExpr (j : Json) : Except String JS.Expr := do
  match jstr j "t" with
  | "num" =>
    let s := jstr j "v"
    match parseDec s with
    | some q => pure (.num q (!(s.toList.contains '.')))
    | none => throw s!"bad number {s}"
  | "str" => pure (.str (jstr j "v"))
  | "bool" => pure (.bool (jbool j "v"))
  | "null" => pure .null
  | "id" => pure (.ident (jstr j "n"))
  | "bin" =>
    match JS.BinOp.ofString (jstr j "op") with
    | some op => pure (.bin op (← decExpr (jget j "l")) (← decExpr (jget j "r")))
    | none => throw "bad binop"
  | "un" =>
    let e ← decExpr (jget j "e")
    match jstr j "op" with
    | "!" => pure (.un .not e)
    | "-" => pure (.un .neg e)
    | o => throw s!"bad unop {o}"
  | "cond" => pure (.cond (← decExpr (jget j "c")) (← decExpr (jget j "a")) (← decExpr (jget j "b")))
  | "arr" => pure (.arr (← (jarr j "es").mapM decExpr))
  | "obj" =>
    let kvs ← (jarr j "kv").mapM fun kv => do
      match kv with
      | .arr #[.str k, v] => pure (k, ← decExpr v)
      | _ => throw "bad obj entry"
    pure (.obj kvs)
  | "dot" => pure (.dot (← decExpr (jget j "e")) (jstr j "n"))
  | "idx" => pure (.idx (← decExpr (jget j "e")) (← decExpr (jget j "i")))
  | "call" => pure (.call (← decExpr (jget j "f")) (← (jarr j "args").mapM decExpr))
  | "tpl" =>
    let parts ← (jarr j "parts").mapM fun p => do
      match p with
      | .str s => pure (Sum.inl s)
      | e => pure (Sum.inr (← decExpr e))
    pure (.tpl parts)
  | t => throw s!"unknown expr kind {t}"

def decStmt (j : Json) : Except String JS.Stmt := do
  match jstr j "t" with
  | "var" =>
    match jget j "e" with
    | .null => pure (.var (jstr j "n") none)
    | e => pure (.var (jstr j "n") (some (← decExpr e)))
  | "assign" => pure (.assign (← decExpr (jget j "l")) (← decExpr (jget j "e")))
  | "inc" => pure (.inc (jstr j "n"))
  | "expr" => pure (.expr (← decExpr (jget j "e")))
  | t => throw s!"unknown stmt kind {t}"

def decAttr (j : Json) : Except String Attr := do
  pure { name := jstr j "name", val := ← decExpr (jget j "val"), mustEscape := jbool j "esc" }

partial def decNode (j : Json) : Except String Node := do
  let kids (k : String) : Except String (List Node) := (jarr j k).mapM decNode
  match jstr j "t" with
  | "text" => pure (.text (jstr j "v"))
  | "tag" => pure (.tag (jstr j "name") (jbool j "inline") (← (jarr j "attrs").mapM decAttr) (jstrs j "ablocks") (← kids "kids"))
  | "code" =>
    if jbool j "buffer" then pure (.codeBuf (← decExpr (jget j "e")) (jbool j "esc") (jbool j "inline"))
    else pure (.codeRaw (← (jarr j "stmts").mapM decStmt) (jbool j "inline"))
  | "if" =>
    let els ← match jget j "else" with
      | .null => pure none
      | .arr a => pure (some (← a.toList.mapM decNode))
      | o => pure (some [← decNode o])
    pure (.cond (← decExpr (jget j "test")) (← kids "then") els)
  | "each" => pure (.each (jstr j "val") (jstr j "key") (← decExpr (jget j "obj")) (← kids "kids"))
  | "while" => pure (.while (← decExpr (jget j "test")) (← kids "kids"))
  | "case" =>
    let whens ← (jarr j "whens").mapM fun w => do
      let e ← match jget w "e" with
        | .str "default" => pure none
        | e => pure (some (← decExpr e))
      pure (e, ← (jarr w "kids").mapM decNode)
    pure (.case (← decExpr (jget j "e")) whens)
  | "mixin" => pure (.mixinDef (jstr j "name") (jstrs j "params") (← kids "kids"))
  | "call" => pure (.mixinCall (jstr j "name") (← (jarr j "args").mapM decExpr) (← (jarr j "attrs").mapM decAttr) (← kids "kids"))
  | "block" => pure .mixinBlock
  | "doctype" => pure (.doctype (jstr j "v"))
  | t => throw s!"unknown node kind {t}"

end Pug.Driver
