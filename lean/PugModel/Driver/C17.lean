import PugModel.Driver.Util
import PugModel.Sys.Partials
import PugModel.Gen.Tables
namespace Pug.Driver
open Lean Pug Pug.Sys

/-- The case carries, under "alone", what the real `Render` returned for every template name involved
    (measured by the harness); the model computes what `RenderPartials` must then return. -/
def runPartials (c : Json) (impl : Json) : Json × Json :=
  let alone := jobj impl "alone"
  let render (name : String) : RenderRes :=
    match alone.find? (·.1 == name) with
    | some (_, r) => if jstr r "class" == "ok" then .ok (jstr r "out") else .error (jstr r "class")
    | none => .error "unknown-to-harness"
  let res := renderPartials render Gen.partialInfix (jstr c "tpl") (jstrs c "req")
  let out : Json := match res with
    | .error e => Json.mkObj [("class", "error"), ("first", e)]
    | .ok m =>
      let keys := (m.map (·.1)).toArray.qsort (· < ·)
      Json.mkObj [("class", "ok"), ("keys", Json.arr (keys.map Json.str)),
                  ("content", Json.mkObj (m.map fun (k, v) => (k, Json.str v)))]
  (out, out)

end Pug.Driver
