import PugModel.Driver.Util
import PugModel.Sys.Loader
/-! `loadseq` / `loadconc` cases. -/
namespace Pug.Driver
open Lean Pug.Sys

def filesOf (c : Json) : Files := (jobj c "files").map fun (k, v) => (k, match v with | .str s => some s | _ => none)

def resStr : LRes → String
  | .ok c => "ok:" ++ c
  | .notFound => "notfound"
  | .error => "error"
  | .done => "done"

def runLoadSeqCase (c : Json) : Json × Json :=
  let s : LState := { debug := jbool c "debug", files := filesOf c, loaded := false, templates := none }
  let ops : List LOp := (jarr c "ops").filterMap fun o =>
    match jstr o "op" with
    | "load" => some (.load (jstr o "filter"))
    | "render" => some (.render (jstr o "name"))
    | "write" => some (.write (jstr o "name") (jstr o "content"))
    | "break" => some (.break_ (jstr o "name"))
    | "remove" => some (.remove (jstr o "name"))
    -- manifest.json (asset rewrites) is read by LoadTemplates, but whatever it holds - valid, truncated, absent - has no bearing on
    -- the template set: in the model it is not a template file (removing a name that does not exist changes nothing)
    | "manifest" => some (.remove "\x00manifest.json")
    | _ => none
  let rs := (lrun s ops).map fun r => match r with
    | .done => (match r with | _ => "done")
    | r => resStr r
  -- a load answers "ok" in the harness protocol
  let rs := (rs.zip ops).map fun (r, op) => match op, r with
    | .load _, "done" => "ok"
    | _, r => r
  (Json.mkObj [("class", "ok"), ("results", Json.arr (rs.toArray.map Json.str))], .null)

/-- concurrent first renders over constant files: whatever the interleaving, every render returns the template's content or
    not-found (theorems C10_prod_all_succeed / C10_debug_no_hiding); an explicit load may lose the race ("again") -/
def runLoadConcCase (c : Json) : Json × Json :=
  let files := filesOf c
  let allowed : List (List String) := (jarr c "threads").map fun t =>
    if jbool t "load" then ["ok", "error"]
    else
      let name := jstr t "name"
      match files.find? (·.1 == name) with
      | some (_, some content) => ["ok:" ++ content]
      | _ => ["notfound"]
  (Json.mkObj [("class", "ok"), ("allowed", Json.arr (allowed.toArray.map fun l => Json.arr (l.toArray.map Json.str)))], .null)

end Pug.Driver
