import PugModel.Driver.Render
import PugModel.Data.GoVal
/-! `gopath` cases: a Go value description + a path → what the template `[` `= x.path` `]` prints, by the model. -/
namespace Pug.Driver
open Lean Pug Pug.Tpl Pug.Data

partial def decGo (j : Json) : GoVal :=
  match j with
  | .null => .nil
  | _ =>
  match jstr j "k" with
  | "nil" => .nil
  | "str" => .str (jstr j "v")
  | "int" | "int64" | "uint8" | "float" =>
    match jget j "v" with
    | .num n => .num ((n.mantissa : Rat) / ((10 ^ n.exponent : Nat) : Rat))
    | _ => .nil
  | "bool" => .bool (jbool j "v")
  | "map" => .map ((jobj j "entries").map fun (k, v) => (k, decGo v))
  | "strmap" => .map ((jobj j "entries").map fun (k, v) => (k, match v with | .str s => GoVal.str s | _ => .nil))
  | "slice" => .slice ((jarr j "items").map decGo)
  | "strslice" => .slice ((jarr j "items").map fun v => match v with | .str s => GoVal.str s | _ => .nil)
  | "ptr" => match jget j "v" with
    | .null => .ptr none
    | v => .ptr (some (decGo v))
  | "struct" =>
    .struct ((jarr j "fields").map fun f =>
      let v := decGo (jget f "v")
      (jstr f "name", true, if jbool f "iface" then GoVal.iface (match v with | .nil => none | v => some v) else v)) []
  | "verrpage" =>
    -- the harness's `FormPage`: a FormError by value, by pointer, a nil *FormError, and an int
    let f := jstr j "field"
    let m := jstr j "message"
    let c : Rat := match jget j "code" with | .num x => (x.mantissa : Rat) / ((10 ^ x.exponent : Nat) : Rat) | _ => 0
    let v : GoVal := .struct [("Field", true, .str f), ("Message", true, .str m), ("Code", true, .num c)]
      [("Error", .str (f ++ ": " ++ m)), ("Label", .str ("label-" ++ f))]
    .struct [("Form", true, v), ("Ptr", true, .ptr (some v)), ("Last", true, .ptr none), ("N", true, .num 1)] []
  | "verr" =>
    -- the harness's compiled type `FormError` (three fields; value-receiver methods Error/Label), by value, by pointer, or a nil pointer
    if jbool j "nil" then .ptr none else
    let f := jstr j "field"
    let m := jstr j "message"
    let c : Rat := match jget j "code" with | .num x => (x.mantissa : Rat) / ((10 ^ x.exponent : Nat) : Rat) | _ => 0
    let v : GoVal := .struct [("Field", true, .str f), ("Message", true, .str m), ("Code", true, .num c)]
      [("Error", .str (f ++ ": " ++ m)), ("Label", .str ("label-" ++ f))]
    if jbool j "ptr" then .ptr (some v) else v
  | "embed" =>
    -- the harness's `Product`: a struct embedding `*Base` (exported type name, so the embedded field is the member `base`)
    let base : GoVal := match jget j "base" with
      | .null => .ptr none
      | b => .ptr (some (.struct [("ID", true, .num (match jget b "id" with | .num x => (x.mantissa : Rat) / ((10 ^ x.exponent : Nat) : Rat) | _ => 0)),
                                  ("Slug", true, .str (jstr b "slug"))] []))
    let p : GoVal := .struct [("Sku", true, .str (jstr j "sku")), ("Base", true, base), ("Stock", true, .num 4)] []
    if jbool j "ptr" then .ptr (some p) else p
  | "scene" =>
    -- the harness's `Scene`: `Rect` values and pointers behind the non-empty interface type `Shape`, in a field, a slice and a map
    let num (k : String) : Rat := match jget j k with | .num x => (x.mantissa : Rat) / ((10 ^ x.exponent : Nat) : Rat) | _ => 0
    let rect (l : String) (w h : Rat) : GoVal := .struct [("Label", true, .str l), ("W", true, .num w), ("H", true, .num h)] [("Area", .num (w * h))]
    let rc := rect (jstr j "label") (num "w") (num "h")
    let r2 := rect "second" 2 5
    .struct [("Main", true, .iface (some rc)), ("Boxed", true, .iface (some (.ptr (some rc)))), ("None", true, .iface none),
             ("Shapes", true, .slice [.iface (some rc), .iface (some r2), .iface (some (.ptr (some r2)))]),
             ("ByName", true, .map [("p", .iface (some (.ptr (some r2)))), ("r", .iface (some rc))]), ("Any", true, .iface (some rc))] []
  | "twin" =>
    -- the harness's two function-local types called Product
    let t := jstr j "title"
    let n : Rat := match jget j "n" with | .num x => (x.mantissa : Rat) / ((10 ^ x.exponent : Nat) : Rat) | _ => 0
    if jstr j "which" == "A" then .struct [("Title", true, .str t), ("Price", true, .num n)] []
    else .struct [("Sku", true, .str ("sku-" ++ t)), ("Title", true, .str t), ("Stock", true, .num n), ("Extra", true, .str "x")] []
  | "leafy" =>
    -- the harness's compiled type `Leafy` (fields, one unexported; value-receiver methods Title/Double/First)
    let name := jstr j "name"
    let count : Rat := match jget j "count" with | .num n => (n.mantissa : Rat) / ((10 ^ n.exponent : Nat) : Rat) | _ => 0
    let ratio : Rat := match jget j "ratio" with | .num n => (n.mantissa : Rat) / ((10 ^ n.exponent : Nat) : Rat) | _ => 0
    let child : GoVal := match jget j "child" with | .null => .ptr none | c => .ptr (some (decGo c))
    let tags : GoVal := match jget j "tags" with | .arr a => .slice (a.toList.map fun v => match v with | .str s => GoVal.str s | _ => .nil) | _ => .slice []
    let metaV : GoVal := match jget j "meta" with | .obj o => .map (o.toList.map fun (k, v) => (k, decGo v)) | _ => .map []
    let any : GoVal := match jget j "any" with | .null => .iface none | a => .iface (some (decGo a))
    .struct [("Name", true, .str name), ("Count", true, .num count), ("Ratio", true, .num ratio), ("Ok", true, .bool (jbool j "ok")),
             ("hidden", false, .str "secret"), ("Child", true, child), ("Tags", true, tags), ("Meta", true, metaV), ("Any", true, any),
             ("URL", true, .str ("u:" ++ name)), ("UserID", true, .num (count + 7))]
            [("Title", .str ("T:" ++ name)), ("Double", .num (count * 2)), ("First", any)]
  | _ => .nil

def pathExpr (path : List Json) : JS.Expr :=
  path.foldl (fun e st =>
    match jget st "f", jget st "k", jget st "i", jget st "m" with
    | .str f, _, _, _ => JS.Expr.dot e f
    | _, .str k, _, _ => JS.Expr.idx e (.str k)
    | _, _, .num n, _ => JS.Expr.idx e (.num (n.mantissa : Rat) true)
    | _, _, _, .str m => JS.Expr.call (.dot e m) []
    | _, _, _, _ => e) (JS.Expr.ident "x")

/-- Template.execute on a struct / map page data: every exported field (map key) `F` defines `$F` and `$lowerFirst F`, in field
    (sorted key) order -/
def rootGlobals (g : GoVal) (h : Heap) : Heap × List (String × Val) :=
  let rec strip : GoVal → GoVal
    | .ptr (some v) | .iface (some v) => strip v
    | v => v
  let entries : List (String × GoVal) := match strip g with
    | .struct fields _ => (fields.filter (·.2.1)).map fun f => (f.1, f.2.2)
    | .map es => es
    | _ => []
  entries.foldl (fun (acc : Heap × List (String × Val)) (kv : String × GoVal) =>
    let (h', v) := convertGo kv.2 acc.1
    (h', acc.2 ++ [("$" ++ kv.1, v), ("$" ++ lowerFirst kv.1, v)])) (h, [])

def rootExpr (path : List Json) : JS.Expr :=
  match path with
  | first :: rest =>
    rest.foldl (fun e st =>
      match jget st "f", jget st "k", jget st "i", jget st "m" with
      | .str f, _, _, _ => JS.Expr.dot e f
      | _, .str k, _, _ => JS.Expr.idx e (.str k)
      | _, _, .num n, _ => JS.Expr.idx e (.num (n.mantissa : Rat) true)
      | _, _, _, .str m => JS.Expr.call (.dot e m) []
      | _, _, _, _ => e) (JS.Expr.ident (jstr first "f"))
  | [] => .null

def runGoPath (c : Json) : Json × Json :=
  let g := decGo (jget c "val")
  let isRoot := jbool c "root"
  let (h, v) := convertGo g Heap.empty
  let (h, gl) := h.allocMap { items := [], order := [] }
  let (h, rootVars) := if isRoot then rootGlobals g h else (h, [])
  let globals : List (String × Val) := (if isRoot then rootVars else [("$x", v)]) ++ [("$global", gl)]
  let st : St := { vars := [("$", .nil)] ++ globals, globals := globals, heap := h, out := "", depth := 0 }
  let doc : List Node := [.text "[", .codeBuf (if isRoot then rootExpr (jarr c "path") else pathExpr (jarr c "path")) true true, .text "]"]
  let env : CEnv := { funcs := engineFuncs, parserFuncs := engineFuncs ++ builtinNames }
  match compileDoc env doc with
  | .error e => (cerrJson e, .null)
  | .ok cd =>
    match (walkList 1000000 { defs := cd.defs } cd.main).run st with
    | .error e => (errJson e, .null)
    | .ok (_, st') => (okOut st'.out, .null)

end Pug.Driver
