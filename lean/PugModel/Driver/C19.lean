import PugModel.Driver.Util
import PugModel.Sys.Assets
import PugModel.Gen.Tables
namespace Pug.Driver
open Lean Pug.Sys

def runAssetCase (c : Json) : Json × Json :=
  let files := (jobj c "files").map (·.1)
  let dirs := jstrs c "dirs"
  let upath := jstr c "upath"
  let served := match serve files dirs upath with
    | .file rel => Json.mkObj [("kind", "file"), ("rel", rel)]
    | .redirect => Json.mkObj [("kind", "redirect")]
    | .refused => Json.mkObj [("kind", "refused")]
  let wl := jstrs c "whitelist"
  let acao : Json := match jget c "origin" with
    | .str o => if corsAllowed Gen.corsTest wl o then .str o else .null
    | _ => if corsAllowed Gen.corsTest wl "" then .str "" else .null     -- no Origin header: Header.Get gives ""
  -- specification: exact membership
  let specAcao : Json := match jget c "origin" with
    | .str o => if o != "" && (wl.contains o || wl.contains "*") then .str o else .null
    | _ => .null
  (Json.mkObj [("class", "ok"), ("served", served), ("acao", acao)], Json.mkObj [("class", "ok"), ("acao", specAcao)])

def runCleanCase (c : Json) : Json × Json :=
  (Json.mkObj [("class", "ok"), ("out", goCleanRooted (jstr c "s"))], .null)

end Pug.Driver
