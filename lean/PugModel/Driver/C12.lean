import PugModel.Driver.Render
/-! `json` cases: the text `JSON.stringify(x)` / `json(x)` / stringify∘parse∘stringify produce, by the model. -/
namespace Pug.Driver
open Lean Pug Pug.Tpl Pug.Data

def runJson (c : Json) : Json × Json :=
  let (h, v) := convertData (jget c "x") Heap.empty
  match marshal h (strFuel h + 64) v with
  | none => (clsOut "model-domain" "json.Marshal outside domain", .null)
  | some s =>
    if jstr c "via" == "reparse" then
      -- JSON.parse: Go's decoder into interface{} then Convert; modelled with the core JSON parser + convertData
      match Json.parse s with
      | .error e => (clsOut "panic" e, .null)
      | .ok j =>
        let (h2, v2) := convertData j Heap.empty
        match marshal h2 (strFuel h2 + 64) v2 with
        | some s2 => (okOut s2, .null)
        | none => (clsOut "model-domain", .null)
    else (okOut s, .null)

end Pug.Driver
