import PugModel.Driver.Util
import PugModel.JS.ParseFunction
import PugModel.Gen.Tables
namespace Pug.Driver
open Lean Pug.JS

/-- what the parser entry points may answer for ANY byte string: a tree or an error — never a panic, never a time-out;
    ParseFunction's answer follows from ParseFile's answer on the wrapped source through `extractFunction` -/
def runParseCase (_c : Json) : Json × Json :=
  let allowed := Json.arr #["tree", "error"]
  let pf := match extractFunction Gen.parseFunctionShape false [.expression .sequence] with
    | .panic => Json.arr #["tree", "error", "panic"]
    | _ => allowed
  (Json.mkObj [("class", "ok"), ("file", allowed), ("func", pf)], .null)

end Pug.Driver
