import PugModel.Driver.Util
import PugModel.Sys.Startup
/-!
`startup` cases: script + probes observed on the real Startup / Ready handler → membership in the model's allowed observations.
The model state is advanced with the scripted events; the waiter's and the listener's steps are internal, so after each
operation the allowed probe answers are: 425 only, while the model cannot have closed `done` (C16_safe); {425, 200} once it can;
and the settled answer must be 200 when every process has returned and Finish was called (C16_live); 200 is never followed by
425 (C16_monotone); the listener gets exactly the first failure, or nil (C16_first_error_once).
-/
namespace Pug.Driver
open Lean Pug.Sys

def checkStartup (c : Json) (impl : Json) : Option String := Id.run do
  let k := (jint c "k").toNat
  let script := jarr c "script"
  let probes := jarr impl "probes"
  if probes.length != script.length then return some s!"{probes.length} probes for {script.length} operations"
  -- all k processes are registered first
  let mut s : SState := SState.init
  for p in List.range k do
    match sstep s (.add p) with
    | some s' => s := s'
    | none => return some "model: add not enabled"
  let mut seen200 := false
  let mut step := 0
  for (op, pr) in script.zip probes do
    step := step + 1
    match jstr op "op" with
    | "complete" =>
      match sstep s (.complete (jint op "p").toNat (jbool op "fail")) with
      | some s' => s := s'
      | none => return some s!"step {step}: model: complete not enabled"
    | "finish" =>
      match sstep s .finish with
      | some s' => s := s'
      | none => return some s!"step {step}: model: finish not enabled"
    | _ => pure ()
    let now := jint pr "now"
    let settled := jint pr "settled"
    let canBeReady := s.finishCalled && s.allEnded
    for code in [now, settled] do
      if code != 200 && code != 425 then return some s!"step {step}: status {code}"
      if code == 200 && !canBeReady then
        return some s!"step {step}: 200 although {if s.finishCalled then "a process is still running" else "Finish was not called"}"
      if code == 425 && seen200 then return some s!"step {step}: 425 after 200"
      if code == 200 then seen200 := true
    if canBeReady && settled != 200 then return some s!"step {step}: every process has returned and Finish was called, but 200 did not come"
  let canBeReady := s.finishCalled && s.allEnded
  for p in jarr impl "post" do
    match p with
    | .num n =>
      if n.mantissa == 200 && !canBeReady then return some "200 at the end although startup is not over"
      if n.mantissa == 425 && (seen200 || canBeReady) then return some "425 at the end after 200 / after startup is over"
    | _ => pure ()
  -- the listener
  let l := jget impl "listener"
  let received := jbool l "received"
  let got := jstr l "err"
  if canBeReady then
    if !received then return some "the listener never received although startup is over"
    let want := match s.firstErr with
      | some p => s!"p{p}"
      | none => "nil"
    if got != want then return some s!"the listener received {got}, the first failure is {want}"
  else if received then
    -- before startup is over the only thing the listener may have received is the first error (waiter blocked in the send)
    match s.firstErr with
    | some p => if !(s.finishCalled && s.allEnded) then return some s!"the listener received {got} before every process had returned (first failure p{p})"
    | none => return some s!"the listener received {got} before startup was over"
  return none

def runStartupCase (c : Json) : Json × Json :=
  match checkStartup c (jget c "impl") with
  | none => (Json.mkObj [("class", "ok"), ("verdict", "ok")], .null)
  | some why => (Json.mkObj [("class", "ok"), ("verdict", why)], .null)

end Pug.Driver
