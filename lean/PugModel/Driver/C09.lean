import PugModel.Driver.Util
import PugModel.Sys.RateLimit
/-!
`gate` cases: the script and the observations made on the real engine → are the observations among those the gate model
allows? Wake-up order is Go's choice, so this is a membership check, not an equality:
after every operation (at quiescence, C09_quiescent) the set of renders observed inside must satisfy
  |inside| ≤ N,   inside ⊆ in progress,   nobody who could be admitted is left waiting (|inside| = N or no live waiter),
  a render stays inside until it is released,   a cancelled waiter is never inside and ends with the wait error,
and after the whole history N fresh renders are admitted simultaneously.
-/
namespace Pug.Driver
open Lean Pug.Sys

structure GSim where
  started : List (Nat × String)      -- id, scripted exit ("success"/"funcError"/"panic"/"notFound")
  released : List Nat
  cancelledCtx : List Nat
  everInside : List Nat
  prevInside : List Nat

def natsOf (j : Json) (k : String) : List Nat :=
  (jarr j k).filterMap fun x => match x with
    | .num n => if n.exponent == 0 && n.mantissa ≥ 0 then some n.mantissa.toNat else none
    | _ => none

def checkGate (c : Json) (impl : Json) : Option String := Id.run do
  let n : Int := jint c "n"
  let cap : Nat := if n > 0 then n.toNat else 0
  let script := jarr c "script"
  let obs := jarr impl "obs"
  let aborted := jbool impl "aborted"
  if obs.length != script.length && !aborted then return some s!"{obs.length} observations for {script.length} operations"
  let mut sim : GSim := { started := [], released := [], cancelledCtx := [], everInside := [], prevInside := [] }
  let mut step := 0
  for (op, ob) in script.zip obs do
    step := step + 1
    let id := (jint op "id").toNat
    let inside := natsOf ob "inside"
    let kind := jstr op "op"
    let nowInside := sim.prevInside.contains id
    if kind == "start" then sim := { sim with started := sim.started ++ [(id, jstr op "exit")] }
    else if kind == "startMissing" then sim := { sim with started := sim.started ++ [(id, "notFound")] }
    else if kind == "startCancelled" then
      sim := { sim with started := sim.started ++ [(id, "success")], cancelledCtx := sim.cancelledCtx ++ [id] }
    else if kind == "release" then
      sim := if nowInside then { sim with released := sim.released ++ [id] } else sim
    else if kind == "cancel" then
      sim := if sim.started.any (·.1 == id) then { sim with cancelledCtx := sim.cancelledCtx ++ [id] } else sim
    -- bound
    if cap > 0 && inside.length > cap then return some s!"step {step}: {inside.length} renders inside with a limit of {cap}"
    -- inside ⊆ in progress (started, blocking kind, not released)
    for t in inside do
      let blocking := sim.started.any (fun p => p.1 == t && p.2 != "notFound")
      if !blocking || sim.released.contains t then return some s!"step {step}: render {t} is inside but is not in progress"
    -- a render stays inside until released
    for t in sim.prevInside do
      if !sim.released.contains t && !inside.contains t then return some s!"step {step}: render {t} left the gate without being released"
    -- quiescence: nobody admissible is left waiting
    let liveWaiters := sim.started.filter fun p =>
      p.2 != "notFound" && !inside.contains p.1 && !sim.released.contains p.1 && !sim.cancelledCtx.contains p.1
    if cap == 0 && !liveWaiters.isEmpty then return some s!"step {step}: renders {liveWaiters.map (·.1)} wait although the limit is disabled"
    if cap > 0 && inside.length < cap && !liveWaiters.isEmpty then
      return some s!"step {step}: {inside.length} inside, limit {cap}, but renders {liveWaiters.map (·.1)} are kept waiting"
    sim := { sim with prevInside := inside, everInside := sim.everInside ++ inside }
  -- the harness stopped because the occupancy it waited for did not come: every observation so far was allowed by the model,
  -- so nothing is claimed about the rest of this history
  if aborted then return none
  -- outcomes
  let final := jobj impl "final"
  if !(jbool impl "drained") then return some "renders did not finish after everything was released / cancelled"
  for (id, exitK) in sim.started do
    let got := match final.find? (·.1 == toString id) with
      | some (_, .str s) => s
      | _ => "missing"
    if got == "cancelled" then
      if sim.everInside.contains id then return some s!"render {id} was inside and still got the wait error"
      else if !sim.cancelledCtx.contains id then return some s!"render {id} got the wait error without being cancelled"
    else if sim.released.contains id || exitK == "notFound" then
      if got != exitK then return some s!"render {id}: outcome {got}, scripted {exitK}"
    else if got != "success" && got != exitK then return some s!"render {id}: outcome {got}"
  if cap > 0 && jint impl "fresh_admitted" != cap then
    return some s!"after the history only {jint impl "fresh_admitted"} of {cap} fresh renders were admitted simultaneously (leaked slot)"
  return none

def runGateCase (c : Json) : Json × Json :=
  let impl := jget c "impl"
  match checkGate c impl with
  | none => (Json.mkObj [("class", "ok"), ("verdict", "ok")], .null)
  | some why => (Json.mkObj [("class", "ok"), ("verdict", why)], .null)

end Pug.Driver
