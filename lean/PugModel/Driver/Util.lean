import Lean.Data.Json
/-! JSON helpers for the line-protocol driver. -/
namespace Pug.Driver
open Lean

def jstr (j : Json) (k : String) : String :=
  match j.getObjVal? k with
  | .ok (.str s) => s
  | _ => ""

def jarr (j : Json) (k : String) : List Json :=
  match j.getObjVal? k with
  | .ok (.arr a) => a.toList
  | _ => []

def jstrs (j : Json) (k : String) : List String :=
  (jarr j k).filterMap fun x => match x with | .str s => some s | _ => none

def jobj (j : Json) (k : String) : List (String × Json) :=
  match j.getObjVal? k with
  | .ok (.obj o) => o.toList
  | _ => []

def jget (j : Json) (k : String) : Json :=
  match j.getObjVal? k with
  | .ok v => v
  | _ => .null

def jbool (j : Json) (k : String) : Bool :=
  match j.getObjVal? k with
  | .ok (.bool b) => b
  | _ => false

def jint (j : Json) (k : String) : Int :=
  match j.getObjVal? k with
  | .ok (.num n) => if n.exponent == 0 then n.mantissa else 0
  | _ => 0

def okOut (s : String) : Json := Json.mkObj [("class", "ok"), ("out", s)]
def clsOut (c : String) (msg : String := "") : Json := Json.mkObj [("class", c), ("msg", msg)]

end Pug.Driver
