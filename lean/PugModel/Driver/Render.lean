import PugModel.Driver.Decode
import PugModel.Tpl.Compile
import PugModel.JS.Spec
import PugModel.Pug.Spec
import PugModel.Pug.AttrSpec
import PugModel.JS.HeapSpec
/-! `render` cases: structured pug document + JSON data → the model's output class and bytes. -/
namespace Pug.Driver
open Lean Pug Pug.Tpl

/-- `convert` of JSON-shaped Go data (map[string]interface{}, []interface{}, string, float64/int, bool, nil); recursion on the
    fuel (total) -/
def convertDataF : Nat → Json → Heap → Heap × Val
  | 0, _, h => (h, .nil)
  | fuel + 1, j, h =>
    match j with
    | .null => (h, .nil)
    | .bool b => (h, .B b)
    | .str s => (h, .S s)
    | .num n =>
      let q : Rat := (n.mantissa : Rat) / ((10 ^ n.exponent : Nat) : Rat)
      (h, .N q)
    | .arr a =>
      let (h, items) := a.toList.foldl (fun (acc : Heap × List Val) x =>
        let (h', v) := convertDataF fuel x acc.1
        (h', acc.2 ++ [v])) (h, [])
      h.allocArr items
    | .obj o =>
      let (h, items) := o.toList.foldl (fun (acc : Heap × List (String × Val)) (kv : String × Json) =>
        let (h', v) := convertDataF fuel kv.2 acc.1
        (h', acc.2 ++ [(kv.1, v)])) (h, [])
      h.allocMap { items := items, order := [] }

def convertData (j : Json) (h : Heap) : Heap × Val := convertDataF 100000 j h

/-- names known to the template parser besides the engine's functions: funcmap and builtins (runtime.go, tpl_funcs.go) -/
def builtinNames : List String :=
  ["json", "null", "parseInt", "__tryindex", "__Range", "__range_helper__", "__range_helper_keys__", "__str", "__op__array",
   "__op__map", "__op__map_params", "__attr", "__attrs", "__and_attrs", "__if", "__freeze"]
  ++ Gen.helperIdents.map (·.1) ++ Gen.helperClosures.map (·.1)

def engineFuncs : List String :=
  ["Math", "Object", "JSON", "startsWith", "truncate", "stripTags", "capitalize", "trim", "escapeHtml", "parseInt", "vpIdent", "range", "debug", "vpWho"]

def initState (data : Json) : St :=
  let (h, v) := convertData data Heap.empty
  let globals : List (String × Val) := match v with
    | .map a =>
      -- Go iterates the map in random order; with keys distinct after lowerFirst the order is irrelevant
      ((h.getMap a).items.map fun (k, x) => [("$" ++ k, x), ("$" ++ lowerFirst k, x)]).flatten
    | _ => []
  let (h, g) := h.allocMap { items := [], order := [] }
  let globals := globals ++ [("$global", g)]
  { vars := [("$", v)] ++ globals, globals := globals, heap := h, out := "", depth := 0 }

def errJson (e : Err) : Json :=
  match e with
  | .exec m => clsOut "exec-error" m
  | .panic m => clsOut "panic" m
  | .domain m => clsOut "model-domain" m
  | .fuel => clsOut "model-fuel"

def cerrJson (e : CErr) : Json :=
  match e with
  | .parse m => clsOut "load-error" m
  | .panic m => clsOut "load-panic" m
  | .domain m => clsOut "model-domain" m

def renderModel (doc : List Node) (data : Json) (extraFuncs : List String) (debug : Bool := false) : Json :=
  let env : CEnv := { funcs := engineFuncs ++ extraFuncs, parserFuncs := engineFuncs ++ extraFuncs ++ builtinNames, debug := debug }
  match compileDoc env doc with
  | .error e => cerrJson e
  | .ok c =>
    match (walkList 100000000 { defs := c.defs } c.main).run (initState data) with
    | .error e => errJson e
    | .ok (_, st) => okOut st.out

partial def jsOfJson (j : Json) : JS.JSVal :=
  match j with
  | .null => .null
  | .bool b => .bool b
  | .str s => .str s
  | .num n => .num ((n.mantissa : Rat) / ((10 ^ n.exponent : Nat) : Rat))
  | .arr a => .arr (a.toList.map jsOfJson)
  | .obj o => .obj (o.toList.map fun (k, v) => (k, jsOfJson v))

/-- specification answer for a document made of buffered code nodes and texts only:
    each `= e` prints escape(ToString(eval e)) with null/undefined printing nothing -/
def jsSpec (doc : List Node) (data : Json) : Json :=
  let ρ : JS.Env := match jsOfJson data with
    | .obj ps => ps
    | _ => []
  let rec go : List Node → Option String
    | [] => some ""
    | .text s :: rest => (go rest).map (s ++ ·)
    | .codeBuf e esc _ :: rest =>
      match JS.eval ρ e with
      | some v =>
        match JS.printed v, go rest with
        | some s, some r => some ((if esc then stdHtmlEscape s else s) ++ r)
        | _, _ => none
      | none => none
    | _ => none
  match go doc with
  | some s => okOut s
  | none => clsOut "spec-domain"

/-- specification answer as segments: [{"s": text, "opt": bool}] -/
def pugSpec (doc : List Node) (data : Json) : Json :=
  let ρ : JS.Env := match jsOfJson data with
    | .obj ps => ps
    | _ => []
  match Spec.renderDoc doc ρ Gen.whileCap with
  | .ok segs =>
    Json.mkObj [("class", "ok"), ("segs", Json.arr (segs.toArray.map fun sg => match sg with
      | .lit s => Json.mkObj [("s", s), ("opt", false)]
      | .optWs s => Json.mkObj [("s", s), ("opt", true)]))]
  | .whileCap => clsOut "exec-error" "while cap"
  | .undef w => clsOut "spec-domain" w

/-- C05 oracle: expected attributes of the first tag of the document -/
def attrSpec (doc : List Node) (data : Json) : Json :=
  let ρ : JS.Env := match jsOfJson data with
    | .obj ps => ps
    | _ => []
  match doc with
  | .tag _ _ attrs ablocks _ :: _ =>
    match Spec.expectedAttrs ρ attrs ablocks with
    | some rows => Json.mkObj [("class", "ok"), ("attrs", Json.arr (rows.toArray.map fun (n, v) => Json.arr #[n, v]))]
    | none => clsOut "spec-domain"
  | _ => clsOut "spec-domain"

def runRender (c : Json) : Json × Json :=
  match (jarr c "doc").mapM decNode with
  | .error e => (clsOut "model-domain" ("decode: " ++ e), .null)
  | .ok doc =>
    let spec := if jstr c "oracle" == "js-expr" then jsSpec doc (jget c "data")
      else if jstr c "oracle" == "pug" then pugSpec doc (jget c "data")
      else if jstr c "oracle" == "attrs" then
        -- `spec_doc`: the plain tag that a document reaching its attributes indirectly (mixin call + &attributes(attributes)) must equal
        (match (jarr c "spec_doc").mapM decNode with
          | .ok (sd :: rest) => attrSpec (sd :: rest) (jget c "data")
          | _ => attrSpec doc (jget c "data"))
      else if jstr c "oracle" == "js-heap" then
        (match JS.HeapSpec.run doc (match jsOfJson (jget c "data") with | .obj ps => ps | _ => []) with
          | some s => okOut s
          | none => clsOut "spec-domain")
      else .null
    if jstr c "modes" == "both" then
      (Json.mkObj [("prod", renderModel doc (jget c "data") (jstrs c "funcs") false),
                   ("debug", renderModel doc (jget c "data") (jstrs c "funcs") true)], spec)
    else
    (renderModel doc (jget c "data") (jstrs c "funcs") (jbool c "debug"), spec)

end Pug.Driver
