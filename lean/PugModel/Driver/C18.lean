import PugModel.Driver.Util
import PugModel.Gen.Tables
namespace Pug.Driver
open Lean Pug Pug.Fn

/-- model + spec answers for a `math` case -/
def runMath (c : Json) : Json × Json :=
  let fn := jstr c "fn"
  let via := jstr c "via"
  let args := jstrs c "args"
  let direct := via == "direct" || via == "str-direct"
  let isStr := via.startsWith "str-"
  let showQ (q : Rat) : String := if direct then ratString q else fmtG10 q
  let showI (i : Int) : String := if direct then toString i else fmtG10 (i : Rat)
  let bad := (clsOut "model-domain" "argument not decimal", clsOut "model-domain")
  if fn == "parseInt" && isStr then
    match args with
    | [s] =>
      let m := parseIntStr s.toList
      -- spec: integer part of the digit string
      let sp : Int := match s.toList with
        | '-' :: ds => -(digitsVal ds : Int)
        | ds => (digitsVal ds : Int)
      (okOut (showI m), okOut (showI sp))
    | _ => bad
  else
    match args.mapM parseDec with
    | none => bad
    | some qs =>
      let extOut (e : Ext) : Json := match e with
        | .fin q => okOut (showQ q)
        | .posInf => okOut "+Inf"
        | .negInf => okOut "-Inf"
      let specOpt (o : Option Rat) : Json := match o with
        | some q => okOut (showQ q)
        | none => clsOut "spec-domain"
      match fn, qs with
      | "min", _ => (extOut (mathAcc Gen.mathMinCmp Gen.mathMinInit qs), specOpt (Spec.minList qs))
      | "max", _ => (extOut (mathAcc Gen.mathMaxCmp Gen.mathMaxInit qs), specOpt (Spec.maxList qs))
      | "ceil", [q] => (okOut (showI (mathCeil q)), okOut (showI (Spec.ceil q)))
      | "trunc", [q] => (okOut (showI (mathTrunc q)), okOut (showI (Spec.trunc q)))
      | "round", [q] =>
        (match mathRound Gen.roundProg q with
          | some i => okOut (showI i)
          | none => okOut "NaN", okOut (showI (Spec.round q)))
      | "parseInt", [q] => (okOut (showI (parseIntNum q)), okOut (showI (Spec.trunc q)))
      | _, _ => bad

end Pug.Driver
