import PugModel.Driver.Render
import PugModel.Sys.Conc
namespace Pug.Driver
open Lean Pug.Sys.Conc

/-- does the document call a function the executor model does not carry (the module's `asset`)? -/
partial def mentionsAsset (j : Json) : Bool :=
  match j with
  | .obj kvs => kvs.toList.any fun (k, v) => (k == "n" && (v == .str "asset" || v == .str "debug" || v == .str "vpWho")) || mentionsAsset v
  | .arr xs => xs.any mentionsAsset
  | _ => false

/-- does the data carry a marker that the harness turns into a Go value a JSON document cannot hold (`{"__go": "ordered", …}`: a Go
map type with a display order of its own; `zeroptr`, `leafy`, `nilslice`, …)? The JSON data-conversion model has no counterpart for
those; such jobs are judged on the real engine only (concurrent = alone, same in every process). -/
partial def hasGoOrdered (j : Json) : Bool :=
  match j with
  | .obj kvs => kvs.toList.any fun (k, v) => k == "__go" || hasGoOrdered v
  | .arr xs => xs.any hasGoOrdered
  | _ => false

/-- C08: the engine of the model is the list of jobs' compiled documents; every call is run through the scheduler model
under a round-robin AND a reversed, bursty schedule; both must give what the model's single render gives (that they do is
theorem C08_render_alone - here it is executed). The answer is the per-job result of the call run alone. -/
def runConcCase (c : Json) : Json × Json :=
  let jobs := jarr c "jobs"
  let debug := jbool c "debug"
  let alone : List Json := jobs.map fun j =>
    if mentionsAsset (jget j "doc") then clsOut "model-domain" "asset() / debug() are not in the executor model" else
    if hasGoOrdered (jget j "data") then clsOut "model-domain" "ordered Go map type in the data" else
    match (jarr j "doc").mapM decNode with
    | .error e => clsOut "model-domain" ("decode: " ++ e)
    | .ok doc => renderModel doc (jget j "data") [] debug
  -- the scheduler model over the same jobs: templates named t0.., exec = the model render
  let eng : Engine Nat Nat Json := { templates := (List.range jobs.length).map fun i => (s!"t{i}", i),
                                     exec := fun t _ => alone.getD t .null }
  let n := (jget c "n").getNat?.toOption.getD 2
  let calls : List (String × Nat) := (List.range n).flatMap fun g => (List.range 3).map fun k => (s!"t{(g + k) % jobs.length}", 0)
  let ids := List.range calls.length
  let sched1 := ids ++ ids
  let sched2 := ids.reverse.flatMap fun i => [i, i, i]
  let fin (s : List Nat) : List (Option (Res Json)) := (run renderStep eng s (spawn calls)).map result?
  let expect : List (Option (Res Json)) := calls.map fun (nm, d) => some (renderAlone eng nm d)
  let schedOk := fin sched1 == expect && fin sched2 == expect
  (Json.mkObj [("class", "ok"), ("alone", Json.arr alone.toArray), ("scheduler_model_agrees", schedOk)], .null)

end Pug.Driver
