import PugModel.Driver.Util
import PugModel.Strip.Clean
namespace Pug.Driver
open Lean Pug.Strip

partial def decDom (j : Json) : DNode :=
  let kids := (jarr j "kids").map decDom
  match jstr j "t" with
  | "text" => .text (jstr j "data")
  | "elem" => .elem (jstr j "name") ((jarr j "attrs").filterMap fun a => match a with
      | .arr #[.str k, .str v] => some (k, v)
      | .arr #[.str k, .str v, _] => some (k, v)     -- third component: the namespace the parser split off (not emitted)
      | _ => none) kids
  | "comment" => .comment (jstr j "data") kids
  | "doctype" => .doctype (jstr j "data") kids
  | _ => .other kids

/-- the DOM is what the real `html.ParseFragment` returned for the input (measured by the harness) -/
def runStripCase (c : Json) : Json × Json :=
  let dom := (jarr (jget c "impl") "dom").map decDom
  let defs := jstrs c "allow"
  (okOut (stripTags defs dom 100000), .null)

end Pug.Driver
