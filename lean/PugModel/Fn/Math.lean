import PugModel.Basic.Num
/-
Model of templatefunctions/js_math.go (Min, Max, Ceil, Trunc, Round/round) and parseInt_func.go
on exact rationals. Initial values of Min/Max and the body of `round` are NOT written here: they are
read from the Go source by the extractor into `PugModel.Gen.Tables` and passed in.
-/
namespace Pug.Fn

/-- extended rationals: what a float64 accumulator can start from -/
inductive Ext where
  | negInf
  | fin (q : Rat)
  | posInf
  deriving Repr, DecidableEq

/-- `math.MaxFloat64` and `math.SmallestNonzeroFloat64`, exactly -/
def maxFloat64 : Rat := ((2 ^ 53 - 1 : Nat) : Rat) * ((2 ^ 971 : Nat) : Rat)
def smallestNonzeroFloat64 : Rat := 1 / ((2 ^ 1074 : Nat) : Rat)

def Ext.neg : Ext → Ext
  | .negInf => .posInf
  | .fin q => .fin (-q)
  | .posInf => .negInf

/-- `v < res` in Go, res extended -/
def Ext.gtRat : Ext → Rat → Bool     -- res > v
  | .negInf, _ => false
  | .fin r, v => v < r
  | .posInf, _ => true

def Ext.ltRat : Ext → Rat → Bool     -- res < v
  | .negInf, _ => true
  | .fin r, v => r < v
  | .posInf, _ => false

/-- `v <op> res`, with the comparison operator as written in the source -/
def Ext.cmpRat (op : String) (v : Rat) (res : Ext) : Bool :=
  if op == "<" then res.gtRat v
  else if op == ">" then res.ltRat v
  else if op == "<=" then !res.ltRat v
  else if op == ">=" then !res.gtRat v
  else false

/-- `res = init; for _, v := range x { if v <op> res { res = v } }` (Math.Min / Math.Max) -/
def mathAcc (op : String) (init : Ext) (xs : List Rat) : Ext :=
  xs.foldl (fun res v => if Ext.cmpRat op v res then .fin v else res) init

/-- Go `math.Trunc` -/
def ratTrunc (q : Rat) : Int := if q < 0 then q.ceil else q.floor

def mathCeil (q : Rat) : Int := q.ceil       -- int(math.Ceil(x))
def mathTrunc (q : Rat) : Int := ratTrunc q  -- int(math.Trunc(x))

/-! straight-line float code, as translated from Go by the extractor -/
inductive FExpr where
  | var
  | lit (q : Rat)
  | add (a b : FExpr)
  | sub (a b : FExpr)
  | neg (a : FExpr)
  | trunc (a : FExpr)
  | floor (a : FExpr)
  | ceil (a : FExpr)
  | nan
  deriving Repr

inductive FCond where
  | lt (a b : FExpr)
  | le (a b : FExpr)
  | gt (a b : FExpr)
  | ge (a b : FExpr)
  | isNaN (a : FExpr)
  deriving Repr

structure FProg where
  branches : List (FCond × FExpr)
  default : FExpr
  deriving Repr

/-- `none` = NaN -/
def FExpr.eval (x : Rat) : FExpr → Option Rat
  | .var => some x
  | .lit q => some q
  | .add a b => do let u ← a.eval x; let v ← b.eval x; pure (u + v)
  | .sub a b => do let u ← a.eval x; let v ← b.eval x; pure (u - v)
  | .neg a => do let u ← a.eval x; pure (-u)
  | .trunc a => do let u ← a.eval x; pure (ratTrunc u : Int)
  | .floor a => do let u ← a.eval x; pure (u.floor : Int)
  | .ceil a => do let u ← a.eval x; pure (u.ceil : Int)
  | .nan => none

/-- comparisons with NaN are false -/
def FCond.eval (x : Rat) : FCond → Bool
  | .lt a b => match a.eval x, b.eval x with | some u, some v => u < v | _, _ => false
  | .le a b => match a.eval x, b.eval x with | some u, some v => u ≤ v | _, _ => false
  | .gt a b => match a.eval x, b.eval x with | some u, some v => u > v | _, _ => false
  | .ge a b => match a.eval x, b.eval x with | some u, some v => u ≥ v | _, _ => false
  | .isNaN a => (a.eval x).isNone

def FProg.evalBranches (x : Rat) (d : FExpr) : List (FCond × FExpr) → Option Rat
  | [] => d.eval x
  | (c, e) :: rest => if c.eval x then e.eval x else evalBranches x d rest

def FProg.eval (p : FProg) (x : Rat) : Option Rat := FProg.evalBranches x p.default p.branches

/-- `int(round(x))`; NaN → none (not reachable from finite arguments) -/
def mathRound (p : FProg) (q : Rat) : Option Int := (p.eval q).map ratTrunc

/-- parseInt of a number: `int(value.Float())` -/
def parseIntNum (q : Rat) : Int := ratTrunc q

/-- value of a digit list, base 10 -/
def digitsVal (ds : List Char) : Nat := ds.foldl (fun acc c => acc * 10 + (c.toNat - '0'.toNat)) 0

/-- one or more decimal digits -/
def parseDigits (ds : List Char) : Option Nat :=
  if ds.isEmpty || !ds.all Char.isDigit then none else some (digitsVal ds)

/-- parseInt of a string: `strconv.ParseInt(s, 10, 0)`, 0 on error. Sign, then one or more digits;
    (underscores are only legal with base 0; range errors are outside the modelled domain). -/
def parseIntStr : List Char → Int
  | '-' :: r => match parseDigits r with | some n => -(n : Int) | none => 0
  | '+' :: r => match parseDigits r with | some n => (n : Int) | none => 0
  | s => match parseDigits s with | some n => (n : Int) | none => 0

/-! ECMAScript reference (specification side) -/
namespace Spec
def minList : List Rat → Option Rat
  | [] => none
  | x :: xs => some (xs.foldl (fun m v => if v < m then v else m) x)
def maxList : List Rat → Option Rat
  | [] => none
  | x :: xs => some (xs.foldl (fun m v => if v > m then v else m) x)
/-- Math.round: halves towards +∞ -/
def round (q : Rat) : Int := (q + 1/2).floor
def ceil (q : Rat) : Int := q.ceil
def trunc (q : Rat) : Int := if q < 0 then q.ceil else q.floor
end Spec

end Pug.Fn
