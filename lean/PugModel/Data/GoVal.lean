import PugModel.Tpl.Val
/-
Go data as the property C11 describes it, and `convert` (pugjs/types.go) on it.

Structs become maps keyed by lowerFirst(field name) (exported fields only; `CanInterface`), plus the results of the niladic
methods of the value's method set under lowerFirst(method name) (the model stores the method's *result*: calling a method
value and reading it are the same in a template). Pointers and interfaces are transparent; nil pointers / nil interfaces
are Nil. Maps keep their keys; slices become arrays.
-/
namespace Pug.Data
open Pug.Tpl

inductive GoVal where
  | nil
  | str (s : String)
  | num (q : Rat)                 -- any int/uint/float kind
  | bool (b : Bool)
  | slice (items : List GoVal)
  | map (entries : List (String × GoVal))
  | struct (fields : List (String × Bool × GoVal)) (methods : List (String × GoVal))   -- (name, exported, value)
  | ptr (v : Option GoVal)
  | iface (v : Option GoVal)
  deriving Inhabited

/-- `convert` on a Go value; recursion on the fuel (total). The fuel bounds the nesting depth converted; below it the value is Nil. -/
def convertGoF : Nat → GoVal → Heap → Heap × Val
  | 0, _, h => (h, .nil)
  | fuel + 1, g, h =>
  match g with
  | .nil => (h, .nil)
  | .str s => (h, .S s)
  | .num q => (h, .N q)
  | .bool b => (h, .B b)
  | .ptr none | .iface none => (h, .nil)
  | .ptr (some v) | .iface (some v) => convertGoF fuel v h
  | .slice items =>
    let (h, vs) := items.foldl (fun (acc : Heap × List Val) x =>
      let (h', v) := convertGoF fuel x acc.1
      (h', acc.2 ++ [v])) (h, [])
    h.allocArr vs
  | .map entries =>
    let (h, items) := entries.foldl (fun (acc : Heap × List (String × Val)) (kv : String × GoVal) =>
      let (h', v) := convertGoF fuel kv.2 acc.1
      (h', acc.2 ++ [(kv.1, v)])) (h, [])
    h.allocMap { items := items, order := [] }
  | .struct fields methods =>
    let exported := fields.filter (·.2.1)
    let (h, items) := (exported.map (fun f => (lowerFirst f.1, f.2.2)) ++ methods.map (fun m => (lowerFirst m.1, m.2))).foldl
      (fun (acc : Heap × List (String × Val)) (kv : String × GoVal) =>
        let (h', v) := convertGoF fuel kv.2 acc.1
        (h', assocSet acc.2 kv.1 v)) (h, [])
    h.allocMap { items := items, order := [] }

/-- nesting depth the model converts (far above any data the harness builds) -/
def goFuel : Nat := 100000

def convertGo (g : GoVal) (h : Heap) : Heap × Val := convertGoF goFuel g h

end Pug.Data
