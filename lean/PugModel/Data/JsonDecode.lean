import PugModel.Data.Json
/-! RFC 8259 string decoding (the specification side of C12's string round trip). -/
namespace Pug.Data

def hexVal (c : Char) : Option Nat :=
  if '0' ≤ c ∧ c ≤ '9' then some (c.toNat - '0'.toNat)
  else if 'a' ≤ c ∧ c ≤ 'f' then some (c.toNat - 'a'.toNat + 10)
  else if 'A' ≤ c ∧ c ≤ 'F' then some (c.toNat - 'A'.toNat + 10)
  else none

/-- body of a JSON string (between the quotes) → characters; `none` = not a valid JSON string body -/
def decodeBody : List Char → Option (List Char)
  | [] => some []
  | '\\' :: 'u' :: a :: b :: c :: d :: rest =>
    match hexVal a, hexVal b, hexVal c, hexVal d, decodeBody rest with
    | some x, some y, some z, some w, some r => some (Char.ofNat (x * 4096 + y * 256 + z * 16 + w) :: r)
    | _, _, _, _, _ => none
  | '\\' :: e :: rest =>
    match decodeBody rest with
    | none => none
    | some r =>
      if e = '"' then some ('"' :: r)
      else if e = '\\' then some ('\\' :: r)
      else if e = '/' then some ('/' :: r)
      else if e = 'n' then some ('\n' :: r)
      else if e = 'r' then some ('\r' :: r)
      else if e = 't' then some ('\t' :: r)
      else if e = 'b' then some (Char.ofNat 8 :: r)
      else if e = 'f' then some (Char.ofNat 12 :: r)
      else none
  | c :: rest =>
    if c = '"' ∨ c = '\\' ∨ c.toNat < 0x20 then none
    else (decodeBody rest).map (c :: ·)

end Pug.Data
