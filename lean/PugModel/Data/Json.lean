import PugModel.Tpl.Val
/-
Model of Go's encoding/json *encoder* as used by Map/Array/Nil.MarshalJSON, JSON.stringify and the `json` helper
(escapeHTML = true, map keys sorted), on the modelled value kinds.
-/
namespace Pug.Data
open Pug Pug.Tpl

def hexDigit (n : Nat) : Char := "0123456789abcdef".toList.getD n '0'

def hex4 (n : Nat) : List Char :=
  [hexDigit (n / 4096 % 16), hexDigit (n / 256 % 16), hexDigit (n / 16 % 16), hexDigit (n % 16)]

/-- one code point as Go's `encodeState.string` writes it (escapeHTML on) -/
def jsonEscChar (c : Char) : List Char :=
  if c == '"' then ['\\', '"']
  else if c == '\\' then ['\\', '\\']
  else if c == '\n' then ['\\', 'n']
  else if c == '\r' then ['\\', 'r']
  else if c == '\t' then ['\\', 't']
  else if c.toNat == 8 then ['\\', 'b']
  else if c.toNat == 12 then ['\\', 'f']
  else if c.toNat < 0x20 || c == '<' || c == '>' || c == '&' || c.toNat == 0x2028 || c.toNat == 0x2029 then
    '\\' :: 'u' :: hex4 c.toNat
  else [c]

def jsonStringChars (s : List Char) : List Char := ['"'] ++ s.flatMap jsonEscChar ++ ['"']

def jsonString (s : String) : String := String.ofList (jsonStringChars s.toList)

/-- does `d` divide a power of ten? returns the number of fractional digits needed -/
def fracDigits (d : Nat) : Nat → Option Nat
  | 0 => none
  | fuel + 1 =>
    if d == 1 then some 0
    else if d % 10 == 0 then (fracDigits (d / 10) fuel).map (· + 1)
    else if d % 2 == 0 then (fracDigits (d / 2) fuel).map (· + 1)
    else if d % 5 == 0 then (fracDigits (d / 5) fuel).map (· + 1)
    else none

/-- exact decimal expansion of a rational with terminating expansion: "-12.5", "3", "0.125" -/
def decimalString (q : Rat) : Option String :=
  match fracDigits q.den 400 with
  | none => none
  | some k =>
    let n := q.num.natAbs * 10 ^ k / q.den
    let s := (Nat.repr n).toList
    let s := if s.length ≤ k then List.replicate (k + 1 - s.length) '0' ++ s else s
    let ip := s.take (s.length - k)
    let fp := stripTrailingZeros (s.drop (s.length - k))
    let body := if fp.isEmpty then ip else ip ++ ['.'] ++ fp
    some (String.ofList ((if q.num < 0 then ['-'] else []) ++ body))

/-- float64 as encoding/json prints it ('f' form; the exponent forms are outside the modelled domain) -/
def jsonNum (q : Rat) : Option String :=
  let a : Rat := if q < 0 then -q else q
  if q.num == 0 then some "0"
  else if a < (1 : Rat) / 1000000 || a ≥ ((10 ^ 21 : Nat) : Rat) then none
  else decimalString q

/-- `json.Marshal` of a template object. `none` = outside the modelled domain (non-terminating decimals, cycles). -/
def marshal (h : Heap) : Nat → Val → Option String
  | 0, _ => none
  | fuel + 1, v =>
    match v with
    | .nil => some "null"
    | .invalid => some "null"
    | .B b => some (if b then "true" else "false")
    | .bool b => some (if b then "true" else "false")
    | .N q => jsonNum q
    | .flt q => jsonNum q
    | .int i => some (toString i)
    | .S s => some (jsonString s)
    | .str s => some (jsonString s)
    | .host _ => some "{}"
    | .attrs _ => none
    | .bblock _ => none
    | .arr a =>
      match (h.getArr a).mapM (marshal h fuel) with
      | none => none
      | some parts => some ("[" ++ ",".intercalate parts ++ "]")
    | .map a =>
      let m := h.getMap a
      -- `tmp[lowerFirst(k)] = v`, then encoding/json sorts the keys
      let items := m.items.map fun (k, v) => (lowerFirst k, v)
      let keys := sortKeys (items.map (·.1))
      match keys.mapM (fun k => match assocGet items.reverse k with
          | some v => (marshal h fuel v).map (fun s => jsonString k ++ ":" ++ s)
          | none => none) with
      | none => none
      | some parts => some ("{" ++ ",".intercalate parts ++ "}")

end Pug.Data
