/-
Delimiter quoting of literal text (`quoteDelims`, pugjs/pug_parser.go) and the part of the template lexer that re-discovers
text/action boundaries in the emitted source (`lexText` → `lexLeftDelim` → quoted string → `lexRightDelim`, pugjs/parse/lex.go),
restricted to the one action the quoting emits.
A piece is `some cs` (literal text) or `none` (the action `{{"{"}}`, which prints one `{`).
-/
namespace Pug.Tpl

abbrev Piece := Option (List Char)

def flush (cur : List Char) : List Piece := if cur.isEmpty then [] else [some cur.reverse]

/-- `quoteDelims`: a `{` that is followed by another `{`, or that ends the text, becomes the action; `cur` is the text
    accumulated so far (reversed) -/
def quoteL : List Char → List Char → List Piece
  | [], cur => flush cur
  | c :: rest, cur =>
    if c = '{' then
      match rest with
      | [] => flush cur ++ [none] ++ quoteL rest []
      | d :: _ => if d = '{' then flush cur ++ [none] ++ quoteL rest [] else quoteL rest (c :: cur)
    else quoteL rest (c :: cur)

/-- the left delimiter and the source text of the quoting action -/
def LD : List Char := ['{', '{']
def LB : List Char := ['{', '{', '"', '{', '"', '}', '}']

/-- source text spliced into the template -/
def srcOf : List Piece → List Char
  | [] => []
  | some cs :: rest => cs ++ srcOf rest
  | none :: rest => LB ++ srcOf rest

/-- what executing the pieces prints -/
def outputOf : List Piece → List Char
  | [] => []
  | some cs :: rest => cs ++ outputOf rest
  | none :: rest => '{' :: outputOf rest

/-- lexer: text up to the next left delimiter; after it, the quoting action or failure (`none`) -/
def lexQ : Nat → List Char → List Char → Option (List Piece)
  | 0, _, _ => none
  | fuel + 1, inp, cur =>
    match inp with
    | [] => some (flush cur)
    | c :: rest =>
      if LD.isPrefixOf inp then
        if LB.isPrefixOf inp then (lexQ fuel (inp.drop 7) []).map (fun ps => flush cur ++ [none] ++ ps) else none
      else lexQ fuel rest (c :: cur)

end Pug.Tpl
