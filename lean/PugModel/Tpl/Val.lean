import PugModel.Basic.Num
/-
Values of the forked template runtime (pugjs/types.go, tpl_exec.go) and the per-render heap.

Go-side distinction kept because helpers branch on it:
  raw literals inside actions:  `int`  `float64`  `string`  `bool`      (Val.int / flt / str / bool)
  pugjs objects:                Nil  Bool  Number  String  *Array  *Map   (Val.nil / B / N / S / arr a / map a)
  the zero reflect.Value:       Val.invalid   (undefined variable, missing field on a raw Go value …)
Arrays and maps are heap objects with reference semantics.
-/
namespace Pug.Tpl

inductive Val where
  | invalid
  | int (i : Int)
  | flt (q : Rat)
  | str (s : String)
  | bool (b : Bool)
  | nil
  | B (b : Bool)
  | N (q : Rat)
  | S (s : String)
  | arr (addr : Nat)
  | map (addr : Nat)
  | host (name : String)      -- struct-backed object of a template function module (Math, JSON, Object)
  | attrs (l : List (String × Option Bool × String × Bool))   -- []Attribute: (name, boolVal, val, mustEscape)
  | bblock (id : Nat)         -- *boundBlock: the block of a mixin call together with the scope that made the call
  deriving Repr, DecidableEq, Inhabited

/-- `*Map`: items (unique keys, kept in insertion order here; Go's map is unordered) and the explicit
    `order` list (empty = "no order": consumers fall back to sorted keys) -/
structure MapObj where
  items : List (String × Val)
  order : List String
  deriving Repr, Inhabited

structure Heap where
  arrs : List (List Val)
  maps : List MapObj
  deriving Repr, Inhabited

def Heap.empty : Heap := { arrs := [], maps := [] }

def Heap.allocArr (h : Heap) (items : List Val) : Heap × Val :=
  ({ h with arrs := h.arrs ++ [items] }, .arr h.arrs.length)

def Heap.allocMap (h : Heap) (m : MapObj) : Heap × Val :=
  ({ h with maps := h.maps ++ [m] }, .map h.maps.length)

def Heap.getArr (h : Heap) (a : Nat) : List Val := h.arrs.getD a []
def Heap.getMap (h : Heap) (a : Nat) : MapObj := h.maps.getD a { items := [], order := [] }

def Heap.setArr (h : Heap) (a : Nat) (items : List Val) : Heap := { h with arrs := h.arrs.set a items }
def Heap.setMap (h : Heap) (a : Nat) (m : MapObj) : Heap := { h with maps := h.maps.set a m }

/-- sorted keys (Go: sort.Strings / sortKeys; byte order = code point order for the UTF-8 strings of the model) -/
def sortKeys (ks : List String) : List String := ks.mergeSort (fun a b => decide (a ≤ b))

def assocGet (l : List (String × Val)) (k : String) : Option Val := (l.find? (·.1 == k)).map (·.2)

def assocSet : List (String × Val) → String → Val → List (String × Val)
  | [], k, v => [(k, v)]
  | (k', v') :: rest, k, v => if k' == k then (k, v) :: rest else (k', v') :: assocSet rest k v

/-- `unicode.ToLower` / `unicode.ToUpper` on the letters the model meets: ASCII, Latin-1, Greek and basic Cyrillic capitals -/
def goToLower (c : Char) : Char :=
  let n := c.toNat
  if (0xC0 ≤ n && n ≤ 0xDE && n != 0xD7) || (0x391 ≤ n && n ≤ 0x3A9 && n != 0x3A2) || (0x410 ≤ n && n ≤ 0x42F) then Char.ofNat (n + 32)
  else c.toLower

def goToUpper (c : Char) : Char :=
  let n := c.toNat
  if (0xE0 ≤ n && n ≤ 0xFE && n != 0xF7) || (0x3B1 ≤ n && n ≤ 0x3C9 && n != 0x3C2) || (0x430 ≤ n && n ≤ 0x44F) then Char.ofNat (n - 32)
  else c.toUpper

def lowerFirst (s : String) : String :=
  match s.toList with
  | [] => ""
  | c :: r => String.ofList (goToLower c :: r)

def upperFirst (s : String) : String :=
  match s.toList with
  | [] => ""
  | c :: r => String.ofList (goToUpper c :: r)

end Pug.Tpl
