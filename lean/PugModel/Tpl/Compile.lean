import PugModel.Pug.Syntax
import PugModel.Tpl.Syntax
import PugModel.Tpl.Exec
import PugModel.Tpl.Quote
/-
Model of the transpiler: pugjs/transform_*.go (nodes) and pugjs/transform_js_.go renderExpression (JavaScript
snippets) — pug AST → flat fragment list (text and actions with trim markers), then the nesting that parse.Parse builds.
The operator → helper mapping is the generated `Gen.ops`.
-/
namespace Pug.Tpl
open Pug

inductive CErr where
  | parse (msg : String)      -- the emitted text is rejected by the template parser (LoadTemplates returns an error)
  | panic (msg : String)      -- the transpiler panics
  | domain (msg : String)     -- the model declines
  deriving Repr, Inhabited

abbrev CM := Except CErr

def tokenName : JS.BinOp → String
  | .add => "PLUS" | .sub => "MINUS" | .mul => "MULTIPLY" | .div => "SLASH" | .mod => "REMAINDER"
  | .lt => "LESS" | .le => "LESS_OR_EQUAL" | .gt => "GREATER" | .ge => "GREATER_OR_EQUAL"
  | .eq => "EQUAL" | .seq => "STRICT_EQUAL" | .ne => "NOT_EQUAL" | .sne => "STRICT_NOT_EQUAL"
  | .land => "LOGICAL_AND" | .lor => "LOGICAL_OR"

def opHelper (tok : String) : CM String :=
  match Gen.ops.find? (·.1 == tok) with
  | some (_, h) => pure h
  | none => .error (.domain s!"operator {tok} has no entry in ops")   -- Go: ops[tok] = "" → `( a b)` → parse error

structure CEnv where
  funcs : List String          -- names in renderState.funcs (the engine's FuncProvider)
  parserFuncs : List String    -- every name the template parser knows (funcs ∪ funcmap ∪ builtins)
  debug : Bool := false        -- renderState.debug (Engine.Debug): pretty-source mode

def nullCall : TExpr := .fcall "null" []

def badChars (s : String) : Bool := s.toList.any fun c => c == '"' || c == '\\' || c == '`' || c.toNat < 0x20

/-- renderExpression(expr, wrap = false, dot = true); `none` = the empty string that a NullLiteral renders to -/
def compileExprF : Nat → CEnv → JS.Expr → CM (Option TExpr)
  | 0, _, _ => .error (.domain "expression nested deeper than the model's fuel")
  | fuel + 1, env, e => do
  let req (e : JS.Expr) : CM TExpr := do
    match ← compileExprF fuel env e with
    | some t => pure t
    | none => .error (.domain "null literal in operand position (renders to nothing)")
  let orNull (e : JS.Expr) : CM TExpr := do
    match ← compileExprF fuel env e with
    | some t => pure t
    | none => pure nullCall
  match e with
  | .num q _ => pure (some (.lit (if q.den == 1 then .int q.num else .flt q)))
  | .str s =>
    if (s.splitOn "${").length > 1 then .error (.domain "string literal containing ${ is interpolated") else
    pure (some (.lit (.str s)))
  | .bool b => pure (some (.lit (.bool b)))
  | .null => pure none
  | .ident x =>
    if env.funcs.contains x then pure (some (.fcall (if x == "range" then "__Range" else x) []))
    else pure (some (.var x))
  | .bin op l r => do
    let h ← opHelper (tokenName op)
    pure (some (.fcall h [← req l, ← req r]))
  | .un .not a => do pure (some (.fcall (← opHelper "NOT") [← req a]))
  | .un .neg a => do pure (some (.fcall (← opHelper "MINUS") [← req a]))
  | .cond c a b => do pure (some (.fcall "__if" [← req c, ← orNull a, ← orNull b]))
  | .arr es => do pure (some (.fcall "__op__array" (← es.mapM orNull)))
  | .obj kvs => do
    let args ← kvs.mapM fun (k, v) => do
      if badChars k then .error (.domain "object key needs quoting") else
      pure [TExpr.lit (.str k), ← req v]
    pure (some (.fcall "__op__map" args.flatten))
  | .dot a name =>
    match a with
    | .null => .error (.parse "unexpected . after term")
    | .str s => if (s.splitOn "${").length > 1 then .error (.domain "interpolated receiver") else
      -- literal receivers are parenthesised by the transpiler: `("abc").length`
      do pure (some (.field (← req a) name []))
    | _ => do pure (some (.field (← req a) name []))
  | .idx a i => do pure (some (.fcall "__pug__index" [← req a, ← req i]))
  | .call f args => do
    let targs ← args.mapM req
    match f with
    | .ident x =>
      if env.parserFuncs.contains x then pure (some (.fcall x targs))
      else .error (.parse s!"function \"{x}\" not defined")
    | .dot a name =>
      match a with
      | .null => .error (.parse "unexpected . after term")
      | _ => do pure (some (.field (← req a) name targs))
    | _ => .error (.domain "callee shape")
  | .tpl parts => do
    let ps ← parts.mapM fun p => do
      match p with
      | .inl s => if badChars s then .error (.domain "template literal part needs quoting") else pure (if s.isEmpty then [] else [TExpr.lit (.str s)])
      | .inr x => do pure [← req x]
    pure (some (.fcall "__str" ps.flatten))

/-- fuel: far above any nesting the harness or a real template produces; recursion is on the fuel, so the function is total
and theorems about it go by induction on the fuel -/
def exprFuel : Nat := 100000

def compileExpr (env : CEnv) (e : JS.Expr) : CM (Option TExpr) := compileExprF exprFuel env e

/-- which expression kinds get the escaper appended when wrapped (the `if wrap { if !p.rawmode {…} }` branches);
    this is the model's copy of the matrix, checked against the generated `Gen.escapeMatrix` in C04 -/
inductive WrapKind where
  | action (escaped : Bool)   -- emitted as an action; with or without `| __pug__html`
  | staticText                -- printed at compile time (string/number/boolean literal)
  | nullAction
  | unaryAction               -- `{{ op x -}}`, never escaped
  deriving Repr, DecidableEq

/-- otto AST node kind of an expression of the subset -/
def exprKind : JS.Expr → String
  | .ident _ => "Identifier" | .dot .. => "DotExpression" | .cond .. => "ConditionalExpression"
  | .bin .. => "BinaryExpression" | .call .. => "CallExpression" | .idx .. => "BracketExpression"
  | .arr _ => "ArrayLiteral" | .obj _ => "ObjectLiteral" | .tpl _ => "TemplateLiteral"
  | .num .. => "NumberLiteral" | .str _ => "StringLiteral" | .bool _ => "BooleanLiteral"
  | .null => "NullLiteral" | .un .. => "UnaryExpression"

/-- (emits an action when wrapped, that action ends in the escaper) as read from renderExpression -/
def matrixRow (kind : String) : Bool × Bool :=
  match Gen.escapeMatrix.find? (·.1 == kind) with
  | some (_, a, e) => (a, e)
  | none => (false, false)

def wrapKind (e : JS.Expr) : WrapKind :=
  match e with
  | .num .. | .str _ | .bool _ => .staticText
  | .null => .nullAction
  | .un .. => .unaryAction
  | e => .action (matrixRow (exprKind e)).2

/-- the action `{{"{"}}` -/
def lbraceAct : Frag := .act false false (.print (.lit (.str "{")) false)

/-- `quoteDelims` (pug_parser.go) as fragments; the character-level function and its lexing theorem are in Tpl/Quote.lean -/
def quoteChars (s : List Char) (cur : List Char) : List Frag :=
  (quoteL s cur).map fun p => match p with
    | some cs => Frag.text (String.ofList cs)
    | none => lbraceAct

def textFrag (s : String) : CM (List Frag) := pure (quoteChars s.toList [])

def fmtNumLit (q : Rat) : CM String :=
  if q.den == 1 then pure (toString q.num) else
  match fmtFloatV q with
  | some s => pure s
  | none => .error (.domain "float literal formatting")

/-- renderExpression(expr, wrap = true, dot = true) for a buffered code node -/
def compileBuffered (env : CEnv) (e : JS.Expr) (mustEscape : Bool) : CM (List Frag) := do
  match wrapKind e with
  | .staticText =>
    match e with
    | .num q _ => do pure [.text (← fmtNumLit q)]
    | .str s =>
      if (s.splitOn "${").length > 1 then .error (.domain "string literal containing ${ is interpolated") else
      pure [.act false false (.print (.lit (.str (stdHtmlEscape s))) false)]
    | .bool b => pure [.text (if b then "true" else "false")]
    | _ => pure []
  | .nullAction => pure [.act false false (.print nullCall false)]
  | .unaryAction =>
    match ← compileExpr env e with
    | some t => pure [.act false false (.print t false)]
    | none => pure []
  | .action esc =>
    match ← compileExpr env e with
    | some t => pure [.act false false (.print t (esc && mustEscape))]
    | none => pure []

/-- one statement of an unbuffered code node, wrap = true, rawmode = true -/
def compileStmt (env : CEnv) (s : JS.Stmt) : CM (List Frag) := do
  let orNull (e : JS.Expr) : CM TExpr := do
    match ← compileExpr env e with
    | some t => pure t
    | none => pure nullCall
  match s with
  | .var x none => pure [.act false true (.assign x nullCall)]
  | .var x (some e) => do pure [.act false true (.assign x (← orNull e))]
  | .assign (.ident x) e => do pure [.act false true (.assign x (← orNull e))]
  | .assign (.idx (.ident a) k) e =>
    match e with
    | .ident _ => .error (.domain "identifier on the right of an indexed assignment is rendered without $")
    | _ => do
      let some tk ← compileExpr env k | .error (.domain "null key")
      pure [.act false true (.print (.field (.var a) "__assign" [tk, ← orNull e]) false)]
  | .assign (.dot (.ident a) f) e => do
    pure [.act false true (.print (.field (.var a) "__assign" [.lit (.str f), ← orNull e]) false)]
  | .assign _ _ => .error (.domain "assignment target shape")
  | .inc x => do pure [.act false true (.assign x (.fcall (← opHelper "INCREMENT") [.var x]))]
  | .expr e => compileBuffered env e false

end Pug.Tpl

namespace Pug.Tpl
open Pug

def voidTags : List String := Gen.voidTags

def isWs (c : Char) : Bool := c == ' ' || c == '\t' || c == '\r' || c == '\n'

def trimLeftWs (s : String) : String := String.ofList (s.toList.dropWhile isWs)
def trimRightWs (s : String) : String := String.ofList (s.toList.reverse.dropWhile isWs).reverse

/-- the separator the debug mode writes after block-level nodes: `     {{- "" -}}\n` -/
def debugSep : List Frag := [.text "     ", .act true true (.print (.lit (.str "")) false), .text "\n"]

/-- Node.Inline() (pug_blocks.go); recursion on the fuel -/
def nodeInlineF : Nat → Node → Bool
  | 0, _ => true
  | fuel + 1, n =>
    match n with
    | .tag _ isInline .. => isInline
    | .codeBuf _ _ isInline => isInline
    | .codeRaw _ isInline => isInline
    | .text _ | .doctype _ | .cond .. | .mixinBlock => true
    | .each _ _ _ kids | .while _ kids | .mixinDef _ _ kids | .mixinCall _ _ _ kids => kids.all (nodeInlineF fuel)
    | .case _ whens => whens.all fun w => w.2.all (nodeInlineF fuel)

/-- fuel of the node-level functions: far above any nesting in use -/
def nodeFuel : Nat := 100000

def nodeInline (n : Node) : Bool := nodeInlineF nodeFuel n

def compileAttrs (env : CEnv) (attrs : List Attr) (ablocks : List String) : CM (List Frag) := do
  if attrs.isEmpty && ablocks.isEmpty then pure [] else
  let as ← attrs.mapM fun a => do
    if a.mustEscape then
      let t ← match ← compileExpr env a.val with
        | some t => pure t
        | none => pure nullCall    -- a literal null: `(__attr "n" null true)`
      pure (TExpr.fcall "__attr" [.lit (.str a.name), t, .lit (.bool true)])
    else
      match a.val with
      | .str s => pure (TExpr.fcall "__attr" [.lit (.str a.name), .lit (.str ("\"" ++ s ++ "\"")), .lit (.bool false)])
      | _ => .error (.domain "unescaped attribute with a non-literal value (value becomes the source text)")
  let bs := ablocks.map fun b => TExpr.fcall "__and_attrs" [.var b]
  pure [.act false false (.print (.fcall "__attrs" (as ++ bs)) false)]

mutual
def compileNodeF : Nat → CEnv → Node → CM (List Frag)
  | 0, _, _ => .error (.domain "document nested deeper than the model's fuel")
  | fuel + 1, env, n => do
  match n with
  | .text s => textFrag s
  | .doctype v => pure [.text ("<!DOCTYPE " ++ v ++ ">\n")]
  | .codeBuf e esc _ => compileBuffered env e esc
  | .codeRaw stmts _ => do pure (← stmts.mapM (compileStmt env)).flatten
  | .tag name isInline attrs ablocks kids => do
    let sub ← compileNodesF fuel env kids
    let attrFrags ← compileAttrs env attrs ablocks
    let open_ := [Frag.text ("<" ++ name)] ++ attrFrags ++ [Frag.text ">"]
    let close := Frag.text ("</" ++ name ++ ">")
    let subHasNewline := sub.any fun f => match f with
      | .text t => t.toList.contains '\n'
      | _ => false
    let body ←
      if voidTags.contains name then pure open_
      else if name == "script" && subHasNewline then pure (open_ ++ [.text "\n"] ++ sub ++ [.text "\n", close])
      else if !(kids.all nodeInline) && env.debug then pure (open_ ++ debugSep ++ sub ++ debugSep ++ [close])
      else pure (open_ ++ sub ++ [close])
    pure (if !isInline && env.debug then body ++ debugSep else body)
  | .cond test thn els => do
    let some t ← compileExpr env test | .error (.domain "null test")
    let thnF ← compileNodesF fuel env thn
    let elsF ← match els with
      | none => pure []
      | some ns => do pure ([Frag.act false true .else_] ++ (← compileNodesF fuel env ns))
    pure ([.act false true (.ifStart t)] ++ thnF ++ elsF ++ [.act false true .end_])
  | .each val key obj kids => do
    let some t ← compileExpr env obj | .error (.domain "null collection")
    let body ← compileNodesF fuel env kids
    let decl := if key == "" then [val] else [key, val]
    pure ([.act false true (.range decl t)] ++ body ++ [.act false true .end_])
  | .while test kids => do
    let some t ← compileExpr env test | .error (.domain "null test")
    let body ← compileNodesF fuel env kids
    pure ([.act false true (.range [] t)] ++ body ++ [.act false true .end_])
  | .case e whens => do
    if whens.isEmpty then .error (.domain "case with zero cases") else
    let some te ← compileExpr env e | .error (.domain "null case expression")
    let eql ← opHelper "EQUAL"   -- the transpiler writes the helper name literally: `__op__eql`
    let _ := eql
    let nonDefault := whens.filter (·.1.isSome)
    if nonDefault.isEmpty then .error (.parse "unexpected {{else}}") else
    let mut out : List Frag := []
    let mut first := true
    for (w, kids) in nonDefault do
      let some we := w | continue
      let some tw ← compileExpr env we | .error (.domain "null when expression")
      let c := TExpr.fcall "__op__eql" [te, tw]
      out := out ++ [.act true false (if first then .ifStart c else .elseIf c)] ++ (← compileNodesF fuel env kids)
      first := false
    -- the *last* default branch wins (elseBranch is overwritten in the loop)
    match (whens.filter (·.1.isNone)).getLast? with
    | some (_, kids) => out := out ++ [.act true false .else_] ++ (← compileNodesF fuel env kids)
    | none => pure ()
    pure (out ++ [.act true false .end_])
  | .mixinDef .. => pure []          -- definitions are collected separately (renderState.mixin)
  | .mixinBlock => pure [.act true true (.template (.var "block") none)]
  | .mixinCall name args attrs kids => do
    let targs ← args.mapM fun a => do
      match ← compileExpr env a with
      | some t => pure t
      | none => pure nullCall
    let tattrs ← attrs.mapM fun a => do
      match ← compileExpr env a.val with
      | some t => pure [TExpr.lit (.str a.name), t]
      | none => pure [TExpr.lit (.str a.name), nullCall]     -- the literal null: `"name" null`
    let argArr := TExpr.fcall "__op__array" targs
    let attrMap := TExpr.fcall "__op__map_params" tattrs.flatten
    -- the block (if its rendering is non-empty) is defined as its own template; the counter is threaded by position
    let sub ← compileNodesF fuel env kids
    if sub.isEmpty then
      pure [.act false false (.template (.lit ("mixin_" ++ name)) (some (.fcall "__op__array" [argArr, attrMap, nullCall])))]
    else
      pure [.blockDef name sub,
            .act false false (.template (.lit ("mixin_" ++ name)) (some (.fcall "__op__array" [argArr, attrMap, .fcall "__freeze" [.lit (.str ("\x00" ++ name))]])))]

def compileNodesF : Nat → CEnv → List Node → CM (List Frag)
  | 0, _, _ => .error (.domain "document nested deeper than the model's fuel")
  | fuel + 1, env, ns => do
  pure (← ns.mapM (compileNodeF fuel env)).flatten

end

def compileNode (env : CEnv) (n : Node) : CM (List Frag) := compileNodeF nodeFuel env n
def compileNodes (env : CEnv) (ns : List Node) : CM (List Frag) := compileNodesF nodeFuel env ns

/-- merge adjacent texts, then apply the trim markers as lexText / lexLeftDelim / lexRightDelim do -/
def mergeTexts : List Frag → List Frag
  | .text a :: .text b :: rest => mergeTexts (.text (a ++ b) :: rest)
  | .blockDef _ _ :: rest => mergeTexts rest
  | f :: rest => f :: mergeTexts rest
  | [] => []
termination_by l => l.length
decreasing_by all_goals simp_wf <;> omega

def applyTrims : List Frag → List Frag
  | .text t :: .act lt rt a :: rest =>
    (if lt then .text (trimRightWs t) else .text t) :: applyTrims (.act lt rt a :: rest)
  | .act lt true a :: .text t :: rest => .act lt true a :: applyTrims (.text (trimLeftWs t) :: rest)
  | f :: rest => f :: applyTrims rest
  | [] => []
termination_by l => l.length
decreasing_by all_goals simp_wf <;> omega

/-- nesting as parse.Parse builds it: returns the list up to a terminator (else / else-if / end / define / EOF) -/
inductive Term where
  | eof | end_ | else_ | elseIf (e : TExpr) | define (name : String)
  deriving Inhabited

mutual
/-- recursion on the fuel (total); `parseList` supplies more fuel than there are fragments -/
def parseListF : Nat → List Frag → CM (List TNode × Term × List Frag)
  | 0, _ => .error (.domain "template longer than the model's fuel")
  | fuel + 1, fs => do
  match fs with
  | [] => pure ([], .eof, [])
  | .text s :: rest => do
    let (ns, t, r) ← parseListF fuel rest
    pure ((if s.isEmpty then ns else .text s :: ns), t, r)
  | .blockDef _ _ :: rest => parseListF fuel rest
  | .act _ _ a :: rest =>
    match a with
    | .print e esc => do let (ns, t, r) ← parseListF fuel rest; pure (.print e esc :: ns, t, r)
    | .assign x e => do let (ns, t, r) ← parseListF fuel rest; pure (.assign x e :: ns, t, r)
    | .template nm arg => do let (ns, t, r) ← parseListF fuel rest; pure (.template nm arg :: ns, t, r)
    | .end_ => pure ([], .end_, rest)
    | .else_ => pure ([], .else_, rest)
    | .elseIf e => pure ([], .elseIf e, rest)
    | .define nm => pure ([], .define nm, rest)
    | .ifStart c => do
      let (node, rest') ← parseIfF fuel c rest
      let (ns, t, r) ← parseListF fuel rest'
      pure (node :: ns, t, r)
    | .range decl e => do
      let (body, t, rest') ← parseListF fuel rest
      match t with
      | .end_ => do
        let (ns, t2, r) ← parseListF fuel rest'
        pure (.range decl e body :: ns, t2, r)
      | _ => .error (.parse "range: expected end")

def parseIfF : Nat → TExpr → List Frag → CM (TNode × List Frag)
  | 0, _, _ => .error (.domain "template longer than the model's fuel")
  | fuel + 1, c, rest => do
    let (thn, t, rest') ← parseListF fuel rest
    match t with
    | .end_ => pure (.ite c thn [], rest')
    | .else_ => do
      let (els, t2, rest'') ← parseListF fuel rest'
      match t2 with
      | .end_ => pure (.ite c thn els, rest'')
      | _ => .error (.parse "expected end")
    | .elseIf c2 => do
      let (inner, rest'') ← parseIfF fuel c2 rest'
      pure (.ite c thn [inner], rest'')
    | _ => .error (.parse "unexpected EOF")
end

def parseList (fs : List Frag) : CM (List TNode × Term × List Frag) := parseListF (2 * fs.length + 2) fs

structure Compiled where
  main : List TNode
  defs : List (String × List TNode)

/-- replace the placeholder block name in the `__freeze` of a call action; recursion on the fuel -/
def renameFreezeF (newName : String) : Nat → TExpr → TExpr
  | 0, e => e
  | fuel + 1, e =>
    match e with
    | .fcall "__freeze" _ => .fcall "__freeze" [.lit (.str newName)]
    | .fcall n args => .fcall n (args.map (renameFreezeF newName fuel))
    | .field r n args => .field (renameFreezeF newName fuel r) n (args.map (renameFreezeF newName fuel))
    | e => e

def renameFreeze (newName : String) (e : TExpr) : TExpr := renameFreezeF newName 1000 e

/-- hoist the blocks of mixin calls into their own templates, numbering them in rendering order
    (`block_<mixin>_<counter>`, renderState.mixincounter); recursion on the fuel -/
def hoistBlocksF : Nat → List Frag → Nat → List Frag × List (String × List Frag) × Nat
  | 0, fs, k => (fs, [], k)
  | _ + 1, [], k => ([], [], k)
  | fuel + 1, .blockDef m body :: rest, k =>
    -- the block's own body is rendered first (Block.Render before the counter is read)
    let (body', defs1, k1) := hoistBlocksF fuel body k
    let name := s!"block_{m}_{k1}"
    let rest' := match rest with
      | .act lt rt (.template nm (some a)) :: r => Frag.act lt rt (.template nm (some (renameFreeze name a))) :: r
      | r => r
    let (rest'', defs2, k2) := hoistBlocksF fuel rest' (k1 + 1)
    (rest'', defs1 ++ [(name, body')] ++ defs2, k2)
  | fuel + 1, f :: rest, k =>
    let (rest', defs, k') := hoistBlocksF fuel rest k
    (f :: rest', defs, k')

/-- fuel of the fragment-level passes -/
def fragFuel : Nat := 10000000

def hoistBlocks (fs : List Frag) (k : Nat) : List Frag × List (String × List Frag) × Nat := hoistBlocksF fragFuel fs k

/-- all mixin definitions of the document in rendering order; the first definition of a name wins; recursion on the fuel -/
def collectMixinDefsF : Nat → List Node → List (String × List String × List Node)
  | 0, _ => []
  | _ + 1, [] => []
  | fuel + 1, n :: rest =>
    let here := match n with
      | .mixinDef name params kids => [(name, params, kids)] ++ collectMixinDefsF fuel kids
      | .tag _ _ _ _ kids | .each _ _ _ kids | .while _ kids | .mixinCall _ _ _ kids => collectMixinDefsF fuel kids
      | .cond _ thn els => collectMixinDefsF fuel thn ++ (match els with | some e => collectMixinDefsF fuel e | none => [])
      | .case _ whens => (whens.map fun w => collectMixinDefsF fuel w.2).flatten
      | _ => []
    here ++ collectMixinDefsF fuel rest

def collectMixinDefs (ns : List Node) : List (String × List String × List Node) := collectMixinDefsF fragFuel ns

def trimMarker : Frag := .act true true (.print (.lit (.str "")) false)

def parseBody (frags : List Frag) : CM (List TNode) := do
  let (ns, t, _) ← parseList (applyTrims (mergeTexts frags))
  match t with
  | .eof => pure ns
  | _ => .error (.parse "unexpected {{end}} / {{else}}")

def compileDoc (env : CEnv) (doc : List Node) : CM Compiled := do
  let mainFrags ← compileNodes env doc
  -- mixin definitions: rendered where they are met; the first definition of a name wins
  let mdefs := collectMixinDefs doc
  let mdefs := mdefs.foldl (fun acc d => if acc.any (·.1 == d.1) then acc else acc ++ [d]) []
  let mfrags ← mdefs.mapM fun (name, params, kids) => do
    let body ← compileNodes env kids
    let ps := if params.isEmpty then [""] else params     -- strings.Split("", ",") = [""]
    let head : List Frag :=
      [.act true false (.assign "attributes" (.fcall "__tryindex" [.dot, .lit (.int 1)])), .text "\n",
       .act true false (.assign "__args__" (.fcall "__tryindex" [.dot, .lit (.int 0)])), .text "\n",
       .act true false (.assign "block" (.fcall "__tryindex" [.dot, .lit (.int 2)])), .text "\n"] ++
      (ps.zipIdx.map fun (p, i) => Frag.act true true (.assign p (.fcall "__tryindex" [.var "__args__", .lit (.int i)])))
    pure (name, head ++ [.text "\n"] ++ body ++ [.text "\n", .act true false (.print (.lit (.str "")) false)])
  -- number the blocks: main template first, then the mixin bodies in definition order?  No: in RENDERING order —
  -- a definition's body is rendered when the definition node is met. The names only have to be unique and consistent,
  -- which any numbering guarantees; the model numbers main first.
  let (main', bdefs0, k0) := hoistBlocks mainFrags 0
  let (mfrags', bdefs, _) := mfrags.foldl (fun (acc : List (String × List Frag) × List (String × List Frag) × Nat) (d : String × List Frag) =>
    let (body', bd, k') := hoistBlocks d.2 acc.2.2
    (acc.1 ++ [(d.1, body')], acc.2.1 ++ bd, k')) ([], bdefs0, k0)
  let hasDefs := !mfrags'.isEmpty || !bdefs.isEmpty
  -- `\n{{- define …` after the main template: its trailing white space is trimmed when anything follows
  let main ← parseBody (if hasDefs then main' ++ [.text "\n", trimMarker] else main')
  let blockTpls ← bdefs.mapM fun (name, body) => do
    pure (name, ← parseBody ([trimMarker, .text "\n"] ++ body ++ [.text "\n", trimMarker]))
  let mixinTpls ← mfrags'.mapM fun (name, body) => do
    pure ("mixin_" ++ name, ← parseBody ([.act true false (.print (.lit (.str "")) false), .text "\n"] ++ body))
  pure { main := main, defs := blockTpls ++ mixinTpls }

end Pug.Tpl
