import PugModel.Tpl.Syntax
import PugModel.Tpl.Runtime
import PugModel.Gen.Tables
import PugModel.Basic.Html
/-
Model of the forked executor (pugjs/tpl_exec.go): state{vars, globals, …}, walk for text/action/if/range/template,
evalField / evalCall with argument coercion, printValue. Fuel-indexed and total; "out of fuel" is its own outcome.
-/
namespace Pug.Tpl
open Pug Pug.Data

structure St where
  vars : List (String × Val)          -- push-down stack, newest last; never popped (pop is a no-op in the fork)
  globals : List (String × Val)
  heap : Heap
  out : String
  depth : Nat
  dot : Val := .invalid
  closures : List (String × List (String × Val) × Nat) := []   -- bound blocks: (template name, caller's variables, caller's depth)
  deriving Inhabited

abbrev M := StateT St (Except Err)

def throwE {α} (e : Err) : M α := fun _ => .error e
def execErr {α} (msg : String) : M α := throwE (.exec msg)
def domainErr {α} (msg : String) : M α := throwE (.domain msg)

def getHeap : M Heap := do return (← get).heap
def setHeap (h : Heap) : M Unit := modify fun s => { s with heap := h }
def emit (t : String) : M Unit := modify fun s => { s with out := s.out ++ t }

/-- varValue: search from the top of the stack; undefined → the zero reflect.Value -/
def lookupVar (vars : List (String × Val)) (x : String) : Val :=
  match vars.reverse.find? (·.1 == x) with
  | some (_, v) => v
  | none => .invalid

/-- setVarValue: overwrite the newest binding of the name, or push -/
def setVarIn : List (String × Val) → String → Val → List (String × Val)
  | vars, x, v =>
    match vars.reverse.findIdx? (·.1 == x) with
    | some i => vars.set (vars.length - 1 - i) (x, v)
    | none => vars ++ [(x, v)]

def setVar (x : String) (v : Val) : M Unit := modify fun s => { s with vars := setVarIn s.vars x v }

def ofOpt {α} (o : Option α) (what : String) : M α :=
  match o with
  | some a => pure a
  | none => domainErr what

def allocArr (items : List Val) : M Val := do
  let (h, v) := (← getHeap).allocArr items
  setHeap h
  pure v

def allocMap (m : MapObj) : M Val := do
  let (h, v) := (← getHeap).allocMap m
  setHeap h
  pure v

/-- parameter types of the Go functions/methods that templates call -/
inductive PTy where
  | any        -- interface{} / reflect.Value
  | gostr      -- string
  | pstr       -- pugjs.String
  | num        -- pugjs.Number / float64
  | obj        -- pugjs.Object
  deriving Repr, DecidableEq

/-- validateType for an *evaluated* (non-literal) argument -/
def validateType (t : PTy) (v : Val) : M Val := do
  match t, v with
  | .any, v => pure v
  | .obj, .invalid => domainErr "nil Object argument"
  | .obj, v => if v.isObject then pure v else execErr "wrong type for value; expected pugjs.Object"
  | _, .invalid => execErr "invalid value; expected a typed argument"
  | .num, .N q => pure (.N q)
  | .num, .nil => pure (.N 0)
  | .num, .S _ => domainErr "string to float64 coercion"
  | .num, _ => execErr "wrong type for value; expected number"
  | .gostr, .str s => pure (.str s)
  | .gostr, .nil => pure (.str "")
  | .gostr, v =>
    if v.isObject then do
      let s ← ofOpt (objStr (← getHeap) (strFuel (← getHeap)) v) "String() outside domain"
      pure (.str s)
    else execErr "wrong type for value; expected string"
  | .pstr, .S s => pure (.S s)
  | .pstr, .nil => pure (.S "")
  | .pstr, _ => domainErr "coercion to pugjs.String"

/-- evalArg for a literal node -/
def literalArg (t : PTy) (v : Val) : M Val :=
  match t, v with
  | .any, v => pure v
  | .obj, v => pure (convertRaw v)
  | .num, .int i => pure (.N i)
  | .num, .flt q => pure (.N q)
  | .num, _ => execErr "expected float"
  | .gostr, .str s => pure (.str s)
  | .gostr, _ => execErr "expected string"
  | .pstr, .str s => pure (.S s)
  | .pstr, _ => execErr "expected string"

/-- signature: fixed parameter types, optional variadic element type -/
structure Sig where
  fixed : List PTy
  variadic : Option PTy := none

def anyN (n : Nat) : Sig := { fixed := List.replicate n .any }

/-- Array.Member / String.Member method tables (types.go) -/
def arrayMethodSig : String → Option Sig
  | "length" | "pop" | "shift" | "sort" => some { fixed := [] }
  | "indexOf" => some { fixed := [.any] }
  | "join" => some { fixed := [.gostr] }
  | "push" => some { fixed := [.obj] }
  | "unshift" => some { fixed := [], variadic := some .obj }
  | "splice" | "slice" => some { fixed := [.num] }
  | _ => none

def stringMethodSig : String → Option Sig
  | "length" | "toUpperCase" | "toLowerCase" => some { fixed := [] }
  | "charAt" => some { fixed := [.num] }
  | "indexOf" | "split" => some { fixed := [.gostr] }
  | "slice" => some { fixed := [.num], variadic := some .num }
  | "replace" => some { fixed := [.pstr, .pstr] }
  | _ => none

def hostMethodSig : String → String → Option Sig
  | "Math", "min" | "Math", "max" => some { fixed := [], variadic := some .any }
  | "Math", "ceil" | "Math", "trunc" | "Math", "round" => some (anyN 1)
  | "JSON", "stringify" => some (anyN 1)
  | "JSON", "parse" => some { fixed := [.gostr] }
  | "Object", "keys" => some (anyN 1)
  | "Object", "assign" => some { fixed := [.any], variadic := some .any }
  | _, _ => none

/-- index of `needle` in `hay` (strings.Index), on code points -/
def indexOfList (hay needle : List Char) : Int :=
  let rec go (l : List Char) (i : Nat) (fuel : Nat) : Int :=
    match fuel with
    | 0 => -1
    | fuel + 1 =>
      if needle.isPrefixOf l then i
      else match l with
        | [] => -1
        | _ :: r => go r (i + 1) fuel
  go hay 0 (hay.length + 1)

/-- strings.Split for a non-empty separator; for "" Go splits into UTF-8 sequences -/
def splitOn (s sep : List Char) : List (List Char) :=
  if sep.isEmpty then s.map ([·])
  else
    let rec go (l cur : List Char) (acc : List (List Char)) (fuel : Nat) : List (List Char) :=
      match fuel with
      | 0 => acc
      | fuel + 1 =>
        if l.isEmpty then acc ++ [cur]
        else if sep.isPrefixOf l then go (l.drop sep.length) [] (acc ++ [cur]) fuel
        else match l with
          | [] => acc ++ [cur]
          | c :: r => go r (cur ++ [c]) acc fuel
    go s [] [] (s.length + 2)

/-- sort.Slice with String() ordering: insertion sort is stable; Go's is not, but equal keys print equally -/
def sortByStr (keyed : List (String × Val)) : List (String × Val) :=
  keyed.foldl (fun acc kv =>
    let (lo, hi) := acc.span (fun x => !(kv.1 < x.1))
    lo ++ [kv] ++ hi) []

def callArrayMethod (a : Nat) (name : String) (args : List Val) : M Val := do
  let h ← getHeap
  let items := h.getArr a
  match name, args with
  | "length", [] => pure (.N items.length)
  | "pop", [] =>
    match items.reverse with
    | [] => throwE (.panic "runtime error: index out of range [-1]")
    | last :: rest => do setHeap (h.setArr a rest.reverse); pure last
  | "shift", [] =>
    match items with
    | [] => domainErr "shift on empty array (nil Object converts to an empty Map)"
    | first :: rest => do setHeap (h.setArr a rest); pure first
  | "sort", [] => do
    let keyed ← items.mapM fun v => do
      let s ← ofOpt (objStr h (strFuel h) v) "String() outside domain"
      pure (s, v)
    setHeap (h.setArr a ((sortByStr keyed).map (·.2)))
    pure .nil
  | "indexOf", [w] =>
    let w := convertRaw w
    match w with
    | .arr _ | .map _ => domainErr "indexOf of a reference value (reflect.DeepEqual)"
    | _ =>
      match items.findIdx? (· == w) with
      | some i => pure (.N i)
      | none => pure (.N (-1))
  | "join", [.str sep] => do
    let parts ← items.mapM fun v => ofOpt (objStr h (strFuel h) v) "String() outside domain"
    pure (.S (sep.intercalate parts))
  | "push", [w] => do setHeap (h.setArr a (items ++ [w])); pure .nil
  | "unshift", ws => do setHeap (h.setArr a (ws ++ items)); pure (.N (ws.length + items.length))
  | "splice", [.N n] =>
    let k := Fn.ratTrunc n
    if k < 0 || k > items.length then throwE (.panic "runtime error: slice bounds out of range")
    else do
      let (h2, right) := h.allocArr (items.drop k.toNat)
      setHeap (h2.setArr a (items.take k.toNat))
      pure right
  | "slice", [.N n] =>
    let k := Fn.ratTrunc n
    if k < 0 || k > items.length then throwE (.panic "runtime error: slice bounds out of range")
    else allocArr (items.drop k.toNat)
  | _, _ => domainErr s!"array method {name}"

def callStringMethod (s : String) (name : String) (args : List Val) : M Val := do
  let cs := s.toList
  match name, args with
  | "length", [] => pure (.N cs.length)
  | "toUpperCase", [] => pure (.S s.toUpper)
  | "toLowerCase", [] => pure (.S s.toLower)
  | "charAt", [.N n] =>
    let k := Fn.ratTrunc n
    if k ≥ cs.length then pure (.S "")
    else if k < 0 then throwE (.panic "runtime error: index out of range")
    else pure (.S (String.ofList [cs.getD k.toNat ' ']))
  | "indexOf", [.str d] => pure (.N (indexOfList cs d.toList))
  | "split", [.str d] => allocArr ((splitOn cs d.toList).map fun p => .S (String.ofList p))
  | "slice", (.N f) :: rest =>
    let len : Int := cs.length
    let from_ := Fn.ratTrunc f
    if from_ > len then pure (.S "") else
    let from_ := if from_ < 0 then len + from_ else from_
    let to_ : Int := match rest with
      | (.N t) :: _ => Fn.ratTrunc t
      | _ => len
    let to_ := if to_ < 0 then len + to_ else to_
    if from_ < 0 || to_ > len || from_ > to_ then throwE (.panic "runtime error: slice bounds out of range")
    else pure (.S (String.ofList ((cs.drop from_.toNat).take (to_ - from_).toNat)))
  | "replace", [.S what, .S with_] => pure (.S (s.replace what with_))
  | _, _ => domainErr s!"string method {name}"

/-- Map.Member's name folding (types.go): exact, upperFirst, Title, then the same after id/url/api replacement -/
def mapMember (m : MapObj) (field : String) : Val :=
  let try1 (f : String) : Option Val :=
    match assocGet m.items f with
    | some v => some v
    | none => assocGet m.items (upperFirst f)
  match try1 field with
  | some v => v
  | none =>
    let f2 := ((field.replace "id" "ID").replace "url" "URL").replace "api" "API"
    match try1 f2 with
    | some v => v
    | none => .nil

/-- `__assign` on a map: append to a non-empty order when the key is new -/
def mapAssign (m : MapObj) (k : String) (v : Val) : MapObj :=
  let isNew := (assocGet m.items k).isNone
  { items := assocSet m.items k v,
    order := if m.order.length > 0 && isNew then m.order ++ [k] else m.order }

/-- Map.Keys(): the explicit order, else the keys (sorted — see known_findings / fix) — and the result is cached in `order` -/
def mapKeys (m : MapObj) : List String × MapObj :=
  if m.order.length > 0 then (m.order, m)
  else
    let ks := sortKeys (m.items.map (·.1))
    (ks, { m with order := ks })

def callHostMethod (host name : String) (args : List Val) : M Val := do
  let h ← getHeap
  let nums : M (List Rat) := args.mapM fun v => match v.num? with
    | some q => pure q
    | none => throwE (.panic "interface conversion: interface {} is not float64")
  match host, name, args with
  | "Math", "min", _ => do
    match Fn.mathAcc Gen.mathMinCmp Gen.mathMinInit (← nums) with
    | .fin q => pure (.N q)
    | _ => domainErr "infinite result"
  | "Math", "max", _ => do
    match Fn.mathAcc Gen.mathMaxCmp Gen.mathMaxInit (← nums) with
    | .fin q => pure (.N q)
    | _ => domainErr "infinite result"
  | "Math", "ceil", [_] => do let qs ← nums; pure (.N (Fn.mathCeil (qs.getD 0 0)))
  | "Math", "trunc", [_] => do let qs ← nums; pure (.N (Fn.mathTrunc (qs.getD 0 0)))
  | "Math", "round", [v] =>
    match v.num? with
    | some q => match Fn.mathRound Gen.roundProg q with
      | some i => pure (.N i)
      | none => domainErr "NaN"
    | none => pure (.N 0)
  | "JSON", "stringify", [v] => do
    let s ← ofOpt (marshal h (strFuel h) v) "json.Marshal outside domain"
    pure (.S s)
  | "Object", "keys", [.map a] => do
    -- js_object.go Keys: a NEW array with the keys in lexical order; the object itself (its own key order) is untouched
    let ks := sortKeys ((h.getMap a).items.map (·.1))
    allocArr (ks.map Val.S)
  | "Object", "assign", (.map t) :: sources => do
    -- js_object.go Assign: every source's keys in Keys() order (which caches that order in the source), each set on the target
    -- with Map.Assign (a new key joins the target's explicit order only if the target has one)
    for src in sources do
      match src with
      | .map b => do
        let h ← getHeap
        let (ks, mb) := mapKeys (h.getMap b)
        setHeap (h.setMap b mb)
        for k in ks do
          let h ← getHeap
          setHeap (h.setMap t (mapAssign (h.getMap t) k (mapMember (h.getMap b) k)))
      | .nil => pure ()
      | _ => domainErr "Object.assign from a non-object"
    pure (.map t)
  | _, _, _ => domainErr s!"host method {host}.{name}"

end Pug.Tpl

namespace Pug.Tpl
open Pug Pug.Data

/-- the Go functions the model knows by name; a function-map entry bound to any other identifier (e.g. `"__attr": attrOf`) is
    modelled under its function-map NAME, like the entries bound to function literals -/
def knownImpls : List String :=
  ["runtimeAdd", "runtimeSub", "runtimeMul", "runtimeQuo", "runtimeRem", "runtimeEql", "runtimeLss", "runtimeInc", "runtimeDec",
   "runtimeJSON", "not", "and", "or", "index", "HTMLEscaper"]

/-- helper name → Go implementation, through the tables generated from runtime.go / tpl_funcs.go -/
def helperImpl (name : String) : Option String :=
  match (Gen.helperIdents.find? (·.1 == name)).map (·.2) with
  | some i => if knownImpls.contains i then some i else none
  | none => none
def helperClosure (name : String) : Option Gen.BExpr := (Gen.helperClosures.find? (·.1 == name)).map (·.2)

def stdHtmlEscapeTable : List (Char × String) :=
  [('&', "&amp;"), ('\'', "&#39;"), ('<', "&lt;"), ('>', "&gt;"), ('"', "&#34;"), (Char.ofNat 0, "�")]

/-- `html/template.HTMLEscapeString` (Go standard library; used at compile time and by __attrs) -/
def stdHtmlEscape (s : String) : String := escapeHtmlWith stdHtmlEscapeTable s

/-- `HTMLEscapeString` of pugjs/tpl_funcs.go: the generated table -/
def pugHtmlEscape (s : String) : String := escapeHtmlWith Gen.htmlEscape s

/-- signatures of the function-map entries the compiler emits (runtime.go / tpl_funcs.go) -/
def builtinSig (name : String) : Option Sig :=
  match helperImpl name with
  | some "runtimeAdd" | some "runtimeMul" | some "runtimeQuo" | some "runtimeRem"
  | some "runtimeEql" | some "runtimeLss" => some (anyN 2)
  | some "runtimeSub" => some { fixed := [], variadic := some .any }
  | some "runtimeInc" | some "runtimeDec" | some "not" | some "runtimeJSON" => some (anyN 1)
  | some "and" | some "or" | some "index" => some { fixed := [.any], variadic := some .any }
  | some "HTMLEscaper" => some { fixed := [], variadic := some .any }
  | some _ => none
  | none =>
    if (helperClosure name).isSome then some (anyN 2) else
    match name with
    | "__if" => some (anyN 3)
    | "__tryindex" => some (anyN 2)
    | "__str" | "__op__array" | "__op__map" | "__op__map_params" => some { fixed := [], variadic := some .any }
    | "__attr" => some { fixed := [.gostr, .any, .any] }
    | "__attrs" => some { fixed := [], variadic := some .any }
    | "__and_attrs" => some { fixed := [.any] }
    | "__freeze" => some { fixed := [.gostr] }
    | "Math" | "JSON" | "Object" => some { fixed := [] }
    | "vpIdent" => some (anyN 1)      -- harness-supplied template function: returns its argument
    | "__Range" => some { fixed := [], variadic := some .num }
    | _ => none

def boolOf (o : Option Bool) : M Bool := ofOpt o "comparison outside domain"

/-- `index` (tpl_funcs.go) with the single index the compiler emits -/
def indexFn (item : Val) (idxs : List Val) : M Val := do
  let h ← getHeap
  match item with
  | .invalid => execErr "error calling __pug__index: index of untyped nil"
  | .nil => pure .nil
  | .arr a =>
    match idxs with
    | [] => pure item
    | [i] =>
      let x? : Option Int := match i with
        | .int n => some n
        | .N q | .flt q => some (Fn.ratTrunc q)
        | _ => none
      match i, x? with
      | .invalid, _ => execErr "error calling __pug__index: cannot index slice/array with nil"
      | _, some x =>
        let items := h.getArr a
        if x < 0 || x ≥ items.length then pure .nil else pure (items.getD x.toNat .nil)
      | .S _, none | .B _, none | .nil, none | .arr _, none | .map _, none =>
        -- an Object index that is neither String nor Number leaves `index` invalid
        execErr "error calling __pug__index: cannot index slice/array with nil"
      | _, none => execErr "error calling __pug__index: cannot index slice/array with type"
    | _ => domainErr "multi-index"
  | .map a =>
    match idxs with
    | [] => pure item
    | [i] =>
      match i with
      | .S k | .str k =>
        if k == "" then domainErr "empty map key" else
        match assocGet (h.getMap a).items k with
        | some v => pure v
        | none => pure .nil       -- a missing key is Nil
      | .N _ | .flt _ | .int _ => pure .nil   -- a number never matches a string key
      | _ => domainErr "map index kind"
    | _ => domainErr "multi-index"
  | .S _ | .str _ => domainErr "indexing a string yields a byte"
  | _ => execErr "error calling __pug__index: can't index item"

/-- does `__attrs` trim every attribute value (true) or only the merged class value (false)? — follows runtime.go -/
def attrsTrimAll : Bool := false

/-- one collected attribute value inside __attrs: (mustEscape, val, bool) -/
abbrev TmpAttr := Bool × String × Option Bool

/-- Go `unicode.IsSpace` on the code points the model meets -/
def goIsSpace (c : Char) : Bool :=
  c == ' ' || c == '\t' || c == '\n' || c == '\r' || c.toNat == 0x0b || c.toNat == 0x0c || c.toNat == 0x85 || c.toNat == 0xa0 ||
  c.toNat == 0x2028 || c.toNat == 0x2029 || c.toNat == 0x3000 || (c.toNat ≥ 0x2000 && c.toNat ≤ 0x200a) || c.toNat == 0x1680 ||
  c.toNat == 0x202f || c.toNat == 0x205f

def trimSpaceStr (s : String) : String :=
  String.ofList ((s.toList.dropWhile goIsSpace).reverse.dropWhile goIsSpace).reverse

/-- one record of the `__attrs` argument list: (name, boolean value if any, string value, mustEscape) -/
abbrev AttrRec := String × Option Bool × String × Bool

/-- collecting one record (the loop body of `__attrs`): a new name is appended; a known name gets the new value - the last one
    wins, except for `class`, whose values accumulate (identical records are skipped) -/
def attOf (r : AttrRec) : TmpAttr :=
  let (name, b, v, esc) := r
  let val := match b with
    | some _ => if esc then name else "\"" ++ name ++ "\""
    | none => v
  (esc, val, b)

def attrStep (acc : List (String × List TmpAttr)) (r : AttrRec) : List (String × List TmpAttr) :=
  let name := r.1
  let att := attOf r
  match acc.find? (·.1 == name) with
  | some (_, olds) =>
    if name == "class" then
      -- `s == att` compares the *bool pointers*: two records with a BoolVal are never identical
      if olds.any (fun o => o == att && att.2.2.isNone) then acc
      else acc.map fun e => if e.1 == name then (name, olds ++ [att]) else e
    else acc.map fun e => if e.1 == name then (name, [att]) else e
  | none => acc ++ [(name, [att])]

def attrCollect (recs : List AttrRec) : List (String × List TmpAttr) := recs.foldl attrStep []

/-- one collected attribute, printed -/
def attrRenderOne (name : String) (vals : List TmpAttr) : String :=
  let isClass := name == "class"
  -- a false boolean omits the whole attribute, unless it is a class entry (then only that entry)
  if !isClass && vals.any (fun v => v.2.2 == some false) then "" else
  let vals := if isClass then vals.filter (fun v => v.2.2 != some false) else vals
  let parts := vals.map fun (esc, val, _) =>
    if esc then stdHtmlEscape val
    else if val.toList.head? == some '"' then String.ofList ((val.toList.drop 1).dropLast) else ""
  -- `if len(tmp) > 0 { tmp += " " }` before each value
  let tmp := parts.foldl (fun acc p => (if acc.length > 0 then acc ++ " " else acc) ++ p) ""
  let tmp := if attrsTrimAll || isClass then trimSpaceStr tmp else tmp
  if tmp == "" && isClass then "" else " " ++ name ++ "=\"" ++ tmp ++ "\""

/-- `__attrs` (runtime.go): first-occurrence order of names; the last value wins except for `class`, whose values accumulate
    (identical records are skipped); false/nil omit the attribute (for class: that entry); values are escaped -/
def renderAttrs (recs : List AttrRec) : String :=
  String.join ((attrCollect recs).map fun (n, vs) => attrRenderOne n vs)

/-- class names of a class value (runtime.go classNames): lists - also nested ones, as a repeated class attribute of a mixin call
    arrives - are flattened, false / null entries dropped -/
def classNamesOf (h : Heap) : Nat → Val → Option (List String)
  | 0, _ => none
  | fuel + 1, v =>
    match v with
    | .arr a => ((h.getArr a).mapM (classNamesOf h fuel)).map List.flatten
    | .B false | .bool false | .nil | .invalid => some []
    | v => (objStr h (strFuel h) v).map fun s => [s]

/-- runtime.go attrOf: the record(s) of one name / value pair -/
def attrRecOf (h : Heap) (k : String) (v : Val) (e : Bool) : M (List AttrRec) :=
  match v with
  | .B b | .bool b => pure [(k, some b, "", false)]
  | .nil => pure [(k, some false, "", false)]
  | .str s => pure [(k, none, s, e)]
  | .invalid => pure [(k, some false, "", false)]    -- undefined variable: nil interface, omitted like null
  | .int i => pure [(k, none, toString i, e)]
  | .flt q => do
    let s ← ofOpt (fmtFloatV q) "float formatting"
    pure [(k, none, s, e)]
  | .arr _ =>
    if k == "class" then do
      let ss ← ofOpt (classNamesOf h (strFuel h) v) "String() outside domain"
      pure [(k, none, " ".intercalate ss, e)]
    else do
      let s ← ofOpt (objStr h (strFuel h) v) "String() outside domain"
      pure [(k, none, s, e)]
  | v => do
    let s ← ofOpt (objStr h (strFuel h) v) "String() outside domain"
    pure [(k, none, s, e)]

/-- the (key text, value) pairs of an `__op__map` argument list: keys through `String()`, values through `convert`; an odd list
panics on `a[i+1]`, a key without a text is outside the model -/
def opMapPairs (h : Heap) : List Val → Except Err (List (String × Val))
  | k :: v :: rest =>
    match objStr h (strFuel h) k with
    | none => .error (.domain "map key")
    | some ks => (opMapPairs h rest).map ((ks, convertRaw v) :: ·)
  | [] => .ok []
  | [_] => .error (.panic "runtime error: index out of range")

/-- runtime.go `__op__map` (the object literal): items by key, the later value of a repeated key wins; `order` = the keys as written -/
def opMap (h : Heap) (kvs : List Val) : M Val :=
  match opMapPairs h kvs with
  | .error e => throwE e
  | .ok ps => allocMap { items := ps.foldl (fun acc (kv : String × Val) => assocSet acc kv.1 kv.2) [], order := ps.map (·.1) }

/-- the (name, value) pairs of a `__op__map_params` argument list -/
def mpairs : List Val → Option (List (String × Val))
  | .str k :: v :: rest => (mpairs rest).map ((k, v) :: ·)
  | [] => some []
  | _ => none

/-- one entry of a mixin call's `attributes` object: a name given once keeps its value, a repeated name collects its values in a
FRESH list (runtime.go `__op__map_params`) -/
def mapParamsItem (ps : List (String × Val)) (k : String) : M (String × Val) :=
  match (ps.filter (·.1 == k)).map (·.2) with
  | [v] => pure (k, convertRaw v)
  | vs => do
    let arr ← allocArr (vs.map convertRaw)
    pure (k, arr)

/-- runtime.go `__op__map_params`: map[interface{}]interface{} keyed by the raw name; a repeated name collects its values in a slice -/
def mapParams (kvs : List Val) : M Val := do
  let ps ← ofOpt (mpairs kvs) "__op__map_params key"
  let names := ps.foldl (fun acc kv => if acc.contains kv.1 then acc else acc ++ [kv.1]) ([] : List String)
  let items ← names.mapM (mapParamsItem ps)
  allocMap { items := items, order := [] }

/-- apply a function-map entry to evaluated arguments; results already passed through `convert` -/
def callBuiltin (name : String) (args : List Val) : M Val := do
  let h ← getHeap
  let cmp (b : Gen.BExpr) (x y : Val) : M Val := do
    let l ← boolOf (runtimeLss x y)
    let e ← boolOf (runtimeEql h x y)
    let ls ← boolOf (runtimeLss y x)
    let es ← boolOf (runtimeEql h y x)
    pure (.B (b.eval l e ls es))
  match helperImpl name, args with
  | some "runtimeAdd", [x, y] => ofOpt (runtimeAdd h x y) "add outside domain"
  | some "runtimeSub", [x] => ofOpt (runtimeSub (.int 0) x) "sub outside domain"
  | some "runtimeSub", [x, y] => ofOpt (runtimeSub x y) "sub outside domain"
  | some "runtimeSub", _ => throwE (.panic "runtime error: index out of range")
  | some "runtimeMul", [x, y] => ofOpt (runtimeMul x y) "mul outside domain"
  | some "runtimeQuo", [x, y] => ofOpt (runtimeQuo x y) "division outside domain"
  | some "runtimeRem", [x, y] => ofOpt (runtimeRem x y) "remainder outside domain"
  | some "runtimeInc", [x] => pure (runtimeInc x)
  | some "runtimeEql", [x, y] => do pure (.B (← boolOf (runtimeEql h x y)))
  | some "runtimeLss", [x, y] => do pure (.B (← boolOf (runtimeLss x y)))
  | some "not", [x] => pure (.B (!truth h x))
  | some "and", x :: rest =>
    -- first falsy argument, else the last
    let r := (x :: rest).find? (fun v => !truth h v)
    pure (match r with
      | some v => if v.isInvalid then .invalid else convertRaw v
      | none => let l := (x :: rest).getLast?.getD x; if l.isInvalid then .invalid else convertRaw l)
  | some "or", x :: rest =>
    let r := (x :: rest).find? (fun v => truth h v)
    pure (match r with
      | some v => convertRaw v
      | none => let l := (x :: rest).getLast?.getD x; if l.isInvalid then .invalid else convertRaw l)
  | some "index", item :: idxs => indexFn item idxs
  | some "runtimeJSON", [v] => do
    let s ← ofOpt (marshal h (strFuel h) v) "json.Marshal outside domain"
    pure (.S s)
  | some other, _ => domainErr s!"helper {other}"
  | none, _ =>
    match helperClosure name, args with
    | some b, [x, y] => cmp b x y
    | some _, _ => execErr "wrong number of args"
    | none, _ =>
      match name, args with
      | "__if", [t, l, r] => pure (convertRaw (if truth h t then l else r))
      | "__op__array", items => allocArr (items.map convertRaw)
      | "__op__map", kvs => opMap h kvs
      | "__str", parts => do
        let ss ← parts.mapM fun v => ofOpt (objStr h (strFuel h) v) "String() outside domain"
        pure (.S (String.join ss))
      | "__tryindex", [obj, key] =>
        match obj, key with
        | .arr a, .int i =>
          let items := h.getArr a
          if i < 0 then throwE (.panic "index out of range") else
          pure (items.getD i.toNat .nil)
        | .nil, _ => pure .nil
        | .invalid, _ => pure .invalid
        | _, _ => domainErr "__tryindex on a non-array"
      | "__attr", [.str k, v, .bool e] => do pure (.attrs (← attrRecOf h k v e))
      | "__and_attrs", [x] =>
        match x with
        | .map a => do
          let m := h.getMap a
          let (keys, m') := mapKeys m
          setHeap (h.setMap a m')
          -- every spread value is treated like a written attribute (runtime.go: attrOf)
          let recs ← keys.mapM fun k => attrRecOf h k (mapMember m k) true
          pure (.attrs recs.flatten)
        | _ => domainErr "&attributes of a non-map"
      | "__attrs", lists => do
        let recs ← lists.mapM fun l => match l with
          | .attrs rs => pure rs
          | _ => domainErr "__attrs argument"
        pure (.S (renderAttrs recs.flatten))
      | "__op__map_params", kvs => mapParams kvs
      | "vpIdent", [x] => pure (convertRaw x)
      | "__Range", args => do
        -- runtime.go __Range: one argument m: 0..m-1; two: o..m-1; fresh array on every call
        let ns ← args.mapM fun (v : Val) => match v with
          | .N q => pure q
          | _ => (domainErr "range argument" : M Rat)
        match ns with
        | [] | [_] | _ :: _ :: _ =>
          let (o, m) : Int × Int := match ns with
            | [m] => (0, Fn.ratTrunc m)
            | o :: m :: _ => (Fn.ratTrunc o, Fn.ratTrunc m)
            | [] => (0, 0)
          if ns.isEmpty then throwE (.panic "runtime error: index out of range") else
          allocArr ((List.range (m - o).toNat).map fun (i : Nat) => Val.N ((o + (i : Int) : Int) : Rat))
      | "Math", [] => pure (.host "Math")
      | "JSON", [] => pure (.host "JSON")
      | "Object", [] => pure (.host "Object")
      | _, _ => domainErr s!"function {name}"

mutual
/-- evaluate an operand -/
def evalExpr : Nat → TExpr → M Val
  | 0, _ => throwE .fuel
  | fuel + 1, e =>
    match e with
    | .var x => do return lookupVar (← get).vars ("$" ++ x)
    | .dot => do return (← get).dot
    | .lit v => pure v
    | .fcall name args =>
      if name == "null" then pure .nil else
      if name == "__freeze" then
        -- evalCall(__freeze): a bound block capturing the current scope
        match args with
        | [.lit (.str n)] => do
          let st ← get
          set { st with closures := st.closures ++ [(n, st.vars, st.depth)] }
          pure (.bblock st.closures.length)
        | _ => execErr "wrong number of args for __freeze"
      else
      match builtinSig name with
      | none => domainErr s!"unknown function {name}"
      | some sig => do
        let vs ← evalArgs fuel sig name args
        callBuiltin name vs
    | .field recv name args => do
      let r ← evalExpr fuel recv
      match r with
      | .invalid => pure .invalid
      | .nil | .N _ | .B _ =>
        if args.isEmpty then pure .nil else execErr s!"{name} is not a method but has arguments"
      | .S s | .str s =>
        match stringMethodSig name with
        | some sig => do
          let vs ← evalArgs fuel sig name args
          callStringMethod s name vs
        | none =>
          match r with
          | .S _ => if args.isEmpty then pure .nil else execErr "not a method"
          | _ => execErr s!"can't evaluate field {name} in type string"
      | .arr a =>
        match arrayMethodSig name with
        | some sig => do
          let vs ← evalArgs fuel sig name args
          callArrayMethod a name vs
        | none => throwE (.panic s!"field '{name}' not found on pugjs Array")
      | .map a =>
        if name == "__assign" then do
          let vs ← evalArgs fuel (anyN 2) name args
          match vs with
          | [k, v] => do
            let h ← getHeap
            let ks ← ofOpt (objStr h (strFuel h) k) "assign key"
            -- convert(v): raw literals become objects
            setHeap (h.setMap a (mapAssign (h.getMap a) ks (convertRaw v)))
            pure .nil
          | _ => execErr "wrong number of args for __assign"
        else do
          let h ← getHeap
          let v := mapMember (h.getMap a) name
          if args.isEmpty then pure v else execErr s!"{name} is not a method but has arguments"
      | .host hn =>
        match hostMethodSig hn name with
        | some sig => do
          let vs ← evalArgs fuel sig name args
          callHostMethod hn name vs
        | none => if args.isEmpty then pure .nil else execErr "not a method"
      | .int _ | .flt _ | .bool _ => execErr s!"can't evaluate field {name}"
      | .attrs _ => domainErr "field of attribute list"
      | .bblock _ => if args.isEmpty then pure .nil else execErr "not a method"

/-- evaluate the argument list of a call against a signature (arity check, then per-parameter coercion) -/
def evalArgs : Nat → Sig → String → List TExpr → M (List Val)
  | 0, _, _, _ => throwE .fuel
  | fuel + 1, sig, name, args => do
    let nfixed := sig.fixed.length
    if sig.variadic.isNone && args.length != nfixed then
      execErr s!"wrong number of args for {name}: want {nfixed} got {args.length}"
    else if sig.variadic.isSome && args.length < nfixed then
      execErr s!"wrong number of args for {name}: want at least {nfixed} got {args.length}"
    else
      let tys := sig.fixed ++ List.replicate (args.length - nfixed) (sig.variadic.getD .any)
      let rec go : List TExpr → List PTy → M (List Val)
        | [], _ => pure []
        | a :: as, tys => do
          let t := tys.headD .any
          let v ← match a with
            | .lit l => literalArg t l
            | a => do
              let v ← evalExpr fuel a
              validateType t v
          pure (v :: (← go as tys.tail))
      go args tys
end

end Pug.Tpl

namespace Pug.Tpl
open Pug Pug.Data

/-- printValue / the `| __pug__html` stage -/
def printVal (v : Val) (esc : Bool) : M Unit := do
  let h ← getHeap
  if esc then
    match v with
    | .invalid => pure ()                      -- no final argument: HTMLEscaper() = ""
    | v => do
      let s ← ofOpt (sprint h v) "fmt.Sprint outside domain"
      emit (pugHtmlEscape s)
  else
    match v with
    | .invalid => domainErr "printValue of an invalid value prints ERR…"
    | v => do
      let s ← ofOpt (sprint h v) "fmt.Sprint outside domain"
      emit s

/-- is the while-loop counter over the cap? (operator and bound generated from walkRange) -/
def overCap (i : Nat) : Bool :=
  if Gen.whileCapCmp == ">" then i > Gen.whileCap
  else if Gen.whileCapCmp == ">=" then i ≥ Gen.whileCap
  else false

/-- what `range` iterates over -/
inductive RangeKind where
  | items (l : List (Val × Val))    -- (index/key, element) pairs, in order
  | whileTrue
  | nothing
  deriving Inhabited

def rangeKind (v : Val) : M RangeKind := do
  let h ← getHeap
  match v with
  | .arr a => pure (.items ((h.getArr a).zipIdx.map fun (x, i) => (Val.int i, x)))
  | .map a =>
    let m := h.getMap a
    if m.order.length > 0 then
      -- `for _, index := range obj.order { if obj.HasMember(index) { … obj.Member(index) } }`
      pure (.items (m.order.filterMap fun k =>
        match assocGet m.items k with
        | some _ => some (Val.str k, mapMember m k)
        | none => none))
    else
      pure (.items ((sortKeys (m.items.map (·.1))).filterMap fun k =>
        (assocGet m.items k).map fun x => (Val.str k, x)))
  | .nil | .invalid => pure .nothing
  | .B b | .bool b => pure (if b then .whileTrue else .nothing)
  | .attrs l => if l.isEmpty then pure .nothing else domainErr "range over attribute list"
  | .bblock _ => execErr "range can't iterate over"
  | _ => execErr "range can't iterate over"

/-- the `reflect.Bool` case of walkRange, for an arbitrary body and test:
    `for val.Bool() { oneIteration; val = evalPipeline; i++; if i > cap { errorf } }` — entered with val = true.
    `i` counts completed iterations. -/
def loopM (body : M Unit) (test : M Val) : Nat → Nat → M Unit
  | 0, _ => throwE .fuel
  | fuel + 1, i => do
    body
    let v ← test
    if overCap (i + 1) then execErr s!"max iteration of {Gen.whileCap} in while loop"
    else
      match v with
      | .B true | .bool true => loopM body test fuel (i + 1)
      | .B false | .bool false => pure ()
      | _ => throwE (.panic "reflect: call of reflect.Value.Bool on non-bool Value")

structure Env where
  defs : List (String × List TNode)

mutual
def walk : Nat → Env → TNode → M Unit
  | 0, _, _ => throwE .fuel
  | fuel + 1, env, n =>
    match n with
    | .text s => emit s
    | .print e esc => do
      let v ← evalExpr fuel e
      printVal v esc
    | .assign x e => do
      let v ← evalExpr fuel e
      setVar ("$" ++ x) v
    | .ite c thn els => do
      let v ← evalExpr fuel c
      let h ← getHeap
      if truth h v then walkList fuel env thn else walkList fuel env els
    | .range decl e body => do
      -- `for _, v := range r.Pipe.Decl { s.push(v.Ident[0], zero) }`
      modify fun s => { s with vars := s.vars ++ decl.map (fun d => ("$" ++ d, Val.invalid)) }
      let v ← evalExpr fuel e
      -- evalPipeline assigns the pipeline value to every declared variable
      modify fun s => { s with vars := decl.foldl (fun vs d => setVarIn vs ("$" ++ d) v) s.vars }
      match ← rangeKind v with
      | .nothing => pure ()
      | .items l => walkItems fuel env decl body l
      | .whileTrue => loopM (walkList fuel env body) (evalExpr fuel e) fuel 0
    | .template tname arg => do
      let st ← get
      -- resolve the name: a literal, or the content of a variable (a bound block, or its text)
      let (name, bound) : String × Option (List (String × Val) × Nat) := match tname with
        | .lit n => (n, none)
        | .var x =>
          match lookupVar st.vars ("$" ++ x) with
          | .bblock id =>
            match st.closures[id]? with
            | some (n, vars, d) => (n, some (vars, d))
            | none => ("", none)
          | .S s | .str s => (s, none)
          | _ => ("{}", none)
      match env.defs.find? (·.1 == name) with
      | none => pure ()                       -- `tmpl == nil`: nothing, silently
      | some (_, body) =>
        if st.depth ≥ Gen.maxExecDepth then execErr "exceeded maximum template depth" else do
        let dotV ← match arg with
          | some a => evalExpr fuel a
          | none => pure .invalid
        let st ← get
        -- the callee runs in a copy of the state: its variables are the globals, or the bound scope's variables
        let (vars, d) := match bound with
          | some (vs, d) => (vs, d)
          | none => (st.globals, st.depth)
        set { st with vars := vars, depth := d + 1, dot := dotV }
        walkList fuel env body
        -- back in the caller: its own variables and dot; heap, output and the closure table persist
        modify fun s' => { s' with vars := st.vars, depth := st.depth, dot := st.dot }

def walkList : Nat → Env → List TNode → M Unit
  | 0, _, _ => throwE .fuel
  | _ + 1, _, [] => pure ()
  | fuel + 1, env, n :: ns => do
    walk fuel env n
    walkList fuel env ns

/-- oneIteration for each (index, element) -/
def walkItems : Nat → Env → List String → List TNode → List (Val × Val) → M Unit
  | 0, _, _, _, _ => throwE .fuel
  | _ + 1, _, _, _, [] => pure ()
  | fuel + 1, env, decl, body, (i, x) :: rest => do
    match decl with
    | [k, v] => do setVar ("$" ++ k) i; setVar ("$" ++ v) x
    | [v] => setVar ("$" ++ v) x
    | _ => pure ()
    walkList fuel env body
    walkItems fuel env decl body rest

end

end Pug.Tpl
