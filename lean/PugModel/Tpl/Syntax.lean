import PugModel.Tpl.Val
/-
The forked text/template dialect as the model sees it: operands, actions, and the flat fragment list that the
compiler emits (text and actions with trim markers) before the template parser nests it.
-/
namespace Pug.Tpl

/-- an operand of a command: `$x`, a literal, `(name args…)`, or a field/method access `recv.name args…` -/
inductive TExpr where
  | var (x : String)                                          -- `$x`
  | dot                                                       -- `.`
  | lit (v : Val)                                             -- raw int / float64 / string / bool literal
  | fcall (name : String) (args : List TExpr)                 -- `(name a b …)`, also a bare identifier (`null`, `Math`)
  | field (recv : TExpr) (name : String) (args : List TExpr)  -- `recv.name a b …` (member, or method call)
  deriving Repr, Inhabited

/-- name of the template to invoke: a literal or the content of a variable -/
inductive TName where
  | lit (s : String)
  | var (x : String)
  deriving Repr, Inhabited

inductive Act where
  | print (e : TExpr) (esc : Bool)          -- `{{e}}` / `{{e | __pug__html}}`
  | assign (x : String) (e : TExpr)         -- `{{ $x := e }}`  (set-or-push)
  | ifStart (e : TExpr)
  | elseIf (e : TExpr)                      -- `{{else if e}}`
  | else_
  | end_
  | range (decl : List String) (e : TExpr)  -- `{{ range $k, $v := e }}` ; decl = [] for `while`
  | template (name : TName) (arg : Option TExpr)
  | define (name : String)
  deriving Repr, Inhabited

inductive Frag where
  | text (s : String)
  | act (ltrim rtrim : Bool) (a : Act)
  | blockDef (mixin : String) (body : List Frag)   -- a mixin call's block, hoisted into its own `define` by the transpiler
  deriving Repr, Inhabited

/-- nested template tree (what parse.Parse builds) -/
inductive TNode where
  | text (s : String)
  | print (e : TExpr) (esc : Bool)
  | assign (x : String) (e : TExpr)
  | ite (c : TExpr) (thn els : List TNode)
  | range (decl : List String) (e : TExpr) (body : List TNode)
  | template (name : TName) (arg : Option TExpr)
  deriving Repr, Inhabited

end Pug.Tpl
