import PugModel.Tpl.Val
import PugModel.Data.Json
import PugModel.Fn.Math
import PugModel.Gen.Tables
/-
Model of the runtime helpers (pugjs/runtime.go funcmap, tpl_funcs.go builtins) and of the object model's
methods (types.go) on `Val`. Errors are explicit: `exec` = s.errorf (ExecError panic), `panic` = any other Go panic,
`domain` = the model declines (behaviour exists in Go but is outside what is modelled; never counted as agreement).
-/
namespace Pug.Tpl
open Pug Pug.Data

inductive Err where
  | exec (msg : String)
  | panic (msg : String)
  | domain (msg : String)
  | fuel
  deriving Repr, Inhabited

/-- reflect.Kind classes the helpers switch on -/
inductive Kind where
  | invalid | int | float | string | bool | nilT | ptr | other
  deriving Repr, DecidableEq

def Val.kind : Val → Kind
  | .invalid => .invalid
  | .int _ => .int
  | .flt _ => .float
  | .N _ => .float
  | .str _ => .string
  | .S _ => .string
  | .bool _ => .bool
  | .B _ => .bool
  | .nil => .nilT
  | .arr _ => .ptr
  | .map _ => .ptr
  | .host _ => .ptr
  | .attrs _ => .other
  | .bblock _ => .ptr

def Val.isObject : Val → Bool
  | .nil | .B _ | .N _ | .S _ | .arr _ | .map _ | .host _ | .bblock _ => true
  | _ => false

def Val.isInvalid : Val → Bool
  | .invalid => true
  | _ => false

/-- `convert(x)` for values that are not heap-allocated by the conversion (raw literal → object) -/
def convertRaw : Val → Val
  | .invalid => .nil
  | .int i => .N i
  | .flt q => .N q
  | .str s => .S s
  | .bool b => .B b
  | v => v

/-- numeric content of a value of Kind int/float -/
def Val.num? : Val → Option Rat
  | .int i => some i
  | .flt q => some q
  | .N q => some q
  | _ => none

def Val.string? : Val → Option String
  | .str s => some s
  | .S s => some s
  | _ => none

/-- raw float64 printed by fmt `%v`: plain decimal on the modelled domain -/
def fmtFloatV (q : Rat) : Option String :=
  let a : Rat := if q < 0 then -q else q
  if q.num == 0 then some "0"
  else if a < (1 : Rat) / 10000 || a ≥ ((10 ^ 21 : Nat) : Rat) then none
  else decimalString q

/-- `.String()` of `convert(v)`; `none` = outside the domain (cycle, non-terminating decimal inside JSON) -/
def objStr (h : Heap) : Nat → Val → Option String
  | 0, _ => none
  | fuel + 1, v =>
    match v with
    | .invalid | .nil => some ""
    | .int i => some (fmtG10 i)
    | .flt q => some (fmtG10 q)
    | .N q => some (fmtG10 q)
    | .str s | .S s => some s
    | .bool b | .B b => some (if b then "true" else "false")
    | .arr a => ((h.getArr a).mapM (objStr h fuel)).map (" ".intercalate ·)
    | .map _ => marshal h (fuel + 1) v
    | .host _ => some "{}"
    | .attrs _ => none
    | .bblock _ => none

def strFuel (h : Heap) : Nat := h.arrs.length + h.maps.length + 8

/-- `fmt.Sprint(v)` for one value as printValue / evalArgs do it -/
def sprint (h : Heap) (v : Val) : Option String :=
  match v with
  | .int i => some (toString i)
  | .flt q => fmtFloatV q
  | .str s => some s
  | .bool b => some (if b then "true" else "false")
  | .invalid => none
  | v => objStr h (strFuel h) v

/-- `True()` of the object types / isTrue by kind (tpl_funcs.go truth, tpl_exec.go isTrue) -/
def truth (h : Heap) : Val → Bool
  | .invalid => false
  | .nil => false
  | .B b | .bool b => b
  | .N q | .flt q => q.num != 0
  | .int i => i != 0
  | .S s | .str s => s.length > 0
  | .arr a => (h.getArr a).length > 0
  | .map a => (h.getMap a).items.length > 0
  | .host _ => true
  | .attrs l => l.length > 0
  | .bblock _ => true

/-- Go string comparison is bytewise; equal to code point order on valid UTF-8 -/
def strLt (a b : String) : Bool := a < b

/-- `%d` / `%f` renderings used by runtimeEql/runtimeLss for mixed comparisons -/
def fmtD (q : Rat) : String := toString q.floor
def fmtF6 (q : Rat) : String :=
  -- %f: six fractional digits, round-half-even on the exact value
  let neg := q < 0
  let a : Rat := if neg then -q else q
  let scaled := roundHalfEven (a.num.natAbs * 1000000) a.den
  let s := (Nat.repr scaled).toList
  let s := if s.length ≤ 6 then List.replicate (7 - s.length) '0' ++ s else s
  String.ofList ((if neg then ['-'] else []) ++ s.take (s.length - 6) ++ ['.'] ++ s.drop (s.length - 6))

/-- runtimeEql on two raw arguments -/
def runtimeEql (h : Heap) (x y : Val) : Option Bool :=
  let xnil := x matches .nil
  let ynil := y matches .nil
  if xnil && ynil then some true else
  let x := if xnil then Val.int 0 else x
  let y := if ynil then Val.int 0 else y
  let fallback : Option Bool :=
    if x.isObject && y.isObject then
      match objStr h (strFuel h) x, objStr h (strFuel h) y with
      | some a, some b => some (a == b)
      | _, _ => none
    else some false
  match x.kind, y.kind with
  | .int, .int | .int, .float | .float, .int | .float, .float =>
    match x.num?, y.num? with | some a, some b => some (a == b) | _, _ => none
  | .int, .string => match x.num?, y.string? with | some a, some b => some (fmtD a == b) | _, _ => none
  | .float, .string => match x.num?, y.string? with | some a, some b => some (fmtF6 a == b) | _, _ => none
  | .string, .int => match x.string?, y.num? with | some a, some b => some (a == fmtD b) | _, _ => none
  | .string, .float => match x.string?, y.num? with | some a, some b => some (a == fmtF6 b) | _, _ => none
  | .string, .string => match x.string?, y.string? with | some a, some b => some (a == b) | _, _ => none
  | .bool, .int =>
    match x, y.num? with
    | .B b, some n | .bool b, some n => some (b && n != 0)
    | _, _ => none
  | .bool, .bool =>
    match x, y with
    | .B a, .B b | .B a, .bool b | .bool a, .B b | .bool a, .bool b => some (a == b)
    | _, _ => none
  | _, _ => fallback

def runtimeLss (x y : Val) : Option Bool :=
  let xnil := x matches .nil
  let ynil := y matches .nil
  if xnil && ynil then some false else
  let x := if xnil then Val.int 0 else x
  let y := if ynil then Val.int 0 else y
  match x.kind, y.kind with
  | .int, .int | .int, .float | .float, .int | .float, .float =>
    match x.num?, y.num? with | some a, some b => some (a < b) | _, _ => none
  | .int, .string => match x.num?, y.string? with | some a, some b => some (strLt (fmtD a) b) | _, _ => none
  | .float, .string => match x.num?, y.string? with | some a, some b => some (strLt (fmtF6 a) b) | _, _ => none
  | .string, .int => match x.string?, y.num? with | some a, some b => some (strLt a (fmtD b)) | _, _ => none
  | .string, .float => match x.string?, y.num? with | some a, some b => some (strLt a (fmtF6 b)) | _, _ => none
  | .string, .string => match x.string?, y.string? with | some a, some b => some (strLt a b) | _, _ => none
  | _, _ => some false

/-- Go `strconv.ParseFloat` on the decimal subset; anything else → error → 0 (as runtimeAdd ignores the error) -/
def parseFloatOr0 (s : String) : Rat :=
  match parseDec s with
  | some q => q
  | none => 0

/-- runtimeAdd: `+` after `convert` of both sides -/
def runtimeAdd (h : Heap) (l r : Val) : Option Val :=
  let x := convertRaw l
  let y := convertRaw r
  match x with
  | .S a => (objStr h (strFuel h) y).map fun b => .S (a ++ b)
  | .N a =>
    match y with
    | .N b => some (.N (a + b))
    | .S s => some (.N (a + parseFloatOr0 s))
    | _ => some .nil
  | _ =>
    match objStr h (strFuel h) x, objStr h (strFuel h) y with
    | some a, some b => some (.S (a ++ b))
    | _, _ => none

/-- the kind class runtime.go's switches put a numeric value in -/
def kindName (v : Val) : String :=
  match v.kind with
  | .int => "int"
  | .float => "float"
  | _ => "other"

/-- does the Go function `fn` have a case for this pair of kinds, returning `X op Y`? Read from the matrix that the extractor
    regenerates from runtime.go on every run: a pair the source does not handle falls through to the string "<nil>", in the
    model exactly as in the code. -/
def hasCase (fn op : String) (x y : Val) : Bool :=
  Gen.arithMatrix.contains (fn, kindName x, kindName y, "X " ++ op ++ " Y")

/-- arithmetic helper results before `convert`: a number, or the literal string "<nil>" -/
def arith (fn op : String) (f : Rat → Rat → Option Rat) (x y : Val) : Option Val :=
  if hasCase fn op x y then
    match x.num?, y.num? with
    | some a, some b => (f a b).map Val.N
    | _, _ => none
  else some (.S "<nil>")

def runtimeSub (x y : Val) : Option Val := arith "runtimeSub" "-" (fun a b => some (a - b)) x y
def runtimeMul (x y : Val) : Option Val := arith "runtimeMul" "*" (fun a b => some (a * b)) x y
/-- division by zero yields ±Inf/NaN in Go: outside the model -/
def runtimeQuo (x y : Val) : Option Val := arith "runtimeQuo" "/" (fun a b => if b == 0 then none else some (a / b)) x y

/-- Go `%` on int64 after truncation: sign of the dividend -/
def goRem (a b : Int) : Int := a.tmod b

def runtimeRem (x y : Val) : Option Val :=
  arith "runtimeRem" "%" (fun a b =>
    let bi := Fn.ratTrunc b
    if bi == 0 then none else some ((goRem (Fn.ratTrunc a) bi : Int) : Rat)) x y

def runtimeInc (x : Val) : Val :=
  match x.num? with
  | some a => .N (Fn.ratTrunc (a + 1))
  | none => .N 0

end Pug.Tpl
