/-
Model of the asset handler (module.go): CORS test, prefix stripping, path.Clean, http.Dir join, regular-file test, and the two
canonical redirects of net/http's FileServer that can precede a 200.
-/
namespace Pug.Sys

/-- path.Clean of a ROOTED path, on segments: "" and "." vanish, ".." removes the last kept segment (stays at the root) -/
def normSegs : List String → List String → List String
  | [], acc => acc.reverse
  | s :: rest, acc =>
    if s == "" || s == "." then normSegs rest acc
    else if s == ".." then normSegs rest acc.tail
    else normSegs rest (s :: acc)

def splitSlash (s : String) : List String := (s.splitOn "/")

/-- `path.Clean("/" ++ s)` -/
def goCleanRooted (s : String) : String :=
  "/" ++ "/".intercalate (normSegs (splitSlash s) [])

/-- strings.Replace(s, old, "", 1) -/
def removeFirst (s old : String) : String :=
  match s.splitOn old with
  | [] => s
  | [_] => s
  | a :: b :: rest => a ++ old.intercalate (b :: rest)

/-- FileServer: `if !strings.HasPrefix(upath, "/") { upath = "/" + upath }` -/
def rooted (upath : String) : String := if upath.startsWith "/" then upath else "/" ++ upath

/-- relative name (segments below frontend/dist) that `assetFileSystem.Open` hands to `http.Dir.Open` for a request path -/
def openedSegs (upath : String) : List String :=
  let up := rooted upath
  let name := goCleanRooted (up.drop 1).toString     -- FileServer: path.Clean(upath)
  let stripped := removeFirst name "/assets/"        -- assetFileSystem.Open
  normSegs (splitSlash stripped) []                  -- http.Dir.Open: path.Clean("/" + name)

inductive Served where
  | file (rel : String)       -- 200 with the bytes of this regular file below dist
  | redirect
  | refused                   -- 404 / 500 / …: no file content
  deriving Repr, DecidableEq

/-- decision of the handler for a (decoded) URL path over a tree of regular files and directories below dist -/
def serve (files _dirs : List String) (upath : String) : Served :=
  if (rooted upath).endsWith "/index.html" then .redirect
  else if files.contains ("/".intercalate (openedSegs upath)) then
    if (rooted upath).endsWith "/" then .redirect else .file ("/".intercalate (openedSegs upath))
  else .refused

/-- the CORS test, in the shape read from the source: "exact" (membership) or "substring" (on the `!`-joined list) -/
def corsAllowed (shape : String) (whitelist : List String) (origin : String) : Bool :=
  if shape == "exact" then origin != "" && (whitelist.contains origin || whitelist.contains "*")
  else if shape == "substring" then
    let joined := "!" ++ "!".intercalate whitelist ++ "!"
    ((joined.splitOn ("!" ++ origin ++ "!")).length > 1) || ((joined.splitOn "!*!").length > 1)
  else false

end Pug.Sys
