/-
Model of template loading (pugjs/engine.go): compileDir's naming, LoadTemplates (lock, compare-and-swap on the loaded flag,
full or filtered load, reset on failure) and the loading part of Render, in production and debug mode.

Files are (name, content) with `none` = a broken file (not valid JSON). A template "compiles" to its content, so stale
versus fresh is observable.
-/
namespace Pug.Sys

abbrev Files := List (String × Option String)

structure LState where
  debug : Bool
  files : Files
  loaded : Bool                         -- Engine.templatesLoaded
  templates : Option (List (String × String))   -- Engine.templates (none = nil map)
  deriving Repr

inductive LRes where
  | ok (content : String)
  | notFound
  | error
  | done
  deriving Repr, DecidableEq

/-- strings.HasPrefix (bytewise in Go; on code points here, the same for valid UTF-8) -/
def hasPrefix (name filter : String) : Bool := filter.toList.isPrefixOf name.toList

def selected (filter : String) (name : String) : Bool := filter == "" || hasPrefix name filter

/-- the (name, content) pairs of the unbroken files -/
def pairsOf (files : Files) : List (String × String) := files.filterMap fun f => f.2.map fun c => (f.1, c)

/-- compileDir restricted to the files below `filter`: error if one of them is broken -/
def compile (files : Files) (filter : String) : Option (List (String × String)) :=
  let sel := files.filter (fun f => selected filter f.1)
  if sel.all (·.2.isSome) then some (pairsOf sel) else none

def lookupT (t : Option (List (String × String))) (name : String) : LRes :=
  match t with
  | none => .notFound
  | some l => match l.find? (·.1 == name) with
    | some (_, c) => .ok c
    | none => .notFound

/-- LoadTemplates(filter): returns (succeeded, new state) -/
def loadTemplates (s : LState) (filter : String) : Bool × LState :=
  if s.loaded && filter == "" then (false, s)                       -- "Can not preload all templates again"
  else
    match compile s.files filter with
    | none => (false, { s with loaded := false })                   -- bail out: the flag is reset, the old set stays
    | some ts =>
      let merged := match s.templates with
        | some old =>
          if filter == "" then ts
          else (old.filter (fun t => !hasPrefix t.1 filter)) ++ ts   -- refresh the entries below the filter only
        | none => ts
      (true, { s with loaded := true, templates := some merged })

/-- the loading part of Render followed by the lookup -/
def render (s : LState) (name : String) : LRes × LState :=
  if s.debug then
    let (ok, s') := loadTemplates s name
    if ok then (lookupT s'.templates name, s') else (.error, s')
  else if !s.loaded then
    let (ok, s') := loadTemplates s ""
    -- the error is ignored when the set is in fact loaded (another first render won)
    if ok || s'.loaded then (lookupT s'.templates name, s') else (.error, s')
  else (lookupT s.templates name, s)

inductive LOp where
  | load (filter : String)
  | render (name : String)
  | write (name : String) (content : String)
  | break_ (name : String)
  | remove (name : String)
  deriving Repr

def setFile (files : Files) (name : String) (c : Option String) : Files :=
  if files.any (·.1 == name) then files.map (fun f => if f.1 == name then (name, c) else f) else files ++ [(name, c)]

def lstep (s : LState) : LOp → LRes × LState
  | .load f => let (ok, s') := loadTemplates s f; ((if ok then .done else .error), s')
  | .render n => render s n
  | .write n c => (.done, { s with files := setFile s.files n (some c) })
  | .break_ n => (.done, { s with files := setFile s.files n none })
  | .remove n => (.done, { s with files := s.files.filter (·.1 != n) })

def lrun (s : LState) : List LOp → List LRes
  | [] => []
  | op :: rest => let (r, s') := lstep s op; r :: lrun s' rest

end Pug.Sys

namespace Pug.Sys

/-! ## concurrent renders: interleaving at the granularity of the lock -/

inductive PC where
  | start                 -- before the (unlocked) read of the loaded flag
  | wantLoad              -- decided to call LoadTemplates; waiting for / about to take the write lock
  | lookup                -- after loading (or skipping it); about to look the template up under the read lock
  | done (r : LRes)
  deriving Repr, DecidableEq

structure CState where
  base : LState
  threads : List (String × PC)      -- (template name, program counter)
  deriving Repr

/-- one atomic step of thread i; `none` = thread i is finished or does not exist -/
def cstep (s : CState) (i : Nat) : Option CState :=
  match s.threads[i]? with
  | none => none
  | some (name, pc) =>
    let upd (b : LState) (pc' : PC) : CState := { base := b, threads := s.threads.set i (name, pc') }
    match pc with
    | .start =>
      if s.base.debug then some (upd s.base .wantLoad)
      else if s.base.loaded then some (upd s.base .lookup)
      else some (upd s.base .wantLoad)
    | .wantLoad =>
      let (ok, b') := loadTemplates s.base (if s.base.debug then name else "")
      if s.base.debug then
        some (upd b' (if ok then .lookup else .done .error))
      else
        some (upd b' (if ok || b'.loaded then .lookup else .done .error))
    | .lookup => some (upd s.base (.done (lookupT s.base.templates name)))
    | .done _ => none

def crun (s : CState) : List Nat → CState
  | [] => s
  | i :: rest => match cstep s i with
    | some s' => crun s' rest
    | none => crun s rest          -- a finished thread is skipped

/-- cold engine with the given first renders -/
def CState.cold (debug : Bool) (files : Files) (names : List String) : CState :=
  { base := { debug := debug, files := files, loaded := false, templates := none },
    threads := names.map (fun n => (n, PC.start)) }

end Pug.Sys
