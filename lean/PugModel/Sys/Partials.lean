/-
Model of Engine.RenderPartials (pugjs/engine.go): a loop over the requested names that delegates to
`Render` under the naming rule `T ++ infix ++ p`; the first failing render aborts with no content.
`render` is abstract: the property is relative to what `Render` does for a single name.
-/
namespace Pug.Sys

/-- outcome of one `Render` call: content or an error (message) -/
abbrev RenderRes := Except String String

/-- `res[partial] = buf` into a Go map (association list with unique keys): overwrite or add -/
def mapSet : List (String × String) → String → String → List (String × String)
  | [], k, v => [(k, v)]
  | (k', v') :: rest, k, v => if k' = k then (k, v) :: rest else (k', v') :: mapSet rest k v

def renderPartialsLoop (render : String → RenderRes) (infx tpl : String) :
    List String → List (String × String) → Except String (List (String × String))
  | [], acc => .ok acc
  | p :: ps, acc =>
    match render (tpl ++ infx ++ p) with
    | .error e => .error e
    | .ok out => renderPartialsLoop render infx tpl ps (mapSet acc p out)

def renderPartials (render : String → RenderRes) (infx tpl : String) (ps : List String) :
    Except String (List (String × String)) :=
  renderPartialsLoop render infx tpl ps []

end Pug.Sys
