/-
Model of the render rate limit (pugjs/engine.go Render): a buffered channel of capacity N used as a counting gate.

  if cap(e.ratelimit) > 0 {
      select { case <-ctx.Done(): return error        -- cancelled while waiting: no slot taken
               case e.ratelimit <- struct{}{}: }      -- admitted: one more slot occupied
      defer func() { <-e.ratelimit }()                -- released on EVERY way out (return, error, panic)
  }

State: the threads waiting at the select, the threads past the gate (with whether they hold a slot), the channel
occupancy `slots`, and what finished threads got. Events are the atomic steps of the Go code; wake-up order is Go's choice,
so `grant` may pick any waiter.
-/
namespace Pug.Sys

inductive ExitKind where
  | success | notFound | funcError | panic
  deriving Repr, DecidableEq

inductive Outcome where
  | exited (k : ExitKind)
  | cancelled                 -- "template … wait failed": error, promptly, no slot
  deriving Repr, DecidableEq

inductive GEv where
  | arrive (t : Nat)          -- Render is called
  | grant (t : Nat)           -- the send on the channel succeeds
  | cancel (t : Nat)          -- ctx.Done() wins the select
  | exit (t : Nat) (k : ExitKind)   -- Render leaves (deferred receive runs if a slot is held)
  deriving Repr, DecidableEq

structure GState where
  cap : Nat
  waiting : List Nat
  inside : List (Nat × Bool)            -- (thread, holds a slot)
  slots : Nat                           -- len(e.ratelimit)
  finished : List (Nat × Outcome)
  deriving Repr

def GState.init (cap : Nat) : GState := { cap := cap, waiting := [], inside := [], slots := 0, finished := [] }

def GState.known (s : GState) (t : Nat) : Bool :=
  s.waiting.contains t || s.inside.any (·.1 == t) || s.finished.any (·.1 == t)

/-- one atomic step; `none` = the event is not enabled in this state -/
def gstep (s : GState) : GEv → Option GState
  | .arrive t =>
    if s.known t then none
    else if s.cap = 0 then some { s with inside := s.inside ++ [(t, false)] }     -- `cap(e.ratelimit) > 0` is false: no gate
    else some { s with waiting := s.waiting ++ [t] }
  | .grant t =>
    if s.waiting.contains t && s.slots < s.cap then
      some { s with waiting := s.waiting.erase t, inside := s.inside ++ [(t, true)], slots := s.slots + 1 }
    else none
  | .cancel t =>
    if s.waiting.contains t then
      some { s with waiting := s.waiting.erase t, finished := s.finished ++ [(t, .cancelled)] }
    else none
  | .exit t k =>
    match s.inside.find? (·.1 == t) with
    | some (_, holds) =>
      some { s with inside := s.inside.filter (·.1 != t),
                    slots := if holds then s.slots - 1 else s.slots,     -- the deferred `<-e.ratelimit`
                    finished := s.finished ++ [(t, .exited k)] }
    | none => none

def grun (s : GState) : List GEv → Option GState
  | [] => some s
  | e :: es => match gstep s e with
    | some s' => grun s' es
    | none => none

/-- number of threads past the gate that hold a slot -/
def GState.holders (s : GState) : Nat := (s.inside.filter (·.2)).length

/-- no admission is possible: nobody waits, or the channel is full -/
def GState.quiescent (s : GState) : Bool := s.waiting.isEmpty || s.slots ≥ s.cap

end Pug.Sys
