/-
Model of pugjs/startup.go + controllers/ready.go: background processes in an errgroup, `Finish` spawning a waiter that
forwards the first error (blocking until the listener takes it), then closes `done`; the readiness probe is a non-blocking
receive on `done`.

  go func() { err := s.eg.Wait(); if err != nil { errChan <- err }; close(s.done); close(errChan) }()
-/
namespace Pug.Sys

inductive PStat where
  | running | ok | failed
  deriving Repr, DecidableEq

inductive WPhase where
  | notStarted      -- Finish not called
  | waiting         -- in eg.Wait()
  | sending         -- blocked in `errChan <- err`
  | closed          -- close(s.done) done
  deriving Repr, DecidableEq

inductive SEv where
  | add (p : Nat)                   -- AddProcess
  | complete (p : Nat) (fail : Bool) -- a process returns (nil or an error)
  | finish                          -- Finish()
  | waiterWake                      -- eg.Wait() returns
  | listenerRecv                    -- the listener's `<-errs`
  deriving Repr, DecidableEq

structure SState where
  procs : List (Nat × PStat)
  firstErr : Option Nat             -- the process whose error errgroup keeps (the first failure)
  waiter : WPhase
  listenerGot : Option (Option Nat) -- none = nothing received yet; some none = nil (channel closed); some (some p) = p's error
  deriving Repr

def SState.init : SState := { procs := [], firstErr := none, waiter := .notStarted, listenerGot := none }

def SState.allEnded (s : SState) : Bool := s.procs.all (fun p => p.2 != .running)

def SState.finishCalled (s : SState) : Bool := s.waiter != .notStarted

/-- the probe: IsFinished() — 200 iff `done` is closed -/
def SState.probe (s : SState) : Nat := if s.waiter == .closed then 200 else 425

def sstep (s : SState) : SEv → Option SState
  | .add p =>
    if s.finishCalled || s.procs.any (·.1 == p) then none      -- "must only be called after all AddProcess have been made"
    else some { s with procs := s.procs ++ [(p, .running)] }
  | .complete p fail =>
    if s.procs.any (fun q => q.1 == p && q.2 == .running) then
      some { s with procs := s.procs.map (fun q => if q.1 == p then (p, if fail then .failed else .ok) else q),
                    firstErr := if fail && s.firstErr.isNone then some p else s.firstErr }
    else none
  | .finish => if s.waiter == .notStarted then some { s with waiter := .waiting } else none
  | .waiterWake =>
    if s.waiter == .waiting && s.allEnded then
      some { s with waiter := if s.firstErr.isSome then .sending else .closed }
    else none
  | .listenerRecv =>
    if s.listenerGot.isSome then none                          -- the module's listener receives exactly once
    else if s.waiter == .sending then some { s with listenerGot := some s.firstErr, waiter := .closed }
    else if s.waiter == .closed then some { s with listenerGot := some none }   -- closed channel yields nil
    else none

def srun (s : SState) : List SEv → Option SState
  | [] => some s
  | e :: es => match sstep s e with
    | some s' => srun s' es
    | none => none

end Pug.Sys
