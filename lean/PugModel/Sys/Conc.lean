/-!
# Concurrent renders on one loaded engine (C08)

A render thread owns its execution state (the Go `state` struct, its writer and its variable stack are allocated per
call); the loaded template set and the function table are shared and, once loaded, only READ by renders. The model keeps
exactly that split: a thread step maps (shared environment, private state) to a new private state. The extracted facts
`Gen.renderPathWrites`, `Gen.renderLookupLocked`, `Gen.findFunctionLocked`, `Gen.execStateFresh` are what ties this split to
the Go source (Props/C08.lean); what happens below Go statements (memory model) is outside the model.
-/
namespace Pug.Sys.Conc

/-- one scheduler step: thread `i` advances, nobody else moves; an out-of-range id is a no-op -/
def stepAt {E σ : Type} (step : E → σ → σ) (env : E) (cfg : List σ) (i : Nat) : List σ :=
  cfg.modify i (step env)

/-- run a whole schedule (a list of thread ids, any length, any order, any repetition) -/
def run {E σ : Type} (step : E → σ → σ) (env : E) (sched : List Nat) (cfg : List σ) : List σ :=
  sched.foldl (stepAt step env) cfg

/-- `n` steps of one thread on its own -/
def iter {σ : Type} (f : σ → σ) : Nat → σ → σ
  | 0, s => s
  | n + 1, s => iter f n (f s)

/-! ## the render thread -/

inductive Res (R : Type) where
  | notFound
  | out (r : R)
  deriving Repr, DecidableEq, BEq

/-- program counter of one Engine.Render call after loading: lookup under the read lock, then execute on private state -/
inductive PC (T R : Type) where
  | start
  | looked (t : Option T)
  | done (r : Res R)
  deriving Repr

structure Thread (T D R : Type) where
  name : String
  data : D
  pc : PC T R

/-- the shared engine as renders see it -/
structure Engine (T D R : Type) where
  templates : List (String × T)
  exec : T → D → R

def renderStep {T D R : Type} (e : Engine T D R) (th : Thread T D R) : Thread T D R :=
  match th.pc with
  | .start => { th with pc := .looked (e.templates.lookup th.name) }
  | .looked none => { th with pc := .done .notFound }
  | .looked (some t) => { th with pc := .done (.out (e.exec t th.data)) }
  | .done _ => th

/-- the same call run alone -/
def renderAlone {T D R : Type} (e : Engine T D R) (name : String) (data : D) : Res R :=
  match e.templates.lookup name with
  | none => .notFound
  | some t => .out (e.exec t data)

def spawn {T D R : Type} (calls : List (String × D)) : List (Thread T D R) :=
  calls.map fun (n, d) => { name := n, data := d, pc := .start }

def result? {T D R : Type} (th : Thread T D R) : Option (Res R) :=
  match th.pc with
  | .done r => some r
  | _ => none

end Pug.Sys.Conc
