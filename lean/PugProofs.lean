import PugProofs.Props.C17
import PugProofs.Props.C18
import PugProofs.Props.C01
import PugProofs.Props.C02
import PugProofs.Props.C06
import PugProofs.Props.C13
import PugProofs.Props.C04
import PugProofs.Props.C05
