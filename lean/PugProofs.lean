import PugProofs.Props.C17
import PugProofs.Props.C18
