import PugModel.Driver.C18
import PugModel.Driver.C17
import PugModel.Driver.Render
import PugModel.Driver.C12
import PugModel.Driver.C11
import PugModel.Driver.C09
import PugModel.Driver.C16
import PugModel.Driver.C10
import PugModel.Driver.C19
import PugModel.Driver.C14
import PugModel.Driver.C08
import PugModel.Driver.C15
/-!
`pvd`: the model driver. One JSON case per line on stdin (the line the harness produced, with the
implementation's answer merged in under "impl" for the cases whose model is relative to measured
behaviour), one JSON answer per line on stdout: {"id", "model", "spec"}.
-/
open Lean Pug.Driver

def dispatch (c : Json) : Json × Json :=
  match jstr c "kind" with
  | "math" => runMath c
  | "partials" => runPartials c (jget c "impl")
  | "render" => runRender c
  | "pure" => if hasGoOrdered (jget c "data") then (clsOut "model-domain" "ordered Go map type in the data", .null) else runRender c
  | "json" => runJson c
  | "gopath" => runGoPath c
  | "gate" => runGateCase c
  | "startup" => runStartupCase c
  | "strip" => runStripCase c
  | "conc" => runConcCase c
  | "parse" => runParseCase c
  | "asset" => runAssetCase c
  | "clean" => runCleanCase c
  | "loadseq" => runLoadSeqCase c
  | "loadconc" => runLoadConcCase c
  | k => (clsOut "no-model" k, clsOut "no-model" k)

partial def loop (h : IO.FS.Stream) (out : IO.FS.Stream) : IO Unit := do
  let line ← h.getLine
  if line.isEmpty then return ()
  let t := line.trimAscii.toString
  if t.isEmpty then loop h out else
  match Json.parse t with
  | .error e => out.putStrLn (Json.compress (Json.mkObj [("id", "?"), ("error", e)]))
  | .ok c =>
    let (m, s) := dispatch c
    out.putStrLn (Json.compress (Json.mkObj [("id", jget c "id"), ("model", m), ("spec", s)]))
  loop h out

def main : IO Unit := do
  let stdin ← IO.getStdin
  let stdout ← IO.getStdout
  loop stdin stdout
