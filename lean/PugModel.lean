import PugModel.Basic.Num
import PugModel.Fn.Math
import PugModel.Sys.Partials
import PugModel.Gen.Tables
import PugModel.Driver.C17
import PugModel.Driver.C18
