module verifharness

go 1.22

require (
	flamingo.me/dingo v0.2.10
	flamingo.me/flamingo/v3 v3.10.1
	flamingo.me/pugtemplate v0.0.0
	golang.org/x/net v0.27.0
)

require (
	contrib.go.opencensus.io/exporter/jaeger v0.2.1 // indirect
	contrib.go.opencensus.io/exporter/prometheus v0.4.2 // indirect
	contrib.go.opencensus.io/exporter/zipkin v0.1.2 // indirect
	cuelang.org/go v0.0.15 // indirect
	github.com/beorn7/perks v1.0.1 // indirect
	github.com/cespare/xxhash/v2 v2.2.0 // indirect
	github.com/cockroachdb/apd/v2 v2.0.1 // indirect
	github.com/davecgh/go-spew v1.1.1 // indirect
	github.com/dgryski/go-rendezvous v0.0.0-20200823014737-9f7001d12a5f // indirect
	github.com/ghodss/yaml v1.0.0 // indirect
	github.com/go-kit/log v0.2.1 // indirect
	github.com/go-logfmt/logfmt v0.5.1 // indirect
	github.com/go-sourcemap/sourcemap v2.1.3+incompatible // indirect
	github.com/golang/groupcache v0.0.0-20210331224755-41bb18bfe9da // indirect
	github.com/golang/protobuf v1.5.3 // indirect
	github.com/gorilla/securecookie v1.1.2 // indirect
	github.com/gorilla/sessions v1.3.0 // indirect
	github.com/matttproud/golang_protobuf_extensions v1.0.1 // indirect
	github.com/mpvl/unique v0.0.0-20150818121801-cbe035fff7de // indirect
	github.com/openzipkin/zipkin-go v0.4.3 // indirect
	github.com/pkg/errors v0.9.1 // indirect
	github.com/pmezard/go-difflib v1.0.0 // indirect
	github.com/prometheus/client_golang v1.13.0 // indirect
	github.com/prometheus/client_model v0.2.0 // indirect
	github.com/prometheus/common v0.37.0 // indirect
	github.com/prometheus/procfs v0.8.0 // indirect
	github.com/prometheus/statsd_exporter v0.22.7 // indirect
	github.com/rbcervilla/redisstore/v9 v9.0.0 // indirect
	github.com/redis/go-redis/v9 v9.6.1 // indirect
	github.com/spf13/cobra v1.8.1 // indirect
	github.com/spf13/pflag v1.0.5 // indirect
	github.com/stretchr/objx v0.5.2 // indirect
	github.com/stretchr/testify v1.9.0 // indirect
	github.com/uber/jaeger-client-go v2.25.0+incompatible // indirect
	github.com/zemirco/memorystore v0.0.0-20160308183530-ecd57e5134f6 // indirect
	go.opencensus.io v0.24.0 // indirect
	golang.org/x/sync v0.8.0 // indirect
	golang.org/x/sys v0.22.0 // indirect
	golang.org/x/text v0.16.0 // indirect
	golang.org/x/xerrors v0.0.0-20231012003039-104605ab7028 // indirect
	google.golang.org/api v0.126.0 // indirect
	google.golang.org/protobuf v1.33.0 // indirect
	gopkg.in/yaml.v2 v2.4.0 // indirect
	gopkg.in/yaml.v3 v3.0.1 // indirect
)

replace flamingo.me/pugtemplate => /repo
