package main

import (
	"context"
	"reflect"
	"strings"

	"flamingo.me/flamingo/v3/framework/config"
	"flamingo.me/pugtemplate/templatefunctions"
	"golang.org/x/net/html"
)

// C14: stripTags.
// case: {kind:"strip", input:"<html bytes>", allow:["b","a(href title)",...]}
// impl: {out, dom:[...] (what html.ParseFragment returned, for the model), oracle:{tags:[[kind,name,[attr keys]]...], comments:n, doctypes:n}}

func init() {
	generators["C14"] = genC14
	runners["strip"] = runStrip
}

func dumpNode(n *html.Node) J {
	var kids []interface{}
	for c := n.FirstChild; c != nil; c = c.NextSibling {
		kids = append(kids, dumpNode(c))
	}
	if kids == nil {
		kids = []interface{}{}
	}
	switch n.Type {
	case html.TextNode:
		return J{"t": "text", "data": n.Data}
	case html.ElementNode:
		attrs := []interface{}{}
		for _, a := range n.Attr {
			attrs = append(attrs, []interface{}{a.Key, a.Val, a.Namespace})
		}
		return J{"t": "elem", "name": n.Data, "attrs": attrs, "kids": kids}
	case html.CommentNode:
		return J{"t": "comment", "data": n.Data, "kids": kids}
	case html.DoctypeNode:
		return J{"t": "doctype", "data": n.Data, "kids": kids}
	}
	return J{"t": "other", "kids": kids}
}

func runStrip(c Case) interface{} {
	in := str(c, "input")
	var allow config.Slice
	for _, a := range asList(c["allow"]) {
		allow = append(allow, a.(string))
	}
	f := templatefunctions.StriptagsFunc{}.Func(context.Background())
	var out string
	args := []reflect.Value{reflect.ValueOf(in)}
	if c["allow"] != nil {
		args = append(args, reflect.ValueOf(allow))
	}
	out = reflect.ValueOf(f).Call(args)[0].String()
	doc, err := html.ParseFragment(strings.NewReader(in), nil)
	dom := []interface{}{}
	if err == nil {
		for _, n := range doc {
			dom = append(dom, dumpNode(n))
		}
	}
	// independent reading of the output
	z := html.NewTokenizer(strings.NewReader(out))
	tags := []interface{}{}
	comments, doctypes := 0, 0
	for {
		tt := z.Next()
		if tt == html.ErrorToken {
			break
		}
		t := z.Token()
		switch tt {
		case html.StartTagToken, html.SelfClosingTagToken:
			keys := []interface{}{}
			for _, a := range t.Attr {
				keys = append(keys, a.Key)
			}
			tags = append(tags, []interface{}{"S", t.Data, keys})
		case html.EndTagToken:
			tags = append(tags, []interface{}{"E", t.Data, []interface{}{}})
		case html.CommentToken:
			comments++
		case html.DoctypeToken:
			doctypes++
		}
	}
	return J{"class": "ok", "out": out, "dom": dom, "oracle": J{"tags": tags, "comments": comments, "doctypes": doctypes}}
}

func genC14(r *Rng, n int, tier string, emit func(Case)) {
	els := []string{"b", "i", "a", "p", "div", "span", "script", "style", "svg", "math", "table", "td", "tr", "img", "br", "textarea", "title", "xmp", "noscript", "template",
		"select", "option", "iframe", "plaintext", "h1", "ul", "li", "B", "ScRiPt", "form", "input", "mglyph", "foreignObject", "desc", "annotation-xml"}
	attrs := []string{"href", "title", "onclick", "class", "style", "src", "alt", "x\"y", "data-x", "HREF", "id", "xlink:href", "onerror"}
	vals := []string{"x", "", "javascript:alert(1)", "\"><script>", "a'b", "&quot;", "&lt;b&gt;", "é", "a b", "\r\n", "<", ">"}
	texts := []string{"hello", "&lt;script&gt;alert(1)&lt;/script&gt;", "&#60;img src=x&#62;", "&amp;lt;b&amp;gt;", "a < b > c", "\"q\" 'q'", "\x00", "\xff\xfe", "é日", "]]>", "&", "&#x3c;", " ", "\r", "</", "<", "<<<", "&lt", "&#0;", "--!>"}
	allowPool := []string{"b", "i", "a(href title)", "p", "div(class)", "br", "img(src alt)", "span", "A(HREF)", "ul", "li", "h1(id)", "table", "td", "tr", "a", "em(", "x()", "input(value)", "hr",
		"svg", "a(href lang)", "image(href)", "mi(href space id)", "use(href class)", "math", "product-teaser(sku)", "path(d)", "a(href)"}
	maxd := 4
	if tier == "thorough" {
		maxd = 7
	}
	var gen func(rr *Rng, d int) string
	gen = func(rr *Rng, d int) string {
		var b strings.Builder
		for i := 0; i < rr.Range(1, 4); i++ {
			switch rr.Intn(12) {
			case 0, 1, 2:
				b.WriteString(texts[rr.Intn(len(texts))])
			case 3, 4, 5, 6, 7:
				e := els[rr.Intn(len(els))]
				b.WriteString("<" + e)
				for j := 0; j < rr.Intn(3); j++ {
					a := attrs[rr.Intn(len(attrs))]
					switch rr.Intn(4) {
					case 0:
						b.WriteString(" " + a)
					case 1:
						b.WriteString(" " + a + "='" + strings.ReplaceAll(vals[rr.Intn(len(vals))], "'", "") + "'")
					case 2:
						b.WriteString(" " + a + "=" + strings.ReplaceAll(vals[rr.Intn(len(vals))], " ", ""))
					default:
						b.WriteString(" " + a + "=\"" + strings.ReplaceAll(vals[rr.Intn(len(vals))], "\"", "&quot;") + "\"")
					}
				}
				if rr.Chance(1, 8) {
					b.WriteString("/")
				}
				b.WriteString(">")
				if d > 0 {
					b.WriteString(gen(rr, d-1))
				}
				if rr.Chance(3, 4) { // sometimes unclosed
					b.WriteString("</" + e + ">")
				}
			case 8:
				b.WriteString("<!-- " + texts[rr.Intn(len(texts))] + " -->")
			case 9:
				b.WriteString([]string{"<!DOCTYPE html>", "<![CDATA[ x<b>y ]]>", "<?xml version=\"1.0\"?>", "<!x>", "</ b>", "<//>", "<a<b>"}[rr.Intn(7)])
			case 10:
				b.WriteString("</" + els[rr.Intn(len(els))] + ">") // stray end tag
			default:
				// foreign content: the HTML parser splits xlink:* / xml:* / xmlns:* attributes into namespace + local name
				switch rr.Intn(4) {
				case 0:
					b.WriteString("<svg><desc><b>x</b></desc><style><!--</style><img src=x>--></style></svg>")
				case 1:
					b.WriteString("<svg><a xlink:href=\"" + vals[rr.Intn(len(vals))] + "\" xml:lang=\"en\" title=t>" + gen(rr, 0) + "</a><image xlink:href=\"/i.png\" href=\"/j.png\"></image></svg>")
				case 2:
					b.WriteString("<math><mi xlink:href=\"/m\" xml:space=\"preserve\" id=m1>x</mi><a xlink:href=\"/n\">y</a></math>")
				default:
					b.WriteString("<svg xmlns:xlink=\"http://www.w3.org/1999/xlink\"><use xlink:href=\"#s\" class=c></use><product-teaser sku=1 onclick=x>y</product-teaser><admin-panel sku=2>z</admin-panel></svg>")
				}
			}
		}
		return b.String()
	}
	for i := 0; i < n; i++ {
		rr := r.Fork()
		in := gen(rr, rr.Range(0, maxd))
		var allow interface{}
		switch rr.Intn(6) {
		case 0:
			allow = []interface{}{}
		case 1:
			allow = nil // no allow-list argument at all
		default:
			var l []interface{}
			for j := 0; j < rr.Range(1, 5); j++ {
				l = append(l, allowPool[rr.Intn(len(allowPool))])
			}
			allow = l
		}
		emit(Case{"kind": "strip", "input": in, "allow": allow, "model_needs_impl": true, "bucket": "strip", "ilen": len(in)})
	}
}
