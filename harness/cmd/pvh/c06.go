package main

import "strings"

// C06: static structure and literal text. Random tag trees (block-level / inline, void / non-void) with literal texts
// from a delimiter-heavy alphabet placed before / after / inside code, conditionals, loops, case branches.
//
// case: {kind:"render", oracle:"pug", doc:[...], data:{...}}

func init() {
	generators["C06"] = genC06
}

var c06tags = []string{"div", "p", "span", "ul", "li", "b", "section", "a", "em", "h1"}
var c06void = []string{"br", "hr", "img", "input", "meta", "link", "wbr"}

func braceText(r *Rng) string {
	// multi-byte runes include ones whose LAST byte is 0x85 / 0xA0 (à, х) and the non-ASCII spaces NEL, NBSP, LS: none of them is
	// white space for the template lexer's trim markers
	alpha := []string{"{", "}", "{", "}", "-", "\"", " ", "\n", "a", "b", "x", "{{", "}}", "`", "'", "<", "&", "%", "$", "\\", "é", "日", "\t",
		"à", "х", "\u0085", "\u00a0", "\u2028", "%s", "%d"}
	n := r.Range(1, 7)
	var b strings.Builder
	for i := 0; i < n; i++ {
		b.WriteString(alpha[r.Intn(len(alpha))])
	}
	return b.String()
}

func plainText(r *Rng) string {
	w := []string{"Hello", "world", " and ", "x", "1 < 2", "a&b", " ", "\n  ", "text.", "fn(){}", "{", "}", "}}", "{{", "a{", "{b", "f(){}}",
		"voilà", "Ах", "100% off", "50%", "{{{body}}}", "{{{{", "x {{{ 1 }}} y", "a\u00a0", "{{{"}
	return w[r.Intn(len(w))]
}

type sgen struct {
	r *Rng
}

func (g *sgen) text() J {
	if g.r.Chance(2, 3) {
		return nText(braceText(g.r))
	}
	return nText(plainText(g.r))
}

func (g *sgen) kids(depth int) []interface{} {
	n := g.r.Range(0, 4)
	var out []interface{}
	for i := 0; i < n; i++ {
		out = append(out, g.node(depth)...)
	}
	return out
}

func (g *sgen) node(depth int) []interface{} {
	r := g.r
	if depth <= 0 {
		if r.Chance(3, 4) {
			return []interface{}{g.text()}
		}
		return []interface{}{nBuf(eId("s"), true)}
	}
	switch r.Intn(14) {
	case 0, 1, 2:
		return []interface{}{g.text()}
	case 3, 4, 5:
		return []interface{}{nTag(c06tags[r.Intn(len(c06tags))], r.Bool(), nil, g.kids(depth-1)...)}
	case 6:
		// void element: no end tag; children (if any) are dropped
		var ks []interface{}
		if r.Chance(1, 4) {
			ks = []interface{}{g.text()}
		}
		return []interface{}{nTag(c06void[r.Intn(len(c06void))], r.Bool(), nil, ks...)}
	case 7:
		if r.Chance(1, 3) {
			// explicit self-closing syntax (`path/`) on an element that is not in the void table, no children
			t := nTag([]string{"path", "circle", "my-icon", "use", "div", "span"}[r.Intn(6)], r.Bool(), nil)
			t["sc"] = true
			return []interface{}{t}
		}
		return []interface{}{nBuf(eId([]string{"s", "n", "t"}[r.Intn(3)]), true)}
	case 8:
		// string literal with braces (escaped output; `${` would make it a template literal)
		return []interface{}{nBuf(eStr(strings.ReplaceAll(braceText(r), "$", "S")), true)}
	case 9:
		var els interface{}
		if r.Bool() {
			els = g.kids(depth - 1)
		}
		return []interface{}{nIf(eId([]string{"yes", "no"}[r.Intn(2)]), g.kids(depth-1), els)}
	case 10:
		return []interface{}{nEach("v", "", eId("xs"), append(g.kids(depth-1), nBuf(eId("v"), true))...)}
	case 11:
		return []interface{}{nRaw(sVar("w", eNum("1")))}
	case 12:
		return []interface{}{nCase(eId("n"), nWhen(eNum("1"), g.kids(depth-1)...), nWhen(eNum("2"), g.kids(depth-1)...), nWhen("default", g.kids(depth-1)...))}
	default:
		return []interface{}{nBuf(eUn("-", eId("n")), true)}
	}
}

func genC06(r *Rng, n int, tier string, emit func(Case)) {
	maxd := 4
	if tier == "thorough" {
		maxd = 7
	}
	var prevDoc []interface{}
	for i := 0; i < n; i++ {
		g := &sgen{r: r.Fork()}
		var doc []interface{}
		if g.r.Chance(1, 4) {
			doc = append(doc, nDoctype([]string{"html", "xml", "transitional"}[g.r.Intn(3)]))
		}
		for j := 0; j < g.r.Range(1, 3); j++ {
			doc = append(doc, g.node(g.r.Range(1, maxd))...)
		}
		ownMixins := false
		if g.r.Chance(1, 6) {
			ownMixins = true
			// a mixin WITHOUT parameters (and one with), defined in the document and called between text: the body's pieces stand
			// where the call stands, nothing in front of them, nothing behind
			doc = append([]interface{}{nMixin("badge", nil, nTag("span", true, nil, nText("new"))), nMixin("note", []interface{}{"w"}, nText("("), nBuf(eId("w"), true), nText(")"))}, doc...)
			doc = append(doc, nTag("p", false, nil, nText("a"), nCall("badge", nil, nil), nText("b"), nCall("note", []interface{}{eStr("n")}, nil), nText("c"), nCall("badge", nil, nil)))
		}
		data := J{"s": []string{"<&>", "plain", "{{x}}", " sp "}[g.r.Intn(4)], "n": g.r.Range(0, 3), "t": "T", "yes": true, "no": false,
			"xs": []interface{}{"1", "{", "}}"}[:g.r.Range(0, 3)]}
		c := Case{"kind": "render", "oracle": "pug", "doc": doc, "data": data, "bucket": "tree", "depth": exprDepth(doc), "what": "tree"}
		if prevDoc != nil && g.r.Chance(1, 5) {
			// another page in the same directory (compiled before or after this one): nothing of it may carry over
			c["siblings"] = []interface{}{prevDoc, prevDoc}
			c["bucket"] = "tree+siblings"
			if g.r.Bool() {
				// neighbours that define and call mixins (compiled before and after this page), and a page that ends in text with
				// white space at its end: the end of this document is the end of its own file, whatever else the directory holds
				mix := []interface{}{nMixin("card", []interface{}{"x"}, nTag("aside", false, nil, nText("Teaser {{ for }} "), nBuf(eId("x"), true))),
					nCall("card", []interface{}{eStr("Sale")}, nil), nText("after ")}
				c["siblings"] = []interface{}{mix, prevDoc, mix, mix}
				if !ownMixins {
					// (a page that defines mixins itself has their definitions appended behind its last text, which costs that text
					// its trailing white space - the very end of the document, not compared here)
					c["doc"] = append(append([]interface{}{}, doc...), nText([]string{"end ", "end\n", "end \t ", " "}[g.r.Intn(4)]))
				}
				c["bucket"] = "tree+mixin-siblings"
			}
		}
		emit(c)
		prevDoc = doc
	}
}
