// pvh: correspondence harness. Links the real i-love-flamingo/pugtemplate (replace => /repo) in-process.
//
//	pvh gen -prop C18 -seed 1 -n 2000 -tier quick     writes one JSON case per line (inputs only) to stdout
//	pvh run                                           reads cases from stdin, runs the REAL implementation on
//	                                                  each, writes {"id":..,"impl":..} lines to stdout
package main

import (
	"bufio"
	"encoding/json"
	"flag"
	"fmt"
	"os"
	"runtime/debug"
	"strconv"
	"time"
)

func caseTimeout() time.Duration {
	if v, err := strconv.Atoi(os.Getenv("PVH_CASE_TIMEOUT_S")); err == nil && v > 0 {
		return time.Duration(v) * time.Second
	}
	return 120 * time.Second
}

type Case = map[string]interface{}

type genFn func(r *Rng, n int, tier string, emit func(Case))
type runFn func(c Case) interface{}

var generators = map[string]genFn{}
var runners = map[string]runFn{} // by case "kind"

func str(c Case, k string) string {
	if v, ok := c[k].(string); ok {
		return v
	}
	return ""
}

func strs(c Case, k string) []string {
	var out []string
	if v, ok := c[k].([]interface{}); ok {
		for _, x := range v {
			s, _ := x.(string)
			out = append(out, s)
		}
	}
	return out
}

func main() {
	if len(os.Args) < 2 {
		fmt.Fprintln(os.Stderr, "usage: pvh gen|run ...")
		os.Exit(2)
	}
	switch os.Args[1] {
	case "gen":
		fs := flag.NewFlagSet("gen", flag.ExitOnError)
		prop := fs.String("prop", "", "property id")
		seed := fs.Uint64("seed", 1, "seed")
		n := fs.Int("n", 100, "number of cases")
		tier := fs.String("tier", "quick", "tier")
		fs.Parse(os.Args[2:])
		g, ok := generators[*prop]
		if !ok {
			fmt.Fprintln(os.Stderr, "no generator for", *prop)
			os.Exit(2)
		}
		w := bufio.NewWriterSize(os.Stdout, 1<<20)
		defer w.Flush()
		enc := json.NewEncoder(w)
		enc.SetEscapeHTML(false)
		i := 0
		g(NewRng(*seed), *n, *tier, func(c Case) {
			c["id"] = fmt.Sprintf("%s-s%d-%d", *prop, *seed, i)
			c["prop"] = *prop
			i++
			enc.Encode(c)
		})
	case "run":
		os.MkdirAll(workRoot, 0o755)
		sc := bufio.NewScanner(os.Stdin)
		sc.Buffer(make([]byte, 1<<20), 64<<20)
		w := bufio.NewWriterSize(os.Stdout, 1<<16)
		defer w.Flush()
		enc := json.NewEncoder(w)
		enc.SetEscapeHTML(false)
		for sc.Scan() {
			line := sc.Bytes()
			if len(line) == 0 {
				continue
			}
			var c Case
			if err := json.Unmarshal(line, &c); err != nil {
				fmt.Fprintln(os.Stderr, "bad case line:", err)
				os.Exit(2)
			}
			rf, ok := runners[str(c, "kind")]
			var impl interface{}
			if !ok {
				impl = J{"class": "harness-error", "msg": "no runner for kind " + str(c, "kind")}
			} else {
				// a case that does not come back (a hang in the code under test) must not stall the whole check
				done := make(chan interface{}, 1)
				go func() { done <- safeRun(rf, c) }()
				select {
				case impl = <-done:
				case <-time.After(caseTimeout()):
					enc.Encode(J{"id": c["id"], "impl": J{"class": "timeout", "msg": "no answer within the per-case time limit"}})
					w.Flush()
					os.Exit(3)
				}
			}
			enc.Encode(J{"id": c["id"], "impl": impl})
			w.Flush()
		}
	default:
		fmt.Fprintln(os.Stderr, "unknown subcommand")
		os.Exit(2)
	}
}

func safeRun(rf runFn, c Case) (res interface{}) {
	defer func() {
		if r := recover(); r != nil {
			res = J{"class": "harness-panic", "msg": fmt.Sprint(r), "stack": string(debug.Stack())}
		}
	}()
	return rf(c)
}
