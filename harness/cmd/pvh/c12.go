package main

import (
	"encoding/json"
	"reflect"
	"strings"
)

// C12: JSON hand-off. case: {kind:"json", x:<value>, via:"stringify"|"json"|"reparse"}
// impl: {class, out, decodes_equal:bool}

func init() {
	generators["C12"] = genC12
	runners["json"] = runJSON
}

var jsonStrAtoms = []string{"a", "B", " ", "\"", "\\", "/", "<", ">", "&", "'", "\n", "\t", "\r", "\b", "\f", "\x01", "\x1f", "\x7f", "é", "日本", "😀", " ", " ",
	"</script>", "<!--", "]]>", "{", "}", "[", "]", ":", ",", "null", "0",
	// text that LOOKS like JSON escapes (a backslash followed by the letters of an escape): data, not syntax
	"\\u0026", "\\u003c", "\\u003e", "\\u2028", "\\n", "\\\"", "u0026", "\\\\", "\\/", "&amp;", "&lt;", "%s", "\u0085"}

func jsonString(r *Rng) string {
	n := r.Range(0, 6)
	var b strings.Builder
	for i := 0; i < n; i++ {
		b.WriteString(jsonStrAtoms[r.Intn(len(jsonStrAtoms))])
	}
	return b.String()
}

func jsonKey(r *Rng) string {
	heads := []string{"a", "b", "k", "name", "x", "id", "z", "item", "url"}
	k := heads[r.Intn(len(heads))]
	if r.Chance(1, 3) {
		k += []string{"_1", "Key", "-x", " y", "é", "\"q", "<t>"}[r.Intn(7)]
	}
	return k
}

func jsonValue(r *Rng, depth int) interface{} {
	k := r.Intn(10)
	if depth <= 0 && k >= 6 {
		k = r.Intn(6)
	}
	switch k {
	case 0:
		return nil
	case 1:
		return r.Bool()
	case 2:
		return float64(r.Range(-1000, 1000))
	case 3:
		switch r.Intn(4) {
		case 0:
			return float64(9007199254740992) // 2^53
		case 1:
			return float64(-9007199254740991)
		case 2:
			return float64(r.Range(0, 1<<30)) * 4096
		default:
			return float64(r.Range(-40, 40)) / 8 // short dyadic fraction
		}
	case 4, 5:
		if r.Chance(1, 4) {
			// a STRING whose text is itself a complete JSON document: it must come out as a JSON string, quotes and all
			return []string{"12345", "-1.5e3", " 42 ", "true", "false", "null", "[]", "{}", "{\"a\":1}", "\"quoted\"", "[1,2]", "0", "007", "1e400"}[r.Intn(14)]
		}
		return jsonString(r)
	case 6, 7:
		n := r.Range(0, 4)
		arr := []interface{}{}
		for i := 0; i < n; i++ {
			arr = append(arr, jsonValue(r, depth-1))
		}
		return arr
	default:
		n := r.Range(0, 4)
		m := map[string]interface{}{}
		for i := 0; i < n; i++ {
			m[jsonKey(r)] = jsonValue(r, depth-1)
		}
		return m
	}
}

func genC12(r *Rng, n int, tier string, emit func(Case)) {
	maxd := 4
	if tier == "thorough" {
		maxd = 7
	}
	vias := []string{"stringify", "json", "reparse"}
	for i := 0; i < n; i++ {
		rr := r.Fork()
		x := jsonValue(rr, rr.Range(0, maxd))
		if i%40 == 17 {
			// a long chain of containers (a reply thread, a category tree): depth far beyond what breadth-first random values reach
			depth := []int{30, 70, 130, 200, 450, 700, 1100}[rr.Intn(7)]
			var v interface{} = jsonValue(rr, 1)
			for dpt := 0; dpt < depth; dpt++ {
				if rr.Bool() {
					v = []interface{}{v}
				} else {
					v = map[string]interface{}{"id": float64(dpt), "replies": []interface{}{v}}
					dpt++
				}
			}
			x = v
		}
		emit(Case{"kind": "json", "x": x, "via": vias[i%3], "bucket": vias[i%3]})
	}
}

func runJSON(c Case) interface{} {
	var e J
	switch str(c, "via") {
	case "stringify":
		e = eCall(eDot(eId("JSON"), "stringify"), eId("x"))
	case "json":
		e = eCall(eId("json"), eId("x"))
	default:
		e = eCall(eDot(eId("JSON"), "stringify"), eCall(eDot(eId("JSON"), "parse"), eCall(eDot(eId("JSON"), "stringify"), eId("x"))))
	}
	ast := pugDoc([]interface{}{nBuf(e, false)})
	res := renderOne(ast, map[string]interface{}{"x": c["x"]}, false, nil)
	out := J{"class": res.Class, "out": res.Out, "msg": res.Msg}
	if res.Class == "ok" {
		var back interface{}
		if err := json.Unmarshal([]byte(res.Out), &back); err != nil {
			out["valid"] = false
			out["decodes_equal"] = false
		} else {
			out["valid"] = true
			out["decodes_equal"] = reflect.DeepEqual(back, c["x"])
		}
	}
	return out
}
