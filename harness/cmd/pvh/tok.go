package main

import (
	"strings"

	"golang.org/x/net/html"
)

// tokenize: an independent reading of the output, as an HTML parser sees it (golang.org/x/net/html Tokenizer).
// Returns the token stream in canonical form: ["S", name, [[k,v]...]] start tag, ["E", name] end tag, ["T", text] text
// (character references decoded), ["C"] comment, ["D"] doctype.
func tokenize(out string) []interface{} {
	z := html.NewTokenizer(strings.NewReader(out))
	toks := []interface{}{}
	for {
		tt := z.Next()
		if tt == html.ErrorToken {
			break
		}
		t := z.Token()
		switch tt {
		case html.StartTagToken, html.SelfClosingTagToken:
			attrs := []interface{}{}
			for _, a := range t.Attr {
				attrs = append(attrs, []interface{}{a.Key, a.Val})
			}
			toks = append(toks, []interface{}{"S", t.Data, attrs})
		case html.EndTagToken:
			toks = append(toks, []interface{}{"E", t.Data})
		case html.TextToken:
			toks = append(toks, []interface{}{"T", t.Data})
		case html.CommentToken:
			toks = append(toks, []interface{}{"C", t.Data})
		case html.DoctypeToken:
			toks = append(toks, []interface{}{"D", t.Data})
		}
	}
	return toks
}
