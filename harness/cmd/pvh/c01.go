package main

import (
	"fmt"
	"strconv"
)

// C01: type-directed generator of JavaScript expressions of the supported core subset.
//
// case: {kind:"render", oracle:"js-expr", doc:[= e], data:{...}}

func init() {
	generators["C01"] = genC01
}

type tenv struct {
	r       *Rng
	ints    []string          // int-valued variables
	fracs   []string          // dyadic fractions
	strs    map[string]string // string variables -> value (ASCII)
	bools   []string
	numArrs map[string]int // name -> length
	strArrs map[string]int
	data    J
}

type nexp struct {
	e      J
	isInt  bool
	maxAbs float64
	denPow int // value * 2^denPow is an integer
}

func newTenv(r *Rng) *tenv {
	t := &tenv{r: r, strs: map[string]string{}, numArrs: map[string]int{}, strArrs: map[string]int{}, data: J{}}
	for i, n := range []string{"n1", "n2", "n3"} {
		if i < 2 || r.Bool() {
			v := r.Range(-9, 30)
			if r.Chance(1, 6) {
				v = 0
			}
			t.ints = append(t.ints, n)
			t.data[n] = v
		}
	}
	if r.Bool() {
		t.fracs = append(t.fracs, "f1")
		t.data["f1"] = float64(r.Range(-20, 40)) / 4
	}
	words := []string{"abc", "Hello", "", "a,b,c", "x<y", "zeta", "B", "hello world", "q&a", "it's", "10", "abcabc"}
	for i, n := range []string{"s1", "s2", "s3"} {
		if i < 2 || r.Bool() {
			t.strs[n] = words[r.Intn(len(words))]
			t.data[n] = t.strs[n]
		}
	}
	for _, n := range []string{"b1", "b2"} {
		t.bools = append(t.bools, n)
		t.data[n] = r.Bool()
	}
	k := r.Range(1, 5)
	var an []interface{}
	for i := 0; i < k; i++ {
		an = append(an, r.Range(-5, 12))
	}
	t.numArrs["an"] = k
	t.data["an"] = an
	k = r.Range(1, 4)
	var as []interface{}
	for i := 0; i < k; i++ {
		as = append(as, words[r.Intn(len(words))])
	}
	t.strArrs["as"] = k
	t.data["as"] = as
	t.data["o"] = J{"a": r.Range(0, 9), "b": words[r.Intn(len(words))], "c": J{"d": r.Range(1, 7), "e": "deep"}, "list": []interface{}{1, 2, 3}}
	t.data["z"] = nil
	return t
}

func pickKey(m map[string]int, r *Rng) (string, int) {
	keys := make([]string, 0, len(m))
	for k := range m {
		keys = append(keys, k)
	}
	sortStrings(keys)
	k := keys[r.Intn(len(keys))]
	return k, m[k]
}

func sortStrings(a []string) {
	for i := 1; i < len(a); i++ {
		for j := i; j > 0 && a[j] < a[j-1]; j-- {
			a[j], a[j-1] = a[j-1], a[j]
		}
	}
}

func pickStrVar(t *tenv) (string, string) {
	keys := make([]string, 0, len(t.strs))
	for k := range t.strs {
		keys = append(keys, k)
	}
	sortStrings(keys)
	k := keys[t.r.Intn(len(keys))]
	return k, t.strs[k]
}

func (t *tenv) genInt(d int) nexp {
	r := t.r
	if d <= 0 || r.Chance(1, 4) {
		if r.Bool() {
			v := r.Range(0, 12)
			return nexp{eNum(strconv.Itoa(v)), true, float64(v), 0}
		}
		n := t.ints[r.Intn(len(t.ints))]
		return nexp{eId(n), true, 30, 0}
	}
	switch r.Intn(10) {
	case 0, 1:
		a, b := t.genInt(d-1), t.genInt(d-1)
		op := []string{"+", "-"}[r.Intn(2)]
		return nexp{eBin(op, a.e, b.e), true, a.maxAbs + b.maxAbs, 0}
	case 2:
		a, b := t.genInt(d-1), t.genInt(d-2)
		if a.maxAbs*b.maxAbs < 1e8 {
			return nexp{eBin("*", a.e, b.e), true, a.maxAbs * b.maxAbs, 0}
		}
		return a
	case 3:
		a := t.genInt(d - 1)
		m := r.Range(2, 7)
		if r.Bool() {
			// the divisor is a (non-zero) number from the data, the dividend a literal or any integer expression
			div := eDot(eDot(eId("o"), "c"), "d") // 1..7
			if r.Chance(1, 3) {
				div = eBin("+", div, eNum(strconv.Itoa(r.Range(1, 3))))
			}
			if r.Bool() {
				return nexp{eBin("%", eNum(strconv.Itoa(r.Range(0, 40))), div), true, 10, 0}
			}
			return nexp{eBin("%", a.e, div), true, 10, 0}
		}
		return nexp{eBin("%", a.e, eNum(strconv.Itoa(m))), true, float64(m), 0}
	case 4:
		a := t.genInt(d - 1)
		return nexp{eUn("-", a.e), true, a.maxAbs, 0}
	case 5:
		c := t.genBool(d - 1)
		a, b := t.genInt(d-1), t.genInt(d-1)
		return nexp{eCond(c, a.e, b.e), true, maxf(a.maxAbs, b.maxAbs), 0}
	case 6:
		if r.Bool() {
			n, l := pickKey(t.numArrs, r)
			return nexp{eIdx(eId(n), eNum(strconv.Itoa(r.Intn(l)))), true, 12, 0}
		}
		// literal array, in-range index
		k := r.Range(1, 3)
		var es []interface{}
		mx := 0.0
		for i := 0; i < k; i++ {
			x := t.genInt(d - 2)
			es = append(es, x.e)
			mx = maxf(mx, x.maxAbs)
		}
		return nexp{eIdx(eArr(es...), eNum(strconv.Itoa(r.Intn(k)))), true, mx, 0}
	case 7:
		switch r.Intn(4) {
		case 0:
			n, _ := pickKey(t.numArrs, r)
			return nexp{eDot(eId(n), "length"), true, 10, 0}
		case 1:
			return nexp{eDot(t.genStr(d-1), "length"), true, 200, 0}
		case 2:
			n, _ := pickKey(t.numArrs, r)
			if r.Chance(1, 3) {
				// indexOf is strict equality: a string that prints like an element is not that element, and the other way round
				an := t.data["an"].([]interface{})
				el := an[r.Intn(len(an))].(int)
				switch r.Intn(3) {
				case 0:
					return nexp{eCall(eDot(eId("an"), "indexOf"), eStr(strconv.Itoa(el))), true, 10, 0}
				case 1:
					return nexp{eCall(eDot(eArr(eStr("1"), eStr(strconv.Itoa(el)), eStr("x")), "indexOf"), eNum(strconv.Itoa(iabs(el)))), true, 10, 0}
				default:
					return nexp{eCall(eDot(eArr(eStr(strconv.Itoa(iabs(el))), eNum(strconv.Itoa(iabs(el))), eStr("x")), "indexOf"), eNum(strconv.Itoa(iabs(el)))), true, 10, 0}
				}
			}
			return nexp{eCall(eDot(eId(n), "indexOf"), t.genInt(d-2).e), true, 10, 0}
		default:
			return nexp{eCall(eDot(t.genStr(d-1), "indexOf"), t.genStr(d-2)), true, 200, 0}
		}
	case 8:
		if r.Bool() {
			return nexp{eDot(eId("o"), "a"), true, 9, 0}
		}
		return nexp{eDot(eDot(eId("o"), "c"), "d"), true, 7, 0}
	default:
		a, b := t.genInt(d-1), t.genInt(d-1)
		op := []string{"||", "&&"}[r.Intn(2)]
		return nexp{eBin(op, a.e, b.e), true, maxf(a.maxAbs, b.maxAbs), 0}
	}
}

func iabs(a int) int {
	if a < 0 {
		return -a
	}
	return a
}

func maxf(a, b float64) float64 {
	if a > b {
		return a
	}
	return b
}

func (t *tenv) genNum(d int) nexp {
	r := t.r
	if d <= 0 || r.Chance(1, 2) {
		return t.genInt(d)
	}
	switch r.Intn(6) {
	case 0:
		lits := []string{"2.5", "0.5", "1.25", "10.75", "0.125"}
		return nexp{eNum(lits[r.Intn(len(lits))]), false, 11, 3}
	case 1:
		if len(t.fracs) > 0 {
			return nexp{eId(t.fracs[0]), false, 10, 2}
		}
		return t.genInt(d)
	case 2:
		a := t.genNum(d - 1)
		k := []int{2, 4, 8}[r.Intn(3)]
		dp := a.denPow + map[int]int{2: 1, 4: 2, 8: 3}[k]
		if dp > 6 {
			return a
		}
		return nexp{eBin("/", a.e, eNum(strconv.Itoa(k))), false, a.maxAbs, dp}
	case 3:
		a, b := t.genNum(d-1), t.genNum(d-1)
		op := []string{"+", "-"}[r.Intn(2)]
		return nexp{eBin(op, a.e, b.e), false, a.maxAbs + b.maxAbs, imax(a.denPow, b.denPow)}
	case 4:
		a, b := t.genNum(d-1), t.genInt(d-2)
		if a.maxAbs*b.maxAbs < 1e6 {
			return nexp{eBin("*", a.e, b.e), false, a.maxAbs * b.maxAbs, a.denPow}
		}
		return a
	default:
		c := t.genBool(d - 1)
		a, b := t.genNum(d-1), t.genNum(d-1)
		return nexp{eCond(c, a.e, b.e), false, maxf(a.maxAbs, b.maxAbs), imax(a.denPow, b.denPow)}
	}
}

func imax(a, b int) int {
	if a > b {
		return a
	}
	return b
}

var strLits = []string{"a", "", "xyz", "A b", "<i>", "\"q\"", "&", "it's", "{", "}", "a,b", "Zed", "0", " pad "}

func (t *tenv) genStr(d int) J {
	r := t.r
	if d <= 0 || r.Chance(1, 4) {
		if r.Bool() {
			return eStr(strLits[r.Intn(len(strLits))])
		}
		n, _ := pickStrVar(t)
		return eId(n)
	}
	switch r.Intn(11) {
	case 0, 1:
		return eBin("+", t.genStr(d-1), t.genStr(d-1))
	case 2:
		return eBin("+", t.genStr(d-1), t.genNum(d-1).e) // string + number
	case 3:
		return eCond(t.genBool(d-1), t.genStr(d-1), t.genStr(d-1))
	case 4:
		n, l := pickKey(t.strArrs, r)
		return eIdx(eId(n), eNum(strconv.Itoa(r.Intn(l))))
	case 5:
		if r.Bool() {
			return eDot(eId("o"), "b")
		}
		return eIdx(eId("o"), eStr("b"))
	case 6:
		return eCall(eDot(t.genStr(d-1), "charAt"), eNum(strconv.Itoa(r.Intn(6))))
	case 7:
		// slice with in-range arguments on a string of known length
		n, v := pickStrVar(t)
		l := len(v)
		a := r.Intn(l + 1)
		if r.Bool() {
			return eCall(eDot(eId(n), "slice"), eNum(strconv.Itoa(a)))
		}
		b := a + r.Intn(l-a+1)
		if r.Chance(1, 4) && l > 0 {
			na := r.Range(1, l)
			return eCall(eDot(eId(n), "slice"), eUn("-", eNum(strconv.Itoa(na))))
		}
		return eCall(eDot(eId(n), "slice"), eNum(strconv.Itoa(a)), eNum(strconv.Itoa(b)))
	case 8:
		m := []string{"toUpperCase", "toLowerCase"}[r.Intn(2)]
		return eCall(eDot(t.genStr(d-1), m))
	case 9:
		sep := []string{",", "-", "", " / "}[r.Intn(4)]
		if r.Chance(1, 4) {
			// elements that print as the empty string, at the front, in the middle, at the end, all of them
			es := [][]interface{}{{eStr(""), eStr("a"), eStr("b")}, {eStr(""), eStr(""), eStr("c")}, {eStr("a"), eStr(""), eStr("")}, {eStr(""), eStr("")},
				{eStr(""), t.genStr(d - 2), eStr("")}, {eStr("")}}[r.Intn(6)]
			if r.Bool() {
				return eCall(eDot(eArr(es...), "join"), eStr(sep))
			}
			return eCall(eDot(eCall(eDot(eStr([]string{",x,y", ",,z", "a,,", ","}[r.Intn(4)]), "split"), eStr(",")), "join"), eStr(sep))
		}
		if r.Bool() {
			n, _ := pickKey(t.numArrs, r)
			return eCall(eDot(eId(n), "join"), eStr(sep))
		}
		if r.Bool() {
			n, _ := pickKey(t.strArrs, r)
			return eCall(eDot(eId(n), "join"), eStr(sep))
		}
		return eCall(eDot(eCall(eDot(t.genStr(d-1), "split"), eStr(",")), "join"), eStr(sep))
	default:
		return eBin([]string{"||", "&&"}[r.Intn(2)], t.genStr(d-1), t.genStr(d-1))
	}
}

func (t *tenv) genBool(d int) J {
	r := t.r
	if d <= 0 || r.Chance(1, 5) {
		if r.Chance(1, 3) {
			return eBool(r.Bool())
		}
		return eId(t.bools[r.Intn(len(t.bools))])
	}
	cmp := []string{"<", "<=", ">", ">=", "==", "===", "!=", "!=="}
	switch r.Intn(8) {
	case 0, 1, 2:
		return eBin(cmp[r.Intn(len(cmp))], t.genNum(d-1).e, t.genNum(d-1).e)
	case 3:
		return eBin(cmp[r.Intn(len(cmp))], t.genStr(d-1), t.genStr(d-1))
	case 4:
		switch r.Intn(3) {
		case 0:
			return eUn("!", t.genBool(d-1))
		case 1:
			return eUn("!", t.genNum(d-1).e)
		default:
			return eUn("!", t.genStr(d-1))
		}
	case 5:
		return eBin([]string{"&&", "||"}[r.Intn(2)], t.genBool(d-1), t.genBool(d-1))
	case 6:
		return eBin([]string{"==", "!=", "===", "!=="}[r.Intn(4)], t.genBool(d-1), t.genBool(d-1))
	default:
		return eCond(t.genBool(d-1), t.genBool(d-1), t.genBool(d-1))
	}
}

func exprDepth(e interface{}) int {
	switch v := e.(type) {
	case map[string]interface{}:
		m := 0
		for _, x := range v {
			if d := exprDepth(x); d > m {
				m = d
			}
		}
		if _, ok := v["t"]; ok {
			return m + 1
		}
		return m
	case []interface{}:
		m := 0
		for _, x := range v {
			if d := exprDepth(x); d > m {
				m = d
			}
		}
		return m
	}
	return 0
}

func genC01(r *Rng, n int, tier string, emit func(Case)) {
	maxd := 5
	if tier == "thorough" {
		maxd = 8
	}
	for i := 0; i < n; i++ {
		t := newTenv(r.Fork())
		d := t.r.Range(1, maxd)
		var e J
		var ty string
		switch t.r.Intn(3) {
		case 0:
			e, ty = t.genNum(d).e, "num"
		case 1:
			e, ty = t.genStr(d), "str"
		default:
			e, ty = t.genBool(d), "bool"
		}
		if i%25 == 24 {
			// a number literal in one of JavaScript's other spellings - alone (printed by the transpiler itself) or as an operand
			sp := [][2]string{{"1", "1.0"}, {"1.5", "1.50"}, {"0.5", ".5"}, {"5", "5."}, {"1000", "1e3"}, {"16", "0x10"}, {"2.5", "2.50"}, {"100", "100."},
				{"0.1", "0.10"}, {"10", "1e1"}, {"255", "0xff"}, {"0.25", "25e-2"}, {"12", "12.0"}}[t.r.Intn(13)]
			lit := eNumSrc(sp[0], sp[1])
			switch t.r.Intn(3) {
			case 0:
				e, ty = lit, "num"
			case 1:
				e, ty = eBin("+", lit, t.genInt(1).e), "num"
			default:
				e, ty = eCond(t.genBool(1), lit, eNumSrc(sp[0], sp[1])), "num"
			}
		}
		if i%25 == 12 {
			// a string literal written with escape sequences (\xHH, \uHHHH, double quotes): its VALUE is what JavaScript says -
			// "caf\xe9" is the four characters of the word, whatever the spelling. Used where byte and UTF-16 lengths do not matter:
			// printed, concatenated, compared with the same text from the data, case-mapped, selected.
			words := []string{"caf\u00e9", "\u00fcber", "na\u00efve \u00e0 la", "\u00a0km", "\u00e9t\u00e9", "x\u00ffy", "\u00abq\u00bb", "plain", "tab\there", "\u00d7\u00f7", "\u65e5\u672c", "a\u0080b"}
			w := words[t.r.Intn(len(words))]
			sp := []string{"x", "u", "xa", "dq", "x"}[t.r.Intn(5)]
			lit := eStrSp(w, sp)
			t.data["w"] = w
			t.data["w2"] = w + "!"
			switch t.r.Intn(7) {
			case 0:
				e, ty = lit, "str"
			case 1:
				e, ty = eBin("+", lit, t.genStr(1)), "str"
			case 2:
				e, ty = eBin([]string{"==", "===", "!=", "!=="}[t.r.Intn(4)], lit, eId([]string{"w", "w2"}[t.r.Intn(2)])), "bool"
			case 3:
				// (case mapping of non-ASCII letters is outside the model's ASCII tables: concatenation of two spellings instead)
				e, ty = eBin("+", eStrSp(w, "dq"), lit), "str"
			case 4:
				e, ty = eCond(eBin("==", eId("w"), lit), eStr("same"), eStr("different")), "str"
			case 5:
				e, ty = eCall(eDot(eArr(eStr("b"), lit, eStr("c")), "indexOf"), eId("w")), "num"
			default:
				e, ty = eBin("+", eBin("+", lit, t.genInt(1).e), eStrSp(w, "u")), "str"
			}
		}
		emit(Case{"kind": "render", "oracle": "js-expr", "doc": []interface{}{nBuf(e, true)}, "data": t.data,
			"ty": ty, "depth": exprDepth(e), "js": fmt.Sprint(printExprStmt(e))})
	}
}
