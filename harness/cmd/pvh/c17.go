package main

import (
	"bytes"
	"context"
	"fmt"
	"io"
	"sort"
	"time"
)

// C17: RenderPartials.
//
// case: {kind:"partials", files:{name: ast}, tpl:"T", req:[names], data:{x:..}}
// impl: {alone:{fullname: Result}, partials:{class, keys:[sorted], content:{key: out}}}

func init() {
	generators["C17"] = genC17
	runners["partials"] = runPartials
}

func genC17(r *Rng, n int, tier string, emit func(Case)) {
	tnames := []string{"T", "page/home", "a/b/c"}
	pnames := []string{"p1", "p2", "head", "x/y", "foot"}
	for i := 0; i < n; i++ {
		files := map[string]interface{}{}
		tpl := tnames[r.Intn(len(tnames))]
		mk := func(tag string) string {
			kids := []interface{}{textNode(tag + ":")}
			if r.Chance(2, 3) {
				kids = append(kids, codeNode("x", true, true))
			}
			if r.Chance(1, 3) {
				kids = append(kids, tagNode("b", true, nil, codeNode("y + 1", true, true)))
			}
			if r.Chance(1, 3) {
				// a partial that writes into the data it was given and prints what it sees: every partial of one request must see
				// the data as the caller passed it, not what an earlier partial left behind
				switch r.Intn(4) {
				case 3:
					// `hints` is a nil slice in the data (an unset list): an empty list, and every render's own
					kids = append(kids, codeNode("hints.length", true, true), codeNode("hints.push('"+tag+"')", false, false), codeNode("hints.join('+')", true, true))
				case 0:
					kids = append(kids, codeNode("cart.label = 'items: ' + cart.n", false, false), codeNode("cart.label", true, true))
				case 1:
					kids = append(kids, codeNode("crumbs.push('"+tag+"')", false, false), codeNode("crumbs.join('>')", true, true))
				default:
					kids = append(kids, codeNode("cart.label", true, true), codeNode("crumbs.join('>')", true, true), codeNode("crumbs.length", true, true))
				}
			}
			return docOf(tagNode("div", false, nil, kids...))
		}
		files[tpl] = mk("main")
		var existing []string
		for _, p := range pnames {
			if r.Chance(3, 5) {
				files[tpl+".partial/"+p] = mk(p)
				existing = append(existing, p)
			}
		}
		// another template's partials must not be picked up
		if r.Chance(1, 2) {
			files["other.partial/p1"] = mk("other-p1")
		}
		// the module's debug() function on a value encoding/json cannot marshal, next to JSON output of a Go value with getters
		if r.Chance(1, 6) {
			files[tpl+".partial/asum"] = docOf(codeNode("JSON.stringify(lf)", true, false))
			files[tpl+".partial/zdump"] = docOf(textNode("dump:"), codeNode("debug(bad, false)", true, false))
			existing = append(existing, "zdump", "asum", "asum")
		}
		// a partial that fails at execution time
		if r.Chance(1, 6) {
			files[tpl+".partial/bad"] = docOf(codeNode("x.nope.deeper()", true, true), codeNode("Math.ceil('q')", true, true))
			existing = append(existing, "bad")
		}
		k := r.Intn(6)
		req := []interface{}{}
		for j := 0; j < k; j++ {
			switch {
			case len(existing) > 0 && r.Chance(4, 5):
				req = append(req, existing[r.Intn(len(existing))])
			case r.Chance(1, 2):
				req = append(req, pnames[r.Intn(len(pnames))])
			default:
				req = append(req, []string{"nope", "", "../" + tpl, "p1/"}[r.Intn(4)])
			}
		}
		data := J{"x": fmt.Sprintf("<v%d>", r.Intn(100)), "y": r.Intn(50), "cart": J{"n": r.Intn(9), "label": "n/a"}, "crumbs": []interface{}{"Home"}, "hints": J{"__go": "nilslice"},
			"lf": J{"__go": "leafy"}, "bad": J{"v": J{"__go": "nan"}}}
		cs := Case{"kind": "partials", "model_needs_impl": true, "files": files, "tpl": tpl, "req": req, "data": data}
		if r.Chance(1, 4) {
			cs["ratelimit"] = r.Range(1, 2)
		}
		emit(cs)
	}
}

func runPartials(c Case) interface{} {
	files := map[string]string{}
	for k, v := range c["files"].(map[string]interface{}) {
		files[k] = v.(string)
	}
	// "ratelimit": the engine carries a render limit (the module's default is 8): renders that fail - unknown names, failing
	// partials - must leave it as they found it, or later requests wait for ever
	rl := 0
	if v, ok := c["ratelimit"].(float64); ok {
		rl = int(v)
	}
	eng, err := newEngine(EngineSpec{Files: files, RateLimit: rl})
	if err != nil {
		return J{"class": "harness-error", "msg": err.Error()}
	}
	defer eng.Close()
	if r := eng.Load(""); r.Class != "ok" {
		return J{"class": r.Class, "msg": r.Msg}
	}
	data := reviveGo(c["data"])
	tpl := str(c, "tpl")
	req := strs(c, "req")
	alone := J{}
	var names []string
	for name := range files {
		names = append(names, name)
	}
	sort.Strings(names) // a fixed order: what one standalone render leaves behind (if anything) meets the same successors every time
	for _, name := range names {
		alone[name] = eng.Render(context.Background(), name, data)
	}
	// requested names that do not exist as files are rendered alone too (expected: notfound)
	for _, p := range req {
		full := tpl + ".partial/" + p
		if _, ok := alone[full]; !ok {
			alone[full] = eng.Render(context.Background(), full, data)
		}
	}
	part := func() (res J) {
		defer func() {
			if r := recover(); r != nil {
				pr := classifyPanic(r)
				res = J{"class": pr.Class, "msg": pr.Msg}
			}
		}()
		ctx := context.Background()
		if rl > 0 {
			var cancel context.CancelFunc
			ctx, cancel = context.WithTimeout(ctx, 3*time.Second) // a request that cannot get a slot ends here instead of hanging
			defer cancel()
		}
		m, err := eng.E.RenderPartials(ctx, tpl, data, req)
		if err != nil {
			cls := "error"
			if len(m) != 0 {
				cls = "error-with-content"
			}
			return J{"class": cls, "msg": firstLine(err.Error()), "nkeys": len(m)}
		}
		keys := []string{}
		content := J{}
		for k, rd := range m {
			keys = append(keys, k)
			var b bytes.Buffer
			io.Copy(&b, rd)
			content[k] = b.String()
		}
		sort.Strings(keys)
		return J{"class": "ok", "keys": keys, "content": content}
	}()
	return J{"class": "ok", "alone": alone, "partials": part}
}
