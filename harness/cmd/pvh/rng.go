package main

// Deterministic PRNG (splitmix64); every random choice of every generator derives from one state.
type Rng struct{ s uint64 }

func NewRng(seed uint64) *Rng {
	// hash the seed so that consecutive seeds give unrelated streams (a plain offset would only shift the stream)
	r := &Rng{s: seed ^ 0x5851F42D4C957F2D}
	a := r.Next()
	b := r.Next()
	return &Rng{s: a ^ (b << 1) ^ (seed * 0xD6E8FEB86659FD93)}
}

func (r *Rng) Next() uint64 {
	r.s += 0x9E3779B97F4A7C15
	z := r.s
	z = (z ^ (z >> 30)) * 0xBF58476D1CE4E5B9
	z = (z ^ (z >> 27)) * 0x94D049BB133111EB
	return z ^ (z >> 31)
}

// Intn returns a value in [0,n)
func (r *Rng) Intn(n int) int {
	if n <= 0 {
		return 0
	}
	return int(r.Next() % uint64(n))
}

// Range returns a value in [lo,hi]
func (r *Rng) Range(lo, hi int) int { return lo + r.Intn(hi-lo+1) }

func (r *Rng) Bool() bool { return r.Next()&1 == 1 }

// Chance returns true with probability num/den
func (r *Rng) Chance(num, den int) bool { return r.Intn(den) < num }

func (r *Rng) Pick(xs []string) string { return xs[r.Intn(len(xs))] }

// Fork derives an independent generator (so that adding draws in one sub-generator does not shift the others)
func (r *Rng) Fork() *Rng { return &Rng{s: r.Next()} }
