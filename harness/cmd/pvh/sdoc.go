package main

import (
	"encoding/json"
	"fmt"
	"strings"
	"unicode"
)

// Structured pug documents: every JavaScript snippet is a tree, so that the Lean model receives trees and the
// real engine receives the JavaScript source this file prints from them (minimal parentheses by the ECMAScript grammar).

// ---- expression constructors ----
func eNum(v string) J         { return J{"t": "num", "v": v} }
func eNumSrc(v, src string) J { return J{"t": "num", "v": v, "src": src} }
func eStr(v string) J         { return J{"t": "str", "v": v} }

// eStrSp: the same string VALUE, written in the source with escapes: sp = "x" (\xHH for U+0000..U+00FF that are not
// plain ASCII letters/digits), "u" (\uHHHH for every character outside printable ASCII), "xa" (\xHH for EVERY character
// below U+0100, letters included), "dq" (double quotes). Model and specification read "v"; only the real parser sees the spelling.
func eStrSp(v, sp string) J         { return J{"t": "str", "v": v, "sp": sp} }
func eBool(v bool) J                { return J{"t": "bool", "v": v} }
func eNull() J                      { return J{"t": "null"} }
func eId(n string) J                { return J{"t": "id", "n": n} }
func eBin(op string, l, r J) J      { return J{"t": "bin", "op": op, "l": l, "r": r} }
func eUn(op string, e J) J          { return J{"t": "un", "op": op, "e": e} }
func eCond(c, a, b J) J             { return J{"t": "cond", "c": c, "a": a, "b": b} }
func eArr(es ...interface{}) J      { return J{"t": "arr", "es": nz(es)} }
func eDot(e J, n string) J          { return J{"t": "dot", "e": e, "n": n} }
func eIdx(e, i J) J                 { return J{"t": "idx", "e": e, "i": i} }
func eCall(f J, a ...interface{}) J { return J{"t": "call", "f": f, "args": nz(a)} }
func eTpl(parts ...interface{}) J   { return J{"t": "tpl", "parts": nz(parts)} }
func eObj(kv ...interface{}) J { // k1, v1, k2, v2 ...
	var out []interface{}
	for i := 0; i+1 < len(kv); i += 2 {
		out = append(out, []interface{}{kv[i], kv[i+1]})
	}
	return J{"t": "obj", "kv": nz(out)}
}

func nz(x []interface{}) []interface{} {
	if x == nil {
		return []interface{}{}
	}
	return x
}

// ---- node constructors ----
func nText(s string) J { return J{"t": "text", "v": s} }
func nTag(name string, inline bool, attrs []interface{}, kids ...interface{}) J {
	return J{"t": "tag", "name": name, "inline": inline, "attrs": nz(attrs), "ablocks": []interface{}{}, "kids": nz(kids)}
}
func nAttr(name string, val J, esc bool) J { return J{"name": name, "val": val, "esc": esc} }
func nBuf(e J, esc bool) J                 { return J{"t": "code", "buffer": true, "esc": esc, "inline": true, "e": e} }
func nRaw(stmts ...interface{}) J {
	return J{"t": "code", "buffer": false, "inline": false, "stmts": nz(stmts)}
}
func sVar(n string, e J) J { return J{"t": "var", "n": n, "e": e} }
func sAssign(l, e J) J     { return J{"t": "assign", "l": l, "e": e} }
func sInc(n string) J      { return J{"t": "inc", "n": n} }
func sExpr(e J) J          { return J{"t": "expr", "e": e} }
func nIf(test J, thn []interface{}, els interface{}) J {
	return J{"t": "if", "test": test, "then": nz(thn), "else": els}
}
func nEach(val, key string, obj J, kids ...interface{}) J {
	return J{"t": "each", "val": val, "key": key, "obj": obj, "kids": nz(kids)}
}
func nWhile(test J, kids ...interface{}) J       { return J{"t": "while", "test": test, "kids": nz(kids)} }
func nCase(e J, whens ...interface{}) J          { return J{"t": "case", "e": e, "whens": nz(whens)} }
func nWhen(e interface{}, kids ...interface{}) J { return J{"e": e, "kids": nz(kids)} }
func nMixin(name string, params []interface{}, kids ...interface{}) J {
	return J{"t": "mixin", "name": name, "params": nz(params), "kids": nz(kids)}
}
func nCall(name string, args []interface{}, attrs []interface{}, kids ...interface{}) J {
	return J{"t": "call", "name": name, "args": nz(args), "attrs": nz(attrs), "kids": nz(kids)}
}
func nBlock() J           { return J{"t": "block"} }
func nDoctype(v string) J { return J{"t": "doctype", "v": v} }

// ---- JavaScript printer ----

var binPrec = map[string]int{
	"||": 1, "&&": 2, "==": 5, "!=": 5, "===": 5, "!==": 5, "<": 6, "<=": 6, ">": 6, ">=": 6,
	"+": 8, "-": 8, "*": 9, "/": 9, "%": 9,
}

func asJ(x interface{}) J {
	if v, ok := x.(map[string]interface{}); ok {
		return v
	}
	panic(fmt.Sprintf("not an object: %#v", x))
}

func asList(x interface{}) []interface{} {
	if x == nil {
		return nil
	}
	return x.([]interface{})
}

func prec(e J) int {
	switch e["t"] {
	case "cond":
		return 0
	case "bin":
		return binPrec[e["op"].(string)]
	case "un":
		return 10
	case "dot", "idx", "call":
		return 12
	}
	return 13
}

func jsQuote(s string) string {
	var b strings.Builder
	b.WriteByte('\'')
	for _, r := range s {
		switch r {
		case '\'':
			b.WriteString(`\'`)
		case '\\':
			b.WriteString(`\\`)
		case '\n':
			b.WriteString(`\n`)
		case '\r':
			b.WriteString(`\r`)
		case '\t':
			b.WriteString(`\t`)
		default:
			if r < 0x20 {
				fmt.Fprintf(&b, `\x%02x`, r)
			} else if r == 0x2028 || r == 0x2029 {
				fmt.Fprintf(&b, `\u%04x`, r) // line terminators: not allowed raw inside an ES5 string literal
			} else {
				b.WriteRune(r)
			}
		}
	}
	b.WriteByte('\'')
	return b.String()
}

func jsQuoteSp(s, sp string) string {
	var b strings.Builder
	q := byte('\'')
	if sp == "dq" {
		q = '"'
	}
	b.WriteByte(q)
	for _, r := range s {
		switch {
		case r == rune(q) || r == '\\':
			b.WriteByte('\\')
			b.WriteRune(r)
		case sp == "xa" && r < 0x100:
			fmt.Fprintf(&b, `\x%02x`, r)
		case sp == "x" && r < 0x100 && (r < 0x20 || r >= 0x7f):
			fmt.Fprintf(&b, `\x%02X`, r)
		case (sp == "u" || sp == "x" || sp == "xa") && (r < 0x20 || r >= 0x7f) && r < 0x10000:
			fmt.Fprintf(&b, `\u%04x`, r)
		case r < 0x20 || r == 0x2028 || r == 0x2029:
			fmt.Fprintf(&b, `\u%04x`, r)
		default:
			b.WriteRune(r)
		}
	}
	b.WriteByte(q)
	return b.String()
}

func isIdent(s string) bool {
	if s == "" {
		return false
	}
	for i, r := range s {
		if !(r == '_' || r == '$' || unicode.IsLetter(r) || (i > 0 && r >= '0' && r <= '9')) { // ES5 IdentifierName: Unicode letters
			return false
		}
	}
	return true
}

func paren(s string, yes bool) string {
	if yes {
		return "(" + s + ")"
	}
	return s
}

func printExpr(e J) string {
	switch e["t"] {
	case "num":
		if src, ok := e["src"].(string); ok {
			return src // the author's spelling of the literal (1.0, .5, 1e3, 0x10); "v" is its value in plain decimal
		}
		return e["v"].(string)
	case "str":
		if sp, ok := e["sp"].(string); ok {
			return jsQuoteSp(e["v"].(string), sp)
		}
		return jsQuote(e["v"].(string))
	case "bool":
		if e["v"].(bool) {
			return "true"
		}
		return "false"
	case "null":
		return "null"
	case "id":
		return e["n"].(string)
	case "bin":
		op := e["op"].(string)
		p := binPrec[op]
		l, r := asJ(e["l"]), asJ(e["r"])
		ls := paren(printExpr(l), prec(l) < p)
		rs := paren(printExpr(r), prec(r) <= p)
		return ls + " " + op + " " + rs
	case "un":
		x := asJ(e["e"])
		s := paren(printExpr(x), prec(x) < 10)
		if e["op"] == "-" && strings.HasPrefix(s, "-") {
			s = "(" + s + ")"
		}
		return e["op"].(string) + s
	case "cond":
		c, a, b := asJ(e["c"]), asJ(e["a"]), asJ(e["b"])
		return paren(printExpr(c), prec(c) <= 0) + " ? " + paren(printExpr(a), prec(a) < 0) + " : " + paren(printExpr(b), prec(b) < 0)
	case "arr":
		var ps []string
		for _, x := range asList(e["es"]) {
			ps = append(ps, printExpr(asJ(x)))
		}
		return "[" + strings.Join(ps, ", ") + "]"
	case "obj":
		var ps []string
		for _, kv := range asList(e["kv"]) {
			p := kv.([]interface{})
			k := p[0].(string)
			if !isIdent(k) {
				k = jsQuote(k)
			}
			ps = append(ps, k+": "+printExpr(asJ(p[1])))
		}
		return "{" + strings.Join(ps, ", ") + "}"
	case "dot":
		x := asJ(e["e"])
		s := paren(printExpr(x), prec(x) < 12 || x["t"] == "num" || x["t"] == "obj")
		return s + "." + e["n"].(string)
	case "idx":
		x := asJ(e["e"])
		s := paren(printExpr(x), prec(x) < 12 || x["t"] == "obj")
		return s + "[" + printExpr(asJ(e["i"])) + "]"
	case "call":
		f := asJ(e["f"])
		s := paren(printExpr(f), prec(f) < 12)
		var ps []string
		for _, x := range asList(e["args"]) {
			a := asJ(x)
			ps = append(ps, printExpr(a))
		}
		return s + "(" + strings.Join(ps, ", ") + ")"
	case "tpl":
		var b strings.Builder
		b.WriteByte('`')
		for _, p := range asList(e["parts"]) {
			if s, ok := p.(string); ok {
				b.WriteString(s)
			} else {
				b.WriteString("${" + printExpr(asJ(p)) + "}")
			}
		}
		b.WriteByte('`')
		return b.String()
	}
	panic(fmt.Sprintf("printExpr: %v", e))
}

// a snippet in statement position must not start with `{`
func printExprStmt(e J) string {
	s := printExpr(e)
	if strings.HasPrefix(s, "{") {
		return "(" + s + ")"
	}
	return s
}

func printStmt(s J) string {
	switch s["t"] {
	case "var":
		if s["e"] == nil {
			return "var " + s["n"].(string)
		}
		return "var " + s["n"].(string) + " = " + printExpr(asJ(s["e"]))
	case "assign":
		return printExpr(asJ(s["l"])) + " = " + printExpr(asJ(s["e"]))
	case "inc":
		return s["n"].(string) + "++"
	case "expr":
		return printExprStmt(asJ(s["e"]))
	}
	panic("printStmt")
}

// ---- structured document -> pug AST JSON (as produced by pug's parser and consumed by pugjs.Token) ----

func pugBlock(kids []interface{}) J {
	out := []interface{}{}
	for _, k := range kids {
		out = append(out, pugNodes(asJ(k))...)
	}
	return J{"type": "Block", "nodes": out}
}

func pugAttrs(as []interface{}) []interface{} {
	out := []interface{}{}
	for _, a := range as {
		aj := asJ(a)
		out = append(out, J{"name": aj["name"], "val": printExpr(asJ(aj["val"])), "mustEscape": aj["esc"]})
	}
	return out
}

func pugNodes(n J) []interface{} {
	switch n["t"] {
	case "text":
		return []interface{}{J{"type": "Text", "val": n["v"]}}
	case "doctype":
		return []interface{}{J{"type": "Doctype", "val": n["v"]}}
	case "tag":
		abs := []interface{}{}
		for _, ab := range asList(n["ablocks"]) {
			abs = append(abs, J{"type": "AttributeBlock", "val": ab})
		}
		sc, _ := n["sc"].(bool) // explicit `tag/` in the pug source: the AST carries selfClosing = true
		return []interface{}{J{"type": "Tag", "name": n["name"], "isInline": n["inline"], "selfClosing": sc,
			"attrs": pugAttrs(asList(n["attrs"])), "attributeBlocks": abs, "block": pugBlock(asList(n["kids"]))}}
	case "code":
		if n["buffer"].(bool) {
			return []interface{}{J{"type": "Code", "val": printExprStmt(asJ(n["e"])), "buffer": true, "mustEscape": n["esc"], "isInline": n["inline"]}}
		}
		var out []interface{}
		for _, s := range asList(n["stmts"]) {
			out = append(out, J{"type": "Code", "val": printStmt(asJ(s)), "buffer": false, "mustEscape": false, "isInline": n["inline"]})
		}
		return out
	case "if":
		c := J{"type": "Conditional", "test": printExpr(asJ(n["test"])), "consequent": pugBlock(asList(n["then"]))}
		switch e := n["else"].(type) {
		case nil:
			c["alternate"] = nil
		case []interface{}:
			c["alternate"] = pugBlock(e)
		default:
			c["alternate"] = pugNodes(asJ(e))[0]
		}
		return []interface{}{c}
	case "each":
		e := J{"type": "Each", "obj": printExpr(asJ(n["obj"])), "val": n["val"], "block": pugBlock(asList(n["kids"]))}
		if k, _ := n["key"].(string); k != "" {
			e["key"] = k
		}
		return []interface{}{e}
	case "while":
		return []interface{}{J{"type": "While", "test": printExpr(asJ(n["test"])), "block": pugBlock(asList(n["kids"]))}}
	case "case":
		whens := []interface{}{}
		for _, w := range asList(n["whens"]) {
			wj := asJ(w)
			ex := "default"
			if s, ok := wj["e"].(string); !ok || s != "default" {
				ex = printExpr(asJ(wj["e"]))
			}
			whens = append(whens, J{"type": "When", "expr": ex, "block": pugBlock(asList(wj["kids"]))})
		}
		return []interface{}{J{"type": "Case", "expr": printExpr(asJ(n["e"])), "block": J{"type": "Block", "nodes": whens}}}
	case "mixin":
		var ps []string
		for _, p := range asList(n["params"]) {
			ps = append(ps, p.(string))
		}
		return []interface{}{J{"type": "Mixin", "name": n["name"], "args": strings.Join(ps, ", "), "call": false,
			"attrs": []interface{}{}, "attributeBlocks": []interface{}{}, "block": pugBlock(asList(n["kids"]))}}
	case "call":
		var as []string
		for _, a := range asList(n["args"]) {
			as = append(as, printExpr(asJ(a)))
		}
		return []interface{}{J{"type": "Mixin", "name": n["name"], "args": strings.Join(as, ", "), "call": true,
			"attrs": pugAttrs(asList(n["attrs"])), "attributeBlocks": []interface{}{}, "block": pugBlock(asList(n["kids"]))}}
	case "block":
		return []interface{}{J{"type": "MixinBlock"}}
	}
	panic(fmt.Sprintf("pugNodes: %v", n["t"]))
}

func pugDoc(doc []interface{}) string {
	b, err := json.Marshal(pugBlock(doc))
	if err != nil {
		panic(err)
	}
	return string(b)
}
