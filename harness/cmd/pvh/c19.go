package main

import (
	"fmt"
	"io"
	"net/http"
	"net/http/httptest"
	"net/url"
	"os"
	"path"
	"path/filepath"
	"strings"

	"flamingo.me/dingo"
	"flamingo.me/flamingo/v3/framework/config"
	pugtemplate "flamingo.me/pugtemplate"
)

// C19: static assets and CORS, through the handler that Module.Configure registers on Module.DefaultMux.
//
// case kind "asset": {files:{rel: content} (below frontend/dist), dirs:[rel], outside:{rel: content} (below the scratch root), path:"/assets/...", direct:bool,
//                     origin:"..."|null, whitelist:[...]}
//   impl: {status, served:"<rel of the inside file whose bytes equal the body>"|"", leaks:[canary names found in the body], listing:bool, acao:<header value>|null}
// case kind "clean": {s:"..."}  impl: {out: path.Clean("/"+s)}   (ties the Lean model of path.Clean to the standard library)

func init() {
	generators["C19"] = genC19
	runners["asset"] = runAsset
	runners["clean"] = func(c Case) interface{} { return J{"class": "ok", "out": path.Clean("/" + str(c, "s"))} }
}

func runAsset(c Case) interface{} {
	root := filepath.Join(workRoot, fmt.Sprintf("assets-%d", os.Getpid()))
	os.RemoveAll(root)
	dist := filepath.Join(root, "frontend", "dist")
	os.MkdirAll(dist, 0o755)
	defer os.RemoveAll(root)
	inside := map[string]string{}
	for k, v := range c["files"].(map[string]interface{}) {
		p := filepath.Join(dist, k)
		os.MkdirAll(filepath.Dir(p), 0o755)
		os.WriteFile(p, []byte(v.(string)), 0o644)
		inside[k] = v.(string)
	}
	for _, d := range asList(c["dirs"]) {
		os.MkdirAll(filepath.Join(dist, d.(string)), 0o755)
	}
	outside := map[string]string{}
	for k, v := range c["outside"].(map[string]interface{}) {
		p := filepath.Join(root, k)
		os.MkdirAll(filepath.Dir(p), 0o755)
		os.WriteFile(p, []byte(v.(string)), 0o644)
		outside[k] = v.(string)
	}
	cwd, _ := os.Getwd()
	os.Chdir(root)
	defer os.Chdir(cwd)

	var wl config.Slice
	for _, w := range asList(c["whitelist"]) {
		wl = append(wl, w.(string))
	}
	mux := http.NewServeMux()
	m := &pugtemplate.Module{DefaultMux: mux, Whitelist: wl}
	inj, err := dingo.NewInjector()
	if err != nil {
		return J{"class": "harness-error", "msg": err.Error()}
	}
	func() {
		defer func() { recover() }() // bindings beyond the mux are irrelevant here
		m.Configure(inj)
	}()
	req := httptest.NewRequest("GET", "http://example.test/", nil)
	raw := str(c, "path")
	u, perr := url.ParseRequestURI(raw)
	if perr != nil {
		return J{"class": "ok", "status": 400, "served": "", "leaks": []interface{}{}, "listing": false, "acao": nil, "unparsable": true}
	}
	req.URL = u
	req.RequestURI = raw
	if o, ok := c["origin"].(string); ok {
		req.Header.Set("Origin", o)
	}
	w := httptest.NewRecorder()
	if d, _ := c["direct"].(bool); d {
		// bypass the mux's own path cleaning: the handler must be safe by itself
		h, _ := mux.Handler(httptest.NewRequest("GET", "http://example.test/assets/x", nil))
		h.ServeHTTP(w, req)
	} else {
		mux.ServeHTTP(w, req)
	}
	res := w.Result()
	body, _ := io.ReadAll(res.Body)
	served := ""
	for k, v := range inside {
		if string(body) == v && res.StatusCode == 200 {
			served = k
		}
	}
	leaks := []interface{}{}
	for k, v := range outside {
		if strings.Contains(string(body), v) {
			leaks = append(leaks, k)
		}
	}
	listing := strings.Contains(string(body), "<pre>") || strings.Contains(string(body), "<a href=")
	var acao interface{}
	if vals, ok := res.Header["Access-Control-Allow-Origin"]; ok {
		acao = strings.Join(vals, "|")
	}
	return J{"class": "ok", "status": res.StatusCode, "served": served, "leaks": leaks, "listing": listing && res.StatusCode == 200, "acao": acao, "bodylen": len(body)}
}

func genC19(r *Rng, n int, tier string, emit func(Case)) {
	segs := []string{"js", "css", "app.js", "main.css", "img", "logo.png", "..", ".", "", "assets", "%2e%2e", "%2E%2E", "..%2f", "%2f", "%5c", "..\\", "index.html", "a b", "é", "%00", "secret.txt", "dist", "frontend", "...", ".hidden"}
	for i := 0; i < n; i++ {
		rr := r.Fork()
		if i%5 == 4 {
			// path.Clean correspondence
			var parts []string
			for j := 0; j < rr.Range(0, 7); j++ {
				parts = append(parts, []string{"a", "b", "..", ".", "", "x.y", "..a", "a..", "...", " "}[rr.Intn(10)])
			}
			s := strings.Join(parts, "/")
			if rr.Chance(1, 4) {
				s = "/" + s
			}
			if rr.Chance(1, 4) {
				s += "/"
			}
			emit(Case{"kind": "clean", "s": s, "bucket": "clean"})
			continue
		}
		files := J{"js/app.js": "INSIDE-app-js", "css/main.css": "INSIDE-main-css", "logo.png": "INSIDE-logo", "js/index.html": "INSIDE-index", "assets/nested.txt": "INSIDE-nested",
			".hidden": "INSIDE-hidden", "a b": "INSIDE-space"}
		dirs := []interface{}{"img", "js/empty", "assets/deep"}
		// directories whose names look like files (version numbers, extensions), with content below them
		dotted := []string{"vendor/jquery-3.6.0", "img.d", "v1.2", "fonts.bak", "app.js.map.d", "css/theme.v2"}
		var dottedHere []string
		for _, d := range dotted {
			if rr.Chance(1, 2) {
				dottedHere = append(dottedHere, d)
				files[d+"/inner.txt"] = "INSIDE-dotted-" + d
				if rr.Bool() {
					files[d+"/LICENSE"] = "INSIDE-license"
				}
			}
		}
		// a directory whose `index.html` is itself a DIRECTORY (an export folder, an unpacked archive): still a directory, never listed
		idxDir := rr.Chance(1, 3)
		if idxDir {
			dirs = append(dirs, "export", "export/index.html")
			files["export/index.html/part.txt"] = "INSIDE-export-part"
			files["export/report.csv"] = "INSIDE-export-report"
		}
		outside := J{"secret.txt": "CANARY-root-secret", "frontend/secret.txt": "CANARY-frontend-secret", "frontend/dist.txt": "CANARY-dist-sibling", "frontend/distx/file": "CANARY-prefix-sibling"}
		var p string
		switch rr.Intn(6) {
		case 0:
			keys := []string{"js/app.js", "css/main.css", "logo.png", "assets/nested.txt", ".hidden", "js/index.html", "a%20b"}
			p = "/assets/" + keys[rr.Intn(len(keys))]
		case 1:
			p = "/assets/" + []string{"img", "img/", "js", "js/", "", "js/empty", "assets", "assets/"}[rr.Intn(8)]
			if len(dottedHere) > 0 && rr.Chance(2, 3) {
				p = "/assets/" + dottedHere[rr.Intn(len(dottedHere))] + []string{"", "/", "/inner.txt", "/."}[rr.Intn(4)]
			}
		case 2:
			if idxDir {
				p = "/assets/" + []string{"export/", "export", "export/index.html", "export/index.html/", "export/report.csv", "export/index.html/part.txt"}[rr.Intn(6)]
				break
			}
			fallthrough
		default:
			k := rr.Range(1, 7)
			var parts []string
			for j := 0; j < k; j++ {
				parts = append(parts, segs[rr.Intn(len(segs))])
			}
			p = "/assets/" + strings.Join(parts, "/")
			if rr.Chance(1, 6) {
				p = "/assets" + p // doubled prefix
			}
		}
		// CORS
		origins := []string{"http://a.test", "http://b.test", "http://evil.test", "http://a.test!http://b.test", "", "*", "http://a.test/", "a.test", "http://a.tes", "!", "null",
			// case and Unicode-fold variants of members, longer strings with a member as prefix, and the request's own host
			"HTTP://A.TEST", "http://A.test", "http://a.teſt", "http://a.test.evil.example", "http://a.test:8080", "http://example.test", "https://example.test", "http://EXAMPLE.test"}
		var origin interface{}
		if rr.Chance(4, 5) {
			origin = origins[rr.Intn(len(origins))]
		}
		wls := [][]interface{}{{"http://a.test", "http://b.test"}, {}, {"*"}, {"http://a.test"}, {"http://a.test/", "http://c.test"}, {"http://a.test", "*"}, {""}}
		upath := ""
		if u, err := url.ParseRequestURI(p); err == nil {
			upath = u.Path
		}
		emit(Case{"kind": "asset", "files": files, "dirs": dirs, "outside": outside, "path": p, "upath": upath, "direct": rr.Chance(1, 2), "origin": origin,
			"whitelist": wls[rr.Intn(len(wls))], "bucket": "asset"})
	}
}
