package main

import (
	"fmt"
	"math/big"
	"reflect"
	"strconv"
	"strings"

	"flamingo.me/pugtemplate/templatefunctions"
)

// C18: Math.min/max/ceil/trunc/round and parseInt.
//
// case: {kind:"math", fn, args:[decimal strings], via:"lit"|"var"|"direct"}  (numbers)
//       {kind:"math", fn:"parseInt", args:["<digits>"], via:"str-lit"|"str-var"}
// impl: {class, out}: printed text (engine paths) or exact rational "n/d" (direct path)

func init() {
	generators["C18"] = genC18
	runners["math"] = runMath
}

func decOf(num int64, scale int) string { // num / 10^scale as decimal string
	neg := num < 0
	if neg {
		num = -num
	}
	s := strconv.FormatInt(num, 10)
	if scale > 0 {
		for len(s) <= scale {
			s = "0" + s
		}
		s = s[:len(s)-scale] + "." + s[len(s)-scale:]
		s = strings.TrimRight(s, "0")
		s = strings.TrimSuffix(s, ".")
	}
	if neg && s != "0" {
		s = "-" + s
	}
	return s
}

func genNum(r *Rng, dyadicOnly bool) string {
	switch r.Intn(10) {
	case 0:
		return "0"
	case 1, 2: // small integers, both signs
		return strconv.Itoa(r.Range(-6, 6))
	case 3, 4: // halves
		return decOf(int64(r.Range(-13, 13))*5, 1)
	case 5: // quarters / eighths
		if r.Bool() {
			return decOf(int64(r.Range(-40, 40))*25, 2)
		}
		return decOf(int64(r.Range(-80, 80))*125, 3)
	case 6: // tenths (not dyadic)
		if dyadicOnly {
			return decOf(int64(r.Range(-99, 99))*5, 1)
		}
		return decOf(int64(r.Range(-99, 99)), 1)
	case 7: // larger integers
		return strconv.Itoa(r.Range(-1000000, 1000000))
	case 8: // near-half fractions with more digits
		if dyadicOnly {
			return decOf(int64(r.Range(-2000, 2000))*125, 3)
		}
		return decOf(int64(r.Range(-2000, 2000))*1000+int64(r.Pick([]string{"499", "500", "501", "999", "1"})[0]-'0')*100+int64(r.Intn(100)), 3)
	case 9:
		// eight and nine significant digits next to an integer or a half: exact in float64, not in float32
		if !dyadicOnly && r.Bool() {
			return []string{"2.49999999", "3.00000001", "1.99999999", "7.99999999", "-2.50000001", "1234.5678", "0.30000001", "16777217.5", "-0.49999999", "99999.9999"}[r.Intn(10)]
		}
		return decOf(int64(r.Range(-9, 9))*5, 1)
	default:
		return decOf(int64(r.Range(-9, 9))*5, 1)
	}
}

func genC18(r *Rng, n int, tier string, emit func(Case)) {
	fns := []string{"min", "max", "ceil", "trunc", "round", "parseInt"}
	for i := 0; i < n; i++ {
		fn := fns[r.Intn(len(fns))]
		via := []string{"lit", "var", "direct", "mixed"}[r.Intn(4)]
		var args []string
		switch fn {
		case "min", "max":
			k := r.Range(1, 6)
			base := ""
			for j := 0; j < k; j++ {
				a := genNum(r, via == "direct")
				if base != "" && r.Chance(1, 4) {
					a = base // equal arguments
				}
				base = a
				args = append(args, a)
			}
		case "parseInt":
			if r.Chance(1, 2) {
				// decimal digit string
				d := strconv.Itoa(r.Range(0, 999999))
				if r.Chance(1, 4) {
					d = "00" + d
				}
				if r.Chance(1, 4) {
					d = "-" + d
				}
				args = []string{d}
				via = []string{"str-lit", "str-var", "str-direct"}[r.Intn(3)]
			} else {
				args = []string{genNum(r, via == "direct")}
			}
		default:
			args = []string{genNum(r, via == "direct")}
		}
		emit(Case{"kind": "math", "fn": fn, "args": args, "via": via})
	}
}

func parseDec(s string) float64 {
	f, err := strconv.ParseFloat(s, 64)
	if err != nil {
		panic(err)
	}
	return f
}

func ratOfFloat(f float64) string {
	r := new(big.Rat)
	if r.SetFloat64(f) == nil {
		return fmt.Sprint(f)
	}
	return r.RatString()
}

func runMath(c Case) interface{} {
	fn := str(c, "fn")
	args := strs(c, "args")
	via := str(c, "via")
	if via == "direct" || via == "str-direct" {
		return mathDirect(fn, args, via)
	}
	// through the engine: `= Math.fn(a0, a1, ...)`
	data := map[string]interface{}{}
	var parts []string
	for i, a := range args {
		asVar := via == "var" || via == "str-var" || (via == "mixed" && i%2 == 0)
		isStr := strings.HasPrefix(via, "str-")
		if asVar {
			name := fmt.Sprintf("a%d", i)
			if isStr {
				data[name] = a
			} else if !strings.Contains(a, ".") && i%3 == 0 {
				iv, _ := strconv.Atoi(a)
				data[name] = iv // Go int in the data
			} else {
				data[name] = parseDec(a)
			}
			parts = append(parts, name)
		} else if isStr {
			parts = append(parts, "'"+a+"'")
		} else {
			parts = append(parts, a)
		}
	}
	callee := "Math." + fn
	if fn == "parseInt" {
		callee = "parseInt"
	}
	js := callee + "(" + strings.Join(parts, ", ") + ")"
	res := renderOne(docOf(codeNode(js, true, true)), data, false, nil)
	return J{"class": res.Class, "out": res.Out, "msg": res.Msg, "js": js}
}

func mathDirect(fn string, args []string, via string) (res interface{}) {
	defer func() {
		if r := recover(); r != nil {
			res = J{"class": "panic", "msg": fmt.Sprint(r)}
		}
	}()
	m := templatefunctions.Math{}
	var xs []interface{}
	for i, a := range args {
		if via == "str-direct" {
			xs = append(xs, a)
		} else if !strings.Contains(a, ".") && i%2 == 0 {
			iv, _ := strconv.Atoi(a)
			xs = append(xs, iv)
		} else {
			xs = append(xs, parseDec(a))
		}
	}
	var out string
	switch fn {
	case "min":
		out = ratOfFloat(m.Min(xs...))
	case "max":
		out = ratOfFloat(m.Max(xs...))
	case "ceil":
		out = strconv.Itoa(m.Ceil(xs[0]))
	case "trunc":
		out = strconv.Itoa(m.Trunc(xs[0]))
	case "round":
		out = strconv.Itoa(m.Round(xs[0]))
	case "parseInt":
		f := (&templatefunctions.ParseInt{}).Func(nil)
		rv := reflect.ValueOf(f).Call([]reflect.Value{reflect.ValueOf(xs[0])})
		out = strconv.FormatInt(rv[0].Int(), 10)
	}
	return J{"class": "ok", "out": out}
}
