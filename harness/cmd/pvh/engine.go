package main

import (
	"bytes"
	"context"
	"encoding/json"
	"fmt"
	"io"
	"os"
	"path/filepath"
	"strconv"
	"strings"

	"flamingo.me/flamingo/v3/framework/flamingo"
	"flamingo.me/pugtemplate/pugjs"
	"flamingo.me/pugtemplate/templatefunctions"
)

// workRoot is the scratch root (never /tmp for registered commands: /verif/.work/...)
var workRoot = func() string {
	if d := os.Getenv("PVH_WORK"); d != "" {
		return d
	}
	return "/verif/.work/run"
}()

type tfunc struct {
	f func(ctx context.Context) interface{}
}

func (t tfunc) Func(ctx context.Context) interface{} { return t.f(ctx) }

type whoKey struct{}

// plainFunc wraps an ordinary Go function as flamingo.TemplateFunc
func plainFunc(f interface{}) flamingo.TemplateFunc {
	return tfunc{func(context.Context) interface{} { return f }}
}

// moduleFuncs are the module's real template functions that need no injected services
func moduleFuncs() map[string]flamingo.TemplateFunc {
	return map[string]flamingo.TemplateFunc{
		"Math":       templatefunctions.JsMath{},
		"Object":     templatefunctions.JsObject{},
		"JSON":       templatefunctions.JsJSON{},
		"startsWith": &templatefunctions.StartsWithFunc{},
		"truncate":   &templatefunctions.TruncateFunc{},
		"stripTags":  templatefunctions.StriptagsFunc{},
		"capitalize": &templatefunctions.CapitalizeFunc{},
		"trim":       &templatefunctions.TrimFunc{},
		"escapeHtml": &templatefunctions.EscapeHTMLFunc{},
		"parseInt":   &templatefunctions.ParseInt{},
		"debug":      templatefunctions.DebugFunc{},
		// a function bound to the request context, as url() / get() / data() of a flamingo application are: it answers with
		// what THIS render's context carries
		"vpWho": tfunc{func(ctx context.Context) interface{} {
			return func() string {
				if v, ok := ctx.Value(whoKey{}).(string); ok {
					return "who:" + v + ";"
				}
				return "who:nobody;"
			}
		}},
		"vpIdent": plainFunc(func(x interface{}) interface{} { return x }),
		// an application that registers a template function called "range" makes `range(a, b)` compile to the built-in __Range
		"range": plainFunc(func(x interface{}) interface{} { return x }),
	}
}

type EngineSpec struct {
	Files     map[string]string // name (without .ast.json) -> AST JSON
	Debug     bool
	RateLimit int
	// how the limit gets onto the engine: "" = NewEngineWithOptions(WithRateLimit(n)); "after:<k>" = WithRateLimit(k), then
	// WithRateLimit(n) (the later option decides); "inject" = NewEngine(nil) (which pre-sets 8) followed by Inject{RateLimit: n},
	// the path the dependency injection takes
	RateLimitVia string
	Extra        map[string]flamingo.TemplateFunc
	Manifest     string // content of manifest.json ("" = no file); also registers the module's asset() function
}

type Eng struct {
	E   *pugjs.Engine
	Dir string
}

var engCounter int

func newEngine(spec EngineSpec) (*Eng, error) {
	engCounter++
	// a unique, EMPTY directory: a left-over directory of a killed process whose pid was reused must never be picked up
	if err := os.MkdirAll(workRoot, 0o755); err != nil {
		return nil, err
	}
	dir, err := os.MkdirTemp(workRoot, fmt.Sprintf("e%d-%d-", os.Getpid(), engCounter))
	if err != nil {
		return nil, err
	}
	if err := os.MkdirAll(filepath.Join(dir, "template", "page"), 0o755); err != nil {
		return nil, err
	}
	for name, ast := range spec.Files {
		p := filepath.Join(dir, "template", "page", name+".ast.json")
		if err := os.MkdirAll(filepath.Dir(p), 0o755); err != nil {
			return nil, err
		}
		if err := os.WriteFile(p, []byte(ast), 0o644); err != nil {
			return nil, err
		}
	}
	var e *pugjs.Engine
	switch {
	case spec.RateLimitVia == "inject":
		e = pugjs.NewEngine(nil)
		e.Inject(&struct {
			RateLimit float64 `inject:"config:pug_template.ratelimit"`
		}{float64(spec.RateLimit)})
	case strings.HasPrefix(spec.RateLimitVia, "after:"):
		k, _ := strconv.Atoi(strings.TrimPrefix(spec.RateLimitVia, "after:"))
		e = pugjs.NewEngineWithOptions(pugjs.WithRateLimit(k), pugjs.WithRateLimit(spec.RateLimit))
	default:
		e = pugjs.NewEngineWithOptions(pugjs.WithRateLimit(spec.RateLimit))
	}
	e.Basedir = dir
	e.Debug = spec.Debug
	e.Logger = flamingo.NullLogger{}
	funcs := moduleFuncs()
	for k, v := range spec.Extra {
		funcs[k] = v
	}
	if spec.Manifest != "" {
		if err := os.WriteFile(filepath.Join(dir, "manifest.json"), []byte(spec.Manifest), 0o644); err != nil {
			return nil, err
		}
		funcs["asset"] = assetFunc(e)
	}
	e.FuncProvider = func() map[string]flamingo.TemplateFunc { return funcs }
	return &Eng{E: e, Dir: dir}, nil
}

func (e *Eng) Close() { os.RemoveAll(e.Dir) }

// Result of one API call, canonicalised
type Result struct {
	Class string `json:"class"` // ok | notfound | load-error | load-panic | exec-error | panic | error
	Out   string `json:"out"`
	Msg   string `json:"msg,omitempty"`
}

func classifyPanic(r interface{}) Result {
	switch v := r.(type) {
	case pugjs.ExecError:
		return Result{Class: "exec-error", Msg: firstLine(v.Error())}
	case error:
		return Result{Class: "panic", Msg: firstLine(v.Error())}
	default:
		return Result{Class: "panic", Msg: firstLine(fmt.Sprint(v))}
	}
}

func firstLine(s string) string {
	if i := strings.IndexByte(s, '\n'); i >= 0 {
		s = s[:i]
	}
	if len(s) > 2000 { // longer than any generated template name plus the message around it
		s = s[:2000]
	}
	return s
}

func (e *Eng) Load(filter string) (res Result) {
	defer func() {
		if r := recover(); r != nil {
			res = classifyPanic(r)
			res.Class = "load-panic"
		}
	}()
	if err := e.E.LoadTemplates(filter); err != nil {
		return Result{Class: "load-error", Msg: firstLine(err.Error())}
	}
	return Result{Class: "ok"}
}

func (e *Eng) Render(ctx context.Context, name string, data interface{}) (res Result) {
	defer func() {
		if r := recover(); r != nil {
			res = classifyPanic(r)
		}
	}()
	rd, err := e.E.Render(ctx, name, data)
	if err != nil {
		msg := firstLine(err.Error())
		if full := err.Error(); strings.HasPrefix(full, "Template ") && strings.HasSuffix(full, " not found!") {
			return Result{Class: "notfound", Msg: msg} // classified on the whole message: firstLine cuts long names
		}
		return Result{Class: "error", Msg: msg}
	}
	var b bytes.Buffer
	io.Copy(&b, rd)
	// a reader may be asked again after its end (bufio, json.Decoder, a second io.ReadAll do): it answers 0, EOF - and that is all it does
	var again [8]byte
	if n, err := rd.Read(again[:]); n != 0 || err != io.EOF {
		return Result{Class: "error", Msg: fmt.Sprintf("read after the end of the page returned %d, %v", n, err)}
	}
	return Result{Class: "ok", Out: b.String()}
}

// RenderBeforeRead renders `name`, then - BEFORE the result is read - renders the template `other` and reads that; only then is
// the first result read. A result must not depend on when its reader is consumed (RenderPartials and every concurrent request
// hold several results at a time).
func (e *Eng) RenderBeforeRead(ctx context.Context, name string, data interface{}, other string) (res Result) {
	defer func() {
		if r := recover(); r != nil {
			res = classifyPanic(r)
		}
	}()
	rd, err := e.E.Render(ctx, name, data)
	if err != nil {
		msg := firstLine(err.Error())
		if full := err.Error(); strings.HasPrefix(full, "Template ") && strings.HasSuffix(full, " not found!") {
			return Result{Class: "notfound", Msg: msg}
		}
		return Result{Class: "error", Msg: msg}
	}
	if o := e.Render(ctx, other, map[string]interface{}{}); o.Class != "ok" || o.Out != otherText {
		return Result{Class: "harness-error", Msg: "the neighbour template rendered as " + o.Class + " " + o.Out + " " + o.Msg}
	}
	var b bytes.Buffer
	io.Copy(&b, rd)
	return Result{Class: "ok", Out: b.String()}
}

const otherName, otherText = "zz0other", "~"

// renderOne: one template "t" (plus optional extra files), explicit load then render.
func renderOne(ast string, data interface{}, debug bool, extra map[string]flamingo.TemplateFunc) Result {
	return renderAmong(map[string]string{"t": ast}, data, debug, extra)
}

// renderAmong: template "t" is rendered on an engine that holds the given files (t and its neighbours in the same directory)
func renderAmong(files map[string]string, data interface{}, debug bool, extra map[string]flamingo.TemplateFunc) Result {
	return renderAmongM(files, data, debug, extra, "")
}

// renderAmongM: the same with an asset manifest next to the templates (and the module's asset() function registered)
func renderAmongM(files map[string]string, data interface{}, debug bool, extra map[string]flamingo.TemplateFunc, manifest string) Result {
	withOther := map[string]string{otherName: docOf(textNode(otherText))}
	for k, v := range files {
		withOther[k] = v
	}
	eng, err := newEngine(EngineSpec{Files: withOther, Debug: debug, Extra: extra, Manifest: manifest})
	if err != nil {
		return Result{Class: "harness-error", Msg: err.Error()}
	}
	defer eng.Close()
	if !debug {
		if r := eng.Load(""); r.Class != "ok" {
			return r
		}
		res := eng.RenderBeforeRead(context.Background(), "t", data, otherName)
		// the same file compiled a second time by the same engine (a filtered load after the first one), rendered again: a template
		// is a function of its file, not of how often the file was read
		if res.Class == "ok" {
			if r := eng.Load("t"); r.Class != "ok" {
				return Result{Class: "recompile-differs", Msg: "filtered reload failed: " + r.Msg}
			}
			if again := eng.RenderBeforeRead(context.Background(), "t", data, otherName); again != res {
				return Result{Class: "recompile-differs", Out: again.Out, Msg: "first render: " + res.Out}
			}
		}
		return res
	}
	// debug mode loads inside Render (every render compiles the file again)
	var res Result
	func() {
		defer func() {
			if r := recover(); r != nil {
				res = classifyPanic(r)
			}
		}()
		res = eng.RenderBeforeRead(context.Background(), "t", data, otherName)
		if res.Class == "ok" {
			if again := eng.RenderBeforeRead(context.Background(), "t", data, otherName); again != res {
				res = Result{Class: "recompile-differs", Out: again.Out, Msg: "first render: " + res.Out}
			}
		}
	}()
	return res
}

// ---- pug AST construction helpers (JSON form of pug's AST as consumed by pugjs.Token) ----

type J = map[string]interface{}

func blockOf(nodes ...interface{}) J {
	if nodes == nil {
		nodes = []interface{}{}
	}
	return J{"type": "Block", "nodes": nodes}
}

func docOf(nodes ...interface{}) string {
	b, _ := json.Marshal(blockOf(nodes...))
	return string(b)
}

func codeNode(js string, buffer, escape bool) J {
	return J{"type": "Code", "val": js, "buffer": buffer, "mustEscape": escape, "isInline": buffer}
}

func textNode(s string) J { return J{"type": "Text", "val": s} }

func tagNode(name string, inline bool, attrs []interface{}, kids ...interface{}) J {
	if attrs == nil {
		attrs = []interface{}{}
	}
	return J{"type": "Tag", "name": name, "isInline": inline, "attrs": attrs, "attributeBlocks": []interface{}{}, "block": blockOf(kids...)}
}
