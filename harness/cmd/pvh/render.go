package main

import "fmt"

// kind "render": {doc:[Node], data:{...}, debug:bool}; impl = {class, out, msg, src?}

func init() {
	runners["render"] = runRender
}

func runRender(c Case) interface{} {
	doc := asList(c["doc"])
	ast := pugDoc(doc)
	if m, _ := c["modes"].(string); m == "both" {
		files := map[string]string{"t": ast}
		for i, sd := range asList(c["siblings"]) {
			files[[]string{"a", "u", "m", "z0"}[i%4]+fmt.Sprint(i)] = pugDoc(asList(sd))
		}
		manifest, _ := c["manifest"].(string)
		p := renderAmongM(files, c["data"], false, nil, manifest)
		d := renderAmongM(files, c["data"], true, nil, manifest)
		return J{"prod": J{"class": p.Class, "out": p.Out, "msg": p.Msg}, "debug": J{"class": d.Class, "out": d.Out, "msg": d.Msg}}
	}
	if sub, ok := c["subst"].(map[string]interface{}); ok {
		// C04: render with the hostile value and with a harmless marker in its place
		data := c["data"].(map[string]interface{})
		h := renderOne(ast, data, false, nil)
		d2 := map[string]interface{}{}
		for k, v := range data {
			d2[k] = v
		}
		substMarker(d2, sub["hostile"].(string), sub["marker"].(string))
		m := renderOne(ast, d2, false, nil)
		return J{"class": h.Class, "out": h.Out, "msg": h.Msg, "marker_class": m.Class, "marker_out": m.Out, "tok": tokenize(h.Out)}
	}
	if o, _ := c["oracle"].(string); o == "attrs" {
		res := renderOne(ast, c["data"], false, nil)
		return J{"class": res.Class, "out": res.Out, "msg": res.Msg, "tok": tokenize(res.Out)}
	}
	debug, _ := c["debug"].(bool)
	if _, marked := c["go_data"]; marked {
		c["data"] = reviveGo(c["data"]) // {"__go": ...} markers become Go values a JSON file cannot carry
	}
	if sib := asList(c["siblings"]); len(sib) > 0 {
		// other page templates in the SAME directory (names sorting before and after "t"): what they define must not leak
		files := map[string]string{"t": ast}
		for i, sd := range sib {
			files[[]string{"a", "u", "m", "z0"}[i%4]+fmt.Sprint(i)] = pugDoc(asList(sd))
		}
		res := renderAmong(files, c["data"], debug, nil)
		return J{"class": res.Class, "out": res.Out, "msg": res.Msg}
	}
	res := renderOne(ast, c["data"], debug, nil)
	return J{"class": res.Class, "out": res.Out, "msg": res.Msg}
}

// substMarker replaces every string equal to hostile (at any depth) by marker, in a copy
func substMarker(x interface{}, hostile, marker string) interface{} {
	switch v := x.(type) {
	case map[string]interface{}:
		for k, e := range v {
			v[k] = substMarker(copyVal(e), hostile, marker)
		}
		return v
	case []interface{}:
		for i, e := range v {
			v[i] = substMarker(copyVal(e), hostile, marker)
		}
		return v
	case string:
		if v == hostile {
			return marker
		}
	}
	return x
}

func copyVal(x interface{}) interface{} {
	switch v := x.(type) {
	case map[string]interface{}:
		m := map[string]interface{}{}
		for k, e := range v {
			m[k] = copyVal(e)
		}
		return m
	case []interface{}:
		a := make([]interface{}, len(v))
		for i, e := range v {
			a[i] = copyVal(e)
		}
		return a
	}
	return x
}
