package main

// kind "render": {doc:[Node], data:{...}, debug:bool}; impl = {class, out, msg, src?}

func init() {
	runners["render"] = runRender
}

func runRender(c Case) interface{} {
	doc := asList(c["doc"])
	ast := pugDoc(doc)
	debug, _ := c["debug"].(bool)
	res := renderOne(ast, c["data"], debug, nil)
	return J{"class": res.Class, "out": res.Out, "msg": res.Msg}
}
