package main

// kind "render": {doc:[Node], data:{...}, debug:bool}; impl = {class, out, msg, src?}

func init() {
	runners["render"] = runRender
}

func runRender(c Case) interface{} {
	doc := asList(c["doc"])
	ast := pugDoc(doc)
	if m, _ := c["modes"].(string); m == "both" {
		p := renderOne(ast, c["data"], false, nil)
		d := renderOne(ast, c["data"], true, nil)
		return J{"prod": J{"class": p.Class, "out": p.Out, "msg": p.Msg}, "debug": J{"class": d.Class, "out": d.Out, "msg": d.Msg}}
	}
	debug, _ := c["debug"].(bool)
	res := renderOne(ast, c["data"], debug, nil)
	return J{"class": res.Class, "out": res.Out, "msg": res.Msg}
}
