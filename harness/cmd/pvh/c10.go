package main

import (
	"bytes"
	"context"
	"encoding/json"
	"fmt"
	"os"
	"path/filepath"
	"runtime"
	"sort"
	"strconv"
	"strings"
	"sync"
	"time"

	"flamingo.me/pugtemplate/pugjs"
)

// C10: template loading.
//
// case kind "loadseq": sequential history on one engine
//   {debug:bool, files:{name:content}, ops:[{op:"load",filter}|{op:"render",name}|{op:"write",name,content}|{op:"break",name}|{op:"remove",name}]}
//   impl: {results:[...]}  one result per op: load -> ok|error ; render -> ok:<content>|notfound|error
// case kind "loadconc": k concurrent renders (optionally an explicit load) on a cold engine under a schedule driven through the verif yield points
//   {debug:bool, files:{...}, threads:[{name}|{load:true}], schedule:[thread indices...]}
//   impl: {results:[...]} one per thread
//
// file content c means: a template printing the text c (so that stale/fresh content is observable)

func init() {
	generators["C10"] = genC10
	runners["loadseq"] = runLoadSeq
	runners["loadconc"] = runLoadConc
}

func tplOf(content string) string { return docOf(textNode(content)) }

func writeTpl(dir, name, content string) {
	p := filepath.Join(dir, "template", "page", name+".ast.json")
	os.MkdirAll(filepath.Dir(p), 0o755)
	os.WriteFile(p, []byte(tplOf(content)), 0o644)
}

func renderResult(r Result) string {
	switch r.Class {
	case "ok":
		return "ok:" + r.Out
	case "notfound":
		return "notfound"
	}
	return "error"
}

func setupTree(c Case) (*Eng, error) {
	files := map[string]string{}
	for k, v := range c["files"].(map[string]interface{}) {
		files[k] = tplOf(v.(string))
	}
	debug, _ := c["debug"].(bool)
	// "ratelimit": the engine carries a render limit, as the module's default configuration does (8): a load that fails inside a
	// render must give its slot back like every other way out, or the engine stops answering once the repaired file is there
	rl := 0
	if v, ok := c["ratelimit"].(float64); ok {
		rl = int(v)
	}
	eng, err := newEngine(EngineSpec{Files: files, Debug: debug, RateLimit: rl})
	if err != nil {
		return nil, err
	}
	// files that must NOT be picked up: wrong suffix, outside the page directory
	os.WriteFile(filepath.Join(eng.Dir, "template", "page", "notes.txt"), []byte("x"), 0o644)
	os.WriteFile(filepath.Join(eng.Dir, "template", "page", "other.json"), []byte("{}"), 0o644)
	os.MkdirAll(filepath.Join(eng.Dir, "template", "mixin"), 0o755)
	os.WriteFile(filepath.Join(eng.Dir, "template", "mixin", "outside.ast.json"), []byte(tplOf("outside")), 0o644)
	return eng, nil
}

func runLoadSeq(c Case) interface{} {
	eng, err := setupTree(c)
	if err != nil {
		return J{"class": "harness-error", "msg": err.Error()}
	}
	defer eng.Close()
	var results []interface{}
	for _, o := range asList(c["ops"]) {
		op := asJ(o)
		switch op["op"] {
		case "load":
			f, _ := op["filter"].(string)
			r := eng.Load(f)
			if r.Class == "ok" {
				results = append(results, "ok")
			} else {
				results = append(results, "error")
			}
		case "render":
			ctx := context.Background()
			if rl, ok := c["ratelimit"].(float64); ok && rl > 0 {
				var cancel context.CancelFunc
				ctx, cancel = context.WithTimeout(ctx, 2*time.Second) // a render that cannot get a slot ends here instead of hanging
				defer cancel()
			}
			results = append(results, renderResult(eng.Render(ctx, op["name"].(string), nil)))
		case "write":
			// "mtime": how the new content arrives - "" an ordinary edit (now), "keep" the file keeps the modification time it
			// had (cp -p, rsync -t, a restore tool), "old" an older file is moved in (mv page.bak page, tar x, git checkout of a tag)
			p := filepath.Join(eng.Dir, "template", "page", op["name"].(string)+".ast.json")
			var before time.Time
			if fi, err := os.Stat(p); err == nil {
				before = fi.ModTime()
			}
			writeTpl(eng.Dir, op["name"].(string), op["content"].(string))
			switch op["mtime"] {
			case "keep":
				if !before.IsZero() {
					os.Chtimes(p, before, before)
				}
			case "old":
				t := time.Date(2001, 2, 3, 4, 5, 6, 0, time.UTC)
				os.Chtimes(p, t, t)
			}
			results = append(results, "done")
		case "break":
			p := filepath.Join(eng.Dir, "template", "page", op["name"].(string)+".ast.json")
			os.MkdirAll(filepath.Dir(p), 0o755)
			// the ways a template file is broken in practice: not JSON at all, cut short, empty, a new version APPENDED to the old
			// one (two documents), the stale tail of a longer previous version behind the closing brace
			cur, _ := os.ReadFile(p)
			if len(cur) == 0 || !json.Valid(cur) {
				writeTpl(eng.Dir, op["name"].(string), "older")
				cur, _ = os.ReadFile(p)
			}
			switch op["how"] {
			case "truncated":
				os.WriteFile(p, cur[:len(cur)/2], 0o644)
			case "empty":
				os.WriteFile(p, nil, 0o644)
			case "two-documents":
				os.WriteFile(p, append(append(append([]byte{}, cur...), '\n'), cur...), 0o644)
			case "stale-tail":
				os.WriteFile(p, append(append([]byte{}, cur...), []byte(`,"line":1}]}`)...), 0o644)
			default:
				os.WriteFile(p, []byte("{ this is not json"), 0o644)
			}
			results = append(results, "done")
		case "remove":
			os.Remove(filepath.Join(eng.Dir, "template", "page", op["name"].(string)+".ast.json"))
			results = append(results, "done")
		case "manifest":
			if content, _ := op["content"].(string); content == "" {
				os.Remove(filepath.Join(eng.Dir, "manifest.json"))
			} else {
				os.WriteFile(filepath.Join(eng.Dir, "manifest.json"), []byte(content), 0o644)
			}
			results = append(results, "done")
		}
	}
	return J{"class": "ok", "results": results}
}

var c10breaks = []string{"garbage", "truncated", "empty", "two-documents", "stale-tail", "two-documents"}

// ---- hook-driven scheduler ----

func goid() int {
	var buf [64]byte
	n := runtime.Stack(buf[:], false)
	f := strings.Fields(string(bytes.TrimPrefix(buf[:n], []byte("goroutine "))))
	id, _ := strconv.Atoi(f[0])
	return id
}

type sched struct {
	mu      sync.Mutex
	byGoid  map[int]int       // goroutine id -> thread index
	parked  map[int]chan bool // thread index -> release channel while parked at a yield point
	point   map[int]string
	done    map[int]bool
	arrived chan int
}

var schedMu sync.Mutex // one scheduled run at a time (VerifYield is a package variable)

func runLoadConc(c Case) interface{} {
	schedMu.Lock()
	defer schedMu.Unlock()
	eng, err := setupTree(c)
	if err != nil {
		return J{"class": "harness-error", "msg": err.Error()}
	}
	defer eng.Close()
	threads := asList(c["threads"])
	s := &sched{byGoid: map[int]int{}, parked: map[int]chan bool{}, point: map[int]string{}, done: map[int]bool{}, arrived: make(chan int, 1024)}
	pugjs.VerifYield = func(point string) {
		g := goid()
		s.mu.Lock()
		idx, ok := s.byGoid[g]
		if !ok {
			s.mu.Unlock()
			return
		}
		ch := make(chan bool)
		s.parked[idx] = ch
		s.point[idx] = point
		s.mu.Unlock()
		s.arrived <- idx
		<-ch
	}
	defer func() { pugjs.VerifYield = nil }()
	results := make([]string, len(threads))
	var wg sync.WaitGroup
	for i, t := range threads {
		i, tj := i, asJ(t)
		wg.Add(1)
		started := make(chan struct{})
		go func() {
			defer wg.Done()
			s.mu.Lock()
			s.byGoid[goid()] = i
			s.mu.Unlock()
			close(started)
			// every thread first parks at an artificial start point, so that the schedule decides who begins
			pugjs.VerifYield("start")
			if b, _ := tj["load"].(bool); b {
				r := eng.Load("")
				if r.Class == "ok" {
					results[i] = "ok"
				} else {
					results[i] = "error"
				}
			} else {
				results[i] = renderResult(eng.Render(context.Background(), tj["name"].(string), nil))
			}
			s.mu.Lock()
			s.done[i] = true
			s.mu.Unlock()
			s.arrived <- -1 - i
		}()
		<-started
	}
	// wait until every thread is parked at "start"
	for n := 0; n < len(threads); n++ {
		<-s.arrived
	}
	schedule := asList(c["schedule"])
	pos := 0
	var trace []interface{}
	for steps := 0; steps < 400; steps++ {
		s.mu.Lock()
		var ready []int
		for idx := range s.parked {
			ready = append(ready, idx)
		}
		alldone := len(s.done) == len(threads)
		s.mu.Unlock()
		if alldone {
			break
		}
		if len(ready) == 0 {
			// everybody runs or is blocked on the engine's lock: wait for the next arrival
			select {
			case <-s.arrived:
			case <-time.After(2 * time.Second):
				steps = 1000 // deadlock: give up
			}
			continue
		}
		sort.Ints(ready)
		choice := 0
		if pos < len(schedule) {
			choice = int(schedule[pos].(float64))
			pos++
		}
		idx := ready[choice%len(ready)]
		s.mu.Lock()
		ch := s.parked[idx]
		pt := s.point[idx]
		delete(s.parked, idx)
		s.mu.Unlock()
		trace = append(trace, fmt.Sprintf("%d@%s", idx, pt))
		ch <- true
		// let it run until it parks again, finishes, or blocks on the lock (no arrival within a short time)
		select {
		case <-s.arrived:
		case <-time.After(3 * time.Millisecond):
		}
	}
	// release anything still parked
	fin := make(chan struct{})
	go func() { wg.Wait(); close(fin) }()
	for {
		s.mu.Lock()
		for idx, ch := range s.parked {
			delete(s.parked, idx)
			go func(ch chan bool) { ch <- true }(ch)
		}
		s.mu.Unlock()
		select {
		case <-fin:
			out := make([]interface{}, len(results))
			for i, r := range results {
				out[i] = r
			}
			return J{"class": "ok", "results": out, "trace": trace}
		case <-s.arrived:
		case <-time.After(3 * time.Second):
			return J{"class": "ok", "results": []interface{}{}, "trace": trace, "deadlock": true}
		}
	}
}

// ---- generator ----

var c10names = []string{"home", "a", "a/b", "a/b/c", "ab", "shop/cart", "shop/cart.partial/mini", "x.y", "deep/er/est/page"}

func genC10(r *Rng, n int, tier string, emit func(Case)) {
	for i := 0; i < n; i++ {
		rr := r.Fork()
		files := J{}
		var present []string
		for _, nm := range c10names {
			if rr.Chance(1, 2) {
				files[nm] = "v1-" + nm
				present = append(present, nm)
			}
		}
		if len(present) == 0 {
			files["home"] = "v1-home"
			present = []string{"home"}
		}
		debug := rr.Chance(1, 2)
		anyName := func() string {
			if rr.Chance(3, 4) {
				return present[rr.Intn(len(present))]
			}
			return []string{"nope", "a/missing", "notes", "other", "../mixin/outside", "hom", "home/", "a/b/"}[rr.Intn(8)]
		}
		if i%2 == 0 {
			// sequential history: loads, renders, edits, broken files, repairs
			var ops []interface{}
			ver := 1
			for k := 0; k < rr.Range(2, 10); k++ {
				switch rr.Intn(9) {
				case 0:
					if rr.Bool() {
						ops = append(ops, J{"op": "load", "filter": ""})
					} else {
						// a filtered load (what the debug controller and debug-mode renders do): template names, proper
						// prefixes of names and of directory paths, and prefixes that match nothing
						fs := []string{"a", "a/b", "a/b/c", "ab", "shop", "shop/cart", "shop/cart.partial", "sh", "x", "x.y", "deep/er", "deep/er/est/page", "home", "zzz"}
						ops = append(ops, J{"op": "load", "filter": fs[rr.Intn(len(fs))]})
					}
				case 1, 2, 3, 4:
					ops = append(ops, J{"op": "render", "name": anyName()})
				case 5:
					ver++
					nm := c10names[rr.Intn(len(c10names))]
					ops = append(ops, J{"op": "write", "name": nm, "content": fmt.Sprintf("v%d-%s", ver, nm)})
				case 6:
					ops = append(ops, J{"op": "break", "name": present[rr.Intn(len(present))], "how": c10breaks[rr.Intn(len(c10breaks))]})
				case 7:
					ver++
					nm := present[rr.Intn(len(present))]
					ops = append(ops, J{"op": "write", "name": nm, "content": fmt.Sprintf("v%d-%s", ver, nm), "mtime": []string{"", "", "keep", "old"}[rr.Intn(4)]}) // repair / replace
				default:
					if rr.Chance(1, 3) {
						// the asset manifest next to the templates: valid, truncated, not JSON at all, or gone
						ops = append(ops, J{"op": "manifest", "content": []string{`{"app.js":"app.1.js"}`, `{"app.js":`, "not json", "", `[1,2]`}[rr.Intn(5)]})
					} else {
						ops = append(ops, J{"op": "remove", "name": present[rr.Intn(len(present))]})
					}
				}
			}
			bucket := fmt.Sprintf("seq/debug=%t", debug)
			if i%8 == 2 {
				// directed histories around a broken file: whichever load meets it first (complete or filtered, explicit or the one a
				// render starts), the engine must load again once the file is repaired; replaced files must show their content
				p := present[rr.Intn(len(present))]
				filt := func() string {
					switch rr.Intn(4) {
					case 0:
						return ""
					case 1:
						return p
					case 2:
						return p[:rr.Range(1, len(p))]
					}
					return strings.Split(p, "/")[0]
				}
				ops = nil
				if rr.Bool() {
					ops = append(ops, J{"op": "render", "name": anyName()})
				}
				ops = append(ops, J{"op": "break", "name": p, "how": c10breaks[rr.Intn(len(c10breaks))]})
				for k := 0; k < rr.Range(1, 2); k++ {
					if rr.Bool() {
						ops = append(ops, J{"op": "load", "filter": filt()})
					} else {
						ops = append(ops, J{"op": "render", "name": anyName()})
					}
				}
				ver++
				ops = append(ops, J{"op": "write", "name": p, "content": fmt.Sprintf("v%d-%s", ver, p), "mtime": []string{"", "keep", "old"}[rr.Intn(3)]})
				for k := 0; k < rr.Range(1, 3); k++ {
					switch rr.Intn(3) {
					case 0:
						ops = append(ops, J{"op": "load", "filter": filt()})
					case 1:
						ops = append(ops, J{"op": "render", "name": p})
					default:
						ops = append(ops, J{"op": "render", "name": anyName()})
					}
				}
				ops = append(ops, J{"op": "render", "name": p})
				bucket = fmt.Sprintf("seq-broken/debug=%t", debug)
			}
			cs := Case{"kind": "loadseq", "debug": debug, "files": files, "ops": ops, "bucket": bucket, "nops": len(ops)}
			if rr.Chance(1, 3) {
				cs["ratelimit"] = rr.Range(1, 2)
			}
			emit(cs)
		} else {
			// concurrent first renders (and optionally an explicit load) on a cold engine
			k := rr.Range(2, 3)
			if tier == "thorough" {
				k = rr.Range(2, 4)
			}
			var threads []interface{}
			for j := 0; j < k; j++ {
				if !debug && rr.Chance(1, 6) {
					threads = append(threads, J{"load": true})
				} else {
					threads = append(threads, J{"name": anyName()})
				}
			}
			var schedule []interface{}
			for j := 0; j < 16; j++ {
				schedule = append(schedule, rr.Intn(6))
			}
			emit(Case{"kind": "loadconc", "debug": debug, "files": files, "threads": threads, "schedule": schedule,
				"bucket": fmt.Sprintf("conc/debug=%t", debug), "nops": k + 2})
		}
	}
}
