package main

import (
	"fmt"
	"strconv"
)

// C02: random control-flow programs (if / else-if / else, case, each, while, assignments that persist).
//
// case: {kind:"render", oracle:"pug", doc:[...], data:{...}}

func init() {
	generators["C02"] = genC02
}

type pgen struct {
	t       *tenv
	nvar    int
	capLeft int // how many cap-hitting loops this case may still contain
	stats   map[string]int
	locals  []string
}

func (g *pgen) fresh(p string) string {
	g.nvar++
	return fmt.Sprintf("%s%d", p, g.nvar)
}

var c02words = []string{"a", "b ", " c", "x-y", "::", "[", "]", "(", ")", "#", "1", "ok", " ", "\n", "end."}

func (g *pgen) text() J {
	r := g.t.r
	return nText(c02words[r.Intn(len(c02words))])
}

func (g *pgen) printExpr() J {
	r := g.t.r
	switch r.Intn(3) {
	case 0:
		return nBuf(g.t.genNum(r.Intn(3)).e, true)
	case 1:
		return nBuf(g.t.genStr(r.Intn(3)), true)
	default:
		return nBuf(g.t.genBool(r.Intn(3)), true)
	}
}

func (g *pgen) test() J {
	r := g.t.r
	switch r.Intn(6) {
	case 0:
		return g.t.genInt(2).e // numeric truthiness
	case 1:
		return g.t.genStr(1) // string truthiness
	case 2:
		return eId([]string{"z", "undefinedVar"}[r.Intn(2)]) // null / undefined
	default:
		return g.t.genBool(r.Range(1, 3))
	}
}

func (g *pgen) block(depth int) []interface{} {
	r := g.t.r
	n := r.Range(0, 3)
	if depth <= 0 {
		n = r.Range(0, 2)
	}
	var out []interface{}
	// a variable declared inside a block may stay unassigned (branch not taken): outside the block it is only printed,
	// never used in an expression (comparisons with undefined are not in the typed subset)
	mark := len(g.t.ints)
	for i := 0; i < n; i++ {
		out = append(out, g.node(depth)...)
	}
	for _, x := range g.t.ints[mark:] {
		if x[0] == 'x' {
			g.locals = append(g.locals, x)
		}
	}
	g.t.ints = g.t.ints[:mark]
	return out
}

func (g *pgen) node(depth int) []interface{} {
	r := g.t.r
	t := g.t
	if depth <= 0 {
		switch r.Intn(3) {
		case 0:
			return []interface{}{g.text()}
		case 1:
			return []interface{}{g.printExpr()}
		default:
			return g.assign()
		}
	}
	k := r.Intn(15)
	g.stats[fmt.Sprintf("k%d", k)]++
	switch k {
	case 0:
		return []interface{}{g.text()}
	case 1:
		return []interface{}{g.printExpr()}
	case 2:
		return g.assign()
	case 3:
		return []interface{}{nTag([]string{"p", "div", "span", "li"}[r.Intn(4)], r.Bool(), nil, g.block(depth-1)...)}
	case 4, 5: // if chains
		var build func(n int) J
		build = func(n int) J {
			test := g.test() // generated before the branches: a variable declared in a branch is not used by the test
			thn := g.block(depth - 1)
			if n <= 0 {
				if r.Bool() {
					return nIf(test, thn, nil)
				}
				return nIf(test, thn, g.block(depth-1))
			}
			return nIf(test, thn, build(n-1))
		}
		return []interface{}{build(r.Intn(3))}
	case 6: // case
		var whens []interface{}
		var subj J
		if r.Bool() {
			subj = t.genInt(2).e
			for i := 0; i < r.Range(1, 3); i++ {
				whens = append(whens, nWhen(eNum(strconv.Itoa(r.Range(0, 6))), g.block(depth-1)...))
			}
		} else {
			subj = t.genStr(1)
			for i := 0; i < r.Range(1, 3); i++ {
				whens = append(whens, nWhen(eStr(strLits[r.Intn(len(strLits))]), g.block(depth-1)...))
			}
		}
		if r.Chance(2, 3) {
			d := nWhen("default", g.block(depth-1)...)
			pos := r.Intn(len(whens) + 1)
			whens = append(whens[:pos], append([]interface{}{d}, whens[pos:]...)...)
		}
		return []interface{}{nCase(subj, whens...)}
	case 7, 8: // each over arrays
		val, key := g.fresh("v"), ""
		if r.Bool() {
			key = g.fresh("i")
		}
		var obj J
		isStr := false
		switch r.Intn(5) {
		case 0:
			obj = eId("an")
		case 1:
			obj = eId("as")
			isStr = true
		case 2:
			var es []interface{}
			for i := 0; i < r.Intn(4); i++ {
				es = append(es, t.genInt(1).e)
			}
			obj = eArr(es...)
		case 3:
			obj = eId([]string{"z", "undefinedVar", "empty"}[r.Intn(3)])
		default:
			obj = eDot(eId("o"), "list")
		}
		// make the loop variables usable in the body
		save := *t
		if isStr {
			// string methods are generated with in-range arguments (C20's domain): the variable stands for every element, so
			// the shortest one bounds the arguments
			shortest := "?"
			if as, ok := t.data["as"].([]interface{}); ok && len(as) > 0 {
				shortest = as[0].(string)
				for _, x := range as {
					if len(x.(string)) < len(shortest) {
						shortest = x.(string)
					}
				}
			}
			t.strs[val] = shortest
		} else {
			t.ints = append(t.ints, val)
		}
		if key != "" {
			t.ints = append(t.ints, key)
		}
		body := g.block(depth - 1)
		body = append(body, nBuf(eId(val), true))
		if key != "" && r.Bool() {
			body = append(body, nText(":"), nBuf(eId(key), true))
		}
		out := []interface{}{nEach(val, key, obj, body...)}
		if isStr {
			delete(t.strs, val)
		}
		t.ints = save.ints
		if r.Chance(1, 3) { // the loop variable persists after the loop
			out = append(out, nText("after="), nBuf(eId(val), true))
		}
		return out
	case 9: // each over objects: data map (sorted keys) or literal (insertion order)
		val, key := g.fresh("v"), g.fresh("k")
		var obj J
		if r.Bool() {
			obj = eDot(eId("o"), "c")
		} else {
			obj = eObj("zz", eNum("1"), "aa", eStr("two"), "mm", t.genInt(1).e)
			if r.Chance(1, 3) {
				// a member that is present but null / undefined is still a member: the body runs for its key
				obj = eObj("first", eStr("Ada"), "middle", eId([]string{"z", "undefinedVar"}[r.Intn(2)]), "last", t.genInt(1).e)
			}
		}
		body := []interface{}{nBuf(eId(key), true), nText("="), nBuf(eId(val), true), nText(";")}
		body = append(body, g.block(depth-2)...)
		if r.Chance(1, 3) {
			// an object literal that GROWS before it is iterated: keys added by assignment come after the written ones, in the
			// order they were added; assigning to a key that exists keeps its place
			ob := g.fresh("ob")
			pre := []interface{}{nRaw(sVar(ob, eObj("pears", eNum("1"), "apples", eStr("two")))),
				nRaw(sAssign(eDot(eId(ob), "zeta"), eNum("3"))), nRaw(sAssign(eIdx(eId(ob), eStr("alpha")), eStr("four")))}
			if r.Bool() {
				pre = append(pre, nRaw(sAssign(eDot(eId(ob), "pears"), eNum("5"))))
			}
			if r.Bool() {
				// a member that is PRESENT but holds null / undefined (`{title: page.title}` without a title in the data) and is
				// assigned later keeps its one place in the order
				nul := eId([]string{"z", "undefinedVar"}[r.Intn(2)])
				pre[0] = nRaw(sVar(ob, eObj("pears", eNum("1"), "title", nul, "apples", eStr("two"))))
				pre = append(pre, nRaw(sAssign(eDot(eId(ob), "late"), nul)))
				if r.Bool() {
					pre = append(pre, nRaw(sAssign(eDot(eId(ob), "title"), eStr("Untitled"))))
				}
				if r.Bool() {
					pre = append(pre, nRaw(sAssign(eIdx(eId(ob), eStr("late")), eNum("7"))))
				}
			}
			return append(pre, nEach(val, key, eId(ob), body...))
		}
		return []interface{}{nEach(val, key, obj, body...)}
	case 10, 11: // while with a counter
		i := g.fresh("c")
		bound := r.Range(0, 4)
		var cond J
		switch r.Intn(3) {
		case 0:
			cond = eBin("<", eId(i), eNum(strconv.Itoa(bound)))
		case 1:
			cond = eBin("!=", eId(i), eNum(strconv.Itoa(bound)))
		default:
			cond = eBin("&&", eBin("<", eId(i), eNum(strconv.Itoa(bound))), g.t.genBool(1))
		}
		t.ints = append(t.ints, i)
		body := g.block(depth - 1)
		t.ints = t.ints[:len(t.ints)-1]
		var step interface{}
		if r.Bool() {
			step = nRaw(sInc(i))
		} else {
			step = nRaw(sAssign(eId(i), eBin("+", eId(i), eNum("1"))))
		}
		if r.Bool() {
			body = append(body, step)
		} else {
			body = append([]interface{}{step}, body...)
		}
		out := []interface{}{nRaw(sVar(i, eNum("0"))), nWhile(cond, body...)}
		if r.Chance(1, 2) {
			out = append(out, nText("n="), nBuf(eId(i), true))
		}
		return out
	case 13: // nested each loops that REUSE the name of the index / value variable. The reused name is read at the top of the
		// outer iteration and inside the inner loop only: there flat (this engine) and function-scoped (pug.js) binding agree
		val, key := g.fresh("v"), g.fresh("i")
		outer := []J{eId("an"), eDot(eId("o"), "list"), eArr(eNum("7"), eNum("8"), eNum("9"))}[r.Intn(3)]
		inner := []J{eId("an"), eDot(eId("o"), "list"), eArr(eNum("4"), eNum("5")), eId("empty")}[r.Intn(4)]
		ival, ikey := g.fresh("v"), key
		if r.Chance(1, 3) {
			ival, ikey = val, g.fresh("i") // reuse the VALUE name instead
		} else if r.Chance(1, 3) {
			ival = val // reuse both
		}
		body := []interface{}{nText("["), nBuf(eId(key), true), nText("="), nBuf(eId(val), true), nText(":")}
		save := *t
		t.ints = append(t.ints, val, key)
		body = append(body, g.block(depth-2)...)
		*t = save
		innerBody := []interface{}{nBuf(eId(ikey), true), nText("/"), nBuf(eId(ival), true), nText(",")}
		save = *t
		t.ints = append(t.ints, ival, ikey)
		innerBody = append(innerBody, g.block(depth-2)...)
		*t = save
		body = append(body, nEach(ival, ikey, inner, innerBody...), nText("]"))
		return []interface{}{nEach(val, key, outer, body...)}
	case 12: // a loop that never ends by itself: the engine must stop it with an error
		if g.capLeft > 0 && r.Chance(1, 6) {
			g.capLeft--
			i := g.fresh("c")
			return []interface{}{nRaw(sVar(i, eNum("0"))), nWhile(eBin(">=", eId(i), eNum("0")), nRaw(sInc(i)))}
		}
		return []interface{}{g.text()}
	default:
		return g.assign()
	}
}

// assignment to a (new or existing) variable; the value persists after the enclosing construct
func (g *pgen) assign() []interface{} {
	r := g.t.r
	t := g.t
	if r.Bool() || len(t.ints) == 0 {
		x := g.fresh("x")
		e := t.genInt(2).e
		t.ints = append(t.ints, x)
		return []interface{}{nRaw(sVar(x, e))}
	}
	// re-assign an existing local (only locals we created: names starting with x)
	var locals []string
	for _, n := range t.ints {
		if n[0] == 'x' {
			locals = append(locals, n)
		}
	}
	if len(locals) == 0 {
		x := g.fresh("x")
		e := t.genInt(2).e
		t.ints = append(t.ints, x)
		return []interface{}{nRaw(sVar(x, e))}
	}
	x := locals[r.Intn(len(locals))]
	if r.Bool() {
		return []interface{}{nRaw(sInc(x))}
	}
	// the new value may mention x itself and the assignment may sit in a loop: keep every local within the bound the expression
	// generator assumes for integer variables (|x| <= 30), so that no product leaves the domain where the engine's and
	// JavaScript's number formatting coincide (the property is about control flow, not about printing 1e14)
	return []interface{}{nRaw(sAssign(eId(x), eBin("%", t.genInt(2).e, eNum("31"))))}
}

// a Go struct from the page data as the test of a conditional, before and after one of its members has been read: whatever the
// engine takes its truth value to be, it is the same both times
func goTruthCase(rr *Rng) Case {
	kind := []string{"zerostruct", "zeroptr", "somestruct"}[rr.Intn(3)]
	test := func() J {
		return nIf(eId("cust"), []interface{}{nText("T")}, []interface{}{nText("F")})
	}
	doc := []interface{}{test(), nText("|")}
	switch rr.Intn(3) {
	case 0:
		doc = append(doc, nBuf(eDot(eId("cust"), "name"), true))
	case 1:
		doc = append(doc, nIf(eDot(eId("cust"), "orders"), []interface{}{nText("o")}, nil))
	default:
		doc = append(doc, nRaw(sVar("nm", eDot(eId("cust"), "count"))))
	}
	doc = append(doc, nText("|"), test(), nText("|"), nIf(eBin("&&", eId("cust"), eBool(true)), []interface{}{nText("T")}, []interface{}{nText("F")}))
	return Case{"kind": "render", "doc": doc, "data": J{"cust": J{"__go": kind}}, "go_data": true, "bucket": "go-truthiness", "what": "struct as a test: " + kind}
}

func genC02(r *Rng, n int, tier string, emit func(Case)) {
	maxd := 3
	if tier == "thorough" {
		maxd = 5
	}
	capBudget := 12 // cap-hitting programs are slow in the real engine
	if tier == "thorough" {
		capBudget = 60
	}
	for i := 0; i < n; i++ {
		if i%50 == 49 {
			emit(goTruthCase(r.Fork()))
			continue
		}
		t := newTenv(r.Fork())
		t.data["empty"] = []interface{}{}
		g := &pgen{t: t, stats: map[string]int{}}
		if capBudget > 0 {
			g.capLeft = 1
		}
		var doc []interface{}
		for j := 0; j < t.r.Range(1, 4); j++ {
			doc = append(doc, g.node(t.r.Range(1, maxd))...)
		}
		if g.capLeft == 0 && capBudget > 0 {
			capBudget--
		}
		// variables assigned inside constructs keep their value: print every local at the end
		for _, x := range t.ints {
			if x[0] == 'x' {
				g.locals = append(g.locals, x)
			}
		}
		for _, x := range g.locals {
			doc = append(doc, nText(" "+x+"="), nBuf(eId(x), true))
		}
		emit(Case{"kind": "render", "oracle": "pug", "doc": doc, "data": t.data, "bucket": "prog", "depth": exprDepth(doc), "what": "program"})
	}
}
