package main

import (
	"fmt"
	"reflect"
	"strconv"
	"strings"
	"unicode"
)

// C11: Go data reachable by lower-camel paths.
//
// case: {kind:"gopath", val:<GoVal description>, path:[step...]}   step = {f:name} | {k:key} | {i:n} | {m:name}
// impl: {class, out}; the harness also computes, by an independent reflection walk, what Go reaches: "go": {found:bool, text}

func init() {
	generators["C11"] = genC11
	runners["gopath"] = runGoPath
}

// ---- a fixed family of compiled types (methods, unexported fields) ----

type Leafy struct {
	Name   string
	Count  int
	Ratio  float64
	Ok     bool
	hidden string
	Child  *Leafy
	Tags   []string
	Meta   map[string]interface{}
	Any    interface{}
	URL    string
	UserID int
}

func (l Leafy) Title() string      { return "T:" + l.Name }
func (l Leafy) Double() int        { return l.Count * 2 }
func (l *Leafy) PtrName() string   { return "P:" + l.Name }
func (l Leafy) First() interface{} { return l.Any }

// a data type that also implements error (validation results, API problems): a struct like any other, with fields and methods
type FormError struct {
	Field   string
	Message string
	Code    int
}

func (e FormError) Error() string { return e.Field + ": " + e.Message }
func (e FormError) Label() string { return "label-" + e.Field }

type FormPage struct {
	Form FormError
	Ptr  *FormError
	Last *FormError
	N    int
}

// data behind a NON-EMPTY interface type (a struct field, slice element or map value declared as Shape): by value and by pointer
type Shape interface{ Area() int }

type Rect struct {
	Label string
	W, H  int
}

func (r Rect) Area() int { return r.W * r.H }

type Scene struct {
	Main   Shape
	Boxed  Shape // holds a *Rect
	None   Shape // nil interface
	Shapes []Shape
	ByName map[string]Shape
	Any    interface{}
}

// a struct that EMBEDS a pointer to another struct (the pointer may be nil)
type Base struct {
	ID   int
	Slug string
}

type Product struct {
	Sku string
	*Base
	Stock int
}

func twinA(title string, n int) interface{} {
	type Product struct {
		Title string
		Price int
	}
	return Product{Title: title, Price: n}
}

func twinB(title string, n int) interface{} {
	type Product struct {
		Sku   string
		Title string
		Stock int
		Extra string
	}
	return Product{Sku: "sku-" + title, Title: title, Stock: n, Extra: "x"}
}

// GoVal description -> actual Go value
func buildGo(d interface{}) interface{} {
	m, ok := d.(map[string]interface{})
	if !ok {
		return d
	}
	switch m["k"] {
	case "nil":
		return nil
	case "str":
		return m["v"].(string)
	case "int":
		return int(m["v"].(float64))
	case "int64":
		return int64(m["v"].(float64))
	case "uint8":
		return uint8(m["v"].(float64))
	case "float":
		return m["v"].(float64)
	case "bool":
		return m["v"].(bool)
	case "map":
		out := map[string]interface{}{}
		for k, v := range m["entries"].(map[string]interface{}) {
			out[k] = buildGo(v)
		}
		return out
	case "strmap":
		out := map[string]string{}
		for k, v := range m["entries"].(map[string]interface{}) {
			out[k] = v.(string)
		}
		return out
	case "slice":
		out := []interface{}{}
		for _, v := range m["items"].([]interface{}) {
			out = append(out, buildGo(v))
		}
		return out
	case "strslice":
		out := []string{}
		for _, v := range m["items"].([]interface{}) {
			out = append(out, v.(string))
		}
		return out
	case "ptr":
		if m["v"] == nil {
			var p *Leafy
			return p
		}
		v := buildGo(m["v"])
		rv := reflect.ValueOf(v)
		p := reflect.New(rv.Type())
		p.Elem().Set(rv)
		return p.Interface()
	case "verrpage":
		// error-typed values in TYPED slots (struct fields): by value, by pointer, nil pointer
		v := FormError{Field: m["field"].(string), Message: m["message"].(string), Code: int(m["code"].(float64))}
		v2 := v
		return FormPage{Form: v, Ptr: &v2, Last: nil, N: 1}
	case "verr":
		if m["nil"] == true {
			var p *FormError
			return p
		}
		v := FormError{Field: m["field"].(string), Message: m["message"].(string), Code: int(m["code"].(float64))}
		if m["ptr"] == true {
			return &v
		}
		return v
	case "embed":
		p := Product{Sku: m["sku"].(string), Stock: 4}
		if b, ok := m["base"].(map[string]interface{}); ok {
			p.Base = &Base{ID: int(b["id"].(float64)), Slug: b["slug"].(string)}
		}
		if m["ptr"] == true {
			return &p
		}
		return p
	case "scene":
		rc := Rect{Label: m["label"].(string), W: int(m["w"].(float64)), H: int(m["h"].(float64))}
		r2 := Rect{Label: "second", W: 2, H: 5}
		return Scene{Main: rc, Boxed: &rc, Shapes: []Shape{rc, r2, &r2}, ByName: map[string]Shape{"r": rc, "p": &r2}, Any: rc}
	case "twin":
		// two DIFFERENT struct types with the same printed name (function-local types called Product)
		if m["which"] == "A" {
			return twinA(m["title"].(string), int(m["n"].(float64)))
		}
		return twinB(m["title"].(string), int(m["n"].(float64)))
	case "leafy":
		l := Leafy{Name: m["name"].(string), Count: int(m["count"].(float64)), Ratio: m["ratio"].(float64), Ok: m["ok"].(bool), hidden: "secret",
			URL: "u:" + m["name"].(string), UserID: int(m["count"].(float64)) + 7}
		if c, ok := m["child"].(map[string]interface{}); ok {
			cv := buildGo(c).(Leafy)
			l.Child = &cv
		}
		if t, ok := m["tags"].([]interface{}); ok {
			for _, x := range t {
				l.Tags = append(l.Tags, x.(string))
			}
		}
		if mm, ok := m["meta"].(map[string]interface{}); ok {
			l.Meta = map[string]interface{}{}
			for k, v := range mm {
				l.Meta[k] = buildGo(v)
			}
		}
		if a, ok := m["any"]; ok && a != nil {
			l.Any = buildGo(a)
		}
		return l
	case "struct":
		// dynamically shaped struct type (exported fields only: reflect.StructOf cannot create unexported ones)
		fs := m["fields"].([]interface{})
		var sf []reflect.StructField
		var vals []reflect.Value
		for _, f := range fs {
			fm := f.(map[string]interface{})
			v := buildGo(fm["v"])
			var t reflect.Type
			if v == nil {
				t = reflect.TypeOf((*interface{})(nil)).Elem()
			} else {
				t = reflect.TypeOf(v)
			}
			if b, _ := fm["iface"].(bool); b {
				t = reflect.TypeOf((*interface{})(nil)).Elem()
			}
			sf = append(sf, reflect.StructField{Name: fm["name"].(string), Type: t})
			vals = append(vals, reflect.ValueOf(v))
		}
		st := reflect.New(reflect.StructOf(sf)).Elem()
		for i, v := range vals {
			if v.IsValid() {
				st.Field(i).Set(v)
			}
		}
		return st.Interface()
	}
	panic(fmt.Sprintf("buildGo: %v", m["k"]))
}

// ---- independent walk: what the path reaches in Go ----

func lowerCamel(s string) string {
	if s == "" {
		return s
	}
	r := []rune(s)
	r[0] = unicode.ToLower(r[0])
	return string(r)
}

func goLeafText(v reflect.Value) (string, bool) {
	for v.IsValid() && (v.Kind() == reflect.Interface || v.Kind() == reflect.Ptr) {
		if v.IsNil() {
			return "", false
		}
		v = v.Elem()
	}
	if !v.IsValid() {
		return "", false
	}
	switch v.Kind() {
	case reflect.String:
		return v.String(), true
	case reflect.Int, reflect.Int64, reflect.Int32, reflect.Int16, reflect.Int8:
		return strconv.FormatInt(v.Int(), 10), true
	case reflect.Uint8, reflect.Uint, reflect.Uint64:
		return strconv.FormatUint(v.Uint(), 10), true
	case reflect.Float64:
		return strconv.FormatFloat(v.Float(), 'f', -1, 64), true
	case reflect.Bool:
		return strconv.FormatBool(v.Bool()), true
	}
	return "", false // containers are not leaves
}

func goWalk(root interface{}, path []interface{}) (reflect.Value, bool) {
	v := reflect.ValueOf(root)
	for _, st := range path {
		step := st.(map[string]interface{})
		// methods are looked up on the value as it is (pointer method sets included), before indirection
		if name, ok := step["m"].(string); ok {
			for v.IsValid() && v.Kind() == reflect.Interface {
				if v.IsNil() {
					return reflect.Value{}, false
				}
				v = v.Elem()
			}
			if !v.IsValid() {
				return reflect.Value{}, false
			}
			// the method may sit at any level of a chain of pointers (**T has no methods of its own, the value behind it is
			// still data that is there): look at every level down to the first nil
			var meth reflect.Value
			for cur := v; cur.IsValid() && !meth.IsValid(); {
				if cur.Kind() == reflect.Ptr && cur.IsNil() {
					break
				}
				for i := 0; i < cur.NumMethod(); i++ {
					if lowerCamel(cur.Type().Method(i).Name) == name {
						meth = cur.Method(i)
					}
				}
				if cur.Kind() != reflect.Ptr {
					break
				}
				cur = cur.Elem()
			}
			if !meth.IsValid() || (v.Kind() == reflect.Ptr && v.IsNil()) {
				return reflect.Value{}, false
			}
			v = meth.Call(nil)[0]
			continue
		}
		for v.IsValid() && (v.Kind() == reflect.Interface || v.Kind() == reflect.Ptr) {
			if v.IsNil() {
				return reflect.Value{}, false
			}
			v = v.Elem()
		}
		if !v.IsValid() {
			return reflect.Value{}, false
		}
		if name, ok := step["f"].(string); ok {
			switch v.Kind() {
			case reflect.Struct:
				found := false
				for i := 0; i < v.NumField(); i++ {
					sf := v.Type().Field(i)
					if sf.PkgPath == "" && lowerCamel(sf.Name) == name {
						v = v.Field(i)
						found = true
						break
					}
				}
				if !found {
					// a niladic method read without parentheses is called as well
					for i := 0; i < v.NumMethod(); i++ {
						if lowerCamel(v.Type().Method(i).Name) == name && v.Type().Method(i).Type.NumIn() == 1 {
							v = v.Method(i).Call(nil)[0]
							found = true
							break
						}
					}
				}
				if !found {
					return reflect.Value{}, false
				}
			case reflect.Map:
				e := v.MapIndex(reflect.ValueOf(name))
				if !e.IsValid() {
					return reflect.Value{}, false
				}
				v = e
			default:
				return reflect.Value{}, false
			}
		} else if key, ok := step["k"].(string); ok {
			if v.Kind() != reflect.Map {
				return reflect.Value{}, false
			}
			e := v.MapIndex(reflect.ValueOf(key))
			if !e.IsValid() {
				return reflect.Value{}, false
			}
			v = e
		} else if idx, ok := step["i"].(float64); ok {
			if v.Kind() != reflect.Slice || int(idx) < 0 || int(idx) >= v.Len() {
				return reflect.Value{}, false
			}
			v = v.Index(int(idx))
		}
	}
	return v, true
}

func pathExpr(path []interface{}) J {
	e := eId("x")
	for _, st := range path {
		step := st.(map[string]interface{})
		if n, ok := step["f"].(string); ok {
			e = eDot(e, n)
		} else if k, ok := step["k"].(string); ok {
			e = eIdx(e, eStr(k))
		} else if i, ok := step["i"].(float64); ok {
			e = eIdx(e, eNum(strconv.Itoa(int(i))))
		} else if m, ok := step["m"].(string); ok {
			e = eCall(eDot(e, m))
		}
	}
	return e
}

// pathExprFrom: the first step (a field / key that is an identifier) is the top-level variable
func pathExprFrom(path []interface{}) J {
	first := path[0].(map[string]interface{})
	e := eId(first["f"].(string))
	for _, st := range path[1:] {
		step := st.(map[string]interface{})
		if n, ok := step["f"].(string); ok {
			e = eDot(e, n)
		} else if k, ok := step["k"].(string); ok {
			e = eIdx(e, eStr(k))
		} else if i, ok := step["i"].(float64); ok {
			e = eIdx(e, eNum(strconv.Itoa(int(i))))
		} else if m, ok := step["m"].(string); ok {
			e = eCall(eDot(e, m))
		}
	}
	return e
}

func runGoPath(c Case) interface{} {
	root := buildGo(c["val"])
	path := asList(c["path"])
	e := pathExpr(path)
	var data interface{} = map[string]interface{}{"x": root}
	if isRoot, _ := c["root"].(bool); isRoot {
		// the value IS the page data: its fields / keys are the template's top-level variables
		e = pathExprFrom(path)
		data = root
	}
	ast := pugDoc([]interface{}{nText("["), nBuf(e, true), nText("]")})
	res := renderOne(ast, data, false, nil)
	out := J{"class": res.Class, "out": res.Out, "msg": res.Msg, "js": printExpr(e)}
	v, ok := goWalk(root, path)
	text, leaf := "", false
	if ok {
		text, leaf = goLeafText(v)
	}
	isContainer := ok && !leaf && v.IsValid() && func() bool {
		for v.IsValid() && (v.Kind() == reflect.Interface || v.Kind() == reflect.Ptr) {
			if v.IsNil() {
				return false
			}
			v = v.Elem()
		}
		return v.IsValid() && (v.Kind() == reflect.Map || v.Kind() == reflect.Slice || v.Kind() == reflect.Struct)
	}()
	out["go"] = J{"found": ok, "leaf": leaf, "text": text, "container": isContainer}
	return out
}

// ---- generator ----

type gv struct {
	r *Rng
}

func (g *gv) leaf() J {
	r := g.r
	switch r.Intn(6) {
	case 0:
		return J{"k": "str", "v": []string{"leaf", "", "<b>", "a b", "é"}[r.Intn(5)]}
	case 1:
		return J{"k": "int", "v": r.Range(-50, 500)}
	case 2:
		return J{"k": "float", "v": float64(r.Range(-40, 40)) / 4}
	case 3:
		return J{"k": "bool", "v": r.Bool()}
	case 4:
		return J{"k": "int64", "v": r.Range(0, 100000)}
	default:
		return J{"k": "uint8", "v": r.Range(0, 255)}
	}
}

// field and key names include names of registered template functions (trim, debug, range, capitalize: a member is not a call) and
// exported names whose first letter is not ASCII (lower-camel folding is by rune, not by byte)
var fieldNames = []string{"Name", "Title", "Count", "Items", "Inner", "Value", "ProductID", "URL", "X", "Data", "IsOk", "HTMLBody", "Aa",
	"Trim", "Debug", "Range", "Capitalize", "Übersicht", "Éditeur", "Ωmega", "Яблоко",
	// fields whose lower-camel name is a JavaScript keyword or reserved word (ES5 allows every IdentifierName after a dot)
	"Default", "New", "For", "In", "Delete", "Case", "Continue", "This", "Typeof", "Class", "Return", "Null", "True"}
var mapKeys = []string{"key", "name", "a", "other", "Upper", "with space", "id", "x1", "é", "trim", "debug", "capitalize", "range", "truncate"}

func (g *gv) val(depth int) J {
	r := g.r
	if depth <= 0 {
		return g.leaf()
	}
	switch r.Intn(11) {
	case 0, 1:
		return g.leaf()
	case 2, 3: // dynamic struct
		n := r.Range(1, 4)
		used := map[string]bool{}
		var fs []interface{}
		for i := 0; i < n; i++ {
			nm := fieldNames[r.Intn(len(fieldNames))]
			if used[strings.ToLower(nm)] {
				continue
			}
			used[strings.ToLower(nm)] = true
			f := J{"name": nm, "v": g.val(depth - 1)}
			if r.Chance(1, 4) {
				f["iface"] = true
			}
			fs = append(fs, f)
		}
		return J{"k": "struct", "fields": fs}
	case 4, 5:
		n := r.Range(0, 3)
		es := J{}
		for i := 0; i < n; i++ {
			es[mapKeys[r.Intn(len(mapKeys))]] = g.val(depth - 1)
		}
		return J{"k": "map", "entries": es}
	case 6:
		n := r.Range(0, 3)
		items := []interface{}{}
		for i := 0; i < n; i++ {
			items = append(items, g.val(depth-1))
		}
		return J{"k": "slice", "items": items}
	case 7:
		if r.Chance(1, 4) {
			return J{"k": "ptr", "v": nil}
		}
		return J{"k": "ptr", "v": g.val(depth - 1)}
	case 8:
		return g.leafy(depth)
	case 9:
		return J{"k": "strslice", "items": []interface{}{"s0", "s1", "<s2>"}[:r.Range(0, 3)]}
	default:
		return J{"k": "strmap", "entries": J{"k1": "v1", "k2": ""}}
	}
}

func (g *gv) leafy(depth int) J {
	r := g.r
	l := J{"k": "leafy", "name": []string{"root", "kid", ""}[r.Intn(3)], "count": r.Range(0, 9), "ratio": float64(r.Range(0, 8)) / 2, "ok": r.Bool()}
	if depth > 0 && r.Chance(1, 2) {
		l["child"] = g.leafy(depth - 1)
	}
	if r.Bool() {
		l["tags"] = []interface{}{"t0", "t1"}[:r.Range(0, 2)]
	}
	if r.Bool() {
		l["meta"] = J{"mk": g.leaf(), "deep": J{"k": "map", "entries": J{"z": g.leaf()}}}
	}
	if r.Bool() {
		l["any"] = g.val(depth - 1)
	}
	return l
}

// a random path into the description; `absent` = deliberately step off the data at some point
func (g *gv) path(d J, depth int, absent bool) []interface{} {
	r := g.r
	var out []interface{}
	cur := d
	for step := 0; step < depth+2; step++ {
		if cur == nil {
			break
		}
		stop := r.Chance(1, 5) && step > 0
		k, _ := cur["k"].(string)
		goAbsent := absent && r.Chance(1, 2)
		switch k {
		case "struct":
			fs := asList(cur["fields"])
			if len(fs) == 0 || stop {
				return out
			}
			if goAbsent {
				out = append(out, J{"f": "noSuchField"})
				cur = nil
				break
			}
			f := asJ(fs[r.Intn(len(fs))])
			out = append(out, J{"f": lowerCamel(f["name"].(string))})
			cur, _ = f["v"].(map[string]interface{})
		case "map", "strmap":
			es, _ := cur["entries"].(map[string]interface{})
			var keys []string
			for kk := range es {
				keys = append(keys, kk)
			}
			sortStrings(keys)
			if len(keys) == 0 || stop || goAbsent {
				if goAbsent || (len(keys) == 0 && r.Bool()) {
					if r.Bool() {
						out = append(out, J{"f": "missing"})
					} else {
						out = append(out, J{"k": "missing"})
					}
					cur = nil
					break
				}
				return out
			}
			kk := keys[r.Intn(len(keys))]
			if isIdent(kk) && r.Bool() {
				out = append(out, J{"f": kk})
			} else {
				out = append(out, J{"k": kk})
			}
			if k == "strmap" {
				cur = nil
			} else {
				cur, _ = es[kk].(map[string]interface{})
			}
		case "slice", "strslice":
			items := asList(cur["items"])
			if stop {
				return out
			}
			if goAbsent || len(items) == 0 {
				out = append(out, J{"i": len(items) + r.Intn(3)})
				cur = nil
				break
			}
			i := r.Intn(len(items))
			out = append(out, J{"i": i})
			if k == "strslice" {
				cur = nil
			} else {
				cur, _ = items[i].(map[string]interface{})
			}
		case "ptr":
			if cur["v"] == nil {
				// path through a nil pointer
				out = append(out, J{"f": []string{"name", "count", "child"}[r.Intn(3)]})
				if r.Bool() {
					out = append(out, J{"f": "name"})
				}
				cur = nil
				break
			}
			cur, _ = cur["v"].(map[string]interface{})
			step--
		case "leafy":
			if stop {
				return out
			}
			choices := []string{"name", "count", "ratio", "ok", "title()", "double()", "title", "uRL", "url", "userID", "userId"}
			if cur["child"] != nil {
				choices = append(choices, "child", "child")
			} else if absent {
				choices = append(choices, "child") // nil pointer
			}
			if cur["tags"] != nil {
				choices = append(choices, "tags")
			}
			if cur["meta"] != nil {
				choices = append(choices, "meta")
			}
			if cur["any"] != nil {
				choices = append(choices, "any", "first()")
			}
			if goAbsent {
				choices = []string{"hidden", "nope", "child"}
			}
			ch := choices[r.Intn(len(choices))]
			switch ch {
			case "title()", "double()", "first()":
				out = append(out, J{"m": strings.TrimSuffix(ch, "()")})
				if ch == "first()" {
					cur, _ = cur["any"].(map[string]interface{})
				} else {
					cur = nil
				}
			case "child":
				out = append(out, J{"f": "child"})
				if c, ok := cur["child"].(map[string]interface{}); ok {
					cur = c
				} else {
					out = append(out, J{"f": "name"})
					cur = nil
				}
			case "tags":
				out = append(out, J{"f": "tags"})
				cur = J{"k": "strslice", "items": cur["tags"]}
			case "meta":
				out = append(out, J{"f": "meta"})
				cur = J{"k": "map", "entries": cur["meta"]}
			case "any":
				out = append(out, J{"f": "any"})
				cur, _ = cur["any"].(map[string]interface{})
			default:
				out = append(out, J{"f": ch})
				cur = nil
			}
		default:
			return out
		}
	}
	return out
}

func genC11(r *Rng, n int, tier string, emit func(Case)) {
	maxd := 3
	if tier == "thorough" {
		maxd = 5
	}
	for i := 0; i < n; i++ {
		g := &gv{r: r.Fork()}
		d := g.val(g.r.Range(1, maxd))
		for d["k"] != "struct" && d["k"] != "map" && d["k"] != "leafy" && d["k"] != "ptr" && d["k"] != "slice" {
			d = g.val(g.r.Range(1, maxd))
		}
		absent := i%3 == 0
		p := g.path(d, maxd, absent)
		if len(p) == 0 {
			continue
		}
		c := Case{"kind": "gopath", "val": d, "path": p, "absent": absent, "bucket": map[bool]string{true: "absent", false: "present"}[absent], "plen": len(p)}
		// the value as the page data itself (fields become top-level variables), when the path starts with an identifier field
		if first, ok := p[0].(J); ok && (d["k"] == "struct" || d["k"] == "map") && g.r.Chance(1, 3) {
			// (a top-level key named like a registered template function is that function in the template: not a data path)
			isFunc := map[string]bool{"trim": true, "debug": true, "range": true, "capitalize": true, "truncate": true, "json": true, "x": false}
			// (and a top-level key that is a JavaScript keyword cannot be written as a bare variable at all)
			isKw := map[string]bool{"default": true, "new": true, "for": true, "in": true, "delete": true, "case": true, "continue": true, "this": true,
				"typeof": true, "class": true, "return": true, "null": true, "true": true}
			if f, ok := first["f"].(string); ok && isIdent(f) && f != "missing" && f != "noSuchField" && !isFunc[f] && !isKw[f] {
				c["root"] = true
				c["bucket"] = c["bucket"].(string) + "/root"
			}
		}
		emit(c)
		if i%40 == 23 {
			// values whose type implements error, below the top level, in typed slots: by value, by pointer, as a nil pointer; and a
			// typed nil pointer held in an interface (the engine renders NON-nil error values found in an interface as "Error: ..." text)
			fld := []string{"email", "zip", "<b>"}[g.r.Intn(3)]
			page := J{"k": "verrpage", "field": fld, "message": "required", "code": g.r.Range(1, 99)}
			for _, slot := range []string{"form", "ptr"} {
				for _, st := range []J{{"f": "field"}, {"f": "message"}, {"f": "code"}, {"m": "label"}, {"m": "error"}} {
					emit(Case{"kind": "gopath", "val": page, "path": []interface{}{J{"f": slot}, st}, "absent": false, "bucket": "error-typed", "plen": 2})
				}
			}
			emit(Case{"kind": "gopath", "val": page, "path": []interface{}{J{"f": "last"}}, "absent": true, "bucket": "error-typed", "plen": 1})
			emit(Case{"kind": "gopath", "val": page, "path": []interface{}{J{"f": "last"}, J{"f": "field"}}, "absent": true, "bucket": "error-typed", "plen": 2})
			nilIn := J{"k": "map", "entries": J{"last": J{"k": "verr", "nil": true}, "n": J{"k": "int", "v": 1}}}
			emit(Case{"kind": "gopath", "val": nilIn, "path": []interface{}{J{"f": "last"}}, "absent": true, "bucket": "error-typed", "plen": 1})
			emit(Case{"kind": "gopath", "val": nilIn, "path": []interface{}{J{"f": "last"}, J{"f": "field"}}, "absent": true, "bucket": "error-typed", "plen": 2})
		}
		if i%40 == 31 {
			// struct values and pointers behind a non-empty interface type, in a field, a slice, a map, next to the same value behind interface{}
			sc := J{"k": "scene", "label": []string{"rect", "<r>", ""}[g.r.Intn(3)], "w": g.r.Range(1, 9), "h": g.r.Range(1, 9)}
			f := func(n string) J { return J{"f": n} }
			for _, p := range [][]interface{}{{f("main"), f("label")}, {f("main"), f("w")}, {f("main"), J{"m": "area"}}, {f("boxed"), f("label")}, {f("boxed"), f("h")},
				{f("boxed"), J{"m": "area"}}, {f("shapes"), J{"i": 0}, f("label")}, {f("shapes"), J{"i": 1}, f("h")}, {f("shapes"), J{"i": 2}, f("label")},
				{f("shapes"), J{"i": 1}, J{"m": "area"}}, {f("byName"), f("r"), f("label")}, {f("byName"), J{"k": "p"}, f("w")}, {f("any"), f("label")}, {f("any"), J{"m": "area"}}} {
				emit(Case{"kind": "gopath", "val": sc, "path": p, "absent": false, "bucket": "behind-interface", "plen": len(p)})
			}
			for _, p := range [][]interface{}{{f("none")}, {f("none"), f("label")}, {f("main"), f("nope")}, {f("shapes"), J{"i": 3}, f("label")}, {f("byName"), f("q"), f("label")}} {
				emit(Case{"kind": "gopath", "val": sc, "path": p, "absent": true, "bucket": "behind-interface", "plen": len(p)})
			}
		}
		if i%40 == 17 {
			// a struct embedding a pointer to a struct, set and nil, by value and by pointer, inside a map
			f := func(n string) J { return J{"f": n} }
			for _, set := range []bool{true, false} {
				e := J{"k": "embed", "sku": []string{"A-1", "<s>"}[g.r.Intn(2)], "ptr": g.r.Bool()}
				if set {
					e["base"] = J{"id": g.r.Range(1, 99), "slug": "sl"}
				}
				page := J{"k": "map", "entries": J{"product": e, "n": J{"k": "int", "v": 1}}}
				for _, p := range [][]interface{}{{f("product"), f("sku")}, {f("product"), f("stock")}, {f("n")}} {
					emit(Case{"kind": "gopath", "val": page, "path": p, "absent": false, "bucket": "embedded-pointer", "plen": len(p)})
				}
				for _, p := range [][]interface{}{{f("product"), f("base"), f("iD")}, {f("product"), f("base"), f("slug")}} {
					emit(Case{"kind": "gopath", "val": page, "path": p, "absent": !set, "bucket": "embedded-pointer", "plen": len(p)})
				}
			}
		}
		if i%40 == 7 {
			// two struct types with the same printed name, one after the other in the same process
			t := []string{"book", "pen", "<b>"}[g.r.Intn(3)]
			for _, w := range []string{"A", "B", "A"} {
				for _, f := range []string{"title", "price", "sku", "stock", "extra"} {
					emit(Case{"kind": "gopath", "val": J{"k": "twin", "which": w, "title": t, "n": g.r.Range(1, 99)}, "path": []interface{}{J{"f": f}},
						"absent": false, "bucket": "twin", "plen": 1})
				}
			}
		}
	}
}
