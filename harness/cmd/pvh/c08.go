package main

import (
	"context"
	"fmt"
	"strings"
	"sync"
)

// C08: N goroutines render loaded templates on ONE engine at the same time, each with its own data; every result must equal
// the result of the same call run alone. The check runs this harness built with -race as well.
//
// case: {kind:"conc", jobs:[{doc, data}...], n:<goroutines>, rounds:<r>}
// impl: {sequential:[...], concurrent_equal:bool, first_diff:{...}}

func init() {
	generators["C08"] = genC08
	runners["conc"] = runConc
}

func runConc(c Case) interface{} {
	jobs := asList(c["jobs"])
	files := map[string]string{}
	// template names: t0, t1, ... or the case's own list (names that are string prefixes of one another without being path prefixes)
	tname := func(i int) string {
		if ns := asList(c["names"]); i < len(ns) {
			return ns[i].(string)
		}
		return fmt.Sprintf("t%d", i)
	}
	for i, j := range jobs {
		files[tname(i)] = pugDoc(asList(asJ(j)["doc"]))
	}
	debug, _ := c["debug"].(bool)
	manifest, _ := c["manifest"].(string)
	eng, err := newEngine(EngineSpec{Files: files, Debug: debug, Manifest: manifest})
	if err != nil {
		return J{"class": "harness-error", "msg": err.Error()}
	}
	defer eng.Close()
	if r := eng.Load(""); r.Class != "ok" {
		return J{"class": r.Class, "msg": r.Msg}
	}
	// sequential baseline
	base := make([]Result, len(jobs))
	for i, j := range jobs {
		base[i] = eng.Render(context.Background(), tname(i), reviveGo(deepCopyJ(asJ(j)["data"])))
	}
	n := int(c["n"].(float64))
	rounds := int(c["rounds"].(float64))
	var mu sync.Mutex
	var firstDiff J
	total := 0
	for r := 0; r < rounds; r++ {
		var wg sync.WaitGroup
		start := make(chan struct{})
		// every call gets its own copy of the data, made before the goroutines start
		datas := make([][3]interface{}, n)
		for g := 0; g < n; g++ {
			for k := 0; k < 3; k++ {
				datas[g][k] = reviveGo(deepCopyJ(asJ(jobs[(g+k)%len(jobs)])["data"]))
			}
		}
		for g := 0; g < n; g++ {
			g := g
			wg.Add(1)
			go func() {
				defer wg.Done()
				<-start
				for k := 0; k < 3; k++ {
					i := (g + k) % len(jobs)
					who := fmt.Sprintf("g%d-%d-r%d", g, k, r)
					res := eng.Render(context.WithValue(context.Background(), whoKey{}, who), tname(i), datas[g][k])
					// the baseline was rendered without a caller name; this call must see its own
					want := strings.ReplaceAll(base[i].Out, "who:nobody;", "who:"+who+";")
					mu.Lock()
					total++
					if (res.Class != base[i].Class || res.Out != want) && firstDiff == nil {
						firstDiff = J{"job": i, "alone": J{"class": base[i].Class, "out": base[i].Out}, "concurrent": J{"class": res.Class, "out": res.Out}}
					}
					mu.Unlock()
				}
			}()
		}
		close(start)
		wg.Wait()
	}
	seq := []interface{}{}
	for _, b := range base {
		seq = append(seq, J{"class": b.Class, "out": b.Out})
	}
	return J{"class": "ok", "sequential": seq, "concurrent_equal": firstDiff == nil, "first_diff": firstDiff, "renders": total}
}

func genC08(r *Rng, n int, tier string, emit func(Case)) {
	type dd struct {
		doc  []interface{}
		data interface{}
	}
	var pool []dd
	for _, s := range []string{"C02", "C03", "C20", "C05"} {
		g := generators[s]
		g(r.Fork(), n*2+8, tier, func(c Case) {
			if c["kind"] == "render" {
				pool = append(pool, dd{asList(c["doc"]), c["data"]})
			}
		})
	}
	for i := 0; i < n; i++ {
		rr := r.Fork()
		if i%15 == 14 {
			// the module's debug() template function, with and without its allowDeep flag, next to JSON output of other renders
			var jobs []interface{}
			for j := 0; j < rr.Range(2, 4); j++ {
				var call J
				if rr.Bool() {
					call = eCall(eId("debug"), eId("o"), eBool(false))
				} else {
					call = eCall(eId("debug"), eId("o"))
				}
				jobs = append(jobs, J{"doc": []interface{}{nBuf(call, false), nText("|"), nBuf(eCall(eDot(eId("JSON"), "stringify"), eId("o")), false)}, "data": mutData(rr)})
			}
			emit(Case{"kind": "conc", "manifest": "", "jobs": jobs, "n": []int{4, 16}[rr.Intn(2)], "rounds": 2, "debug": false, "bucket": "debug-func", "njobs": len(jobs)})
			continue
		}
		k := rr.Range(2, 6)
		var jobs []interface{}
		useAsset := false
		for j := 0; j < k; j++ {
			if rr.Chance(1, 4) {
				jobs = append(jobs, J{"doc": mutatingDoc(rr), "data": mutData(rr)})
			} else if rr.Chance(1, 5) {
				// the module's asset() function reads engine state (manifest rewrites) that a load replaces
				useAsset = true
				jobs = append(jobs, J{"doc": []interface{}{nTag("script", false, []interface{}{nAttr("src", eCall(eId("asset"), eStr([]string{"js/app.js", "css/x.css", "img/none.png"}[rr.Intn(3)])), true)}), nBuf(eCall(eId("asset"), eStr("app.js")), true)}, "data": mutData(rr)})
			} else if rr.Chance(1, 5) {
				// reads of members that are absent from the data (optional fields): the lookup's fall-back path
				var body []interface{}
				for _, nm := range []string{"badge", "uRL", "apiKey", "nope", "iD"} {
					body = append(body, nIf(eDot(eId("o"), nm), []interface{}{nText("has-" + nm)}, nil), nBuf(eDot(eId("o"), nm), true))
				}
				body = append(body, nBuf(eId("v"), true), nText(","))
				jobs = append(jobs, J{"doc": []interface{}{nEach("v", "", eId("xs"), body...), nEach("w", "", eIdx(eId("nested"), eNum("0")), body...)}, "data": mutData(rr)})
			} else if rr.Chance(1, 5) {
				// a context-bound template function: every render has its own context
				jobs = append(jobs, J{"doc": []interface{}{nText("<"), nBuf(eCall(eId("vpWho")), true), nEach("v", "", eId("xs"), nBuf(eCall(eId("vpWho")), true)), nText(">")}, "data": mutData(rr)})
			} else if rr.Chance(1, 6) {
				// page data with a display order of its own (a Go map type with Order()): every render adds ITS key and walks the map
				jobs = append(jobs, orderedJob(rr, j))
			} else if rr.Chance(1, 6) {
				// a render that fails at run time: the error path reads the engine's template code
				jobs = append(jobs, J{"doc": []interface{}{nText("before"), nBuf(eCall(eDot(eId("xs"), "join"), eStr("a"), eStr("b")), true)}, "data": mutData(rr)})
			} else {
				p := pool[rr.Intn(len(pool))]
				jobs = append(jobs, J{"doc": p.doc, "data": p.data})
			}
		}
		ng := []int{2, 4, 16, 64}[rr.Intn(4)]
		rounds := 2
		if tier == "thorough" {
			rounds = 6
		}
		debug := rr.Chance(1, 3)
		mode := "prod"
		if debug {
			mode = "debug"
		}
		manifest := ""
		if useAsset {
			manifest = `{"app.js":"app.3f2a.js","x.css":"x.77.css"}`
		}
		var names []interface{}
		if rr.Chance(1, 2) {
			// a debug-mode render reloads what its own name selects: names that are prefixes of each other as strings
			// (prod / product / product.partial/x) and as paths (shop / shop/cart) are loaded side by side
			pool := []string{"prod", "product", "products", "product.partial/x", "prod/detail", "p", "shop", "shop/cart", "shopping"}
			off := rr.Intn(len(pool))
			for j := 0; j < k; j++ {
				names = append(names, pool[(off+j)%len(pool)])
			}
		}
		emit(Case{"kind": "conc", "manifest": manifest, "jobs": jobs, "names": names, "n": ng, "rounds": rounds, "debug": debug, "bucket": fmt.Sprintf("%s N=%d", mode, ng), "njobs": k})
	}
}

func deepCopyJ(v interface{}) interface{} {
	switch x := v.(type) {
	case map[string]interface{}:
		m := make(map[string]interface{}, len(x))
		for k, e := range x {
			m[k] = deepCopyJ(e)
		}
		return m
	case []interface{}:
		l := make([]interface{}, len(x))
		for i, e := range x {
			l[i] = deepCopyJ(e)
		}
		return l
	}
	return v
}

// orderedJob: the template adds a key of its own to an ordered Go map from the data, then walks it
func orderedJob(rr *Rng, j int) J {
	extra := fmt.Sprintf("extra%d", j)
	ord := []interface{}{"color", "size", "weight"}
	m := J{"color": "blue", "size": "M", "weight": "2kg"}
	if rr.Chance(1, 3) {
		// the order lists only some of the keys
		m["depth"], m["height"], m["material"] = "1", "2", "oak"
	}
	doc := []interface{}{
		nRaw(sAssign(eIdx(eId("attrs"), eId("extra")), eStr("yes"))),
		nEach("v", "k", eId("attrs"), nBuf(eId("k"), true), nText("="), nBuf(eId("v"), true), nText(";")),
		nText("|"), nBuf(eCall(eDot(eCall(eDot(eId("Object"), "keys"), eId("attrs")), "join"), eStr(",")), true),
	}
	return J{"doc": doc, "data": J{"attrs": J{"__go": "ordered", "m": m, "order": ord}, "extra": extra}}
}
