package main

// C13: every C02 / C06 (and C03) program rendered in both modes.
// case: {kind:"render", modes:"both", doc, data}; impl = {prod:{class,out}, debug:{class,out}}

func init() {
	generators["C13"] = genC13
}

func genC13(r *Rng, n int, tier string, emit func(Case)) {
	sub := []string{"C06", "C02", "C06", "C03"}
	per := n / len(sub)
	for i, s := range sub {
		g, ok := generators[s]
		if !ok {
			continue
		}
		k := per
		if i == len(sub)-1 {
			k = n - per*(len(sub)-1)
		}
		g(r.Fork(), k, tier, func(c Case) {
			if c["kind"] != "render" {
				return
			}
			c["modes"] = "both"
			c["from"] = s
			delete(c, "oracle")
			if rr := r.Fork(); rr.Chance(1, 8) {
				// unescaped output of a variable that is not in the data, after whatever the document holds: what the engine prints
				// for it (a diagnostic, not specified) must at least not depend on the mode
				doc := asList(c["doc"])
				doc = append(doc, nTag("section", false, nil, nTag("p", false, nil, nText("x")), nBuf(eId("nickname"), false)), nBuf(eId("nickname"), false))
				c["doc"] = doc
			}
			if rr := r.Fork(); rr.Chance(1, 10) {
				// what surrounds the templates is the same in both modes too: an asset manifest in the base directory and the module's
				// asset() function (rewritten and not rewritten names, in an attribute and as text)
				doc := asList(c["doc"])
				names := []string{"app.js", "css/main.css", "img/logo.png", "js/app.js"}
				a, b := names[rr.Intn(4)], names[rr.Intn(4)]
				doc = append(doc, nTag("footer", false, nil,
					nTag("script", false, []interface{}{nAttr("src", eCall(eId("asset"), eStr(a)), true)}),
					nTag("p", false, nil, nBuf(eCall(eId("asset"), eStr(b)), true))))
				c["doc"] = doc
				c["manifest"] = `{"app.js":"app.3f9a1c.js","css/main.css":"css/main.77e0b2.css"}`
			}
			emit(c)
		})
	}
}
