package main

// C13: every C02 / C06 (and C03) program rendered in both modes.
// case: {kind:"render", modes:"both", doc, data}; impl = {prod:{class,out}, debug:{class,out}}

func init() {
	generators["C13"] = genC13
}

func genC13(r *Rng, n int, tier string, emit func(Case)) {
	sub := []string{"C06", "C02", "C06", "C03"}
	per := n / len(sub)
	for i, s := range sub {
		g, ok := generators[s]
		if !ok {
			continue
		}
		k := per
		if i == len(sub)-1 {
			k = n - per*(len(sub)-1)
		}
		g(r.Fork(), k, tier, func(c Case) {
			if c["kind"] != "render" {
				return
			}
			c["modes"] = "both"
			c["from"] = s
			delete(c, "oracle")
			if rr := r.Fork(); rr.Chance(1, 8) {
				// unescaped output of a variable that is not in the data, after whatever the document holds: what the engine prints
				// for it (a diagnostic, not specified) must at least not depend on the mode
				doc := asList(c["doc"])
				doc = append(doc, nTag("section", false, nil, nTag("p", false, nil, nText("x")), nBuf(eId("nickname"), false)), nBuf(eId("nickname"), false))
				c["doc"] = doc
			}
			emit(c)
		})
	}
}
