package main

import "strings"

// C04: every string-carrying expression shape x position x hostile string.
// case: {kind:"render", oracle:"pug", subst:{hostile, marker}, doc, data, shape}

func init() {
	generators["C04"] = genC04
}

var hostileAtoms = []string{"<", ">", "&", "\"", "'", "<script>", "</p>", "<b>", "&amp;", "&#39;", "{{", "}}", "${x}", "`", "\\", "a", "Z", " ", "é", "日本", " ",
	"<img src=x onerror=alert(1)>", "\"><svg/onload=1>", "' onclick='", "]]>", "<!--", "-->", "%", "\n", "\t", "😀"}

func hostileString(r *Rng) string {
	n := r.Range(1, 5)
	var b strings.Builder
	for i := 0; i < n; i++ {
		b.WriteString(hostileAtoms[r.Intn(len(hostileAtoms))])
	}
	if r.Chance(1, 20) {
		return strings.Repeat(b.String(), r.Range(20, 200))
	}
	return b.String()
}

const c04marker = "zqMARKERqz"

// an expression that carries data variable h (a string) to the output unchanged (string-transparent)
func carry(r *Rng, shape string) J {
	h := eId("h")
	switch shape {
	case "var":
		return h
	case "member":
		return eDot(eId("o"), "h")
	case "member2":
		return eDot(eDot(eId("o"), "inner"), "h")
	case "index":
		return eIdx(eId("arr"), eNum("1"))
	case "index-key":
		return eIdx(eId("o"), eStr("h"))
	case "concat":
		return eBin("+", eStr(""), h)
	case "concat2":
		return eBin("+", h, eStr(""))
	case "cond":
		return eCond(eId("yes"), h, eStr("no"))
	case "cond2":
		return eCond(eId("no"), eStr("no"), h)
	case "or":
		return eBin("||", eId("undefinedVar"), h)
	case "or2":
		return eBin("||", eId("empty"), h)
	case "and":
		return eBin("&&", eId("yes"), h)
	case "call":
		return eCall(eId("vpIdent"), h)
	case "method":
		return eCall(eDot(h, "slice"), eNum("0"))
	case "join":
		return eCall(eDot(eArr(h), "join"), eStr(","))
	case "tpl":
		return eTpl(h)
	case "tpl2":
		return eTpl("", h, "")
	case "arr":
		return eArr(h)
	}
	panic(shape)
}

var c04shapes = []string{"var", "member", "member2", "index", "index-key", "concat", "concat2", "cond", "cond2", "or", "or2", "and", "call", "method", "join", "tpl", "tpl2", "arr"}

func genC04(r *Rng, n int, tier string, emit func(Case)) {
	for i := 0; i < n; i++ {
		rr := r.Fork()
		shape := c04shapes[i%len(c04shapes)]
		hs := hostileString(rr)
		code := nBuf(carry(rr, shape), true)
		if rr.Chance(1, 4) {
			code["inline"] = true // #{...} interpolation
		}
		var doc []interface{}
		switch rr.Intn(9) {
		case 0:
			doc = []interface{}{code}
		case 1:
			doc = []interface{}{nText("a "), code, nText(" b")}
		case 2:
			doc = []interface{}{nTag("p", false, nil, nText("x"), code)}
		case 3:
			doc = []interface{}{nIf(eId("yes"), []interface{}{nTag("b", true, nil, code)}, nil)}
		case 4:
			doc = []interface{}{nEach("it", "", eArr(eNum("1"), eNum("2")), nTag("li", false, nil, code))}
		case 5:
			doc = []interface{}{nRaw(sVar("w", eNum("1"))), code, nText("}")}
		case 7:
			// below a script / style tag an escaping construct still escapes (`script.` + `var user = "#{user.name}";`)
			doc = []interface{}{nTag("p", false, nil, nText("before")), nTag("script", false, nil, nText("var u = \""), code, nText("\";")), nTag("p", false, nil, code)}
		case 8:
			doc = []interface{}{nTag("style", false, nil, code), nTag("div", false, nil, nTag("script", false, nil, nTag("b", true, nil, code)))}
		default:
			doc = []interface{}{nTag("div", false, nil, nTag("span", true, nil, nText("{"), code, nText("}}")))}
		}
		data := J{"h": hs, "o": J{"h": hs, "inner": J{"h": hs}}, "arr": []interface{}{"x", hs}, "yes": true, "no": false, "empty": ""}
		if rr.Chance(1, 5) {
			// the byte-identical expression first UNESCAPED (`!=` / `!{}`), then escaped, in one template: the earlier raw use must
			// not decide how the later one is compiled. Judged by the reference semantics (no marker substitution: the raw
			// occurrence prints the hostile string as it is).
			raw := nBuf(carry(rr, shape), false)
			raw["inline"] = code["inline"]
			doc = append([]interface{}{nTag("div", false, nil, raw)}, doc...)
			if rr.Bool() {
				doc = append(doc, nTag("i", true, nil, nBuf(carry(rr, shape), false)), nTag("u", true, nil, nBuf(carry(rr, shape), true)))
			}
			emit(Case{"kind": "render", "oracle": "pug", "doc": doc, "data": data, "shape": shape, "bucket": "raw-then-escaped",
				"what": "raw then escaped " + printExpr(carry(rr, shape))})
			continue
		}
		emit(Case{"kind": "render", "oracle": "pug", "subst": J{"hostile": hs, "marker": c04marker}, "doc": doc, "data": data,
			"shape": shape, "bucket": shape, "what": shape + " " + printExpr(carry(rr, shape))})
	}
}
