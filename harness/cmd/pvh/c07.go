package main

import (
	"context"
	"encoding/json"
	"fmt"
	"math"
	"reflect"
	"strconv"
	"strings"
	"sync"
)

// C07: purity and determinism.
// case kind "pure": {doc, data}  -> impl {class, out, repeat_equal, engine2_equal, data_unchanged}
// case kind "history": {steps:[{doc,data}...]} -> impl {outs:[...], alone:[...]} (every output must equal its standalone render)
// Cross-process determinism: the check runs the same cases in several fresh processes and compares the answers.

func init() {
	generators["C07"] = genC07
	runners["pure"] = runPure
	runners["history"] = runHistory
}

func deepCopy(x interface{}) interface{} {
	b, _ := json.Marshal(x)
	var out interface{}
	json.Unmarshal(b, &out)
	return out
}

func runPure(c Case) interface{} {
	ast := pugDoc(asList(c["doc"]))
	data := c["data"]
	goData, _ := c["go_data"].(bool)
	if goData {
		data = reviveGo(data) // {"__go": ...} markers become Go values a JSON file cannot carry
	}
	before := deepCopy(data)
	eng, err := newEngine(EngineSpec{Files: map[string]string{"t": ast}})
	if err != nil {
		return J{"class": "harness-error", "msg": err.Error()}
	}
	defer eng.Close()
	if r := eng.Load(""); r.Class != "ok" {
		return J{"class": r.Class, "msg": r.Msg}
	}
	var outs []Result
	for i := 0; i < 3; i++ {
		outs = append(outs, eng.Render(context.Background(), "t", data))
	}
	second := renderOne(ast, data, false, nil)
	rep := outs[0] == outs[1] && outs[1] == outs[2]
	return J{"class": outs[0].Class, "out": outs[0].Out, "msg": outs[0].Msg, "repeat_equal": rep,
		"engine2_equal":  second.Class == outs[0].Class && second.Out == outs[0].Out,
		"data_unchanged": reflect.DeepEqual(before, deepCopy(data)) && (goData || reflect.DeepEqual(before, data)) && orderedIntact()}
}

func runHistory(c Case) interface{} {
	steps := asList(c["steps"])
	files := map[string]string{}
	for i, s := range steps {
		files[fmt.Sprintf("t%d", i)] = pugDoc(asList(asJ(s)["doc"]))
	}
	eng, err := newEngine(EngineSpec{Files: files})
	if err != nil {
		return J{"class": "harness-error", "msg": err.Error()}
	}
	defer eng.Close()
	if r := eng.Load(""); r.Class != "ok" {
		return J{"class": r.Class, "msg": r.Msg}
	}
	order := asList(c["order"])
	var outs, alone []interface{}
	// the standalone answers are taken BEFORE the history (state that outlives a render is process-wide, too), and every
	// repetition of a step inside the history must repeat its first answer
	baseline := map[int]Result{}
	for i := range steps {
		s := asJ(steps[i])
		baseline[i] = renderOne(files[fmt.Sprintf("t%d", i)], reviveGo(s["data"]), false, nil)
	}
	for _, o := range order {
		i := int(o.(float64))
		s := asJ(steps[i])
		r := eng.Render(context.Background(), fmt.Sprintf("t%d", i), reviveGo(s["data"]))
		outs = append(outs, J{"class": r.Class, "out": r.Out})
		a := baseline[i]
		alone = append(alone, J{"class": a.Class, "out": a.Out})
	}
	return J{"class": "ok", "outs": outs, "alone": alone}
}

// OrderedAttrs: string-keyed Go map with a display order
type OrderedAttrs map[string]interface{}

var (
	orderedMu     sync.Mutex
	orderedShared = map[string][]string{}
	orderOf       sync.Map // map pointer -> its (shared) order slice
)

// Order implements pugjs's sortable contract
func (m OrderedAttrs) Order() []string {
	if o, ok := orderOf.Load(reflect.ValueOf(m).Pointer()); ok {
		return o.([]string)
	}
	return nil
}

// orderedIntact: nobody wrote behind the end of an order slice the data handed out (its spare capacity is the caller's memory)
func orderedIntact() bool {
	orderedMu.Lock()
	defer orderedMu.Unlock()
	for _, sh := range orderedShared {
		for _, x := range sh[len(sh):cap(sh)] {
			if x != "" {
				return false
			}
		}
	}
	return true
}

// reviveGo turns the markers {"__go":"leafy"} / {"__go":"nan"} / {"__go":"inf"} inside JSON data into Go values a JSON file cannot
// carry: a struct with getter methods, and numbers encoding/json cannot marshal
func reviveGo(x interface{}) interface{} {
	switch v := x.(type) {
	case map[string]interface{}:
		switch v["__go"] {
		case "leafy":
			return &Leafy{Name: "kid", Count: 3, Ratio: 2.5, Ok: true, Tags: []string{"a", "b"}, URL: "/u", UserID: 7}
		case "zerostruct":
			return struct {
				Orders []int
				Name   string
				Count  int
			}{}
		case "zeroptr":
			return &Leafy{}
		case "somestruct":
			return struct {
				Orders []int
				Name   string
				Count  int
			}{Name: "n", Count: 2}
		case "ordered":
			// a Go map type with a display order (pugjs's `Order() []string` contract). The order slice is ONE slice per distinct order,
			// built with append (spare capacity) and handed out to every value - as a type with a fixed display order does.
			m := OrderedAttrs{}
			for k, e := range asJ(v["m"]) {
				m[k] = reviveGo(e)
			}
			var ord []string
			for _, o := range asList(v["order"]) {
				ord = append(ord, o.(string))
			}
			orderedMu.Lock()
			key := strings.Join(ord, "\x00")
			sh, ok := orderedShared[key]
			if !ok {
				sh = append(make([]string, 0, len(ord)+6), ord...)
				orderedShared[key] = sh
			}
			orderedMu.Unlock()
			orderOf.Store(reflect.ValueOf(m).Pointer(), sh)
			return m
		case "nilslice":
			return []string(nil) // an unset []T field or map value: an empty list in the template, a fresh one for every render
		case "nan":
			return math.NaN()
		case "inf":
			return math.Inf(1)
		}
		m := make(map[string]interface{}, len(v))
		for k, e := range v {
			m[k] = reviveGo(e)
		}
		return m
	case []interface{}:
		l := make([]interface{}, len(v))
		for i, e := range v {
			l[i] = reviveGo(e)
		}
		return l
	}
	return x
}

// documents that mutate everything reachable from the data
func mutatingDoc(r *Rng) []interface{} {
	var doc []interface{}
	ops := []func(){
		func() { doc = append(doc, nRaw(sExpr(eCall(eDot(eId("xs"), "push"), eNum("99"))))) },
		func() { doc = append(doc, nRaw(sExpr(eCall(eDot(eId("xs"), "sort"))))) },
		func() { doc = append(doc, nRaw(sVar("t", eCall(eDot(eId("xs"), "splice"), eNum("0"))))) },
		func() { doc = append(doc, nRaw(sVar("p", eCall(eDot(eId("xs"), "pop"))))) },
		func() { doc = append(doc, nRaw(sAssign(eDot(eId("o"), "k"), eNum("5")))) },
		func() { doc = append(doc, nRaw(sAssign(eIdx(eId("o"), eStr("name")), eStr("changed")))) },
		func() { doc = append(doc, nRaw(sExpr(eCall(eDot(eDot(eId("o"), "list"), "push"), eStr("more"))))) },
		func() { doc = append(doc, nRaw(sExpr(eCall(eDot(eDot(eId("o"), "list"), "sort"))))) },
		func() { doc = append(doc, nRaw(sAssign(eId("s"), eStr("reassigned")))) },
		func() {
			doc = append(doc, nRaw(sExpr(eCall(eDot(eIdx(eId("nested"), eNum("0")), "unshift"), eNum("0")))))
		},
		// a range() result is a fresh array on every call: mutating it must not be visible to any later call or render
		func() {
			doc = append(doc, nRaw(sVar("rg", eCall(eId("range"), eNum("1"), eNum(strconv.Itoa(r.Range(2, 5)))))),
				nRaw(sExpr(eCall(eDot(eId("rg"), []string{"push", "unshift"}[r.Intn(2)]), eStr("next")))), nText("rg="),
				nBuf(eCall(eDot(eId("rg"), "join"), eStr(",")), true), nText(";"))
		},
		func() {
			doc = append(doc, nRaw(sVar("rh", eCall(eId("range"), eNum("3")))), nRaw(sExpr(eCall(eDot(eId("rh"), "pop")))), nText("rh="),
				nBuf(eCall(eDot(eId("rh"), "join"), eStr(",")), true), nText(";"))
		},
		// JSON.parse of a constant text gives every call its own object: what one render does to it is invisible to every other
		func() {
			doc = append(doc, nRaw(sVar("cfg", eCall(eDot(eId("JSON"), "parse"), eStr(`{"user":"","items":[1,2]}`)))),
				nRaw(sAssign(eDot(eId("cfg"), "user"), eIdx(eId("xs"), eNum("3")))),
				nRaw(sExpr(eCall(eDot(eDot(eId("cfg"), "items"), "push"), eIdx(eId("xs"), eNum("3"))))), nText("cfg="),
				nBuf(eDot(eId("cfg"), "user"), true), nText("/"), nBuf(eCall(eDot(eDot(eId("cfg"), "items"), "join"), eStr(",")), true), nText(";"))
		},
		// two top-level data keys that differ only in the case of their first letter: both define the variable `foo`
		func() {
			doc = append(doc, nText("foo="), nBuf(eId("foo"), true), nText("/Foo="), nBuf(eId("Foo"), true), nText("/bar="), nBuf(eId("bar"), true), nText(";"))
		},
		// iteration over an unordered data map whose keys mix numerals, padded numerals, signs and letters
		func() {
			doc = append(doc, nEach("kv", "kk", eId("km"), nBuf(eId("kk"), true), nText("="), nBuf(eId("kv"), true), nText(",")))
		},
	}
	for i := 0; i < r.Range(1, 5); i++ {
		ops[r.Intn(len(ops))]()
	}
	doc = append(doc, nText("xs="), nBuf(eCall(eDot(eId("xs"), "join"), eStr(",")), true), nText(";o="), nBuf(eCall(eDot(eId("JSON"), "stringify"), eId("o")), true),
		nText(";s="), nBuf(eId("s"), true), nText(";n="), nBuf(eCall(eDot(eId("JSON"), "stringify"), eId("nested")), true))
	return doc
}

func mutData(r *Rng) J {
	return J{"xs": []interface{}{3, 1, 2, r.Range(0, 9)}, "o": J{"name": "n", "k": 1, "list": []interface{}{"b", "a"}, "zz": true, "aa": nil, "mm": 2.5},
		"s": "str", "nested": []interface{}{[]interface{}{1, 2}, []interface{}{"x"}},
		"Foo": "upper", "foo": "lower", "Bar": 1, "bar": 2,
		"km": J{"2": "a", "10": "b", "1a": "c", "01": "d", "1": "e", "+7": "f", "7": "g", "b": "h", "B": "i", "-1": "j", "1e1": "k"}}
}

func genC07(r *Rng, n int, tier string, emit func(Case)) {
	// collect documents from the other generators
	type dd struct {
		doc  []interface{}
		data interface{}
	}
	var pool []dd
	for _, s := range []string{"C05", "C02", "C20", "C03"} {
		g, ok := generators[s]
		if !ok {
			continue
		}
		g(r.Fork(), n/4+2, tier, func(c Case) {
			if c["kind"] == "render" {
				pool = append(pool, dd{asList(c["doc"]), c["data"]})
			}
		})
	}
	for i := 0; i < n; i++ {
		rr := r.Fork()
		switch i % 4 {
		case 0, 1:
			p := pool[rr.Intn(len(pool))]
			emit(Case{"kind": "pure", "doc": p.doc, "data": p.data, "bucket": "pure"})
		case 2:
			if rr.Chance(1, 4) {
				// an ordered Go map (display order of its own, possibly listing only some keys) that the template extends and walks
				j := orderedJob(rr, rr.Intn(3))
				emit(Case{"kind": "pure", "doc": j["doc"], "data": j["data"], "go_data": true, "bucket": "ordered-map"})
				continue
			}
			emit(Case{"kind": "pure", "doc": mutatingDoc(rr), "data": mutData(rr), "bucket": "mutate"})
		default:
			k := rr.Range(2, 4)
			var steps []interface{}
			for j := 0; j < k; j++ {
				if rr.Chance(1, 3) {
					steps = append(steps, J{"doc": mutatingDoc(rr), "data": mutData(rr)})
				} else if rr.Chance(1, 5) {
					steps = append(steps, orderedJob(rr, j))
				} else {
					p := pool[rr.Intn(len(pool))]
					steps = append(steps, J{"doc": p.doc, "data": p.data})
				}
			}
			var order []interface{}
			for j := 0; j < rr.Range(3, 10); j++ {
				order = append(order, rr.Intn(k))
			}
			if rr.Chance(1, 5) {
				// the module's debug() function on a value encoding/json cannot marshal (NaN / Inf), between JSON output of a Go
				// value with getter methods: the failing call must leave nothing behind
				bad := J{"doc": []interface{}{nText("dbg:"), nBuf(eCall(eId("debug"), eId("bad"), eBool(false)), false), nText(";")}, "data": J{"bad": J{"v": J{"__go": []string{"nan", "inf"}[rr.Intn(2)]}}}}
				getters := J{"doc": []interface{}{nBuf(eCall(eDot(eId("JSON"), "stringify"), eId("lf")), false), nText("|"), nBuf(eCall(eId("debug"), eId("lf")), false)}, "data": J{"lf": J{"__go": "leafy"}}}
				steps = append(steps, getters, bad)
				g, b := len(steps)-2, len(steps)-1
				order = append(order, g, b, g, b, g)
			}
			emit(Case{"kind": "history", "steps": steps, "order": order, "bucket": "history"})
		}
	}
}
