package main

import (
	"fmt"
	"strconv"
)

// C20: random call sequences of array / string methods with aliasing and kept results, state printed after every step.
// case: {kind:"render", oracle:"js-heap", doc, data}

func init() {
	generators["C20"] = genC20
}

func genC20(r *Rng, n int, tier string, emit func(Case)) {
	maxLen := 12
	if tier == "thorough" {
		maxLen = 40
	}
	for i := 0; i < n; i++ {
		rr := r.Fork()
		strElems := rr.Chance(1, 3)
		elem := func() J {
			if strElems {
				return eStr([]string{"a", "b", "Zed", "10", "9", "x y", "", "<i>"}[rr.Intn(8)])
			}
			if rr.Chance(1, 8) {
				// numbers of six to nine digits (prices in cents, ids): printed, joined and compared digit for digit
				return eNum([]string{"1000000", "1200000", "999999", "123456789", "5000000", "100000"}[rr.Intn(6)])
			}
			return eNum(strconv.Itoa(rr.Range(0, 30)))
		}
		elemData := func() interface{} {
			if strElems {
				return []string{"a", "b", "Zed", "10", "9", "x y", "q&a"}[rr.Intn(7)]
			}
			return rr.Range(-5, 30)
		}
		k := rr.Range(0, 6)
		var a0 []interface{}
		for j := 0; j < k; j++ {
			a0 = append(a0, elemData())
		}
		if a0 == nil {
			a0 = []interface{}{}
		}
		data := J{"a": a0, "s": []string{"hello world", "a,b,c", "Abc", "", "x"}[rr.Intn(5)]}
		// model of lengths so that arguments stay in range; aliases share a cell
		type cell struct {
			n   int
			nul bool // may hold null: sort is not drawn for it (the engine has ONE Nil for null and undefined, JavaScript sorts
			// null as the text "null" and undefined behind everything - no single expectation exists)
		}
		arrs := map[string]*cell{"a": {n: len(a0)}}
		names := []string{"a"}
		nv := 0
		fresh := func(p string) string { nv++; return fmt.Sprintf("%s%d", p, nv) }
		var doc []interface{}
		show := func() {
			for _, nm := range names {
				doc = append(doc, nText(";"+nm+"=["), nBuf(eCall(eDot(eId(nm), "join"), eStr(",")), true), nText("]#"), nBuf(eDot(eId(nm), "length"), true))
			}
			doc = append(doc, nText("|"))
		}
		show()
		steps := rr.Range(1, maxLen)
		for st := 0; st < steps; st++ {
			nm := names[rr.Intn(len(names))]
			c := arrs[nm]
			switch rr.Intn(13) {
			case 0, 1:
				doc = append(doc, nRaw(sExpr(eCall(eDot(eId(nm), "push"), elem()))))
				c.n++
			case 2:
				if c.n > 0 {
					x := fresh("r")
					doc = append(doc, nRaw(sVar(x, eCall(eDot(eId(nm), "pop")))), nText("pop:"), nBuf(eId(x), true))
					c.n--
				}
			case 3:
				if c.n > 0 {
					x := fresh("r")
					doc = append(doc, nRaw(sVar(x, eCall(eDot(eId(nm), "shift")))), nText("shift:"), nBuf(eId(x), true))
					c.n--
				}
			case 4:
				x := fresh("r")
				cnt := rr.Range(1, 2)
				args := []interface{}{}
				for q := 0; q < cnt; q++ {
					args = append(args, elem())
				}
				doc = append(doc, nRaw(sVar(x, eCall(eDot(eId(nm), "unshift"), args...))), nText("unshift:"), nBuf(eId(x), true))
				c.n += cnt
			case 5:
				if !c.nul {
					doc = append(doc, nRaw(sExpr(eCall(eDot(eId(nm), "sort")))))
				}
			case 6: // splice(start): the removed tail is kept and must not change afterwards
				kk := rr.Intn(c.n + 1)
				x := fresh("t")
				doc = append(doc, nRaw(sVar(x, eCall(eDot(eId(nm), "splice"), eNum(strconv.Itoa(kk))))))
				arrs[x] = &cell{n: c.n - kk, nul: c.nul}
				names = append(names, x)
				c.n = kk
			case 7: // slice(start): a copy
				kk := rr.Intn(c.n + 1)
				x := fresh("c")
				doc = append(doc, nRaw(sVar(x, eCall(eDot(eId(nm), "slice"), eNum(strconv.Itoa(kk))))))
				arrs[x] = &cell{n: c.n - kk, nul: c.nul}
				names = append(names, x)
			case 8: // alias, or a fresh array literal ([] and [x, y] are new arrays every time they are evaluated)
				x := fresh("b")
				if rr.Chance(1, 3) {
					k := rr.Intn(3)
					hasNull := false
					var es []interface{}
					for j := 0; j < k; j++ {
						es = append(es, elem())
					}
					if rr.Bool() {
						es = nil // the empty literal
					} else if rr.Chance(1, 2) {
						// a null entry keeps its position in the literal: ["x", null, "y"] has length 3 and joins to "x,,y"
						at := rr.Intn(len(es) + 1)
						es = append(es[:at:at], append([]interface{}{eNull()}, es[at:]...)...)
						if rr.Chance(1, 3) {
							es = append(es, eNull())
						}
						hasNull = true
					}
					doc = append(doc, nRaw(sVar(x, eArr(es...))))
					arrs[x] = &cell{n: len(es), nul: hasNull}
					names = append(names, x)
					break
				}
				doc = append(doc, nRaw(sVar(x, eId(nm))))
				arrs[x] = c
				names = append(names, x)
			case 9:
				doc = append(doc, nText("idx:"), nBuf(eCall(eDot(eId(nm), "indexOf"), elem()), true))
			case 10:
				if c.n > 0 {
					doc = append(doc, nText("at:"), nBuf(eIdx(eId(nm), eNum(strconv.Itoa(rr.Intn(c.n)))), true))
				}
			default: // string methods on an ASCII string: a string from the data, or (recv) a literal in the template
				sv := data["s"].(string)
				if rr.Chance(1, 3) {
					lit := []string{"Hello World", "a,b", "x"}[rr.Intn(3)]
					switch rr.Intn(5) {
					case 0:
						doc = append(doc, nText("Lch:"), nBuf(eCall(eDot(eStr(lit), "charAt"), eNum(strconv.Itoa(rr.Intn(len(lit))))), true))
					case 1:
						doc = append(doc, nText("Lio:"), nBuf(eCall(eDot(eStr(lit), "indexOf"), eStr([]string{"o", ",", "zz"}[rr.Intn(3)])), true))
					case 2:
						doc = append(doc, nText("Lup:"), nBuf(eCall(eDot(eStr(lit), "toUpperCase")), true))
					case 3:
						doc = append(doc, nText("Llo:"), nBuf(eCall(eDot(eStr(lit), "toLowerCase")), true))
					default:
						doc = append(doc, nText("Llen:"), nBuf(eDot(eStr(lit), "length"), true))
					}
					break
				}
				switch rr.Intn(7) {
				case 0:
					doc = append(doc, nText("len:"), nBuf(eDot(eId("s"), "length"), true))
				case 1:
					doc = append(doc, nText("ch:"), nBuf(eCall(eDot(eId("s"), "charAt"), eNum(strconv.Itoa(rr.Intn(len(sv)+2)))), true))
				case 2:
					doc = append(doc, nText("io:"), nBuf(eCall(eDot(eId("s"), "indexOf"), eStr([]string{"o", "b", ",", "zz", ""}[rr.Intn(5)])), true))
				case 3:
					a := rr.Intn(len(sv) + 1)
					b := a + rr.Intn(len(sv)-a+1)
					doc = append(doc, nText("sl:"), nBuf(eCall(eDot(eId("s"), "slice"), eNum(strconv.Itoa(a)), eNum(strconv.Itoa(b))), true))
				case 4:
					x := fresh("p")
					doc = append(doc, nRaw(sVar(x, eCall(eDot(eId("s"), "split"), eStr([]string{",", " ", "l"}[rr.Intn(3)])))))
					cnt := 1
					arrs[x] = &cell{n: cnt} // at least one part; only push/sort/join are safe without knowing the exact length
					names = append(names, x)
				case 5:
					doc = append(doc, nText("up:"), nBuf(eCall(eDot(eId("s"), "toUpperCase")), true))
				default:
					doc = append(doc, nText("lo:"), nBuf(eCall(eDot(eId("s"), "toLowerCase")), true))
				}
			}
			show()
			if len(names) > 5 {
				names = names[:5]
			}
		}
		emit(Case{"kind": "render", "oracle": "js-heap", "doc": doc, "data": data, "bucket": "seq", "steps": steps, "what": "sequence"})
	}
}
