package main

import (
	"context"

	"flamingo.me/flamingo/v3/framework/flamingo"
	"flamingo.me/flamingo/v3/framework/web"
	"flamingo.me/pugtemplate/pugjs"
	"flamingo.me/pugtemplate/templatefunctions"
)

// a real flamingo router with the "_static" route the module registers, so that the module's asset() template function
// can be used in rendered templates exactly as in an application

type staticRoutes struct{}

func (staticRoutes) Routes(registry *web.RouterRegistry) {
	registry.MustRoute("/static/*n", "_static")
	registry.HandleAny("_static", func(ctx context.Context, req *web.Request) web.Result { return nil })
}

func newRouter() *web.Router {
	r := new(web.Router)
	r.Inject(&struct {
		// base url configuration
		Scheme      string `inject:"config:flamingo.router.scheme,optional"`
		Host        string `inject:"config:flamingo.router.host,optional"`
		Path        string `inject:"config:flamingo.router.path,optional"`
		External    string `inject:"config:flamingo.router.external,optional"`
		SessionName string `inject:"config:flamingo.session.name,optional"`
	}{}, nil, nil,
		func() []web.Filter { return nil },
		func() []web.RoutesModule { return []web.RoutesModule{staticRoutes{}} },
		flamingo.NullLogger{}, nil, nil)
	r.Handler()
	return r
}

func assetFunc(e *pugjs.Engine) flamingo.TemplateFunc {
	return &templatefunctions.AssetFunc{Router: newRouter(), Engine: e}
}
