package main

import "strconv"

// C05: attribute lists. case: {kind:"render", oracle:"attrs", doc:[tag ...], data}

func init() {
	generators["C05"] = genC05
}

var c05names = []string{"title", "id", "href", "data-x", "alt", "value", "name", "rel", "lang"}
var c05bools = []string{"disabled", "checked", "hidden", "required"}

func genC05(r *Rng, n int, tier string, emit func(Case)) {
	for i := 0; i < n; i++ {
		rr := r.Fork()
		hs := hostileString(rr)
		data := J{"h": hs, "num": rr.Range(-5, 900), "frac": 2.5, "t": true, "f": false, "z": nil,
			"ts": 1700000000123, "cls": []interface{}{"a", "b"}, "clsMixed": []interface{}{"x", false, nil, "y"}, "word": "w1",
			"sp":      J{"data-a": "1", "title": hs, "zz": "last", "aa": "first"},
			"spBool":  J{"hidden": true, "lang": "en", "required": false},
			"spClass": J{"class": "from-spread", "id": "i9"}}
		k := rr.Range(0, 7)
		var attrs []interface{}
		used := map[string]bool{}
		what := ""
		for j := 0; j < k; j++ {
			switch rr.Intn(12) {
			case 0, 1: // string literal
				nm := c05names[rr.Intn(len(c05names))]
				if used[nm] {
					continue
				}
				used[nm] = true
				lit := []string{"plain", "a b", " pad ", "x<y", "q\"q", "it's", "&", "", "größe", "日本 語", "é<ü", "Zoë's", "naïve & \"ça\""}[rr.Intn(13)]
				attrs = append(attrs, nAttr(nm, eStr(lit), true))
				what += nm + "=lit "
			case 2, 3: // hostile data string
				nm := c05names[rr.Intn(len(c05names))]
				if used[nm] {
					continue
				}
				used[nm] = true
				attrs = append(attrs, nAttr(nm, eId("h"), true))
				what += nm + "=h "
			case 4: // numbers: variable, literal, expression
				nm := c05names[rr.Intn(len(c05names))]
				if used[nm] {
					continue
				}
				used[nm] = true
				// integer literals of every size a timestamp, an order number or an id has (they must come out digit for digit)
				big := []string{"1700000000123", "20240131000042", "10000000000", "9007199254740991", "123456789012", "99999999999", "4294967296"}[rr.Intn(7)]
				v := []J{eId("num"), eNum(strconv.Itoa(rr.Range(0, 99))), eBin("+", eId("num"), eNum("1")), eId("frac"), eNum("1.5"), eNum(big), eUn("-", eNum(big)), eId("ts")}[rr.Intn(8)]
				attrs = append(attrs, nAttr(nm, v, true))
				what += nm + "=num "
			case 5: // booleans / null / undefined
				nm := c05bools[rr.Intn(len(c05bools))]
				if used[nm] {
					continue
				}
				used[nm] = true
				v := []J{eBool(true), eBool(false), eId("t"), eId("f"), eId("z"), eNull(), eId("undefinedVar"), eBin("<", eId("num"), eNum("3"))}[rr.Intn(8)]
				attrs = append(attrs, nAttr(nm, v, true))
				what += nm + "=bool "
			case 6, 7, 8: // class in its many forms (may repeat)
				v := []J{eStr("c1"), eStr("c2 c3"), eId("word"), eId("cls"), eId("clsMixed"), eArr(eStr("l1"), eId("word")), eArr(eStr("l1"), eId("f"), eStr("l2")),
					eId("f"), eId("z"), eArr(), eStr(""), eId("h")}[rr.Intn(12)]
				attrs = append(attrs, nAttr("class", v, true))
				what += "class "
			case 9: // unescaped literal attribute
				nm := c05names[rr.Intn(len(c05names))]
				if used[nm] {
					continue
				}
				used[nm] = true
				attrs = append(attrs, nAttr(nm, eStr([]string{"raw", "a-b", "x y", "größe", "überblick", "日本", "höhe ß"}[rr.Intn(7)]), false))
				what += nm + "=raw "
			default:
				nm := c05names[rr.Intn(len(c05names))]
				if used[nm] {
					continue
				}
				used[nm] = true
				attrs = append(attrs, nAttr(nm, eBin("+", eStr("pre-"), eId("h")), true))
				what += nm + "=concat "
			}
		}
		tag := nTag([]string{"div", "a", "input", "p"}[rr.Intn(4)], false, attrs, nText("body"))
		if rr.Chance(1, 3) {
			sp := []string{"sp", "spBool", "spClass"}[rr.Intn(3)]
			ok := true
			if m, isMap := data[sp].(J); isMap {
				for key := range m {
					if used[key] {
						ok = false
					}
				}
			}
			if ok {
				tag["ablocks"] = []interface{}{sp}
				what += "&attributes(" + sp + ") "
			}
		}
		if rr.Chance(1, 12) {
			// an object LITERAL (its own key order, not alphabetical) spread on the tag, with and without Object.keys() having looked
			// at it first: the attributes and their order depend on the object's contents only. Judged against the model.
			lit := eObj("title", eId("h"), "id", eStr("i1"), "data-a", eStr("1"), "lang", eStr("en"), "alt", eId("word"))
			t := nTag("a", false, nil, nText("body"))
			t["ablocks"] = []interface{}{"lit"}
			doc := []interface{}{nRaw(sVar("lit", lit))}
			if rr.Bool() {
				doc = append(doc, nRaw(sVar("ks", eCall(eDot(eId("Object"), "keys"), eId("lit")))))
			}
			doc = append(doc, t)
			emit(Case{"kind": "render", "doc": doc, "data": data, "bucket": "literal-spread", "nattrs": 5, "what": "object literal spread"})
			continue
		}
		if rr.Chance(1, 14) {
			// an object BUILT before it is spread: copied from the data with Object.assign into an empty literal, then given one more
			// member by assignment. Every member appears exactly once (specification: the tag with the finished object spread on it).
			src := []string{"sp", "spClass"}[rr.Intn(2)]
			t := nTag("div", false, nil, nText("body"))
			t["ablocks"] = []interface{}{"built"}
			doc := []interface{}{nRaw(sVar("built", eCall(eDot(eId("Object"), "assign"), eObj(), eId(src)))),
				nRaw(sAssign(eDot(eId("built"), "role"), eStr("button")))}
			if rr.Bool() {
				doc = append(doc, nRaw(sAssign(eIdx(eId("built"), eStr("lang")), eStr("de"))))
			}
			doc = append(doc, t)
			fin := J{}
			for k, v := range data[src].(J) {
				fin[k] = v
			}
			fin["role"] = "button"
			if len(doc) == 4 {
				fin["lang"] = "de"
			}
			data2 := J{}
			for k, v := range data {
				data2[k] = v
			}
			data2["finished"] = fin
			st := nTag("div", false, nil, nText("body"))
			st["ablocks"] = []interface{}{"finished"}
			emit(Case{"kind": "render", "oracle": "attrs", "doc": doc, "spec_doc": []interface{}{st}, "data": data2, "bucket": "built-spread", "nattrs": len(fin),
				"what": "Object.assign({}, " + src + ") + member assignment, spread"})
			continue
		}
		// the same attributes given to a MIXIN CALL whose body spreads `attributes` on its tag: `+m.primary.large(title=t)`. Only when
		// every attribute is escaped and there is no extra spread (then the two forms are the same tag).
		allEsc := tag["ablocks"] == nil || len(asList(tag["ablocks"])) == 0
		for _, a := range attrs {
			if esc, _ := asJ(a)["esc"].(bool); !esc {
				allEsc = false
			}
		}
		if allEsc && len(attrs) > 0 && rr.Chance(1, 4) {
			name := tag["name"].(string)
			inner := nTag(name, false, nil, nText("body"))
			inner["ablocks"] = []interface{}{"attributes"}
			doc := []interface{}{nMixin("m", nil, inner), nCall("m", nil, attrs)}
			cs := Case{"kind": "render", "oracle": "attrs", "doc": doc, "spec_doc": []interface{}{tag}, "data": data, "bucket": "mixin-call", "nattrs": len(attrs)}
			if rr.Bool() && tag["name"] != "input" {
				// the same call again (and again), then a plain tag that reads the data arrays: a call builds its `attributes` object
				// from the values, it never writes into them (class=cls class='x' must not grow `cls`)
				after := nTag("p", false, []interface{}{nAttr("class", eId("cls"), true), nAttr("data-x", eCall(eDot(eId("clsMixed"), "join"), eStr("|")), true)}, nText("after"))
				rep := rr.Range(2, 3)
				for q := 1; q < rep; q++ {
					doc = append(doc, nCall("m", nil, attrs))
				}
				doc = append(doc, after)
				cs["doc"], cs["repeat"], cs["bucket"] = doc, rep, "mixin-call-repeated"
				cs["after_attrs"] = []interface{}{[]interface{}{"class", "a b"}, []interface{}{"data-x", "x|false||y"}}
				what = strconv.Itoa(rep) + " times, then a plain tag: " + what
			}
			cs["what"] = "mixin call: " + what
			emit(cs)
			continue
		}
		emit(Case{"kind": "render", "oracle": "attrs", "doc": []interface{}{tag}, "data": data, "bucket": "tag", "nattrs": len(attrs), "what": what})
	}
}
