package main

import (
	"fmt"
	"strconv"
)

// C03: mixins — arguments, attributes and block content per call.
// case: {kind:"render", oracle:"pug", doc, data}

func init() {
	generators["C03"] = genC03
}

type mdef struct {
	name   string
	params []string
	rec    bool // first parameter is a decreasing counter; the body calls itself
}

type mgen struct {
	r      *Rng
	defs   []mdef
	nv     int
	locals []string // caller locals currently in scope (numbers)
}

func (g *mgen) fresh(p string) string { g.nv++; return fmt.Sprintf("%s%d", p, g.nv) }

// an expression usable in the caller scope
func (g *mgen) callerExpr() J {
	r := g.r
	choices := []J{eId("pn"), eId("ps"), eNum(strconv.Itoa(r.Range(0, 9))), eStr([]string{"lit", "<x>", "a b"}[r.Intn(3)]), eBin("+", eId("pn"), eNum("1"))}
	for _, l := range g.locals {
		choices = append(choices, eId(l), eId(l))
	}
	return choices[r.Intn(len(choices))]
}

// body of a mixin: sees page data and its parameters, not the caller's locals
func (g *mgen) mixinBody(d mdef, idx int, depth int) []interface{} {
	r := g.r
	var out []interface{}
	out = append(out, nText("<"+d.name+":"))
	for _, p := range d.params {
		out = append(out, nBuf(eId(p), true), nText(","))
	}
	if r.Bool() {
		out = append(out, nText("pg="), nBuf(eId("ps"), true)) // page data is visible
	}
	if r.Chance(1, 3) {
		out = append(out, nText("loc="), nBuf(eId("callerLocal"), true)) // a caller local is NOT visible: prints nothing
	}
	if r.Chance(1, 3) {
		// the call's attributes: `attributes.class` is the call's own list (or nothing when the call gave no class)
		out = append(out, nText("at="), nBuf(eDot(eId("attributes"), "class"), true))
	}
	if r.Chance(1, 4) {
		// a body that WRITES into its `attributes` object: the object belongs to this one call (also when the call gave no
		// attributes at all), so the mark is never there when the next call starts
		out = append(out, nText("mk="), nBuf(eDot(eId("attributes"), "mark"), true), nRaw(sAssign(eDot(eId("attributes"), "mark"), eStr("M"))),
			nText("/"), nBuf(eDot(eId("attributes"), "mark"), true))
	}
	placeBlock := func() {
		switch r.Intn(4) {
		case 0:
			out = append(out, nTag("b", true, nil, nBlock()))
		case 1:
			out = append(out, nIf(eId("yes"), []interface{}{nBlock()}, nil))
		default:
			out = append(out, nBlock())
		}
	}
	nb := []int{0, 1, 1, 1, 2}[r.Intn(5)]
	if d.rec {
		// recursive: call itself with a smaller counter, forwarding or replacing the block; block placed before or after
		before := r.Bool()
		if before && nb > 0 {
			placeBlock()
		}
		var inner []interface{}
		switch r.Intn(3) {
		case 0:
			inner = []interface{}{nText("in("), nBuf(eId(d.params[0]), true), nText(")")}
		case 1:
			inner = []interface{}{nBlock()} // forward the own block
		default:
			inner = nil
		}
		args := []interface{}{eBin("-", eId(d.params[0]), eNum("1"))}
		for range d.params[1:] {
			args = append(args, g.paramExpr(d))
		}
		out = append(out, nIf(eBin(">", eId(d.params[0]), eNum("0")), []interface{}{nCall(d.name, args, nil, inner...)}, nil))
		if !before && nb > 0 {
			placeBlock()
		}
		if nb > 1 {
			placeBlock()
		}
	} else {
		for i := 0; i < nb; i++ {
			placeBlock()
			if i == 0 && nb > 1 {
				out = append(out, nText("|"))
			}
		}
		// call an earlier-defined mixin, possibly forwarding the block (twice)
		if idx > 0 && depth > 0 && r.Chance(2, 3) {
			callee := g.defs[r.Intn(idx)]
			times := 1
			if r.Chance(1, 3) {
				times = 2
			}
			for t := 0; t < times; t++ {
				var inner []interface{}
				switch r.Intn(3) {
				case 0:
					inner = []interface{}{nText("fwd["), nBlock(), nText("]")}
				case 1:
					inner = []interface{}{nText("own"), nBuf(g.paramExpr(d), true)}
				}
				var args []interface{}
				for i := range callee.params {
					if callee.rec && i == 0 {
						args = append(args, eNum(strconv.Itoa(r.Range(0, 2))))
					} else {
						args = append(args, g.paramExpr(d))
					}
				}
				out = append(out, nCall(callee.name, args, nil, inner...))
			}
		}
	}
	out = append(out, nText(">"))
	return out
}

func (g *mgen) paramExpr(d mdef) J {
	r := g.r
	if len(d.params) > 0 && r.Bool() {
		return eId(d.params[r.Intn(len(d.params))])
	}
	return []J{eId("pn"), eStr("k"), eNum("7")}[r.Intn(3)]
}

// a call from the main template (or from a loop body): block content reads the caller's variables
func (g *mgen) call(depth int) []interface{} {
	r := g.r
	d := g.defs[r.Intn(len(g.defs))]
	var args []interface{}
	n := len(d.params)
	if r.Chance(1, 4) && n > 0 && !d.rec {
		n-- // a missing argument is empty
	}
	for i := 0; i < n; i++ {
		if d.rec && i == 0 {
			args = append(args, eNum(strconv.Itoa(r.Range(0, 3))))
		} else {
			args = append(args, g.callerExpr())
		}
	}
	var inner []interface{}
	if r.Chance(3, 4) {
		inner = append(inner, nText("B("))
		for i := 0; i < r.Range(1, 2); i++ {
			inner = append(inner, nBuf(g.callerExpr(), true))
		}
		if depth > 0 && r.Chance(1, 4) {
			inner = append(inner, g.call(depth-1)...)
		}
		inner = append(inner, nText(")"))
	}
	var attrs []interface{}
	if r.Chance(1, 4) {
		// attributes on the call; a repeated name whose FIRST value is an array that lives on after the call (page data `xs`):
		// every call sees the array plus its own extra value, and the array itself stays what the data says
		switch r.Intn(3) {
		case 0:
			attrs = []interface{}{nAttr("class", eId("xs"), true), nAttr("class", g.callerExpr(), true)}
		case 1:
			attrs = []interface{}{nAttr("class", eStr("one"), true), nAttr("title", g.callerExpr(), true)}
		default:
			attrs = []interface{}{nAttr("class", eId("xs"), true), nAttr("class", eStr("k"), true), nAttr("class", eId("ps"), true)}
		}
	}
	return []interface{}{nCall(d.name, args, attrs, inner...)}
}

func genC03(r *Rng, n int, tier string, emit func(Case)) {
	var prevDoc []interface{}
	for i := 0; i < n; i++ {
		g := &mgen{r: r.Fork()}
		rr := g.r
		nd := rr.Range(1, 3)
		if tier == "thorough" {
			nd = rr.Range(1, 4)
		}
		var doc []interface{}
		for j := 0; j < nd; j++ {
			d := mdef{name: fmt.Sprintf("m%d", j)}
			np := rr.Range(0, 2)
			d.rec = rr.Chance(1, 3)
			if d.rec && np == 0 {
				np = 1
			}
			for k := 0; k < np; k++ {
				d.params = append(d.params, fmt.Sprintf("p%d%d", j, k))
			}
			g.defs = append(g.defs, d)
		}
		var defNodes []interface{}
		for j, d := range g.defs {
			ps := []interface{}{}
			for _, p := range d.params {
				ps = append(ps, p)
			}
			defNodes = append(defNodes, nMixin(d.name, ps, g.mixinBody(d, j, 2)...))
		}
		defsFirst := rr.Chance(2, 3)
		if defsFirst {
			doc = append(doc, defNodes...)
		}
		// main template: locals, calls, calls in loops
		doc = append(doc, nRaw(sVar("callerLocal", eStr("CL"))))
		g.locals = []string{"callerLocal"}
		for k := 0; k < rr.Range(1, 4); k++ {
			switch rr.Intn(5) {
			case 0:
				v := g.fresh("it")
				g.locals = append(g.locals, v)
				body := g.call(1)
				g.locals = g.locals[:len(g.locals)-1]
				doc = append(doc, nEach(v, "", eId("xs"), body...))
			case 1:
				x := g.fresh("L")
				doc = append(doc, nRaw(sVar(x, g.callerExpr())))
				g.locals = append(g.locals, x)
			case 2:
				doc = append(doc, nTag("div", false, nil, g.call(1)...))
			default:
				doc = append(doc, g.call(1)...)
			}
			doc = append(doc, nText(";"))
		}
		if !defsFirst {
			doc = append(doc, defNodes...)
		}
		doc = append(doc, nText("end"), nBuf(eCall(eDot(eId("xs"), "join"), eStr("+")), true))
		data := J{"pn": rr.Range(1, 9), "ps": []string{"page", "<pg>"}[rr.Intn(2)], "xs": []interface{}{"e1", "e2", "e3"}[:rr.Range(0, 3)], "yes": true}
		if prevDoc != nil && rr.Chance(1, 4) {
			// the previous program (same mixin names, other bodies) lives next to this one in the same directory, under names
			// sorting before and after it: each page keeps its own definitions
			emit(Case{"kind": "render", "oracle": "pug", "doc": doc, "data": data, "siblings": []interface{}{prevDoc, prevDoc}, "bucket": "mixins+siblings",
				"depth": exprDepth(doc), "what": "mixin program next to another page"})
		} else {
			emit(Case{"kind": "render", "oracle": "pug", "doc": doc, "data": data, "bucket": "mixins", "depth": exprDepth(doc), "what": "mixin program"})
		}
		prevDoc = doc
	}
}
