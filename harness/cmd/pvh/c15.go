package main

import (
	"encoding/base64"
	"fmt"
	"strconv"
	"strings"
	"time"

	"flamingo.me/pugtemplate/otto/ast"
	ottoparser "flamingo.me/pugtemplate/otto/parser"
)

// C15: the JavaScript snippet parser accepts or rejects every input without crashing.
// case: {kind:"parse", src:"...", expect:<Expr tree>|null}
// impl: {file:{class,nbody,err}, file2:{...}, filec:{...} (StoreComments), func:{class,err}, func2:{...}, ast:<tree of the single expression statement>|null}

func init() {
	generators["C15"] = genC15
	runners["parse"] = runParse
}

func guarded(limit time.Duration, f func() J) J {
	done := make(chan J, 1)
	go func() {
		defer func() {
			if r := recover(); r != nil {
				done <- J{"class": "panic", "msg": firstLine(fmt.Sprint(r))}
			}
		}()
		done <- f()
	}()
	select {
	case r := <-done:
		return r
	case <-time.After(limit):
		return J{"class": "timeout"}
	}
}

func errStr(err error) string {
	if err == nil {
		return ""
	}
	return firstLine(err.Error())
}

func ottoToJ(e ast.Expression) J {
	switch v := e.(type) {
	case *ast.Identifier:
		return eId(v.Name)
	case *ast.NumberLiteral:
		switch n := v.Value.(type) {
		case int64:
			return eNum(strconv.FormatInt(n, 10))
		case float64:
			return eNum(strconv.FormatFloat(n, 'f', -1, 64))
		}
		return J{"t": "num", "v": fmt.Sprint(v.Value)}
	case *ast.StringLiteral:
		return eStr(v.Value)
	case *ast.BooleanLiteral:
		return eBool(v.Value)
	case *ast.NullLiteral:
		return eNull()
	case *ast.BinaryExpression:
		return eBin(v.Operator.String(), ottoToJ(v.Left), ottoToJ(v.Right))
	case *ast.UnaryExpression:
		return eUn(v.Operator.String(), ottoToJ(v.Operand))
	case *ast.ConditionalExpression:
		return eCond(ottoToJ(v.Test), ottoToJ(v.Consequent), ottoToJ(v.Alternate))
	case *ast.ArrayLiteral:
		var es []interface{}
		for _, x := range v.Value {
			es = append(es, ottoToJ(x))
		}
		return eArr(es...)
	case *ast.ObjectLiteral:
		var kv []interface{}
		for _, p := range v.Value {
			kv = append(kv, p.Key, ottoToJ(p.Value))
		}
		return eObj(kv...)
	case *ast.DotExpression:
		return eDot(ottoToJ(v.Left), v.Identifier.Name)
	case *ast.BracketExpression:
		return eIdx(ottoToJ(v.Left), ottoToJ(v.Member))
	case *ast.CallExpression:
		var as []interface{}
		for _, x := range v.ArgumentList {
			as = append(as, ottoToJ(x))
		}
		return eCall(ottoToJ(v.Callee), as...)
	}
	return J{"t": fmt.Sprintf("%T", e)}
}

func runParse(c Case) interface{} {
	src := str(c, "src")
	if b64 := str(c, "src64"); b64 != "" {
		// arbitrary bytes (invalid UTF-8 included) travel base64-encoded
		if raw, err := base64.StdEncoding.DecodeString(b64); err == nil {
			src = string(raw)
		}
	}
	wantAST := c["expect"] != nil
	limit := 10*time.Second + time.Duration(len(src))*time.Millisecond/5
	pf := func(mode ottoparser.Mode) func() J {
		return func() J {
			prog, err := ottoparser.ParseFile(nil, "", src, mode)
			r := J{"class": "tree", "err": errStr(err)}
			if err != nil {
				r["class"] = "error"
			}
			if prog != nil {
				r["nbody"] = len(prog.Body)
				if wantAST && err == nil && len(prog.Body) == 1 {
					if es, ok := prog.Body[0].(*ast.ExpressionStatement); ok {
						r["ast"] = ottoToJ(es.Expression)
					}
				}
			}
			return r
		}
	}
	fn := func() J {
		f, err := ottoparser.ParseFunction("", src)
		if err != nil {
			return J{"class": "error", "err": errStr(err)}
		}
		if f == nil {
			return J{"class": "nil-tree"}
		}
		return J{"class": "tree", "err": ""}
	}
	out := J{"class": "ok"}
	out["file"] = guarded(limit, pf(0))
	out["file2"] = guarded(limit, pf(0))
	out["filec"] = guarded(limit, pf(ottoparser.StoreComments))
	out["func"] = guarded(limit, fn)
	out["func2"] = guarded(limit, fn)
	if a, ok := out["file"].(J)["ast"]; ok {
		out["ast"] = a
		delete(out["file"].(J), "ast")
		delete(out["file2"].(J), "ast")
		delete(out["filec"].(J), "ast")
	}
	return out
}

var jsSeeds = []string{
	"var a = 1, b = 2; a + b", "function f(x) { return x * 2 }", "if (a) { b() } else if (c) { d() } else { e() }", "for (var i = 0; i < 10; i++) { x += i }",
	"for (var k in obj) { print(k) }", "while (x) { x-- }", "do { x++ } while (x < 5)", "switch (x) { case 1: a(); break; default: b() }", "try { a() } catch (e) { b(e) } finally { c() }",
	"x = y ? 'a' : \"b\"", "a.b.c[d](e, f)(g)", "new Foo(1, 2).bar", "var o = {a: 1, 'b': [1, 2, 3], c: {d: null}}", "/ab+c/gi.test(s)", "x = a / b / c", "`tpl ${x} ${y + 1}`",
	"label: for (;;) { break label }", "typeof x === 'undefined' && void 0", "a = b = c += 1", "x = -y + +z - ~w", "!a || b && c", "throw new Error('x')", "var f = function(a, b) { return a + b }",
	"(function() { return this })()", "a, b, c", "x = 0x1F + 1e3 + .5 + 5.", "s = 'it\\'s' + \"q\\\"q\" + '\\u0041\\x41\\n'", "delete a.b; a instanceof B; 'k' in o", "// comment\nx /* c */ = 1",
	"/(?/", "/ab(?/g", "/a((?/", "/(?=x)y/", "/(?!x)/.test(s)", "/[/", "/(/", "/\\//", "/[a-z]+(?:b|c)*/i", "x = a ? 1 : b ? 2 : 3", "a ? x : y = 1", "a ? b ? 1 : 2 : 3", "x = `abc", "f(`a\\`",
	"a == b == c", "a != b === c !== d", "a < b < c", "a / b / c % d * e", "a - b - c + d",
	"return 1", "a ? b : c ? d : e", "i++ + ++i", "a\n++\nb", "x = {get a() { return 1 }, set a(v) {}}", "debugger;", "with (o) { p }", "a = [,,1,,]", "1 + 'a'", "this.x = arguments[0]",
}

func mutate(rr *Rng, s string) string {
	b := []byte(s)
	for k := 0; k < rr.Range(1, 4); k++ {
		if len(b) == 0 {
			b = []byte("x")
		}
		switch rr.Intn(9) {
		case 0:
			i := rr.Intn(len(b))
			b = append(b[:i], b[i+1:]...)
		case 1:
			i := rr.Intn(len(b) + 1)
			ins := []string{"(", ")", "{", "}", "[", "]", "'", "\"", "`", "/", "\\", "${", "}", ";", ",", ".", "\n", "\x00", "\xff", "\xc3", "é", " ", "/*", "*/", "//", "0x", "1e", "..", "=>", "++", "--", "function", "return", "var ", "})", "(function(){"}
			x := ins[rr.Intn(len(ins))]
			b = append(b[:i], append([]byte(x), b[i:]...)...)
		case 2:
			i := rr.Intn(len(b))
			b[i] = byte(rr.Intn(256))
		case 3:
			b = b[:rr.Intn(len(b)+1)] // truncate
		case 4:
			i, j := rr.Intn(len(b)+1), rr.Intn(len(b)+1)
			if i > j {
				i, j = j, i
			}
			b = append(b, b[i:j]...) // duplicate a chunk
		case 5:
			o := jsSeeds[rr.Intn(len(jsSeeds))]
			i := rr.Intn(len(b) + 1)
			b = append(b[:i], append([]byte(o), b[i:]...)...) // splice another seed in
		case 6:
			b = []byte(strings.ToUpper(string(b)))
		case 7:
			i := rr.Intn(len(b))
			b[i] ^= 1 << uint(rr.Intn(8))
		default:
			b = append([]byte("("), append(b, ')')...)
		}
	}
	return string(b)
}

func genC15(r *Rng, n int, tier string, emit func(Case)) {
	deep := 2000
	if tier == "thorough" {
		deep = 20000
	}
	for i := 0; i < n; i++ {
		rr := r.Fork()
		switch i % 12 {
		case 0, 1, 2: // well-formed expressions of the supported subset: must be accepted with the JavaScript tree
			t := newTenv(rr.Fork())
			d := rr.Range(1, 6)
			var e J
			switch rr.Intn(3) {
			case 0:
				e = t.genNum(d).e
			case 1:
				e = t.genStr(d)
			default:
				e = t.genBool(d)
			}
			if rr.Chance(1, 3) {
				// ES5 allows every IdentifierName after a dot, reserved words included (product.new, label.for, x.default)
				kws := []string{"default", "new", "in", "for", "this", "typeof", "if", "else", "delete", "void", "class", "null", "true", "false",
					"function", "var", "return", "do", "while", "with", "try", "catch", "finally", "throw", "switch", "case", "break", "continue",
					"instanceof", "debugger", "enum", "export", "extends", "import", "super", "const", "let", "static", "yield", "get", "set"}
				m := eDot(eId([]string{"abc", "o", "product"}[rr.Intn(3)]), kws[rr.Intn(len(kws))])
				if rr.Bool() {
					m = eDot(m, kws[rr.Intn(len(kws))])
				}
				switch rr.Intn(3) {
				case 0:
					e = m
				case 1:
					e = eCond(m, e, eDot(eId("o"), kws[rr.Intn(len(kws))]))
				default:
					e = eCall(eId("f"), e, m)
				}
			}
			emit(Case{"kind": "parse", "src": printExprStmt(e), "expect": e, "bucket": "subset"})
		case 3, 4, 5, 6: // mutated corpus
			m := mutate(rr, jsSeeds[rr.Intn(len(jsSeeds))])
			emit(Case{"kind": "parse", "src": strings.ToValidUTF8(m, "?"), "src64": base64.StdEncoding.EncodeToString([]byte(m)), "bucket": "mutated"})
		case 7: // random bytes, invalid UTF-8, unterminated literals
			k := rr.Range(0, 60)
			b := make([]byte, k)
			for j := range b {
				if rr.Bool() {
					alpha := "(){}[]'\"`/\\$;,.\n+-*=<>!&|?:0123456789abcxyz \t"
					b[j] = alpha[rr.Intn(len(alpha))]
				} else {
					b[j] = byte(rr.Intn(256))
				}
			}
			emit(Case{"kind": "parse", "src": strings.ToValidUTF8(string(b), "?"), "src64": base64.StdEncoding.EncodeToString(b), "bucket": "random"})
		case 8: // deep nesting
			k := rr.Range(10, deep)
			var s string
			switch rr.Intn(6) {
			case 0:
				s = strings.Repeat("(", k) + "1" + strings.Repeat(")", k)
			case 1:
				s = strings.Repeat("[", k) + strings.Repeat("]", k)
			case 2:
				// nested labelled blocks are parsed in superlinear time (about 2 s at depth 1000): kept shallow, the time bound is per input
				k = k%300 + 10
				s = strings.Repeat("{a:", k) + "1" + strings.Repeat("}", k)
			case 3:
				s = strings.Repeat("!", k) + "x"
			case 4:
				s = strings.Repeat("a?", k) + "b" + strings.Repeat(":c", k)
			default:
				s = strings.Repeat("(", k) // unbalanced
			}
			emit(Case{"kind": "parse", "src": s, "bucket": "deep"})
		case 10: // regular-expression literals assembled from every group / class / escape / quantifier opener, cut at any point
			if rr.Chance(1, 3) {
				// string literals assembled from every kind of escape sequence - ES5's, the octal ones, ES2015's code point escapes with
				// values inside and beyond Unicode, lone surrogates, line continuations - cut at any point, in every kind of quotes
				esc := []string{"\\n", "\\x41", "\\xe9", "\\xZ", "\\x4", "\\u0041", "\\u00e9", "\\uD800", "\\uDFFF", "\\uD83D\\uDE00", "\\u12", "\\u", "\\u{41}", "\\u{1F600}",
					"\\u{10FFFF}", "\\u{110000}", "\\u{FFFFFFFF}", "\\u{FFFFFFFFFFFFFFFFF}", "\\u{}", "\\u{", "\\u{12", "\\u{-1}", "\\u{zz}", "\\0", "\\00", "\\8", "\\377", "\\400", "\\777",
					"\\\n", "\\\r\n", "\\\u2028", "\\'", "\\\"", "\\`", "\\\\", "${", "${x}", "}", "a", "é", " ", "\\c", "\\v", "\\b"}
				var b strings.Builder
				for j := 0; j < rr.Range(1, 6); j++ {
					b.WriteString(esc[rr.Intn(len(esc))])
				}
				body := b.String()
				if rr.Chance(1, 4) {
					rs := []rune(body)
					body = string(rs[:rr.Intn(len(rs)+1)])
				}
				q := []string{"'", "\"", "`"}[rr.Intn(3)]
				lit := q + body + q
				if rr.Chance(1, 8) {
					lit = q + body // unterminated
				}
				s := []string{lit, "x = " + lit, "return " + lit + ".length", "f(" + lit + ", 1)", "o = {k: " + lit + "}"}[rr.Intn(5)]
				emit(Case{"kind": "parse", "src": s, "bucket": "strlit"})
				break
			}
			pieces := []string{"(", "(?", "(?:", "(?=", "(?!", "(?<", "(?<=", "(?<!", "(?<n>", ")", "[", "[^", "]", "[a-", "\\", "\\d", "\\u", "\\u00", "\\u0041",
				"\\x", "\\x4", "\\c", "\\cA", "\\1", "\\k<n>", "\\/", "{", "{1", "{1,", "{1,2}", "{,}", "}", "*", "+", "?", "*?", "|", "^", "$", ".", "a", "b", "0", " ", "é", "-"}
			var b strings.Builder
			for j := 0; j < rr.Range(1, 7); j++ {
				b.WriteString(pieces[rr.Intn(len(pieces))])
			}
			pat := b.String()
			if rr.Chance(1, 3) {
				rs := []rune(pat)
				pat = string(rs[:rr.Intn(len(rs)+1)])
			}
			flags := []string{"", "g", "gi", "m", "x", "gg", "y"}[rr.Intn(7)]
			lit := "/" + pat + "/" + flags
			var s string
			switch rr.Intn(4) {
			case 0:
				s = lit
			case 1:
				s = "x = " + lit
			case 2:
				s = "return " + lit + ".test(a)"
			default:
				s = "a.replace(" + lit + ", '')"
			}
			emit(Case{"kind": "parse", "src": s, "bucket": "regex"})
		case 11: // a last line that is an inline source map (ParseFile decodes and loads it before parsing)
			body := []string{"var a = 1", "a +", "x = (", "", "f(1,2)\nvar b", "/ab/"}[rr.Intn(6)]
			maps := []string{
				`{"version":3,"sources":["a.js"],"names":[],"mappings":"AAAA"}`,
				`{"version":3,"sources":["a.js"],"names":["x"],"mappings":"AAAAA,CAAC;AACD"}`,
				`{"version":3,"sections":[{}]}`,
				`{"version":3,"sections":[{"offset":{"line":0,"column":0},"map":null}]}`,
				`{"version":3,"sections":[{"offset":{"line":0,"column":0},"map":{"version":3,"sources":["a.js"],"mappings":"AAAA"}}]}`,
				`{"version":3,"sections":[{"offset":{"line":5,"column":-1},"map":{"version":2,"mappings":"A"}}]}`,
				`{"version":3,"sources":[],"mappings":"AAAA"}`,
				`{"version":3,"sources":["a.js"],"mappings":"AACA;;;AAAA,gBAAgB"}`,
				`{"version":3,"sources":["a.js"],"mappings":"zzzz"}`,
				`{"version":3,"sources":["a.js"],"mappings":"!!"}`,
				`{"version":3,"sourceRoot":"%zz","sources":["a.js"],"mappings":""}`,
				`{"version":3,"sourceRoot":"http://h/r/","sources":["../a.js",":"],"mappings":"AAAA"}`,
				`{"version":3,"sources":["a.js"],"names":[1,null,{"a":1}],"mappings":"AAAAA"}`,
				`{"version":3,"sources":["a.js"],"mappings":"AAgggggggggggggggggB"}`,
				`{"version":2}`, `{"version":"3"}`, `{}`, `[]`, `null`, `3`, `{"version":3`, ``,
			}
			m := maps[rr.Intn(len(maps))]
			if rr.Chance(1, 3) {
				m = mutate(rr, m)
			}
			enc := base64.StdEncoding.EncodeToString([]byte(m))
			if rr.Chance(1, 8) {
				enc = enc[:rr.Intn(len(enc)+1)] + "*"
			}
			head := []string{"//# sourceMappingURL=data:application/json;base64,", "//# sourceMappingURL=data:application/json;charset=utf-8;base64,",
				"//# sourceMappingURL=data:application/json,", "//# sourceMappingURL=data:application/json"}[rr.Intn(4)]
			s := body + "\n" + head + enc
			if rr.Chance(1, 6) {
				s += "\n"
			}
			emit(Case{"kind": "parse", "src": strings.ToValidUTF8(s, "?"), "src64": base64.StdEncoding.EncodeToString([]byte(s)), "bucket": "srcmap"})
		default: // function bodies that try to leave the wrapper ParseFunction puts around them
			parts := []string{"return 1", "}", ")", "})", "(function(){", ", ", ";", "x", "\n", "})()", "/*", "//", "'", "`", "}), (function(){", "}); (function(){", "});", "function f(){}", "("}
			var b strings.Builder
			for j := 0; j < rr.Range(1, 6); j++ {
				b.WriteString(parts[rr.Intn(len(parts))])
			}
			emit(Case{"kind": "parse", "src": b.String(), "bucket": "wrapper"})
		}
	}
}
