package main

import (
	"errors"
	"fmt"
	"net/http"
	"net/http/httptest"
	"sync"
	"time"

	"flamingo.me/pugtemplate/controllers"
	"flamingo.me/pugtemplate/pugjs"
)

// C16: scripted histories on the real Startup + the real readiness handler.
//
// case: {kind:"startup", k:<processes>, script:[{op:"complete",p,fail}|{op:"finish"}|{op:"probe"}]}
//   all k processes are registered first (AddProcess), then the script runs; a probe follows every operation.
// impl: {class, probes:[status after each op (immediately)], settled:[status after waiting for 200 up to 2 s, only when the model says it must come],
//        listener:{received:bool, err:"p<i>"|"nil"}, post:[statuses of 3 probes after the end]}

func init() {
	generators["C16"] = genC16
	runners["startup"] = runStartup
}

var probeCount int

// probeReady asks the endpoint the way different clients do (methods, Accept headers, a real connection every few probes): the
// answer must not depend on how the question is asked. The worst (most "ready") status of the variants is reported.
func probeReady(r *controllers.Ready) int {
	probeCount++
	variants := []func() *http.Request{
		func() *http.Request { return httptest.NewRequest("GET", "/pugjs/ready", nil) },
		func() *http.Request {
			q := httptest.NewRequest("GET", "/pugjs/ready", nil)
			q.Header.Set("Accept", "application/json")
			return q
		},
		func() *http.Request {
			q := httptest.NewRequest("HEAD", "/pugjs/ready?verbose=1", nil)
			q.Header.Set("Accept", "text/html, application/json;q=0.9, */*;q=0.8")
			return q
		},
	}
	first := -1
	for i, mk := range variants {
		if i > 0 && (probeCount+i)%3 != 0 {
			continue
		}
		var code int
		if (probeCount+i)%5 == 0 {
			// through a real server: headers are committed by the first body write
			srv := httptest.NewServer(r)
			q, _ := http.NewRequest(mk().Method, srv.URL+"/pugjs/ready", nil)
			q.Header = mk().Header
			if res, err := http.DefaultClient.Do(q); err == nil {
				code = res.StatusCode
				res.Body.Close()
			}
			srv.Close()
		} else {
			w := httptest.NewRecorder()
			r.ServeHTTP(w, mk())
			code = w.Result().StatusCode
		}
		if first < 0 {
			first = code
		}
		if code == 200 && first != 200 {
			return 200 // one way of asking says ready while another does not
		}
	}
	return first
}

func runStartup(c Case) interface{} {
	k := int(c["k"].(float64))
	st := new(pugjs.Startup).Inject()
	ready := new(controllers.Ready).Inject(st)
	gates := make([]chan bool, k)
	returned := make([]chan struct{}, k)
	for i := 0; i < k; i++ {
		i := i
		gates[i] = make(chan bool, 1)
		returned[i] = make(chan struct{})
		st.AddProcess(func() error {
			fail := <-gates[i]
			defer close(returned[i])
			if fail {
				return fmt.Errorf("p%d", i)
			}
			return nil
		})
	}
	var mu sync.Mutex
	listener := J{"received": false}
	var listenerDone chan struct{}
	finished := false
	ended := 0
	var probes []interface{}
	sawOK := false
	for _, o := range asList(c["script"]) {
		op := asJ(o)
		switch op["op"] {
		case "complete":
			p := int(op["p"].(float64))
			gates[p] <- op["fail"].(bool)
			<-returned[p]
			ended++
			// errgroup records the error right after the function returns, in the same goroutine: give it time, so that the
			// order of failures is the scripted order
			time.Sleep(2 * time.Millisecond)
		case "finish":
			errs := st.Finish()
			finished = true
			listenerDone = make(chan struct{})
			go func() { // the listener the module attaches (EventSubscriber.Notify): one receive
				err := <-errs
				mu.Lock()
				listener["received"] = true
				if err != nil {
					listener["err"] = err.Error()
				} else {
					listener["err"] = "nil"
				}
				mu.Unlock()
				close(listenerDone)
			}()
		}
		code := probeReady(ready)
		settled := code
		if finished && ended == k && code != 200 {
			// every process has returned and Finish was called: 200 has to come (bounded polling, no sleeps as synchronisation)
			dl := time.Now().Add(2 * time.Second)
			for settled != 200 && time.Now().Before(dl) {
				time.Sleep(100 * time.Microsecond)
				settled = probeReady(ready)
			}
		}
		if settled == 200 {
			sawOK = true
		}
		probes = append(probes, J{"now": code, "settled": settled})
	}
	_ = sawOK
	if listenerDone != nil && finished && ended == k {
		select {
		case <-listenerDone:
		case <-time.After(2 * time.Second):
		}
	}
	post := []interface{}{probeReady(ready), probeReady(ready), probeReady(ready)}
	mu.Lock()
	l := J{"received": listener["received"], "err": listener["err"]}
	mu.Unlock()
	// release whatever still waits so that goroutines end
	for i := 0; i < k; i++ {
		select {
		case gates[i] <- false:
		default:
		}
	}
	_ = errors.New
	return J{"class": "ok", "probes": probes, "listener": l, "post": post}
}

func genC16(r *Rng, n int, tier string, emit func(Case)) {
	maxK := 6
	if tier == "thorough" {
		maxK = 12
	}
	for i := 0; i < n; i++ {
		rr := r.Fork()
		k := rr.Range(0, maxK)
		order := make([]int, k)
		for j := range order {
			order[j] = j
		}
		for j := k - 1; j > 0; j-- {
			x := rr.Intn(j + 1)
			order[j], order[x] = order[x], order[j]
		}
		m := k
		if rr.Chance(1, 4) && k > 0 {
			m = rr.Intn(k) // some processes never end in this history
		}
		finishAt := rr.Intn(m + 2)
		if rr.Chance(1, 8) {
			finishAt = -1 // Finish is never called
		}
		var script []interface{}
		for j := 0; j <= m; j++ {
			if j == finishAt {
				script = append(script, J{"op": "finish"})
			}
			if j < m {
				script = append(script, J{"op": "complete", "p": order[j], "fail": rr.Chance(1, 3)})
			}
			if rr.Chance(1, 3) {
				script = append(script, J{"op": "probe"})
			}
		}
		if finishAt > m {
			script = append(script, J{"op": "finish"})
		}
		script = append(script, J{"op": "probe"})
		emit(Case{"kind": "startup", "k": k, "script": script, "model_needs_impl": true, "bucket": fmt.Sprintf("k=%d", k), "nops": len(script)})
	}
}
