package main

import (
	"context"
	"errors"
	"fmt"
	"sort"
	"strings"
	"sync"
	"time"

	"flamingo.me/flamingo/v3/framework/flamingo"
	"flamingo.me/pugtemplate/pugjs"
)

// C09: scripted histories against the real gate.
//
// case: {kind:"gate", n:<limit>, script:[op...]}
//   op = {op:"start", id, exit:"success"|"funcError"|"panic"}   start a render of the gated template (it blocks inside vpGate)
//        {op:"startMissing", id}                                 render a template that does not exist (passes the gate, leaves at once)
//        {op:"startCancelled", id}                               render with an already-cancelled context
//        {op:"release", id}                                      let render id leave vpGate (it then exits as scripted)
//        {op:"cancel", id}                                       cancel render id's context
//        {op:"probe"}                                            observe only
// impl: {class, obs:[{inside:[ids], finished:{id: outcome}}...]}  one observation after every op (after quiescence)
//
// Quiescence is reached by waiting until the number of renders inside equals min(N, in progress) (the quantity the Lean
// theorem C09_quiescent characterises) or a timeout; the Lean driver re-validates every observation against the model.

func init() {
	generators["C09"] = genC09
	runners["gate"] = runGate
}

type gateRun struct {
	mu       sync.Mutex
	inside   map[int]bool
	release  map[int]chan string
	finished map[int]string
}

func runGate(c Case) interface{} {
	n := int(c["n"].(float64))
	g := &gateRun{inside: map[int]bool{}, release: map[int]chan string{}, finished: map[int]string{}}
	gateFn := func(id pugjs.Number) (string, error) {
		i := int(id)
		g.mu.Lock()
		g.inside[i] = true
		ch := g.release[i]
		g.mu.Unlock()
		how := <-ch
		g.mu.Lock()
		delete(g.inside, i)
		g.mu.Unlock()
		switch how {
		case "funcError":
			return "", errors.New("scripted failure")
		case "panic":
			panic("scripted panic")
		}
		return "ok", nil
	}
	tpl := docOf(codeNode("vpGate(id)", true, true))
	via, _ := c["via"].(string)
	tname, mname := "g", "nope"
	if v, ok := c["tname"].(string); ok && v != "" {
		tname = v
	}
	if v, ok := c["mname"].(string); ok && v != "" {
		mname = v
	}
	eng, err := newEngine(EngineSpec{Files: map[string]string{tname: tpl}, RateLimit: n, RateLimitVia: via,
		Extra: map[string]flamingo.TemplateFunc{"vpGate": plainFunc(gateFn)}})
	if err != nil {
		return J{"class": "harness-error", "msg": err.Error()}
	}
	defer eng.Close()
	if r := eng.Load(""); r.Class != "ok" {
		return J{"class": r.Class, "msg": r.Msg}
	}
	if eng.E.GetRateLimit() != imax(n, 0) {
		return J{"class": "ok", "obs": []interface{}{}, "ratelimit_reported": eng.E.GetRateLimit()}
	}
	cancels := map[int]context.CancelFunc{}
	cancelledCtx := map[int]bool{}
	exits := map[int]string{}
	active := map[int]bool{} // started, not finished
	var wg sync.WaitGroup
	start := func(id int, name string, ctx context.Context) {
		wg.Add(1)
		go func() {
			defer wg.Done()
			res := eng.Render(ctx, name, map[string]interface{}{"id": id})
			out := res.Class
			if res.Class == "error" && len(res.Msg) > 0 {
				if containsStr(res.Msg, "wait failed") {
					out = "cancelled"
				}
			}
			if res.Class == "panic" && containsStr(res.Msg, "scripted panic") {
				out = "panic"
			}
			if res.Class == "exec-error" {
				out = "funcError"
			}
			if res.Class == "ok" {
				out = "success"
			}
			if res.Class == "notfound" {
				out = "notFound"
			}
			g.mu.Lock()
			g.finished[id] = out
			g.mu.Unlock()
		}()
	}
	timedOut := false
	observe := func(expectInside, expectFinished int) J {
		deadline := time.Now().Add(2 * time.Second)
		for {
			g.mu.Lock()
			ni, nf := len(g.inside), len(g.finished)
			g.mu.Unlock()
			if ni == expectInside && (expectFinished < 0 || nf == expectFinished) {
				break
			}
			if time.Now().After(deadline) {
				timedOut = true // the expected occupancy was not reached: the observation is recorded and the history ends here
				break
			}
			time.Sleep(200 * time.Microsecond)
		}
		time.Sleep(2 * time.Millisecond) // grace: anything admitted in excess shows up now
		g.mu.Lock()
		defer g.mu.Unlock()
		ins := []int{}
		for k := range g.inside {
			ins = append(ins, k)
		}
		sort.Ints(ins)
		fin := J{}
		for k, v := range g.finished {
			fin[fmt.Sprint(k)] = v
		}
		return J{"inside": ins, "finished": fin}
	}
	var obs []interface{}
	expectFinished := 0
	for _, o := range asList(c["script"]) {
		op := asJ(o)
		id := 0
		if v, ok := op["id"].(float64); ok {
			id = int(v)
		}
		switch op["op"] {
		case "start":
			ctx, cancel := context.WithCancel(context.Background())
			cancels[id] = cancel
			exits[id] = op["exit"].(string)
			g.mu.Lock()
			g.release[id] = make(chan string, 1)
			g.mu.Unlock()
			active[id] = true
			start(id, tname, ctx)
		case "startMissing":
			start(id, mname, context.Background())
			expectFinished++ // unless it has to wait: handled by the min() below (it counts as active until finished)
			active[id] = true
		case "startCancelled":
			ctx, cancel := context.WithCancel(context.Background())
			cancel()
			cancelledCtx[id] = true
			g.mu.Lock()
			g.release[id] = make(chan string, 1)
			g.mu.Unlock()
			exits[id] = "success"
			cancels[id] = cancel
			active[id] = true
			start(id, tname, ctx)
		case "release":
			g.mu.Lock()
			ch, isIn := g.release[id], g.inside[id]
			g.mu.Unlock()
			if ch != nil && isIn {
				ch <- exits[id]
				delete(active, id)
				expectFinished++
			}
		case "cancel":
			if cf := cancels[id]; cf != nil {
				cf()
				cancelledCtx[id] = true
			}
		}
		// a render whose context is done is decided by the select at once: wait until it is either inside or finished
		if op["op"] == "startCancelled" || op["op"] == "cancel" {
			dl := time.Now().Add(3 * time.Second)
			for time.Now().Before(dl) {
				g.mu.Lock()
				_, fin := g.finished[id]
				in := g.inside[id]
				known := g.release[id] != nil
				g.mu.Unlock()
				if fin || in || !known {
					break
				}
				time.Sleep(100 * time.Microsecond)
			}
		}
		// how many can be inside now: min(N, active blocked renders); missing-template renders and cancelled ones leave by themselves,
		// so the expectation used for *waiting* is only a hint; the Lean driver judges the observation.
		g.mu.Lock()
		blocked := 0
		for id2 := range active {
			if _, done := g.finished[id2]; !done && g.release[id2] != nil {
				if cancelledCtx[id2] && !g.inside[id2] {
					continue // a waiter whose context is done leaves by itself
				}
				blocked++
			}
		}
		g.mu.Unlock()
		expIn := blocked
		if n > 0 && expIn > n {
			expIn = n
		}
		_ = expectFinished
		ob := observe(expIn, -1)
		obs = append(obs, ob)
		if timedOut {
			break
		}
	}
	aborted := timedOut
	// drain: release everything still inside, then cancel everything still waiting - and keep releasing: a waiter may win
	// the freed slot at the very moment its context is cancelled (Go's select picks either) and then sits inside the gate
	done := make(chan struct{})
	go func() { wg.Wait(); close(done) }()
	drained := false
	cancelledAll := false
	quiet := 0
	deadline := time.Now().Add(5 * time.Second)
	for !drained && time.Now().Before(deadline) {
		g.mu.Lock()
		var chans []chan string
		for k := range g.inside {
			chans = append(chans, g.release[k])
		}
		g.mu.Unlock()
		for _, ch := range chans {
			select {
			case ch <- "success":
			default: // already released in an earlier round
			}
		}
		if len(chans) == 0 {
			quiet++
		} else {
			quiet = 0
		}
		if quiet >= 3 && !cancelledAll {
			for _, cf := range cancels {
				cf()
			}
			cancelledAll = true
		}
		select {
		case <-done:
			drained = true
		case <-time.After(time.Millisecond):
		}
	}
	// after the history: N fresh renders must be admitted simultaneously (no slot leaked)
	fresh := 0
	if drained && n > 0 {
		base := 10000
		for i := 0; i < n; i++ {
			id := base + i
			g.mu.Lock()
			g.release[id] = make(chan string, 1)
			g.mu.Unlock()
			start(id, tname, context.Background())
		}
		ob := observe(n, -1)
		fresh = len(ob["inside"].([]int))
		for i := 0; i < n; i++ {
			g.mu.Lock()
			ch := g.release[base+i]
			g.mu.Unlock()
			ch <- "success"
		}
		if fresh == n {
			wg.Wait()
		}
	}
	g.mu.Lock()
	fin := J{}
	for k, v := range g.finished {
		fin[fmt.Sprint(k)] = v
	}
	g.mu.Unlock()
	return J{"class": "ok", "obs": obs, "drained": drained, "fresh_admitted": fresh, "final": fin, "aborted": aborted}
}

func containsStr(s, sub string) bool {
	return len(s) >= len(sub) && (func() bool {
		for i := 0; i+len(sub) <= len(s); i++ {
			if s[i:i+len(sub)] == sub {
				return true
			}
		}
		return false
	})()
}

func genC09(r *Rng, n int, tier string, emit func(Case)) {
	maxOps := 14
	if tier == "thorough" {
		maxOps = 60
	}
	for i := 0; i < n; i++ {
		rr := r.Fork()
		lim := rr.Range(0, 4)
		if rr.Chance(1, 10) {
			lim = -1 // negative limits disable the gate as well
		}
		var script []interface{}
		next := 1
		var started []int
		for k := 0; k < rr.Range(3, maxOps); k++ {
			switch rr.Intn(10) {
			case 0, 1, 2, 3:
				script = append(script, J{"op": "start", "id": next, "exit": []string{"success", "success", "funcError", "panic"}[rr.Intn(4)]})
				started = append(started, next)
				next++
			case 4:
				script = append(script, J{"op": "startMissing", "id": next})
				next++
			case 5:
				script = append(script, J{"op": "startCancelled", "id": next})
				started = append(started, next)
				next++
			case 6, 7:
				if len(started) > 0 {
					script = append(script, J{"op": "release", "id": started[rr.Intn(len(started))]})
				}
			case 8:
				if len(started) > 0 {
					script = append(script, J{"op": "cancel", "id": started[rr.Intn(len(started))]})
				}
			default:
				script = append(script, J{"op": "probe"})
			}
		}
		via := ""
		switch rr.Intn(4) {
		case 0:
			via = "inject" // NewEngine pre-sets 8, the injected configuration value decides
		case 1:
			via = fmt.Sprintf("after:%d", []int{8, 1, 0, 3}[rr.Intn(4)]) // an earlier option must not survive a later one
		}
		// the name of the template is data like any other: names outside ASCII, with blanks, and longer than a metrics tag value
		tname, mname := "g", "nope"
		long := "shop/" + strings.Repeat("kategorie-", 12) + "/" + strings.Repeat("produktliste-", 12) + "/detail"
		switch rr.Intn(6) {
		case 0:
			tname = []string{"grüße", "页面/首页", "a b", "Ünï/cødé", long}[rr.Intn(5)]
		case 1:
			mname = []string{"nöpe", "不存在", "no pe", long + "-x"}[rr.Intn(4)]
		case 2:
			tname, mname = "seite/übersicht", "seite/überblick"
		}
		emit(Case{"kind": "gate", "n": lim, "via": via, "tname": tname, "mname": mname, "script": script, "model_needs_impl": true, "bucket": fmt.Sprintf("N=%d", lim), "nops": len(script)})
	}
}
