"""Per-property configuration: generators' sizes, comparison of implementation / model / specification answers,
non-triviality rule, known-finding predicates."""
import json
from . import core

COMMON_TRUST = [
    "Lean 4.33 kernel (thorough tier: re-checked by leanchecker)",
    "axioms allowed in property theorems: propext, Classical.choice, Quot.sound (audited per theorem on every run)",
    "fact extractor /verif/harness/cmd/extract (go/ast shapes it recognises; unrecognised shape => <item>_ok = false => C*_extract theorem fails)",
    "correspondence harness /verif/harness/cmd/pvh (generators, canonicalisation) and comparison code /verif/checks",
]


class Prop:
    id = None
    n_quick = 1000
    n_thorough = 20000
    thorough_seeds = 4
    search_seeds = 6
    required_theorems = []
    trusted_base = COMMON_TRUST
    assumptions = []
    rule = ""
    batch = 4000
    par = 1

    @property
    def lean_module(self):
        return "PugProofs.Props." + self.id

    # -- per case ---------------------------------------------------------------------------------------
    def compare(self, case, impl, model, spec):
        """returns (corr_ok, prop_ok or None, detail)"""
        raise NotImplementedError

    def nontrivial(self, case, impl):
        return True

    def bucket(self, case, impl):
        return case.get("kind", "?")

    def match_known(self, r, known):
        if r["case"].get("_known"):
            return r["case"]["_known"]
        for k in known:
            pred = getattr(self, "known_" + k["id"].replace("-", "_"), None)
            if pred is not None and pred(r["case"], r["impl"]):
                return k["id"]
        return None

    def run_cases(self, cases, tier):
        results = []
        hist = {}
        seen = set()
        samples = []
        chunks = [cases[i:i + self.batch] for i in range(0, len(cases), self.batch)]

        def one(chunk):
            impl = core.run_impl(chunk)
            return impl, core.run_model(chunk, impl)
        if self.par > 1 and len(chunks) > 1:
            # independent batches (every case is self-contained): run the two drivers on several batches at a time
            from concurrent.futures import ThreadPoolExecutor
            with ThreadPoolExecutor(max_workers=self.par) as ex:
                done = ex.map(one, chunks)
        else:
            done = map(one, chunks)
        for chunk, (impl, model) in zip(chunks, done):
            for c in chunk:
                im = impl.get(c["id"])
                mo, sp = model.get(c["id"], (None, None))
                try:
                    if isinstance(im, dict) and im.get("class") == "not-run":
                        # the run stopped after too many process deaths: this case says nothing (the deaths decide the check)
                        corr_ok, prop_ok, detail = True, None, "not run: " + str(im.get("msg"))
                    else:
                        corr_ok, prop_ok, detail = self.compare(c, im, mo, sp)
                except Exception as e:  # a comparator crash must not look like a pass
                    corr_ok, prop_ok, detail = False, None, "comparator error: %r" % (e,)
                if corr_ok and prop_ok is not False and len(cases) > 20000:
                    # a large run keeps the inputs and outputs of the cases that FAIL only (a thorough tier of 10^5 passing cases
                    # with their documents, outputs and model answers is tens of gigabytes)
                    results.append({"case": {"id": c.get("id")}, "impl": None, "model": None, "spec": None, "corr_ok": True,
                                    "prop_ok": prop_ok, "detail": ""})
                else:
                    results.append({"case": c, "impl": im, "model": mo, "spec": sp, "corr_ok": corr_ok, "prop_ok": prop_ok,
                                    "detail": detail})
                b = self.bucket(c, im)
                hist[b] = hist.get(b, 0) + 1
                if self.nontrivial(c, im):
                    d = core.digest({k: v for k, v in c.items() if k not in ("id", "_known")})
                    if d not in seen:
                        seen.add(d)
                        if len(samples) < 3:
                            samples.append({"case": {k: v for k, v in c.items() if not k.startswith("_")}, "impl": im, "model": mo})
                if results[-1]["impl"] is None and len(cases) > 20000:
                    c.clear()   # a passing case of a large run is counted and forgotten
        return {"results": results, "histogram": hist, "distinct_nontrivial": len(seen), "samples": samples}


def seg_match(segs, text):
    """does `text` equal the concatenation of the segments, each optional segment kept whole or dropped?
    Iterative: the set of text positions reachable after each segment (no recursion: thorough-tier programs have thousands of
    segments, and deep Python recursion ends in a segmentation fault, not in an exception)."""
    pos = {0}
    for sg in segs:
        s = sg["s"]
        nxt = set()
        for p in pos:
            if text.startswith(s, p):
                nxt.add(p + len(s))
            if sg["opt"]:
                nxt.add(p)
        if not nxt:
            return False
        pos = nxt
    return len(text) in pos


def out_of(x):
    if isinstance(x, dict):
        return (x.get("class"), x.get("out"))
    return (None, None)


# ------------------------------------------------------------------------------------------------ C18
class C18(Prop):
    id = "C18"
    n_quick = 3000
    n_thorough = 50000
    required_theorems = ["C18_extract", "C18_min", "C18_max", "C18_ceil", "C18_trunc", "C18_round", "C18_parseInt_num",
                         "C18_parseInt_digits"]
    rule = ("argument lists of length 1-6 over integers, halves, quarters, eighths, tenths, thousandths near halves, equal "
            "arguments, both signs; each run through the engine (`= Math.f(...)` with literal / data-variable / mixed arguments) "
            "or by direct method call. Non-trivial: at least one negative, zero or fractional argument; distinct by (fn, args, via).")
    assumptions = [
        "float64 arithmetic is modelled by exact rationals: exact for decimal inputs of <= 15 significant digits below 2^53 and the "
        "functions concerned (comparison, floor/ceil/trunc, x+0.5); validated by the correspondence, not proved",
        "Number.String (big.Float %.10g) is modelled by PugModel.Basic.Num.fmtG10; validated by the correspondence",
    ]
    trusted_base = COMMON_TRUST + [
        "translation of `round` (straight-line float code) and of the Min/Max initial values and comparison operators by the extractor",
        "reflect-based numeric coercion in js_math.go (int/int64/float64 -> float64) is modelled as the identity on rationals",
    ]

    def compare(self, case, impl, model, spec):
        i, m, s = out_of(impl), out_of(model), out_of(spec)
        corr = i == m
        if s[0] != "ok":
            return corr, None, "spec undefined"
        prop = i == s
        detail = "%s(%s) via %s: impl=%r model=%r spec=%r" % (case["fn"], ", ".join(case["args"]), case["via"], i, m, s)
        return corr, prop, detail

    def nontrivial(self, case, impl):
        return any(a.startswith("-") or a == "0" or "." in a for a in case["args"])

    def bucket(self, case, impl):
        return case["fn"] + "/" + case["via"]


# ------------------------------------------------------------------------------------------------ C17
class C17(Prop):
    id = "C17"
    n_quick = 400
    n_thorough = 6000
    required_theorems = ["C17_ok", "C17_total", "C17_err", "C17_infix", "C17_render_partials_skeleton", "C17_render_skeleton", "C17_package_state_inventory"]
    rule = ("random template trees (main template, 0-5 partials in `<T>.partial/`, another template's partials, a partial that "
            "fails at execution) x request lists (empty, duplicates, unknown names, any order) x data; RenderPartials compared with "
            "Render of each partial alone and with the model. Non-trivial: request list of length >= 2; distinct by whole case.")
    assumptions = ["`Render` of a single name is taken as given (measured on the real engine for every name involved)"]

    def compare(self, case, impl, model, spec):
        if not isinstance(impl, dict) or impl.get("class") != "ok":
            return False, None, "engine could not load the generated tree: %r" % (impl,)
        part = impl["partials"]
        m = model or {}
        if m.get("class") == "ok":
            ok = part.get("class") == "ok" and part.get("keys") == m.get("keys") and part.get("content") == m.get("content")
        elif m.get("first") in ("panic", "exec-error"):
            # a partial whose own Render panics (errors are panics in this engine): the same panic escapes RenderPartials
            ok = part.get("class") == m.get("first")
        else:
            ok = part.get("class") == "error"
        # the model here *is* the specification instantiated with the measured single renders
        detail = "RenderPartials(%s, %s): impl=%s expected=%s" % (case["tpl"], case["req"], json.dumps(part)[:300], json.dumps(m)[:300])
        return ok, ok, detail

    def nontrivial(self, case, impl):
        return len(case["req"]) >= 2

    def bucket(self, case, impl):
        try:
            return "partials/" + impl["partials"]["class"] + "/req%d" % min(len(case["req"]), 3)
        except Exception:
            return "partials/?"


# ------------------------------------------------------------------------------------------------ render-based
class RenderProp(Prop):
    """Properties observed at Engine.LoadTemplates + Engine.Render: implementation bytes vs model bytes (correspondence)
    and vs the specification answer computed by the driver (property oracle), where the case carries one."""
    declined = 0

    def classes_equal(self, i, m):
        return i == m

    def compare(self, case, impl, model, spec):
        i, m = out_of(impl), out_of(model)
        if m[0] in ("model-domain", "no-model"):
            # the model declines (behaviour outside what is modelled): not agreement, not a mismatch; counted
            corr = True
            declined = True
        else:
            declined = False
            if i[0] == "ok" or m[0] == "ok":
                corr = i == m
            else:
                corr = i[0] == m[0]  # same error class; messages are not compared
        prop = None
        s = out_of(spec)
        if isinstance(spec, dict) and spec.get("class") == "ok" and "segs" in spec:
            prop = i[0] == "ok" and seg_match(spec["segs"], i[1])
            s = ("ok", "".join(x["s"] for x in spec["segs"]))
        elif s[0] == "ok":
            prop = (i == s)
        elif s[0] == "exec-error":
            prop = i[0] == "exec-error"
        detail = "%s: impl=%r model=%r spec=%r%s" % (case.get("js") or case.get("what") or case["id"], i, m, s if s[0] else None,
                                                    " (model: %s)" % (model or {}).get("msg") if m[0] != "ok" else "")
        case["_declined"] = declined
        return corr, prop, detail

    def bucket(self, case, impl):
        b = case.get("bucket") or case.get("ty") or case.get("kind")
        if case.get("_declined"):
            return "model-declined"
        return "%s/%s" % (b, out_of(impl)[0])


class C01(RenderProp):
    id = "C01"
    n_quick = 3000
    n_thorough = 40000
    required_theorems = ["C01_extract", "C01_ops_table", "C01_closures", "C01_arith_matrix", "C01_cmp_matrix", "C01_arith", "C01_rem", "C01_concat", "C01_compare_numbers",
                         "C01_compare_strings", "C01_truthiness", "C01_logical_operands", "C01_conditional", "C01_eval_scalar", "C01_eval_scalar_entry", "C01_print_scalar", "C01_render_bool_end_to_end"]
    assumptions = ["numbers are modelled by exact rationals; Number.String by fmtG10 (validated by correspondence)",
                   "the round trip pipeline AST -> action source text -> forked text/template parser is taken as the identity (validated end to end by the correspondence)"]
    rule = ("type-directed random expression trees of the supported subset (depth <= 5 quick / 8 thorough) over 8-12 typed data "
            "variables; printed by `= e` through LoadTemplates + Render. Non-trivial: depth >= 2 and the model did not decline; "
            "distinct by (expression source, data).")

    def nontrivial(self, case, impl):
        return case.get("depth", 0) >= 2 and not case.get("_declined")


class C02(RenderProp):
    id = "C02"
    n_quick = 1500
    n_thorough = 25000
    required_theorems = ["C02_extract", "C02_cap_about_ten_thousand", "C02_while_never_hangs", "C02_while_stops", "C02_while_continues", "C02_if_selects", "C02_if_chain", "C02_each_array_items", "C02_each_object_items", "C02_each_object_null_member_visited", "C02_object_literal_order", "C02_object_literal_compiles", "C02_each_missing", "C02_each_step", "C02_each_empty", "C02_loop_skeleton", "C02_if_end_to_end", "C02_each_end_to_end"]
    assumptions = ["the executor model (PugModel.Tpl.Exec) is hand-written; its agreement with tpl_exec.go is validated by the correspondence"]
    rule = ("random control-flow programs: if/else-if/else chains (boolean, numeric, string, null and undefined tests), case with "
            "default in any position, each over data arrays / literal arrays / objects (data maps and literals) / missing and empty "
            "collections with and without index, while loops that mutate their own test variables (x++ and x = x + 1), nested to depth "
            "3 (quick) / 5 (thorough), assignments inside bodies printed after the construct, and a bounded number of loops that only "
            "the iteration cap ends. Non-trivial: contains at least one control construct; distinct by whole document + data.")

    def nontrivial(self, case, impl):
        return case.get("depth", 0) >= 3 and not case.get("_declined")

    def compare(self, case, impl, model, spec):
        if case.get("bucket") == "go-truthiness":
            # a Go struct as a test, before and after one of its members was read: T|..|T|T or F|..|F|F, never a mix
            i = out_of(impl)
            parts = (i[1] or "").split("|")
            ok = i[0] == "ok" and len(parts) == 4 and parts[0] in ("T", "F") and parts[0] == parts[2] == parts[3]
            return True, ok, "%s: %r" % (case.get("what"), i)
        return RenderProp.compare(self, case, impl, model, spec)


class C03(RenderProp):
    id = "C03"
    n_quick = 1500
    n_thorough = 25000
    required_theorems = ["C03_freeze_captures", "C03_freeze_preserves", "C03_call_scope_and_frame", "C03_block_scope_and_frame", "C03_args_positional", "C03_compiler_state_per_template", "C03_call_attributes_frame", "C03_helper_bodies", "C03_package_state_inventory"]
    rule = ("random programs of 1-3 (thorough: 1-4) mixin definitions (0-2 parameters; bodies printing parameters, page data and an invisible caller local; `block` placed 0, 1 or "
            "2 times, bare / inside a tag / inside a conditional; recursive mixins on a decreasing counter placing `block` before or after the self-call and forwarding or replacing "
            "it; calls of earlier mixins with the block forwarded once or twice) and calls from the main template (missing arguments, block bodies reading caller locals and loop "
            "variables, nested calls inside blocks, calls inside each loops and tags), definitions before or after use. Oracle: reference semantics with lexical closures. "
            "Non-trivial: always; distinct by case.")

    def nontrivial(self, case, impl):
        return not case.get("_declined")


class C06(RenderProp):
    id = "C06"
    n_quick = 2500
    n_thorough = 40000
    required_theorems = ["C06_extract", "C06_void_table", "C06_quote_output", "C06_quote_lex", "C06_quote_no_trailing_brace", "C06_static_render", "C06_compiler_state_per_template", "C06_package_state_inventory"]
    assumptions = ["quoteL / lexQ are hand-written models of quoteDelims (pug_parser.go) and of lexText/lexLeftDelim/lexRightDelim (parse/lex.go) restricted to the quoting "
                   "action; validated end to end by the correspondence"]
    rule = ("random tag trees (block-level/inline, void/non-void, depth <= 4 quick / 7 thorough, optional doctype) with literal texts from a "
            "delimiter-heavy alphabet ({ } {{ }} - quotes backslash white space multi-byte) before/after/inside buffered code, string literals, "
            "conditionals, loops, case branches and unbuffered code. Oracle: reference serialisation in which only white space at a text edge "
            "bordering a control construct is optional. Non-trivial: depth >= 3; distinct by whole document + data.")

    def nontrivial(self, case, impl):
        return case.get("depth", 0) >= 3 and not case.get("_declined")

    def compare(self, case, impl, model, spec):
        # an element written with explicit self-closing syntax (`path/`) and not in the void table may be serialised <path/> (pug.js)
        # or <path></path> (this engine): the same empty element either way; <path> alone is neither
        sc = set()

        def walk(x):
            if isinstance(x, dict):
                if x.get("t") == "tag" and x.get("sc"):
                    sc.add(x["name"])
                for v in x.values():
                    walk(v)
            elif isinstance(x, list):
                for v in x:
                    walk(v)
        walk(case.get("doc"))
        if sc and isinstance(impl, dict) and isinstance(impl.get("out"), str):
            import re
            impl = dict(impl)
            impl["out"] = re.sub(r"<(%s)((?:\s[^<>]*?)?)\s*/>" % "|".join(re.escape(t) for t in sorted(sc)), r"<\1\2></\1>", impl["out"])
        return super().compare(case, impl, model, spec)


def html_escape5(s):
    return s.replace("&", "&amp;").replace("<", "&lt;").replace(">", "&gt;").replace('"', "&#34;").replace("'", "&#39;")


def py_tags(text):
    """tag structure as Python's html.parser (a second, independent tokenizer) reads it"""
    from html.parser import HTMLParser
    tags = []

    class P(HTMLParser):
        def handle_starttag(self, tag, attrs):
            tags.append(("S", tag, tuple(attrs)))

        def handle_endtag(self, tag):
            tags.append(("E", tag))

        def handle_comment(self, data):
            tags.append(("C",))

        def handle_decl(self, decl):
            tags.append(("D",))
    pr = P(convert_charrefs=True)
    pr.feed(text)
    pr.close()
    return tags


class C04(RenderProp):
    id = "C04"
    n_quick = 3600
    n_thorough = 60000
    required_theorems = ["C04_extract", "C04_matrix", "C04_wrapKind", "C04_escape_table", "C04_escape_safe", "C04_escape_hom", "C04_substitution",
                         "C04_escape_eq_spec", "C04_print_escaped", "C04_code_escaped_scalar", "C04_render_escaped_end_to_end", "C04_render_raw_end_to_end", "C04_escaped_in_every_position", "C04_escape_skeleton"]
    rule = ("every string-carrying expression shape (variable, member, nested member, index, key index, concatenation both ways, conditional both "
            "branches, || default on undefined and on empty string, &&, function result, method result, join, template literal, array literal) x 7 positions "
            "(bare, between texts, inside tags, in if / each bodies, after unbuffered code, between brace texts) x hostile strings built from the five significant "
            "characters, markup fragments, entity-like text, template delimiters, ${}, backticks, multi-byte text, long runs. Oracles: marker substitution on two real "
            "renders, tag structure unchanged under two independent tokenizers, reference semantics. Non-trivial: hostile string contains one of & < > \" '; distinct by case.")

    def compare(self, case, impl, model, spec):
        corr, prop, detail = RenderProp.compare(self, case, impl, model, spec)
        i = out_of(impl)
        if i[0] == "ok" and isinstance(impl, dict) and "marker_out" in impl:
            h = case["subst"]["hostile"]
            m = case["subst"]["marker"]
            ok_sub = impl.get("marker_class") == "ok" and impl["marker_out"].replace(m, html_escape5(h)) == i[1]
            ok_tags = [t[:2] for t in py_tags(i[1])] == [t[:2] for t in py_tags(impl["marker_out"])]
            go_tags = [tuple(t[:2]) for t in impl.get("tok", []) if t[0] in ("S", "E", "C", "D")]
            ok_tags2 = go_tags == [t[:2] for t in py_tags(impl["marker_out"]) if t[0] in ("S", "E", "C", "D")]
            if not (ok_sub and ok_tags and ok_tags2):
                prop = False
                detail += " | substitution=%s tags=%s gotags=%s marker_out=%r" % (ok_sub, ok_tags, ok_tags2, impl["marker_out"][:200])
            elif prop is None:
                prop = True
        elif i[0] != "ok":
            prop = False
            detail += " | render of a string-carrying shape failed"
        return corr, prop, detail

    def nontrivial(self, case, impl):
        return any(c in case["data"]["h"] for c in "&<>\"'") and not case.get("_declined")


class C05(RenderProp):
    id = "C05"
    n_quick = 3000
    n_thorough = 50000
    required_theorems = ["C05_trim_only_class", "C05_false_omitted", "C05_value_escaped", "C05_value_no_quote", "C05_true_named", "C05_order_first_occurrence", "C05_last_value_wins", "C05_class_accumulates", "C05_attr_skeleton"]
    rule = ("random attribute lists (0-7 attributes: string literals incl. padded/empty/non-ASCII, hostile data strings, numbers as variable/literal/expression/fraction and "
            "integer literals of up to 16 digits, "
            "booleans/null/undefined as literal and data, class as literal/variable/array/mixed array/empty/hostile and repeated, unescaped literals, concatenations) plus "
            "&attributes(obj) spreads (strings, booleans, class+id). Oracle: golang.org/x/net/html tokenizer reads the first tag back; its (name, value) list must equal the "
            "specification's list, exactly one start tag, text intact. Non-trivial: >= 2 attributes; distinct by case.")

    _orders = {}

    def compare(self, case, impl, model, spec):
        corr, _, detail = RenderProp.compare(self, case, impl, model, None)
        prop = None
        i = out_of(impl)
        if case.get("bucket") == "literal-spread" and i[0] == "ok":
            # the order in which a spread object's attributes appear depends on the object's contents only: the same object must give
            # the same order whether or not Object.keys() has looked at it before
            starts = [t for t in impl.get("tok", []) if t[0] == "S"] if "tok" in impl else None
            import re
            names = [a[0] for a in starts[0][2]] if starts else re.findall(r'\s([a-zA-Z-]+)="', i[1])
            key = "lit"
            first = self._orders.setdefault(key, names)
            prop = first == names
            if not prop:
                detail += " | the same object literal was spread as %r and as %r" % (first, names)
            return corr, prop, detail
        if isinstance(spec, dict) and spec.get("class") == "ok":
            if i[0] != "ok":
                prop = False
            else:
                tok = impl.get("tok", [])
                starts = [t for t in tok if t[0] == "S"]
                texts = "".join(t[1] for t in tok if t[0] == "T")
                void = (case.get("spec_doc") or case["doc"])[0]["name"] == "input"
                def norm(attrs):
                    out = []
                    for a in attrs:
                        k, v = a[0], a[1]
                        if k == "class":
                            # class is a set of tokens: compare modulo repeated tokens and edge white space
                            toks = []
                            for t in v.split():
                                if t not in toks:
                                    toks.append(t)
                            v = " ".join(toks)
                            if not toks:
                                continue  # a class value of (Unicode) white space only: no tokens, presence not compared
                        out.append([k, v])
                    return out
                rep = case.get("repeat")
                if rep:
                    # the same mixin call `rep` times, then a plain tag that reads the data arrays the calls were given: every call must
                    # show the same attributes as the first (judged below) and the plain tag must see the arrays as the data has them
                    ok_shape = (len(starts) == rep + 1 and texts == "body" * rep + "after"
                                and all(norm(st[2]) == norm(starts[0][2]) for st in starts[:rep])
                                and [list(a) for a in starts[rep][2]] == case.get("after_attrs"))
                    if ok_shape:
                        starts, texts = starts[:1], "body"
                    else:
                        detail += " | %d calls + plain tag: start tags %r" % (rep, starts)
                        starts = []
                got, want = norm(starts[0][2]) if len(starts) == 1 else None, norm(spec["attrs"])
                if case.get("spec_doc") and got is not None:
                    # attributes that reach the tag through an object (a mixin call's `attributes`): each exactly once, in an order that
                    # depends only on the object's contents - the source order of the call is not required
                    got, want = sorted(got), sorted(want)
                prop = (got is not None and got == want and (texts == "body" or void))
                if not prop:
                    detail += " | tokenizer read %r expected %r" % (starts[:2], spec["attrs"])
                    # what differs, for the known-finding predicate: same names in the same order, values differ
                    if got is not None and [a[0] for a in got] == [a[0] for a in want] and (texts == "body" or void):
                        case["_attr_diff"] = [[g[0], g[1], w[1]] for g, w in zip(got, want) if g[1] != w[1]]
        return corr, prop, detail

    def known_C05_number_over_10_digits(self, case, impl):
        """the recorded finding: a COMPUTED or DATA-DRIVEN number (pugjs.Number) with more than 10 significant digits (or of 1e10 and more) is
        printed by Number.String() = big.Float.Text('g', 10), i.e. rounded to 10 digits / in exponent form. Explains a failure only if every differing attribute value
        is exactly that rounding of the expected number and the attribute is not a bare number literal (those print digit for digit)."""
        diff = case.get("_attr_diff")
        if not diff:
            return False
        import re
        lits = set()
        for a in (case.get("doc") or [{}])[0].get("attrs", []) or []:
            if isinstance(a, dict) and isinstance(a.get("val"), dict) and a["val"].get("t") == "num":
                lits.add(a.get("name"))
        for name, got, want in diff:
            if name in lits or not re.fullmatch(r"-?\d+(\.\d+)?", want):
                return False
            if got != "%.10g" % float(want):
                return False
        return True

    def nontrivial(self, case, impl):
        return case.get("nattrs", 0) >= 2 and not case.get("_declined")


class C20(RenderProp):
    id = "C20"
    n_quick = 2000
    n_thorough = 30000
    required_theorems = ["C20_push", "C20_pop", "C20_shift", "C20_unshift", "C20_splice", "C20_slice", "C20_length", "C20_alias_frame", "C20_splice_result_stable", "C20_sequence", "C20_array_literal_keeps_every_entry", "C20_array_literal_allocates"]
    rule = ("random call sequences (1-12 quick / 1-40 thorough) of push/pop/shift/unshift/sort/splice(start)/slice(start)/indexOf/index/join/length over up to 5 array "
            "variables with aliasing (var b = a) and kept results (var t = a.splice(k), var c = a.slice(k), var p = s.split(d)), number or string elements, in-range "
            "arguments, plus length/charAt/indexOf/slice/split/toUpperCase/toLowerCase on an ASCII string; every variable's content and length printed after every step. "
            "Oracle: ECMAScript reference with arrays as heap objects. Non-trivial: >= 3 steps; distinct by case.")

    def nontrivial(self, case, impl):
        return case.get("steps", 0) >= 3 and not case.get("_declined")


class C12(RenderProp):
    id = "C12"
    n_quick = 3000
    n_thorough = 45000
    required_theorems = ["C12_string_roundtrip", "C12_string_literal", "C12_marshal_valid_json"]
    rule = ("random JSON-shaped values (depth <= 4 quick / 7 thorough): objects with lower-case-initial keys (tails with quotes, angle brackets, blanks, non-ASCII), arrays, "
            "strings from an alphabet of quotes, backslash, slash, < > & ', all control characters, DEL, U+2028/9, multi-byte text, markup fragments; integers up to 2^53, "
            "short dyadic fractions, booleans, null; through `!= JSON.stringify(x)`, `!= json(x)` and stringify(parse(stringify(x))). Oracle: Go encoding/json decodes the "
            "REAL output and reflect.DeepEqual with the source value; the re-parse text equals the first text. Non-trivial: value is a container; distinct by case.")

    def compare(self, case, impl, model, spec):
        corr, _, detail = RenderProp.compare(self, case, impl, model, None)
        prop = None
        if isinstance(impl, dict):
            prop = impl.get("class") == "ok" and bool(impl.get("valid")) and bool(impl.get("decodes_equal"))
            if not prop:
                detail += " | valid=%s decodes_equal=%s x=%s" % (impl.get("valid"), impl.get("decodes_equal"), json.dumps(case["x"])[:200])
        return corr, prop, detail

    def nontrivial(self, case, impl):
        return isinstance(case["x"], (dict, list)) and not case.get("_declined")


class C11(RenderProp):
    id = "C11"
    n_quick = 3000
    n_thorough = 45000
    required_theorems = ["C11_member_present", "C11_member_of_nil", "C11_member_of_undefined", "C11_index_out_of_range", "C11_missing_key", "C11_absent_prints_nothing", "C11_absent_propagates",
                         "C11_undefined_propagates", "C11_absent_path_prints_nothing", "C11_present_path", "C11_present_path_prints_leaf", "C11_path_to_nil_prints_nothing", "C11_convert_skeleton"]
    rule = ("random Go data trees (dynamically shaped struct types via reflect.StructOf, a compiled struct type with methods / unexported field / acronym fields, "
            "string-keyed maps, typed maps and slices, pointers incl. nil, interfaces incl. nil, strings, int/int64/uint8/float64/bool; depth <= 3 quick / 5 thorough) x random "
            "paths (lower-camel fields, .key and ['key'], [index], niladic methods), one third deliberately stepping off the data (missing field/key, out-of-range index, nil "
            "pointer, unexported field). Oracle: an independent reflection walk in the harness; absent => nothing printed and no error. Non-trivial: path length >= 2; distinct by case.")

    def compare(self, case, impl, model, spec):
        corr, _, detail = RenderProp.compare(self, case, impl, model, None)
        prop = None
        if isinstance(impl, dict) and "go" in impl:
            g = impl["go"]
            i = out_of(impl)
            if g.get("leaf"):
                prop = i == ("ok", "[" + html_escape5(g["text"]) + "]")
            elif not g.get("found") or not g.get("container"):
                prop = i == ("ok", "[]")      # absent (or nil): prints nothing, raises nothing
            else:
                prop = i[0] == "ok"           # a container: only "no error" is specified; how it prints is not modelled
                corr = True
                case["_declined"] = True
            if not prop:
                detail += " | Go reaches %r" % (g,)
        return corr, prop, detail

    def nontrivial(self, case, impl):
        return case.get("plen", 0) >= 2 and not case.get("_declined")


class C07(Prop):
    id = "C07"
    n_quick = 600
    n_thorough = 8000
    procs_quick = 4
    procs_thorough = 16
    required_theorems = ["C07_sortKeys_perm", "C07_mapKeys_perm", "C07_explicit_order", "C07_render_writes_nothing_shared", "C07_package_state_inventory"]
    rule = ("documents of the C02 / C03 / C05 (spread attributes) / C20 generators plus templates that push to, assign into, sort, splice and pop everything reachable "
            "from the data: each rendered 3x on one engine, on a second engine, and in 4 (quick) / 16 (thorough) fresh processes; render histories (3-10 renders over 2-4 "
            "templates on one engine) compared with standalone renders; the caller's data deep-compared before/after. Non-trivial: every case; distinct by case.")
    assumptions = ["pre-converted pugjs.Object values inside caller data are out of scope"]

    def run_cases(self, cases, tier):
        nproc = self.procs_thorough if tier == "thorough" else self.procs_quick
        runs = [core.run_impl(cases) for _ in range(nproc)]   # every call is a fresh process (new hash-map seeds)
        pure = [c for c in cases if c["kind"] == "pure"]
        model = core.run_model(pure)
        results, hist, seen, samples = [], {}, set(), []
        for c in cases:
            ims = [r.get(c["id"]) for r in runs]
            im = ims[0]
            same = all(json.dumps(x, sort_keys=True) == json.dumps(im, sort_keys=True) for x in ims)
            detail = ""
            prop = same
            corr = True
            mo = None
            if not same:
                detail = "different answers in different processes: %s" % [json.dumps(x)[:160] for x in ims[:3]]
            if c["kind"] == "pure" and isinstance(im, dict):
                mo = model.get(c["id"], (None, None))[0]
                i, m = out_of(im), out_of(mo)
                if m[0] not in ("model-domain", "no-model"):
                    corr = (i == m) if (i[0] == "ok" or m[0] == "ok") else i[0] == m[0]
                    if not corr:
                        detail += " model=%r impl=%r" % (m, i)
                if im.get("class") == "ok":
                    ok = im.get("repeat_equal") and im.get("engine2_equal") and im.get("data_unchanged")
                    if not ok:
                        prop = False
                        detail += " repeat_equal=%s engine2_equal=%s data_unchanged=%s" % (im.get("repeat_equal"), im.get("engine2_equal"), im.get("data_unchanged"))
            elif c["kind"] == "history" and isinstance(im, dict) and im.get("class") == "ok":
                if im.get("outs") != im.get("alone"):
                    prop = False
                    detail += " history output differs from the standalone render"
            results.append({"case": c, "impl": im, "model": mo, "spec": None, "corr_ok": corr, "prop_ok": prop, "detail": detail or "ok"})
            b = c.get("bucket", c["kind"])
            hist[b] = hist.get(b, 0) + 1
            d = core.digest({k: v for k, v in c.items() if k not in ("id", "_known")})
            if d not in seen:
                seen.add(d)
                if len(samples) < 2:
                    samples.append({"case": {k: v for k, v in c.items() if not k.startswith("_")}, "impl": im})
        hist["processes"] = nproc
        return {"results": results, "histogram": hist, "distinct_nontrivial": len(seen), "samples": samples}



# ------------------------------------------------------------------------------------------------ C08
def _asset_expected(doc, manifest):
    """what the module's asset() must print for the asset jobs of the C08 generator (tag with src=asset(lit), then != asset('app.js'))"""
    def one(a):
        name = a.split("/")[-1]
        r = manifest.get(name) or manifest.get(a.strip()) or a
        return "/static/" + r.lstrip("/")
    try:
        lit = doc[0]["attrs"][0]["val"]["args"][0]["v"]
        return '<script src="%s"></script>%s' % (one(lit), one("app.js"))
    except Exception:
        return None


class C08(Prop):
    id = "C08"
    n_quick = 60
    n_thorough = 600
    thorough_seeds = 3
    batch = 100
    needs_race = True
    required_theorems = ["C08_noninterference", "C08_render_alone", "C08_schedule_independent", "C08_render_path_writes_nothing_shared",
                         "C08_reach_covers_executor", "C08_lock_shape", "C08_funcs_read_engine_locked", "C08_write_set_by_function",
                         "C08_funcs_pkg_writes_only_known", "C08_package_state_inventory", "C08_funcs_keep_no_state_on_receiver"]
    rule = ("engines with 2-6 templates (programs of the C02 loops/conditionals, C03 mixins-with-blocks, C05 attributes, C20 heap-mutation generators, templates that mutate "
            "everything reachable from their data, templates that fail at run time, templates calling the module's asset() with a manifest.json), production and debug mode; "
            "N in {2,4,16,64} goroutines x 3 renders x 2 (thorough: 6) rounds released together, every call with its own deep copy of the data; every result compared with the "
            "sequential baseline on the same engine and with the Lean executor model; the whole run repeated in a -race build of the harness (GORACE halt_on_error). "
            "Non-trivial: every case; distinct by case.")
    assumptions = ["the schedules explored on the real engine are the ones the Go scheduler produces (sampled, not enumerated); the theorems quantify over all schedules of the model",
                   "the Go memory model below statement level is not modelled: absence of data races is validated by the race detector on the executed paths and by the extracted "
                   "write-set / lock-shape facts, not proved"]
    trusted_base = COMMON_TRUST + [
        "write-set scan of package pugjs (syntactic: assignments, ++/--, delete, atomic stores, &x arguments, method calls on package variables; roots: *Engine/*Template/*common "
        "receivers and parameters, package variables, selector chains through their fields) and by-name call reachability - an over-approximation of aliasing it cannot see "
        "through local pointer copies",
        "Go race detector (validation of the unmodelled memory level)",
        "thread safety of injected collaborators (flamingo Logger, opencensus stats, web.Router)",
    ]

    def run_cases(self, cases, tier):
        impl = core.run_impl(cases)
        race = core.run_impl(cases, pvh=core.PVH + "-race", env={"GORACE": "halt_on_error=1 exitcode=66"})
        model = core.run_model(cases)
        results, hist, seen, samples = [], {}, set(), []
        for c in cases:
            im, rc = impl.get(c["id"]), race.get(c["id"])
            mo = model.get(c["id"], (None, None))[0]
            corr, prop, detail = True, True, []
            if (isinstance(im, dict) and im.get("class") == "not-run") or (isinstance(rc, dict) and rc.get("class") == "not-run"):
                corr, prop = True, None
                detail.append("not run (death budget exhausted)")
            elif not isinstance(im, dict) or im.get("class") != "ok" or not isinstance(rc, dict):
                corr, prop = False, False
                detail.append("harness failure: %r / %r" % (im, rc))
            else:
                if rc.get("class") == "process-died":
                    prop = False
                    detail.append("race-detector build died: " + str(rc.get("msg"))[:1500])
                elif rc.get("class") != "ok":
                    corr, prop = False, False
                    detail.append("race build harness failure: %r" % (rc,))
                for which, x in (("plain", im), ("race build", rc)):
                    if x.get("class") == "ok" and not x.get("concurrent_equal"):
                        prop = False
                        detail.append("%s: a concurrent render differs from the same render alone: %s" % (which, json.dumps(x.get("first_diff"))[:600]))
                if rc.get("class") == "ok" and rc.get("sequential") != im.get("sequential"):
                    prop = False
                    detail.append("sequential baselines of the two builds differ")
                al = (mo or {}).get("alone") or []
                if not (mo or {}).get("scheduler_model_agrees") or len(al) != len(im.get("sequential", [])):
                    corr = False
                    detail.append("model: %r" % (mo,))
                man = json.loads(c.get("manifest") or "{}")
                for j, (a, sq) in enumerate(zip(al, im.get("sequential", []))):
                    a2, s2 = out_of(a), out_of(sq)
                    if a2[0] == "model-domain":
                        exp = _asset_expected(c["jobs"][j]["doc"], man)
                        if exp is not None and s2 != ("ok", exp):
                            prop = False
                            detail.append("job %d: asset() output %r, expected %r" % (j, s2, exp))
                        continue
                    same = (a2 == s2) if (a2[0] == "ok" or s2[0] == "ok") else a2[0] == s2[0]
                    if not same:
                        corr = False
                        detail.append("job %d: model %r impl %r" % (j, a2, s2))
            results.append({"case": c, "impl": {"plain": im, "race": rc}, "model": mo, "spec": None, "corr_ok": corr, "prop_ok": prop,
                            "detail": "; ".join(detail) or "ok"})
            b = c.get("bucket", "?")
            hist[b] = hist.get(b, 0) + 1
            if isinstance(im, dict):
                hist["renders"] = hist.get("renders", 0) + 2 * int(im.get("renders") or 0)
                for sq in im.get("sequential", []):
                    k = "job:" + str(sq.get("class"))
                    hist[k] = hist.get(k, 0) + 1
            d = core.digest({k: v for k, v in c.items() if k not in ("id", "_known")})
            if d not in seen:
                seen.add(d)
                if len(samples) < 2:
                    samples.append({"case": {k: v for k, v in c.items() if not k.startswith("_")}, "impl": im})
        return {"results": results, "histogram": hist, "distinct_nontrivial": len(seen), "samples": samples}

    def bucket(self, case, impl):
        return case.get("bucket")

    def known_C08_debug_allowdeep(self, case, impl):
        """the recorded finding: jobs that call the module's debug() function, race report on pugjs.AllowDeep / debug_func.go (or an
        output difference of such a job). Any other race, or a race in a case without debug(), is not explained by it."""
        if not any("debug" in json.dumps(j.get("doc")) for j in case.get("jobs", [])):
            return False
        rc = (impl or {}).get("race") or {}
        msg = str(rc.get("msg", ""))
        if rc.get("class") == "process-died":
            return "debug_func.go" in msg.split("Previous")[0] or "debug_func.go" in msg
        return True


class VerdictProp(Prop):
    """Scripted histories: the harness drives the real code and records observations; the Lean driver decides whether the
    observations are among those the model allows (membership: scheduling / wake-up order is Go's choice)."""

    def compare(self, case, impl, model, spec):
        if not isinstance(impl, dict) or impl.get("class") != "ok":
            return False, False, "harness could not run the history: %r" % (impl,)
        v = (model or {}).get("verdict")
        ok = v == "ok"
        return ok, ok, ("%s: %s" % (case.get("bucket"), v)) + ("" if ok else " | script=%s obs=%s" % (json.dumps(case.get("script"))[:400], json.dumps(impl)[:600]))

    def nontrivial(self, case, impl):
        return case.get("nops", 0) >= 4


class C09(VerdictProp):
    id = "C09"
    n_quick = 150
    n_thorough = 2500
    batch = 400
    required_theorems = ["C09_shape", "C09_bound", "C09_no_leak", "C09_cancel", "C09_disabled", "C09_quiescent", "C09_grant_enabled", "C09_render_skeleton", "C09_release_installed_at_once"]
    rule = ("random scripted histories (3-14 operations quick / 3-60 thorough) for limits N in {-1, 0..4}: starts of renders that block inside a harness-supplied template "
            "function and later exit by success / template-function error / panic, renders of a missing template, renders with an already-cancelled context, releases, "
            "cancellations of waiting or admitted renders, probes; one observation of the set of renders inside after every operation (at quiescence), every outcome, and "
            "after the history N fresh renders started together; the limit is set directly, through the injected configuration over the pre-set 8, or after an earlier option; the "
            "template names (gated and missing) are ASCII, non-ASCII, with blanks, or longer than 255 bytes. The Lean driver checks membership of the observations in the gate model. Non-trivial: >= 4 operations.")
    assumptions = ["Go channel, select and defer semantics are assumed (modelled as atomic steps); quiescence is reached by bounded polling"]


class C16(VerdictProp):
    id = "C16"
    n_quick = 300
    n_thorough = 6000
    batch = 1000
    required_theorems = ["C16_shape", "C16_safe", "C16_monotone", "C16_live", "C16_first_error_once"]
    rule = ("random histories on the real pugjs.Startup + controllers.Ready (via httptest): k in 0..6 (thorough 0..12) processes registered, a random permutation as "
            "completion order, each completion failing with probability 1/3, a quarter of the histories leaving some processes running, Finish at a random position (or "
            "never), a probe after EVERY operation (immediate status and, when every process has returned and Finish was called, the status after bounded polling), three "
            "probes at the end, and the listener the module attaches. The Lean driver checks membership in the model. Non-trivial: >= 4 operations.")
    assumptions = ["errgroup (first error wins, Wait returns after every function returned) and channel semantics are assumed; failures are spaced by 2 ms so that errgroup sees "
                   "them in the scripted order"]


class C10(Prop):
    id = "C10"
    n_quick = 600
    n_thorough = 12000
    batch = 1500
    required_theorems = ["C10_names", "C10_prod_frozen", "C10_failed_load_recovers", "C10_prod_all_succeed", "C10_debug_no_hiding", "C10_naming", "C10_load_skeleton", "C10_state_per_template"]
    rule = ("random directory trees below template/page (nested names, a prefix-related family a, a/b, a/b/c, ab, partial folders, decoy files with other suffixes and outside "
            "the page directory) in both modes; half of the cases are sequential histories (explicit complete and FILTERED loads, renders of existing and missing names, file edits incl. files replaced with a kept or older "
            "modification time, broken files, repairs, removals, manifest edits; one in four is a directed history around a broken file met first by a complete / filtered / "
            "render-triggered load), half are 2-3 (thorough: 2-4) concurrent first renders (plus an explicit load in production mode) on a cold engine, interleaved at the verif yield "
            "points under a random schedule. Non-trivial: >= 3 operations / threads; distinct by case.")
    assumptions = ["OS file-system semantics are assumed; the scheduler treats a thread that does not reach a yield point within 3 ms as blocked on the engine's lock "
                   "(this only affects which interleavings are explored, never the verdict)"]

    def compare(self, case, impl, model, spec):
        if not isinstance(impl, dict) or impl.get("class") != "ok":
            return False, False, "harness failure: %r" % (impl,)
        if case["kind"] == "loadseq":
            ok = impl.get("results") == (model or {}).get("results")
            return ok, ok, "%s: impl=%s model=%s ops=%s" % (case["bucket"], impl.get("results"), (model or {}).get("results"), json.dumps(case["ops"])[:500])
        res = impl.get("results", [])
        allowed = (model or {}).get("allowed", [])
        ok = (not impl.get("deadlock")) and len(res) == len(allowed) and all(r in a for r, a in zip(res, allowed))
        return ok, ok, "%s: results=%s allowed=%s threads=%s trace=%s" % (case["bucket"], res, allowed, json.dumps(case["threads"]), impl.get("trace"))

    def nontrivial(self, case, impl):
        return case.get("nops", 0) >= 3

    def bucket(self, case, impl):
        return case.get("bucket")


class C19(Prop):
    id = "C19"
    n_quick = 3000
    n_thorough = 60000
    required_theorems = ["C19_clean_rooted", "C19_contained", "C19_serve_inside", "C19_no_dir", "C19_cors", "C19_shape", "C19_open_refuses_directories",
                         "C19_open_serves_only_regular"]
    rule = ("requests to the handler that Module.Configure registers on Module.DefaultMux (httptest, scratch working directory with frontend/dist, directories, and canary "
            "files outside dist incl. prefix siblings dist.txt / distx/): paths from dot segments, encoded dots/separators/NUL, backslashes, doubled prefixes, /assets/ fragments, "
            "directories with and without slash, index.html, missing files, through the mux and directly at the handler (bypassing the mux's own cleaning); Origin values "
            "(members, non-members, a!b, empty, *, trailing slash, substrings, !) x whitelists (two entries, empty, *, with trailing slash, with *, empty string); plus "
            "path.Clean vs the Lean model on random segment strings. Non-trivial: every case; distinct by case.")
    assumptions = ["net/http (ServeMux cleaning, FileServer redirects, http.Dir), symlinks and OS path resolution are outside the model; the Lean model of path.Clean is tied to "
                   "the standard library by correspondence on random strings"]

    def compare(self, case, impl, model, spec):
        if not isinstance(impl, dict) or impl.get("class") != "ok":
            return False, False, "harness failure: %r" % (impl,)
        if case["kind"] == "clean":
            ok = impl.get("out") == (model or {}).get("out")
            return ok, None, "path.Clean(/%s): go=%r lean=%r" % (case["s"], impl.get("out"), (model or {}).get("out"))
        if impl.get("unparsable"):
            return True, True, "unparsable request URI"
        m = model or {}
        detail = "%s direct=%s origin=%r wl=%s -> status=%s served=%r acao=%r | model %s acao=%r" % (
            case["path"], case.get("direct"), case.get("origin"), case.get("whitelist"), impl.get("status"), impl.get("served"), impl.get("acao"),
            json.dumps(m.get("served")), m.get("acao"))
        # correspondence: CORS header always; the served file for requests that reach the handler directly
        # the mux may answer by itself (redirect to the cleaned path) without calling the handler: then no header is expected
        corr = impl.get("acao") == m.get("acao") if case.get("direct") else (impl.get("acao") is None or impl.get("acao") == m.get("acao"))
        sv = m.get("served", {})
        if case.get("direct"):
            if sv.get("kind") == "file":
                corr = corr and impl.get("status") == 200 and impl.get("served") == sv.get("rel")
            else:
                corr = corr and impl.get("status") != 200
        elif impl.get("status") == 200:
            corr = corr and sv.get("kind") == "file" and impl.get("served") == sv.get("rel")
        # property oracle on the real response
        prop = True
        if impl.get("leaks"):
            prop = False
            detail += " | body contains outside file content %s" % impl["leaks"]
        if impl.get("listing"):
            prop = False
            detail += " | directory listing"
        if impl.get("status") == 200 and not impl.get("served"):
            prop = False
            detail += " | 200 whose body is not the content of a regular file inside dist"
        want = (spec or {}).get("acao")
        if impl.get("acao") is not None and impl.get("acao") != want:
            prop = False
            detail += " | Access-Control-Allow-Origin=%r, whitelist membership gives %r" % (impl.get("acao"), want)
        return corr, prop, detail

    def bucket(self, case, impl):
        if case["kind"] == "clean":
            return "clean"
        return "asset/%s/%s" % ("direct" if case.get("direct") else "mux", (impl or {}).get("status"))


RAW_TEXT = {"script", "style", "textarea", "title", "xmp", "iframe", "noembed", "noframes", "noscript", "plaintext"}


class C14(Prop):
    id = "C14"
    n_quick = 3000
    n_thorough = 60000
    required_theorems = ["C14_tokens", "C14_empty_allow", "C14_attr_value_safe", "C14_extract", "C14_strip_skeleton"]
    rule = ("byte strings from a grammar-based HTML mutator (35 element names incl. raw-text, foreign-content and mixed-case ones, 13 attribute names incl. event handlers and a "
            "name with a quote, quoted/unquoted/empty values, entity-encoded and double-encoded markup, NUL, invalid UTF-8, comments, doctype, CDATA, processing instructions, "
            "stray and missing end tags, nesting <= 4 quick / 7 thorough) x allow-lists (empty, absent, 1-5 definitions of ordinary elements with attribute lists, mixed case, "
            "malformed definitions). Oracle: golang.org/x/net/html Tokenizer over the REAL output. Non-trivial: input contains a tag; distinct by case.")
    assumptions = ["the HTML5 parser (html.ParseFragment) is trusted: the model runs on the DOM the real parser returned; the real tokenizer's agreement with the token grammar "
                   "of the theorem is trusted"]

    def compare(self, case, impl, model, spec):
        if not isinstance(impl, dict) or impl.get("class") != "ok":
            return False, False, "harness failure: %r" % (impl,)
        m = out_of(model)
        corr = m == ("ok", impl.get("out"))
        allow = {}
        for d in (case.get("allow") or []):
            d = d.lower()
            if "(" in d:
                name, rest = d.split("(", 1)[0], d.split("(")[1]
                allow[name] = set(rest.rstrip(")").split(" "))
            else:
                allow[d] = set()
        prop = True
        why = ""
        o = impl["oracle"]
        if o["comments"] or o["doctypes"]:
            prop, why = False, "comment or declaration token in the output"
        for kind, name, keys in o["tags"]:
            if name not in allow or name == "":
                prop, why = False, "tag <%s> is not allow-listed" % name
            elif any(k not in allow[name] for k in keys):
                prop, why = False, "attribute %s of <%s> is not allow-listed" % (keys, name)
        if not allow and "<" in impl.get("out", ""):
            prop, why = False, "'<' in the output with an empty allow-list"
        if allow and any(t in RAW_TEXT for t in allow):
            prop = None if prop else prop   # raw-text elements in the allow-list are outside the property
        detail = "stripTags(%r, %s) = %r model=%r %s" % (case["input"][:200], case.get("allow"), impl.get("out", "")[:200], (m[1] or "")[:200], why)
        return corr, prop, detail

    def nontrivial(self, case, impl):
        return "<" in case["input"]


def norm_tree(t):
    """Expr tree modulo number spelling (2.50 = 2.5) and key order"""
    if isinstance(t, dict):
        d = {k: norm_tree(v) for k, v in t.items()}
        if d.get("t") == "num":
            try:
                d["v"] = repr(float(d["v"]))
            except Exception:
                pass
        if d.get("t") == "bin" and d.get("op") in ("==", "===", "!=", "!=="):
            pass
        return d
    if isinstance(t, list):
        return [norm_tree(x) for x in t]
    return t


class C15(Prop):
    id = "C15"
    n_quick = 4000
    n_thorough = 50000
    batch = 2000
    par = 8
    required_theorems = ["C15_extract", "C15_parseFunction_total", "C15_parseFunction_tree_iff"]
    rule = ("inputs to parser.ParseFile (with and without StoreComments) and parser.ParseFunction, each run twice under recover and a per-input time bound (10 s + 0.2 ms/byte): "
            "25% well-formed expressions of the supported subset from the type-directed C01 generator (must be accepted, and the otto AST must equal the generator's tree: "
            "precedence and associativity), 33% mutations of a 39-snippet corpus covering every statement kind (byte insert/delete/replace/flip, truncation, chunk duplication, "
            "splicing, case change, wrapping), 8% random bytes incl. invalid UTF-8 (base64-transported), 8% deep nesting (10-2000 quick / 20000 thorough; labelled blocks <= 310), "
            "8% function bodies that try to leave ParseFunction's wrapper, 8% regular-expression literals assembled from 46 group / class / escape / quantifier openers and cut at any "
            "point (four contexts), 8% sources whose last line is an inline source map (22 map shapes incl. sections without a map, bad VLQ, bad versions; mutated, truncated base64). Non-trivial: source longer than 3 bytes; distinct by source.")
    assumptions = ["the lexer and the statement/expression parser are NOT modelled: their panic-freedom and termination are exercised by this differential fuzzing only; stack "
                   "exhaustion at extreme nesting and wall-clock behaviour are runtime properties no model exhibits (nested labelled blocks parse in superlinear time)"]

    def compare(self, case, impl, model, spec):
        if not isinstance(impl, dict) or impl.get("class") != "ok":
            return False, False, "harness failure / process death: %r" % (impl,)
        m = model or {}
        why = []
        corr = True
        for k in ("file", "file2", "filec"):
            if impl[k]["class"] not in ("tree", "error"):
                why.append("ParseFile(%s): %s %s" % (k, impl[k]["class"], impl[k].get("msg", "")))
            corr = corr and impl[k]["class"] in m.get("file", [])
        for k in ("func", "func2"):
            if impl[k]["class"] not in ("tree", "error"):
                why.append("ParseFunction: %s %s" % (impl[k]["class"], impl[k].get("msg", "")))
            corr = corr and impl[k]["class"] in m.get("func", [])
        if impl["file"] != impl["file2"] or impl["func"] != impl["func2"]:
            why.append("two different answers for one input")
        if case.get("expect") is not None:
            if impl["file"]["class"] != "tree":
                why.append("an expression of the supported subset is rejected: %s" % impl["file"].get("err"))
            elif norm_tree(impl.get("ast")) != norm_tree(case["expect"]):
                why.append("AST differs from the JavaScript tree: %s" % json.dumps(impl.get("ast"))[:300])
        ok = not why
        if ok:
            impl.pop("ast", None)   # 120000 retained trees are gigabytes; a failing case keeps its tree for the replay
        return (corr and (ok or any("ParseFunction: panic" in w for w in why))), ok, "%s %r: %s" % (case["bucket"], case["src"][:120], "; ".join(why) or "ok")

    def nontrivial(self, case, impl):
        return len(case["src"]) > 3

    def bucket(self, case, impl):
        return case.get("bucket")


WS = " \t\r\n"


def strip_ws(s):
    return "".join(ch for ch in s if ch not in WS)


def ws_deletion_only(prod, debug):
    """is `debug` obtained from `prod` by deleting white-space characters only?"""
    i = 0
    for ch in debug:
        while i < len(prod) and prod[i] != ch:
            if prod[i] not in WS:
                return False
            i += 1
        if i >= len(prod):
            return False
        i += 1
    return all(c in WS for c in prod[i:])


class C13(Prop):
    id = "C13"
    n_quick = 2000
    n_thorough = 30000
    required_theorems = ["C13_sep_shape", "C13_sep_left", "C13_sep_right", "C13_sep_effect", "C13_trim_left_ws_only", "C13_trim_right_ws_only", "C13_static_debug_render", "C13_static_modes_agree", "C13_static_debug_only_deletes", "C13_compiler_state_per_template", "C13_package_state_inventory"]
    rule = ("every generated C02 / C06 / C03 program (with its neighbour templates) rendered by the real engine with Engine.Debug false and true; one in eight also prints an "
            "undefined variable unescaped, one in ten calls the module's asset() next to an asset manifest. Oracle on the two real outputs: "
            "equal after removing all white space, and the debug output is obtained from the production output by deleting white-space characters only. "
            "Non-trivial: document contains a block-level tag; distinct by whole document + data.")
    assumptions = ["debug-mode compilation is part of the hand-written transpiler model; its agreement with transform_tag.go is validated by the correspondence"]

    def compare(self, case, impl, model, spec):
        ip, idb = out_of((impl or {}).get("prod")), out_of((impl or {}).get("debug"))
        mp, mdb = out_of((model or {}).get("prod")), out_of((model or {}).get("debug"))
        declined = mp[0] in ("model-domain", "no-model") or mdb[0] in ("model-domain", "no-model")
        if case.get("manifest"):
            declined = True   # the module's asset() function and the manifest are not in the executor model: real outputs only
        case["_declined"] = declined
        def same(i, m):
            return i == m if (i[0] == "ok" or m[0] == "ok") else i[0] == m[0]
        corr = True if declined else (same(ip, mp) and same(idb, mdb))
        prop = None
        if ip[0] == "ok":
            if idb[0] != "ok":
                # debug mode has extra compile-time checks (mixin called but not found): only a class difference on success counts
                prop = False
            else:
                prop = strip_ws(ip[1]) == strip_ws(idb[1]) and ws_deletion_only(ip[1], idb[1])
        detail = "prod impl=%r model=%r | debug impl=%r model=%r" % (ip, mp, idb, mdb)
        return corr, prop, detail

    def nontrivial(self, case, impl):
        return '"inline": false' in json.dumps(case.get("doc")) and not case.get("_declined")

    def bucket(self, case, impl):
        if case.get("_declined"):
            return "model-declined"
        return "%s/%s" % (case.get("from"), out_of((impl or {}).get("prod"))[0])


PROPS = {p.id: p for p in [C01(), C02(), C03(), C04(), C05(), C06(), C07(), C08(), C09(), C10(), C11(), C12(), C13(), C14(), C15(), C16(), C17(), C18(), C19(), C20()]}
