"""Shared machinery of /verif/bin/check: build, audit, correspondence run, evidence, violation protocol.

Protocol (DESIGN.md §2): 1 extract + build  2 kernel-check the property's theorems + axiom audit
3 correspondence (corpus first, then generated cases)  4 clean -> exit 0
5 otherwise search for a failing input of the property itself on the implementation -> replay.
"""
import fcntl, hashlib, json, os, subprocess, sys, time, glob, re

VERIF = os.path.dirname(os.path.dirname(os.path.abspath(__file__)))
REPO = os.environ.get("VERIF_REPO", "/repo")
WORK = os.path.join(VERIF, ".work")
LEAN = os.path.join(VERIF, "lean")
BIN = os.path.join(WORK, "bin")
PVH = os.path.join(BIN, "pvh")
EXTRACT = os.path.join(BIN, "extract")
PVD = os.path.join(LEAN, ".lake", "build", "bin", "pvd")
ALLOWED_AXIOMS = {"propext", "Classical.choice", "Quot.sound"}

GOENV = dict(os.environ, GOFLAGS="-mod=mod", GOPROXY="off", GOSUMDB="off", GOTOOLCHAIN="local",
             CGO_ENABLED=os.environ.get("CGO_ENABLED", "0"))


def log(*a):
    print("[check]", *a, file=sys.stderr, flush=True)


def sh(cmd, cwd=None, env=None, timeout=None, inp=None):
    p = subprocess.run(cmd, cwd=cwd, env=env, input=inp, stdout=subprocess.PIPE, stderr=subprocess.PIPE,
                       timeout=timeout, text=True)
    return p.returncode, p.stdout, p.stderr


class Lock:
    def __init__(self, name):
        os.makedirs(WORK, exist_ok=True)
        self.path = os.path.join(WORK, name)

    def __enter__(self):
        self.f = open(self.path, "w")
        fcntl.flock(self.f, fcntl.LOCK_EX)
        return self

    def __exit__(self, *a):
        fcntl.flock(self.f, fcntl.LOCK_UN)
        self.f.close()


def build_harness(race=False):
    """(re)build extractor and harness against /repo's current working tree, hooks on (tag verif)."""
    os.makedirs(BIN, exist_ok=True)
    hdir = os.path.join(VERIF, "harness")
    # go.sum of the module under test is authoritative for the offline module cache
    with open(os.path.join(REPO, "go.sum")) as f:
        want = f.read()
    gs = os.path.join(hdir, "go.sum")
    if not os.path.exists(gs) or open(gs).read() != want:
        open(gs, "w").write(want)
    rc, o, e = sh(["go", "build", "-o", EXTRACT, "./cmd/extract"], cwd=hdir, env=GOENV)
    if rc != 0:
        return False, "extractor build failed:\n" + e
    env = dict(GOENV)
    modfile = []
    if REPO != "/repo":
        # VERIF_REPO=<other tree> (used to try seeded changes in a scratch worktree while /repo is busy): same go.mod with
        # the replace directive pointing at that tree
        alt = os.path.join(WORK, "alt.mod")
        open(alt, "w").write(open(os.path.join(hdir, "go.mod")).read().replace("=> /repo", "=> " + REPO))
        open(os.path.join(WORK, "alt.sum"), "w").write(want)
        modfile = ["-modfile=" + alt]
    cmd = ["go", "build"] + modfile + ["-tags", "verif", "-o", PVH, "./cmd/pvh"]
    rc, o, e = sh(cmd, cwd=hdir, env=env)
    if rc != 0:
        return False, "harness build against /repo failed (does /repo still compile?):\n" + e
    if race:
        env["CGO_ENABLED"] = "1"
        rc, o, e = sh(["go", "build"] + modfile + ["-race", "-tags", "verif", "-o", PVH + "-race", "./cmd/pvh"], cwd=hdir, env=env)
        if rc != 0:
            return False, "race harness build failed:\n" + e
    return True, ""


def run_extract():
    tables = os.path.join(LEAN, "PugModel", "Gen", "Tables.lean")
    tmp = tables + ".new"
    rc, o, e = sh([EXTRACT, tmp, REPO])
    if rc != 0:
        return False, "extractor failed: " + e
    new = open(tmp).read()
    old = open(tables).read() if os.path.exists(tables) else None
    if new != old:
        os.replace(tmp, tables)
    else:
        os.remove(tmp)
    return True, (o + e).strip()


def lake_build(targets):
    rc, o, e = sh(["lake", "build"] + targets, cwd=LEAN, timeout=3600)
    return rc == 0, o + e


AUDIT_TMPL = '''import Lean
import {mod}
open Lean Elab Command in
run_cmd do
  let env ← getEnv
  let some idx := env.getModuleIdx? `{mod} | throwError "module not found"
  let names := env.header.moduleData[idx.toNat]!.constNames
  let mut out : Array Json := #[]
  for n in names do
    if n.isInternal then continue
    match env.find? n with
    | some (.thmInfo ti) =>
      let axs ← Lean.collectAxioms n
      let ax := axs.toList.map (fun a => Json.str a.toString)
      let ty ← liftTermElabM do
        let f ← Meta.ppExpr ti.type
        pure (toString f)
      out := out.push (Json.mkObj [("name", n.toString), ("axioms", Json.arr ax.toArray), ("statement", ty)])
    | _ => pure ()
  IO.println ("AUDIT " ++ (Json.arr out).compress)
'''


def audit(mod):
    """#print-axioms-style audit of every theorem of the property module; returns list of dicts."""
    os.makedirs(os.path.join(WORK, "audit"), exist_ok=True)
    path = os.path.join(WORK, "audit", mod.replace(".", "_") + ".lean")
    open(path, "w").write(AUDIT_TMPL.format(mod=mod))
    rc, o, e = sh(["lake", "env", "lean", path], cwd=LEAN, timeout=1800)
    for line in o.split("\n"):
        if line.startswith("AUDIT "):
            return True, json.loads(line[6:]), o + e
    return False, [], o + e


FORBIDDEN = re.compile(r"\b(sorry|admit|native_decide|bv_decide|implemented_by|unsafe|maxHeartbeats 0)\b|^\s*axiom\s", re.M)


def strip_comments(src):
    # remove /- ... -/ (nested not needed here) and -- line comments
    src = re.sub(r"/-.*?-/", "", src, flags=re.S)
    src = re.sub(r"--.*", "", src)
    return src


def grep_forbidden():
    hits = []
    for root in ("PugModel", "PugProofs"):
        for p in glob.glob(os.path.join(LEAN, root, "**", "*.lean"), recursive=True):
            src = strip_comments(open(p).read())
            for m in FORBIDDEN.finditer(src):
                hits.append((os.path.relpath(p, LEAN), m.group(0).strip()))
    for p in [os.path.join(LEAN, "Main.lean")]:
        src = strip_comments(open(p).read())
        for m in FORBIDDEN.finditer(src):
            if m.group(0).strip() != "partial":
                hits.append(("Main.lean", m.group(0).strip()))
    return hits


def digest(obj):
    return hashlib.sha256(json.dumps(obj, sort_keys=True).encode()).hexdigest()[:16]


def gen_cases(prop, seed, n, tier):
    rc, o, e = sh([PVH, "gen", "-prop", prop, "-seed", str(seed), "-n", str(n), "-tier", tier], timeout=3600)
    if rc != 0:
        raise RuntimeError("pvh gen failed: " + e)
    return [json.loads(l) for l in o.split("\n") if l.strip()]


_confirmed_hangs = [0]


def run_impl(cases, timeout=3600, pvh=None, env=None, _budget=None):
    """run the REAL implementation on the cases; returns {id: impl}.
    A process that dies (fatal error, OOM, per-case time-out, os.Exit inside the code under test) is re-run on the rest of the
    cases, the offending case alone. After `death_budget` deaths in one call the remaining cases are not run (class "not-run"):
    the deaths already decide the check, and a tree on which most inputs crash must not take hours to report."""
    if not cases:
        return {}
    if _budget is None:
        _budget = {"left": int(os.environ.get("VERIF_DEATH_BUDGET", "12"))}
    inp = "\n".join(json.dumps(c) for c in cases) + "\n"
    e2 = dict(os.environ)
    e2.setdefault("GOMEMLIMIT", "6GiB")
    e2.setdefault("PVH_CASE_TIMEOUT_S", "45")
    if env:
        e2.update(env)
    try:
        p = subprocess.run([pvh or PVH, "run"], input=inp, stdout=subprocess.PIPE, stderr=subprocess.PIPE, text=True,
                           timeout=timeout, env=e2)
        out, err, rc = p.stdout, p.stderr, p.returncode
    except subprocess.TimeoutExpired as ex:
        out = ex.stdout.decode() if isinstance(ex.stdout, bytes) else (ex.stdout or "")
        err, rc = "harness run timed out after %ss" % timeout, -9
    res = {}
    for l in out.split("\n"):
        if l.strip():
            try:
                j = json.loads(l)
                res[j["id"]] = j["impl"]
            except Exception:
                pass
    # a per-case time-out may be the machine's doing (a frozen or starved process), not the code's: every case that timed out is run
    # again alone, in a fresh process, with twice the time; only a case that times out again counts as a hang
    # (after two cases that timed out twice the tree is known to hang: no further retries, the run must not take an hour)
    if not (env or {}).get("_PVH_RETRY"):
        for c in cases:
            r = res.get(c["id"])
            if isinstance(r, dict) and r.get("class") == "timeout" and _confirmed_hangs[0] < 2:
                e3 = dict(env or {})
                e3["_PVH_RETRY"] = "1"
                e3["PVH_CASE_TIMEOUT_S"] = str(2 * int(e2.get("PVH_CASE_TIMEOUT_S", "45")))
                again = run_impl([c], timeout, pvh, e3, {"left": 0})
                if c["id"] in again:
                    res[c["id"]] = again[c["id"]]
                    a = again[c["id"]]
                    if isinstance(a, dict) and a.get("class") in ("timeout", "process-died"):
                        _confirmed_hangs[0] += 1
    if rc != 0 or len(res) < len(cases):
        done = set(res)
        rest = [c for c in cases if c["id"] not in done]
        if len(rest) == len(cases) and len(cases) == 1:
            k = err.find("WARNING: DATA RACE")
            res[cases[0]["id"]] = {"class": "process-died", "msg": err[k:k + 1800] if k >= 0 else err[-400:]}
            return res
        if rest:
            _budget["left"] -= 1
            if _budget["left"] < 0:
                for c in rest:
                    res[c["id"]] = {"class": "not-run", "msg": "death budget of this run exhausted"}
                return res
            first, others = rest[0], rest[1:]
            res.update(run_impl([first], timeout, pvh, env, _budget))
            res.update(run_impl(others, timeout, pvh, env, _budget))
    return res


def run_model(cases, impl=None, timeout=3600):
    """run the Lean model driver on the same case lines (with the measured impl merged in where the
    model is relative to it); returns {id: (model, spec)}"""
    if not cases:
        return {}
    lines = []
    for c in cases:
        c2 = dict(c)
        if impl is not None and c.get("model_needs_impl"):
            c2["impl"] = impl.get(c["id"])
        lines.append(json.dumps(c2))
    p = subprocess.run([PVD], input="\n".join(lines) + "\n", stdout=subprocess.PIPE, stderr=subprocess.PIPE, text=True,
                       timeout=timeout)
    res = {}
    for l in p.stdout.split("\n"):
        if l.strip():
            j = json.loads(l)
            res[j.get("id")] = (j.get("model"), j.get("spec"))
    if p.returncode != 0:
        log("model driver exited with", p.returncode, p.stderr[-500:])
    return res


def load_corpus(prop):
    cases = []
    for p in sorted(glob.glob(os.path.join(VERIF, "corpus", prop, "*.jsonl"))):
        for l in open(p):
            if l.strip():
                cases.append(json.loads(l))
    return cases


def load_known():
    p = os.path.join(VERIF, "known_findings.json")
    if not os.path.exists(p):
        return []
    return json.load(open(p))["entries"]


def write_replay(prop, payload):
    os.makedirs(os.path.join(VERIF, "replays"), exist_ok=True)
    d = digest(payload)
    path = os.path.join(VERIF, "replays", "%s-%s.json" % (prop, d))
    json.dump(payload, open(path, "w"), indent=1, sort_keys=True)
    return path


def write_evidence(prop, ev):
    # runs against a tree other than /repo (seeded changes in a scratch worktree) must not overwrite the evidence of /repo
    evdir = os.path.join(VERIF, "evidence") if REPO == "/repo" else os.path.join(WORK, "evidence-other-tree")
    os.makedirs(evdir, exist_ok=True)
    path = os.path.join(evdir, prop + ".json")
    tmp = path + ".tmp%d" % os.getpid()
    json.dump(ev, open(tmp, "w"), indent=1, sort_keys=True)
    os.replace(tmp, path)
    return path
